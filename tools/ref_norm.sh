#!/bin/bash
# debug helper: applies a patch to a scratch worktree, runs the given properties with the normalised
# tree dumped to <outdir>; usage: tools/ref_norm.sh <patch> <props> <outdir>
set -u
PATCH=$(readlink -f "$1"); PROPS=$2; OUT=$3
HERE=$(cd "$(dirname "$0")/.." && pwd)
export GOFLAGS=-mod=mod GOPROXY=off GOSUMDB=off GOTOOLCHAIN=local GOWORK=off
W=$(mktemp -d /tmp/refnorm.XXXXXX)
cleanup() { git -C /repo worktree remove --force "$W/wt" >/dev/null 2>&1; rm -rf "$W"; }
trap cleanup EXIT
git -C /repo worktree add -f --detach "$W/wt" HEAD >/dev/null 2>&1
git -C "$W/wt" apply "$PATCH" || exit 3
mkdir -p "$W/verif" "$OUT"; cp "$HERE/known_findings.json" "$W/verif/"
UCFG_DUMPNORM="$OUT" "$HERE/bin/ucfgcheck" -repo "$W/wt" -verif "$W/verif" -prop "$PROPS" -tier quick -nocontrols 2>&1 | grep -E "^(FINDING|UNDECIDED|NOTE)" | sed "s|$W/wt/||g" | cut -c1-${COLS:-600}
