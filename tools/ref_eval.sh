#!/bin/bash
# Runs the quick checks (without self-tests) on a scratch worktree of /repo with one patch applied;
# /repo itself is not touched. usage: tools/ref_eval.sh <patch.diff> [base-commit|auto] [prop-list|all]
#
# A patch that no longer applies to HEAD (a later repair of go-ucfg touched the same lines) carries the commit it
# was written for in a side file (<name>.base next to a refactoring, `base` in a seed's directory). It is then
# evaluated DIFFERENTIALLY on that commit: the checks run on the base alone and on base + patch, and only what the
# patch adds is printed (findings and undecided lines that the base alone does not produce) — the defects the base
# still has, and that today's rules report, are not the patch's.
set -u
PATCH=$(readlink -f "$1"); BASE=${2:-HEAD}; PROPS=${3:-all}
HERE=$(cd "$(dirname "$0")/.." && pwd)
export GOFLAGS=-mod=mod GOPROXY=off GOSUMDB=off GOTOOLCHAIN=local GOWORK=off
if [ "$BASE" = "HEAD" ] || [ "$BASE" = "auto" ]; then
  BASE=HEAD
  for side in "${PATCH%.diff}.base" "$(dirname "$PATCH")/base"; do
    if [ -f "$side" ] && [ "$(basename "$PATCH")" != "base" ]; then
      case "$side" in */base) [ "$(basename "$PATCH")" = "patch.diff" ] || continue;; esac
      BASE=$(cat "$side"); break
    fi
  done
fi
W=$(mktemp -d /tmp/refeval.XXXXXX)
cleanup() { git -C /repo worktree remove --force "$W/wt" >/dev/null 2>&1; rm -rf "$W"; }
trap cleanup EXIT
git -C /repo worktree add -f --detach "$W/wt" "$BASE" >/dev/null 2>&1 || { echo "worktree failed"; exit 3; }
mkdir -p "$W/verif"; cp "$HERE/known_findings.json" "$W/verif/"
FILTER='^(FINDING|VIOLATION|UNDECIDED|SUMMARY|TYPE-ERROR|NOTE property=C.. normalisation)'
DIFFERENTIAL=0; BL=""
if [ "$BASE" != "HEAD" ] && [ "$(git -C /repo rev-parse "$BASE")" != "$(git -C /repo rev-parse HEAD)" ]; then
  DIFFERENTIAL=1
  # the helpers of the base commit are the reference for rename detection and inlining of new helpers
  "${UCFGCHECK:-$HERE/bin/ucfgcheck}" -repo "$W/wt" -write-baseline > "$W/baseline.txt" 2>/dev/null
  BL="-baseline $W/baseline.txt"
  "${UCFGCHECK:-$HERE/bin/ucfgcheck}" $BL -repo "$W/wt" -verif "$W/verif" -prop "$PROPS" -tier quick -nocontrols 2>&1 | grep -E "$FILTER" | sed "s|$W/wt/||g" > "$W/base.out"
fi
git -C "$W/wt" apply "$PATCH" || { echo "patch does not apply to $BASE"; exit 3; }
(cd "$W/wt" && go build ./... && go test -vet=off -count=1 ./... >/dev/null 2>&1) || { echo "patched tree does not build or fails tests"; exit 3; }
"${UCFGCHECK:-$HERE/bin/ucfgcheck}" $BL -repo "$W/wt" -verif "$W/verif" -prop "$PROPS" -tier quick -nocontrols 2>&1 | grep -E "$FILTER" | sed "s|$W/wt/||g" > "$W/patched.out"
if [ $DIFFERENTIAL -eq 0 ]; then
  cut -c1-420 "$W/patched.out"
  exit 0
fi
echo "NOTE evaluated differentially on base $BASE (the patch does not apply to HEAD)"
python3 - "$W/base.out" "$W/patched.out" <<'PY'
import re,sys
def key(l):
    m=re.match(r'^FINDING (.*?) at ',l)
    if m: return ('F',re.sub(r'#\d+$','',m.group(1)))
    if l.startswith('UNDECIDED'): return ('U',re.sub(r'\b\d+\b','N',l)[:160])
    return None
base=set(); 
for l in open(sys.argv[1]):
    k=key(l.rstrip('\n'))
    if k: base.add(k)
for l in open(sys.argv[2]):
    l=l.rstrip('\n')
    if l.startswith('SUMMARY') or l.startswith('NOTE'):
        print(l[:420]); continue
    if l.startswith('VIOLATION'): continue
    k=key(l)
    if k is None or k in base: continue
    print(l[:420])
    if k[0]=='F':
        m=re.match(r'^(?:ARCH386/\d+/)?R(\d\d)',k[1])
        if m: print('VIOLATION property=C%s replay=- (new with the patch)'%m.group(1))
PY
