#!/bin/bash
# Runs the quick checks (without self-tests) on a scratch worktree of /repo with one patch applied;
# /repo itself is not touched. usage: tools/ref_eval.sh <patch.diff> [base-commit] [prop-list|all]
set -u
PATCH=$(readlink -f "$1"); BASE=${2:-HEAD}; PROPS=${3:-all}
HERE=$(cd "$(dirname "$0")/.." && pwd)
export GOFLAGS=-mod=mod GOPROXY=off GOSUMDB=off GOTOOLCHAIN=local GOWORK=off
W=$(mktemp -d /tmp/refeval.XXXXXX)
cleanup() { git -C /repo worktree remove --force "$W/wt" >/dev/null 2>&1; rm -rf "$W"; }
trap cleanup EXIT
git -C /repo worktree add -f --detach "$W/wt" "$BASE" >/dev/null 2>&1 || { echo "worktree failed"; exit 3; }
git -C "$W/wt" apply "$PATCH" || { echo "patch does not apply to $BASE"; exit 3; }
(cd "$W/wt" && go build ./... && go test -vet=off -count=1 ./... >/dev/null 2>&1) || { echo "patched tree does not build or fails tests"; exit 3; }
mkdir -p "$W/verif"; cp "$HERE/known_findings.json" "$W/verif/"
"$HERE/bin/ucfgcheck" -repo "$W/wt" -verif "$W/verif" -prop "$PROPS" -tier quick -nocontrols 2>&1 | grep -E "^(FINDING|VIOLATION|UNDECIDED|SUMMARY|TYPE-ERROR|NOTE property=C.. normalisation)" | sed "s|$W/wt/||g" | cut -c1-420
