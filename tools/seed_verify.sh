#!/bin/bash
# Confirms a seeded change independently in a scratch worktree: applies to /repo's HEAD, builds,
# passes the unedited test suite, demo fails on the mutated tree and passes on the original.
# usage: tools/seed_verify.sh <patch.diff> <demo-dir>
set -u
PATCH=$(readlink -f "$1"); DEMO=$(readlink -f "$2")
export GOFLAGS=-mod=mod GOPROXY=off GOSUMDB=off GOTOOLCHAIN=local GOWORK=off
W=$(mktemp -d /tmp/sv.XXXXXX)
cleanup() { git -C /repo worktree remove --force "$W/wt" >/dev/null 2>&1; rm -rf "$W"; }
trap cleanup EXIT
# a seed that no longer applies to HEAD is verified on the commit it was written for (side file `base`)
BASE=HEAD; [ -f "$(dirname "$PATCH")/base" ] && BASE=$(cat "$(dirname "$PATCH")/base")
git -C /repo worktree add -f --detach "$W/wt" "$BASE" >/dev/null 2>&1 || { echo "VERIFY worktree failed"; exit 3; }
cp -r "$DEMO" "$W/demo"; rm -f "$W/demo"/out.*.txt
sed -i -E "s|(github.com/elastic/go-ucfg) => /[^ ]+|\1 => $W/wt|" "$W/demo/go.mod"
( cd "$W/demo" && timeout 300 go run . >"$W/orig.out" 2>&1 ); O=$?
git -C "$W/wt" apply "$PATCH" || { echo "VERIFY patch does not apply"; exit 3; }
if git -C "$W/wt" status --porcelain | grep -q "_test.go"; then echo "VERIFY touches tests"; exit 3; fi
( cd "$W/wt" && go build ./... ) || { echo "VERIFY build failed"; exit 3; }
( cd "$W/wt" && go test -vet=off -count=1 ./... >"$W/test.out" 2>&1 ); T=$?
( cd "$W/demo" && timeout 300 go run . >"$W/mut.out" 2>&1 ); M=$?
echo "VERIFY tests_exit=$T demo_original_exit=$O demo_mutated_exit=$M"
[ $T -ne 0 ] && tail -5 "$W/test.out"
echo "--- original:"; tail -3 "$W/orig.out" | cut -c1-300
echo "--- mutated:"; grep -m3 "PROPERTY VIOLATED" "$W/mut.out" | cut -c1-300
