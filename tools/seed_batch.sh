#!/bin/bash
# Evaluates every seeded change (seeded/<id>/patch.diff) on a scratch worktree with the quick check of the
# property it breaks; prints DETECTED / MISSED per seed. /repo itself is not touched.
HERE=$(cd "$(dirname "$0")/.." && pwd)
OUT=${1:-/tmp/seedbatch}; mkdir -p "$OUT"
ls -d "$HERE"/seeded/*/ | xargs -P 6 -I{} sh -c 'd={}; n=$(basename $d); p=$(python3 -c "import json,sys;m=json.load(open(sys.argv[1]));print(\",\".join(m[\"checks_reporting_now\"]) or m.get(\"evaluate_property\",\"all\"))" $d/meta.json); '"$HERE"'/tools/ref_eval.sh $d/patch.diff HEAD $p > '"$OUT"'/$n.txt 2>&1'
for d in "$HERE"/seeded/*/; do n=$(basename $d); if grep -q "^VIOLATION" "$OUT/$n.txt"; then echo "$n DETECTED $(grep -c '^FINDING' $OUT/$n.txt) finding(s): $(grep -m1 '^FINDING' $OUT/$n.txt | cut -c9-110)"; elif grep -q "^UNDECIDED" "$OUT/$n.txt"; then echo "$n UNDECIDED-ONLY $(grep -m1 '^UNDECIDED' $OUT/$n.txt | cut -c1-150)"; elif python3 -c "import json,sys;sys.exit(0 if json.load(open(sys.argv[1])).get(\"missed\") else 1)" $d/meta.json; then echo "$n KNOWN-MISS (recorded in meta.json and DESIGN 8.6h: no rule reports this change)"; else echo "$n MISSED $(head -2 $OUT/$n.txt | cut -c1-200)"; fi; done
