#!/bin/bash
# Applies one seeded change to /repo, runs the quick checks (without self-tests) into a scratch
# evidence directory, prints which checks report a violation, and restores /repo.
# usage: tools/seed_eval.sh <patch.diff> [prop-list|all]
set -u
PATCH=$(readlink -f "$1"); PROPS=${2:-all}
HERE=$(cd "$(dirname "$0")/.." && pwd)
export GOFLAGS=-mod=mod GOPROXY=off GOSUMDB=off GOTOOLCHAIN=local GOWORK=off
if ! git -C /repo diff --quiet || [ -n "$(git -C /repo status --porcelain)" ]; then echo "/repo is not clean"; exit 3; fi
SCR=$(mktemp -d /tmp/seedverif.XXXXXX)
cp "$HERE/known_findings.json" "$SCR/"
restore() { git -C /repo checkout -- . ; git -C /repo clean -fdq; rm -rf "$SCR"; }
trap restore EXIT
git -C /repo apply "$PATCH" || { echo "patch does not apply"; exit 3; }
(cd /repo && go build ./... ) || { echo "mutated tree does not build"; exit 3; }
"$HERE/bin/ucfgcheck" -prop "$PROPS" -tier quick -verif "$SCR" -nocontrols 2>&1 | grep -E "^(FINDING|VIOLATION|UNDECIDED|SUMMARY|TYPE-ERROR)" | cut -c1-400
