#!/usr/bin/env python3
"""Generates /verif/MANIFEST.json from the table below (run after changing what is claimed)."""
import json, os, sys

HERE = os.path.dirname(os.path.dirname(os.path.abspath(__file__)))

TRUST = ("Trusted: go/types, x/tools go/ssa v0.29.0 and the VTA call graph; effect tables for reflect/stdlib; "
         "user callbacks (Unpacker, Validator, Initializer, resolvers) are outside the claim. ")

# id -> (claimed, technique, level text, level note, design ref)
P = {
 "C01": (True,
         "enum-dispatch simulation + structural strategy signatures + option-threading def-use on SSA (custom analyzer)",
         "Decides that the merge policy selected is the policy executed: every configHandling constant an option or tag can install has an explicit "
         "case in the array dispatcher and the four policy classes reach distinct strategies; each strategy has the source-order signature of its "
         "policy (which array is appended in which order, fresh node keeping the dictionary vs in place, index-wise setAt bounded by both lengths "
         "then source tail); the dictionary loop stores merge(dest[k],src[k]) under k and clears only under replace after the emptiness return; "
         "mergeValues recurses only when both sides are sub-configs; nested merges receive the caller's options; the copy every merged value goes "
         "through (cfgSub.cpy) copies the named and the indexed part of a node on one path. Value-level laws are not decided.",
         TRUST + "A re-implementation of a strategy that no longer goes through fields.append/setAt is reported as undecided, not as a violation.",
         "§3 C01"),
 "C02": (True,
         "call-graph reachability + dominance + type-based store rule + error-discipline path rule (custom analyzer)",
         "Decides the structural clauses of late-bound expansion: no cpy implementation can reach an evaluation function (references survive Merge "
         "unresolved and are evaluated at read time), ${} parsing happens only under VarExp, expression objects are never written after construction, "
         "resolveEnv reports success only after a resolver succeeded (an unresolvable reference is an error, never an empty value), and the lookup "
         "order tree root -> Env last-to-first -> resolvers last-to-first is the one coded, a configuration that does not hold the name handing over "
         "to the next one (the lookup ends only with the value found or with the environments used up; a nil configuration given with Env is skipped and ends nothing), and a resolver that fails handing over to "
         "the next resolver whatever its error; parseSplice answers only with the expression parseVarExp built from the lexer's tokens — the lexer is what removes the escapes, so no shortcut may hand a string back unlexed (R02h). Operator semantics, the escape table itself and typed results are value-level "
         "and not decided.",
         TRUST,
         "§3 C02"),
 "C03": (True,
         "guard analysis for lossy numeric conversions on SSA with exact (math/big) bound evaluation and NaN polarity tracking (E4, custom)",
         "Decides 'never wraps around' for all values at once: every lossy conversion instruction (float->integer, signed<->unsigned, narrowing), every "
         "Duration multiplication with a non-constant operand and every reflect.Value.Convert of a possible number in the root package must be "
         "dominated by comparison facts on the same operand that imply the destination range, with constants evaluated exactly after the rounding "
         "of the comparison's type (math.MaxInt64 as float64 is 2^63, so the bound must be strict) and at least one true-edge fact for floats (NaN). "
         "A number kept as text is converted by handing the stored text itself to strconv.Parse* (no rewriting in front of the parser). "
         "Integer seconds reach a Duration through integer arithmetic only (no detour through float64, which would round above 2^53). "
         "reifyDuration classifies what a reference evaluates to, not the reference node, so a number behind a reference means seconds like one written in place (R03f). "
         "The numbers parse.Value finds in the text of a value (what a resolver, a default or a splice expands to) are result #0 of strconv.ParseUint/ParseInt/ParseFloat: no hand-written digit arithmetic with an overflow behaviour of its own (R03g). "
         "After a failed exact integer parse of a number kept as text no other reader answers unless the failure was tested to be a syntax error (a range error stays an error). "
         "Thorough tier repeats the rules for GOARCH=386. Each numeric reflect kind, uintptr included, is accepted by exactly one of the kind predicates doReifyPrimitive dispatches on, so no numeric target reaches its unchecked fall-through conversion (R03h). One known finding (int(idx) on 32-bit platforms). "
         "That an in-range number is stored exactly, and strconv/time parsing, are not decided.",
         TRUST + "strconv and time.ParseDuration trusted.",
         "§3 C03"),
 "C04": (True,
         "must-pass-through analysis on SSA control-flow graphs, path-sensitive refinement, slots closed under forwarding (custom analyzer)",
         "Decides that no traversal path of the unpack family skips validation, for all target types and configurations: every successful return of "
         "every value-producing routine (found from the reflect stores into the target, closed under forwarding) is preceded on all feasible paths "
         "by runValidators/tryRecursiveValidate on the function's own validators, or forwards to a family member that receives those validators, or "
         "lies under a reflect-kind fact that fixes the value to a struct/Config kind; the same for Validate() via tryValidate; accessField is the only "
         "reader of the validator tag and its result is what the family receives; the value handed to the validators is the value returned (up to "
         "pointer/interface wrappers; a default initialised after the validation is reported); every index of a list result is merged or validated, "
         "and every entry of a map result that the configuration does not name is validated before a successful return (R04k). "
         "No exception is left (the pointer-to-map branch of reifyValue hands the validators on since 04c93da). Every accepting path of a built-in tag validator that reads the value as a "
         "float takes the true edge of a float comparison, so NaN is never accepted by default; every one of them decides on the kind of the "
         "value behind pointers and none recognises strings by an assertion to string; in reifyStruct every field that is not skipped reaches an "
         "unpack/validate routine, and uses the field's own validate tag, before the next iteration (an inlined map or struct included: validateStruct, the sibling that only validates, applies the tag to every field). "
         "The kind dispatch of nonzero, min and max has a comparing case for each of the thirteen numeric kinds, uintptr included (R04l). "
         "tryValidate asks the value behind interfaces and pointer chains for its Validate() method, not the static type of the holder (R04m). "
         "That each built-in validator computes the right predicate otherwise is not decided.",
         TRUST + "Custom validators and Validate() methods are user code: decided is that they are called.",
         "§3 C04"),
 "C05": (True,
         "closure of the generic image under the writer's kind dispatch + single-path / who-may-store rules + dominating-condition rule on the collision switch (custom analyzer on SSA)",
         "Decides four structural conditions the property cannot hold without, and says nothing about equality of the data: (a) every static type a "
         "value.reify implementation can return - the image of Unpack into interface{} - has a kind normalizeValue accepts (dispatch simulated per "
         "kind), nil included, so the generic image can be fed back in; (b) input maps are enumerated in one place, which accepts string- and "
         "interface-kinded keys alike and names a key only after chasing the interface; (c) maps and structs hand every (name, value) pair to "
         "normalizeSetField and nothing else in the normalize family stores a named setting or merges a normalised part into the tree under construction; that function parses the name with the configured "
         "separator, stores only where nothing non-nil is present, merges only object with object and reports every other collision as a duplicate; "
         "(d) normalizeValue chases pointers and interfaces before it looks at kind or special type; (e) the name a struct field is stored under is the "
         "name part of its tag as written (only Split/index/TrimSpace between the tag and the name), as a map key is. No normalize function stores through a path segment of its own making (namedField/idxField.SetValue). Round-trip equality, numeric equality and "
         "idempotence over all trees and representations are runtime-value facts and are NOT decided (this property was planned as not applicable; "
         "the claim is limited to these necessary conditions, DESIGN.md section 8.9).",
         TRUST,
         "§8.9 (supersedes §3 C05)"),
 "C06": (True,
         "writer/reader sibling agreement: SSA expression normal forms over shared roles (E7, custom) + simulation of every reflect.Kind dispatch",
         "Decides the structural necessary condition behind 'struct -> Config -> struct is the identity': the two directions cannot drift apart. "
         "The expression naming a struct field, the value paired with it, the tag options and the dominating participation conditions (exported, "
         "not ignored, not inline) are read back from SSA as trees over (struct value, field index, options) for normalizeStructInto and for "
         "accessField/reifyStruct and must be identical; both sides parse the key with the same path parser and options on the config they were "
         "given; every kind accepted inline on the way in is accepted on the way out; the specially encoded types are exactly the extras table, "
         "tested before the numeric kinds on both sides and written/read by an inverse library pair; for each of the 27 reflect kinds the "
         "dispatches of normalizeValue, reifyMergeValue, reifyValue and doReifyPrimitive are simulated: the writer accepts every kind the property "
         "names and the reader's converter accepts the value classes the writer produces; the cross-sign integer conversions have succeeding paths and "
         "their range guards admit the whole range of the destination (the extreme representable values pass); a Go value is read by its kind "
         "(reflect Int/Uint/Float/Bool/String into a value constructor) only in normalizeValue, where the specially encoded types come first; "
         "the struct writer and the struct readers enumerate fields with the same reflect interface (no promoted fields on one side only); an object is "
         "demanded for a struct-kinded target only after the struct types that are written as text (regexp) were excluded, for fresh and pre-filled targets alike; a node is read back as a list through its list part only (castArr never wraps a sub-configuration as its own single element, R06l).",
         TRUST + "Value equality after the round trip (number formatting and precision, pointer depth, nil vs empty, Duration text) is value-level and "
         "not decided; the class tables of handler functions and the inverse-pair table are frozen in the checker (unknown handlers are undecided).",
         "§3 C06"),
 "C07": (True,
         "compiler BCE residual + custom linear bounds prover (Fourier-Motzkin over dominating facts, phi induction, store forwarding, call-site facts) + panic/assertion/goroutine rules + reflect precondition analysis (kind guards, interprocedural kind facts for parameters, addressability facts with parameter contracts, type agreement) on SSA",
         "Decides, for the current tree, that every program point that can panic is guarded on every path: the index/slice operations the compiler's "
         "sound prove pass cannot discharge (its -d=ssa/check_bce report, ~45 sites) are each proved in bounds by the checker's linear prover or carry "
         "a reasoned, count-capped exception (lexer/parser protocol); every idx-derived allocation is bounded; every explicit panic is dead or behind "
         "Must*/init; every single-result type assertion has its dynamic type fixed by a dominating reflect test or by what its producers can return; "
         "parseSplice always drains the lexer and the lexer always closes its channels; IsNil is only called on nil-able kinds; every reflect "
         "Set*/Addr receiver is addressable (by construction, under CanSet/CanAddr, or by a parameter contract checked at every call site: a "
         "six-fact abstract domain over expression normal forms); every value a primitive converter returns for a destination type was "
         "converted to it and map keys to the key type; every kind-restricted reflect call (MapKeys, MapIndex, Len, Index, Elem, NumField, Field, "
         "Type.Key/Elem, ...) on a parameter of an unexported function is allowed for every kind its callers can hand over (interprocedural kind "
         "facts from the dispatches dominating each call site, related to the argument through the chase helpers; six reasoned hand-over "
         "assumptions printed on every run); every evaluator of a dynamic value returns a value or an error, never neither; the index given to a "
         "setter is capped by MaxIdx; a string is converted through reflect only to a type of kind String; what reifyMergeValue returns is stored "
         "into its slot with the slot's pointers restored; an exported function puts a *Config argument into the tree only under a nil test, SetChild "
         "refuses the receiver and its ancestors, the zero value of Config reads as empty and gets its fields when first written, and an Implements-guarded "
         "assertion of Interface() has a nil guard. Totality over all inputs is a runtime claim; decided is the guarding of each panic point. Third-party "
         "decoders, stack depth, parser-loop termination, kind preconditions of locals outside the dispatch rules and the convertibility "
         "precondition of reflect Convert are not decided. No map keyed by the empty interface is given data (a reflect Interface() result, an interface value of unknown origin) as key without a Comparable() test (R07t: the runtime panics on unhashable keys).",
         TRUST + "The Go compiler's prove pass is trusted for the bounds checks it eliminates.",
         "§3 C07, appendix B E3"),
 "C08": (True,
         "who-may-call / SCC rules on the VTA call graph + scope pairing and dominance rules on SSA (custom analyzer)",
         "Decides termination of the reference-evaluation recursion and absence of false cycles from sibling reuse for ALL reference graphs: inside the "
         "evaluation closure only resolveRef performs tree lookups; its guard (AddNew on the current set, parent chain consulted) dominates the lookup "
         "and its failing edge returns the cyclic error; no makeOptions caller is recursive (the guard is never reset inside a recursion); guard scopes "
         "are paired, text-level evaluators resolve inside a scope that covers the consumption of the value, and every child loop that can reach "
         "resolveRef opens a fresh child scope per iteration; live sub-configs are never cached; the guard chain is never cut; an unresolved reference "
         "is never a success; a resolved value that a helper returns out of its guard scope is followed to the callers, none of which may evaluate it (R08d(ii)), and no sub-configuration taken from it is handed out of the scope. Does not decide that non-cyclic graphs produce the right text.",
         TRUST + "Cut at parseValue (text produced by an evaluation is normalized into a fresh tree). Merge/normalize loops are outside C08's read entry points.",
         "§3 C08"),
 "C09": (True,
         "map-iteration inventory and classification on SSA (E8, custom): loop-carried values, early exits and body effects (E1 mod summaries) per site",
         "Decides the structural necessary condition behind 'results never depend on map iteration order': every place where the runtime's "
         "enumeration order can enter NewFrom/Merge/Unpack (SSA Range over a map, reflect MapKeys/MapRange, a map handed to library code) is "
         "enumerated from the call graph and each is sorted before use, or accumulate-then-sort, or has iterations that are independent of each "
         "other: no value carried between iterations, no early exit, and every effect of the body lands on fresh objects, the per-call options, "
         "per-key values or the destination through accessors keyed by the loop key (callee effects from the E1 mod summaries). The comparators "
         "of the sorts are strict orders on the keys: key(x[i]) < key(x[j]) on the element itself, or a lexicographic comparison whose last level "
         "is the key's type (the text of a key alone ties for two keys of an interface keyed map that spell the same name). The accessors whose effects "
         "the classification trusts to be keyed (fields.get/set/del) are checked themselves: nothing but the map entry of the key argument is written, so no list of names in call order can make an unsorted copy loop order dependent (R09e).",
         "Not decided: order-independence of user callbacks (Unpacker, Validator, resolvers); that evaluating a reference while handling one key "
         "does not observe a sibling key written earlier in the same sorted pass (deterministic either way once the order is fixed); the per-call "
         "value cache is accepted under C08 R08e; GetFields / fieldSet.Names / diff.String return names in runtime order and are outside the "
         "property's entry points (listed as information).",
         "§3 C09, §8.4 (key ties)"),
 "C10": (True,
         "interprocedural ownership / mod-and-flow analysis on SSA (E1, custom; summaries to fixpoint over the VTA call graph)",
         "Decides the aliasing statement behind 'source and destination stay independent': for Merge/NewFrom/MustNewFrom the source parameter is "
         "in no mod set and flows into neither destination, options, result nor globals; every value stored into a node by the merge strategies, "
         "fields.append and the cpy implementations is allocation-fresh with no transitive reference into the function's source; every cpy returns "
         "a deep copy that copies the named and the indexed part of a node on one path; the copy of a primitive node is its own constructor applied to the new context, the receiver's metadata and the receiver's payload; normalize* return values independent of the Go value they were built from; mergeValues merges in place only into a stored sub-config of the destination — what a reference in the destination evaluates to (another key, or a section of a configuration given with Env) is copied before it is merged into (R10f, guards repair 62280d6). 'No shared mutable object exists after the merge' "
         "holds for all sources, policies and later histories at once. Not decided: what user code does with captured *Config values.",
         TRUST + "E1 blobs all objects reachable from a parameter (shallow/deep); parameters assumed not to alias at entry; immutable shared types (expressions, paths, metadata) are cut and their immutability is checked separately (R11c).",
         "§3 C10, §2 E1"),
 "C11": (True,
         "interprocedural effect (mod-set) analysis on SSA (E1, custom) + type-based store rule for shared immutable objects",
         "Decides purity of every read entry point on every code path: the receiver's reachable state is in no mod set of Unpack, the getters, Child, "
         "Has, HasField, CountField, GetFields, IsDict/IsArray, Path/PathOf/Parent, FlattenedKeys, CompareConfigs (and the source of Merge/NewFrom); "
         "no non-atomic write to package-level state is reachable; nothing is stored on expression / dynamic-value / path / metadata objects after "
         "construction; a node has one header (a Config only receives a fields object allocated in the same function and is never copied by value), "
         "which the identity test guarding repeated Unpack into a captured child relies on. Purity on all paths gives data-race freedom for all interleavings of readers, which no test schedule can settle. "
         "Not decided: that each reader computes the same result as alone (beyond purity); races inside user callbacks.",
         TRUST + "Reflect sink cut: objects stored into the caller's unpack target are not tracked through it. valueCache is modelled as per-call.",
         "§3 C11, §2 E1"),
 "C12": (True,
         "sibling/def-use agreement of the address function + who-may-write rule for node storage + E1 live-view query (custom analyzer)",
         "Decides two structural necessary conditions of 'behaves like a tree': all fourteen (name, idx) entry points address their setting through "
         "one function, parsePathIdx(own name, own idx, options from own arguments), and access their own receiver through the resulting path — so a "
         "getter reads back what a setter wrote at the same address; node storage is written only by the fields methods, on freshly constructed nodes, "
         "or by the merge functions (closed set of writers, each paired under C15). Also: Remove walks with environments cleared; a child handle is "
         "the stored config itself, an index segment addresses only the list part of a node and a named segment only the dictionary part (getter, "
         "setter and remover of a segment agree on where it lives; the path walkers use only those segment methods; each typed getter returns its own "
         "accessor's result and each typed setter stores its own node kind with the argument as payload; CountField and the address functions getField / "
         "setField find their setting through the parsed path, never by a literal lookup; no successful return of an addressed entry point lies around the call that reaches parsePathIdx — a shortcut that answers Has(name) from the dictionary classifies a bare number differently from every other entry point), and SetChild stores the caller's own config, wrapped and never copied; the path writer touches the live tree only with its last fallible step (missing levels are built detached), so a "
         "rejected write leaves the tree as it was; node mutators move stored values and never replace one by a copy. The equivalence with a plain tree over all operation histories is value-level and not decided.",
         TRUST,
         "§3 C12"),
 "C13": (True,
         "reflect alias analysis + commit-last path rule + enum-dispatch agreement on SSA (custom analyzer)",
         "Decides the failure-atomicity clause for all struct types and configurations: in reifyStruct every value aliasing the caller's struct is only "
         "read, copied out of, or the receiver of exactly one final Set whose operand derives from the fresh working copy and which is followed only by "
         "`return nil`; no other function ever receives an alias, so InitDefaults, field unpacking, Unpacker calls and validation run on the copy and "
         "every failing exit precedes the commit. reifySliceMerge only reads the old slice and returns a fresh one; accessField guards the field access "
         "by the exported/!ignore tests and callers use it only under !skip; Unpack's list-policy dispatch partitions the policies exactly like Merge's; "
         "merge-or-replace is never decided on the stored representation of an unevaluated setting (a reference to a section is no cfgSub); a field "
         "without a policy tag keeps the policy in force (accessField replaces it only when the tag names one). "
         "No routine of the unpack family returns the zero reflect.Value next to an error that can be nil: a successful answer carries the value the caller stores, also for a struct, map or array that could only be merged into a temporary copy (R13h). "
         "Which fields are overwritten is value-level and not decided; maps and pointees are excluded by the property.",
         TRUST,
         "§3 C13"),
 "C14": (True,
         "interprocedural error-provenance (value-flow) analysis on SSA (E9, custom) + non-nil and pairing rules at constructor sites",
         "Decides the type half of the property for all inputs: every value that can reach an `error` result of the Config API (19 entry points) is "
         "traced back through phis, named results, captured locals, *error out-parameters, struct fields and callee results (interface calls joined "
         "over VTA) and must be nil or of a type implementing ucfg.Error; raw Err* variables, errors.New/fmt.Errorf, library and callback errors are "
         "violations unless wrapped by a raise* constructor (an Error extracted from user code by assertion or errors.As and returned unwrapped "
         "is one). Also: error literals carry a class variable and a reason that is non-nil on that path; "
         "constructors get context and metadata of one object, the receiver of the failing conversion; where a function has the setting at fault in hand (castArr, reifyGetField) the source named is that setting's own, the enclosing configuration's only for a setting that is missing (R14g); the walkers of a path raise their errors at the node the walk has reached, never at the configuration it started from (R14h: the path named is the setting's full path). Every raise* constructor answers with an error it builds, never with one it was given (R14i), and the path it is handed is rendered from the parent chain at that moment: context.path / pathOf keep nothing in a node (R14j). Message text / completeness of the path rest "
         "on C15 and are not decided.",
         TRUST + "Values of static type ucfg.Error are typed by the Go type system.",
         "§3 C14, appendix B E9"),
 "C15": (True,
         "store/context pairing analysis over all writers of node storage on SSA (E2, custom)",
         "Decides that the invariant behind Path/Parent/FlattenedKeys/diff — a value stored under key k in node N has ctx.field == k and ctx.parent == N "
         "— is established by every writer: at each call of fields.set/setAt/append and each direct store into fields.d/.a the stored value's context "
         "(recovered from the producing cpy call, a following SetContext, the normalize call or the literal) pairs with the storage key and with the "
         "owner of the receiving fields; in-place element moves are followed by renumbering of every moved element; every SetContext implementation "
         "stores its argument reachably on every path; Parent() and path() read the same two fields; the text of an index field is the decimal "
         "rendering of its own integer; every key FlattenedKeys emits has a context path in its derivation, the family walks both parts of a node and "
         "classifies values by toConfig; context.path takes the node without parent for the root, never an empty name, and no function that produces paths (path, pathOf, the FlattenedKeys family and their string helpers) compares a path text with the empty string (R15m); an existing node is re-contexted only next to the store that attaches it or to renumber it. Since the invariant can only be broken at a "
         "store or a move, it holds after any operation history. A path is rendered from the parent chain on every call, never kept in a node (R15o); CompareConfigs relates the keys of the two configurations by membership only — if it compares them by order, FlattenedKeys must return sort.Strings order (R15n); FlattenedKeys returns the rendered paths as they are, with no rewriting of key text (R15p). FlattenedKeys' set equality and the diff partition are not decided.",
         TRUST,
         "§3 C15"),
 "C16": (True,
         "sibling agreement of option pairs + CFG path rule on the child-options function (custom analyzer)",
         "Decides that XValues/FieldXValues install the same constant, that the constant reaches options.configValueHandling resp. the handling table, "
         "that every acyclic (feasible) path of fieldOptsOverride which returns the incoming options unchanged under a non-nil tree has established "
         "tree == child or an array hop, that the handling looked up is that of the key/index being merged, and that applying an Option writes no state "
         "captured by the Option value (no memo, no captured tree installed into the options), and that the handling tree is written and read "
         "under the same index classification options; every mergeValues call receives the options fieldOptsOverride returned for the key on every path (the caller's own only where the tree is nil, R16g), and the options it returns are the incoming ones or a copy made in that call (no memo carried along by whole-value copies). Necessary for 'exactly the named subtree'; the merged "
         "values and wildcard semantics in full are not decided.",
         TRUST,
         "§3 C16"),
 "C17": (True,
         "interprocedural typestate over the parser's input cursor + linear bounds prover (E3) + flag/branch agreement on SSA (custom analyzer)",
         "Decides that the flag-value parser inspects the next byte only at whitespace-skipped positions (every read of input[0] dominated by "
         "ignoreWhitespace() with no possible write of input in between; entry reads inherit the state from all call sites) — so whitespace that JSON "
         "allows around structural characters can never cause a rejection — that the skipper covers space, tab, line feed and carriage return, "
         "that all of the parser's indexing is in bounds, that an unquoted token reaches strconv.ParseFloat whenever the keyword tests and both exact "
         "integer parses failed (no spelling filter in front of it), and that each syntax "
         "every number returned is result #0 of a strconv parse of the token (R17i), and that each syntax "
         "branch is entered only under its first byte and its Config flag (IgnoreCommas selects the stop set). Holds for all documents and flag "
         "combinations. That the data returned equals the JSON document (number syntax, escapes, string termination) is value-level and not decided.",
         TRUST + "strconv.Unquote/Parse* trusted.",
         "§3 C17"),
 "C18": (True,
         "sibling-shape comparison on SSA + def-use plumbing of source metadata (custom analyzer)",
         "Decides that the yaml/json/hjson front-ends are structurally identical siblings (decode into a local, return the decoder error, "
         "NewFrom with the caller's options unchanged; file loaders prepend MetaData(Meta{Source:name}) and delegate), that the file name "
         "reaches options.meta, that every value and Config built by normalize* carries opts.meta, that the intermediate nodes created for a dotted "
         "key take the metadata of the value being stored, that cfgInt, cfgUint and cfgFloat support the same conversions (the front-ends differ in which "
         "of them a whole number becomes), that the empty config a null reads as keeps the null's metadata and a setter attaches its metadata before "
         "the store, that every error constructor forwards real metadata to messageMeta, and that no normalize "
         "function has a store path of its own for one decoder's representation (every named setting goes through normalizeSetField — also no store through a path segment made on the spot, namedField{k}.SetValue), and that what parseValue parses out of the text of a value is normalised with that value's metadata, not with the reading call's (R18k). Holds for all documents at once; equality of the data produced by the three third-party decoders is not decided.",
         TRUST + "Third-party decoders are outside the tree.",
         "§3 C18"),
 "C19": (True,
         "static def-use flow of option parameters + dominator/path rules on SSA + who-may-call rule on the VTA call graph (custom analyzer)",
         "Decides, for every function of packages flag and cfgutil on the current tree, that no ...ucfg.Option parameter is dropped on the way to "
         "NewFrom/Merge/Unpack or the collector's option field, that Collector.err is write-once and returned first, that FlagValue.Set feeds "
         "the collector on every path, and that the key=value loader treats empty values and bare keys as stated (an argument is ignored only when "
         "its raw value part is empty — never after the value was parsed, so null/[]/{} still override), and that the config a loader returns is "
         "made by NewFrom / New+Merge or the user's file loader, so that the flag's options apply to the value, and that Collector.Add merges "
         "only a non-nil config (an ignored argument yields none) and that an error a loader reports to the flag package is the one it hands to the "
         "collector, and that no observer of a flag value (String — which package flag calls itself —, Get, Config, Error) reaches Collector.Add on the call graph, so that only a failing argument can stop the collection. The loader closures handed to newFlagValue keep no state between calls (R19i: every occurrence of a flag is loaded like the first), and the collector's configuration is stored by its constructor only — what is added is merged, never adopted (R19j); the key=value loader hands the key and the value on as split, so that 'only an empty value is ignored' is decided on the text as written (R19k). These are necessary structural "
         "clauses of C19 that hold for all argument sequences at once; equality with a sequence of merges (a value-level fact) is not decided.",
         TRUST + "Does not cover user-supplied FileLoader functions.",
         "§3 C19"),
 "C20": (True,
         "CFG path conditions with polarity evaluated as a finite truth table over comparison regions (custom analyzer)",
         "Decides the index/name classifier for ALL integers and flags: the guard in front of every index-field return of parseField is read from "
         "SSA and evaluated on every ordering region of (idx, maxIdx) x numKeys x parse error; it must equal !numKeys && parsed && 0<=idx<=maxIdx. "
         "Also: names returned unmodified, numeric keys cleared only for multi-segment paths, ParseInt(in,0,64), parseField is the only text->index "
         "classifier; an index segment is never answered from the dictionary part of a node; parsePathIdx hands the caller's options to the path parser "
         "unchanged. A segment becomes a name only by parseField's verdict (no namedField is built anywhere else: no second classifier for plain names); where parsePath does not clear the numeric-keys flag for multi-segment names every caller must pass the constant false, and any other call of parseField with a flag that can be true needs evidence on every way in that the name holds no separator. Because the code touches the number only through comparisons the finite table is exhaustive; list growth is under C07.",
         TRUST + "strconv.ParseInt is trusted to implement Go integer syntax.",
         "§3 C20"),
}

NA = {
}
PENDING = "not claimed in this revision: the static checker for this property is not built yet (DESIGN §7 build order)"

def main():
    checks = []
    na = []
    for pid in sorted(P):
        claimed, tech, text, note, ref = P[pid]
        if not claimed:
            na.append({"property_id": pid, "reason": PENDING})
            continue
        checks.append({
            "property_id": pid,
            "quick_cmd": f"bin/vcheck {pid} quick",
            "thorough_cmd": f"bin/vcheck {pid} thorough",
            "evidence_file": f"evidence/{pid}.json",
            "replay_cmd_template": "cat {path}",
            "engine": "ucfgcheck",
            "level_claimed": {"category": "other", "text": text, "design_ref": "DESIGN.md " + ref},
            "level_note": note,
            "technique": tech,
        })
    for pid, why in NA.items():
        na.append({"property_id": pid, "reason": why})
    na.sort(key=lambda x: x["property_id"])
    m = {
        "version": 1,
        "setup_cmd": "cd /verif/checker && GOFLAGS=-mod=mod GOPROXY=off GOSUMDB=off GOTOOLCHAIN=local GOWORK=off go build -o ../bin/ucfgcheck .",
        "hooks": {
            "guard": "verif",
            "enable": "none: static analysis needs no instrumentation; no file in /repo carries the verif build tag",
            "baseline_off_cmd": "cd /repo && go test -vet=off -count=1 ./...",
            "source_commits": [],
            "add_only": True,
        },
        "engines": [{
            "name": "ucfgcheck",
            "path": "checker/",
            "serves_properties": [c["property_id"] for c in checks],
            "kind_free_text": "custom static analyzer over go/packages + go/types + go/ssa + VTA call graph (x/tools v0.29.0); one sub-command per property; analyses /repo's working tree on every run, executes nothing from it",
        }],
        "checks": checks,
        "notes": "All claims are level 'other': each check decides structural necessary conditions of its property from the source (DESIGN.md §0/§3), not the behaviour. Exit 0 held / 1 VIOLATION / 2 undecided. Known findings: known_findings.json. fix: commits in /repo are listed there under 'fixed'.",
        "not_applicable": na,
    }
    with open(os.path.join(HERE, "MANIFEST.json"), "w") as f:
        json.dump(m, f, indent=1)
        f.write("\n")
    try:
        import jsonschema
        jsonschema.validate(m, json.load(open("/root/.vp/MANIFEST.schema.json")))
        print("MANIFEST.json valid;", len(checks), "checks,", len(na), "not applicable")
    except ImportError:
        print("written (jsonschema not available to validate)")

if __name__ == "__main__":
    main()
