#!/bin/bash
# Evaluates every patch given on the command line (behaviour-preserving edits) with all quick checks
# on scratch worktrees, in parallel; prints one line per patch: OK or the alarms.
# usage: tools/ref_batch.sh <results-dir> patch...
OUT=$1; shift
HERE=$(cd "$(dirname "$0")/.." && pwd)
mkdir -p "$OUT"
printf '%s\n' "$@" | xargs -P 5 -I{} sh -c 'n=$(basename {} .diff); '"$HERE"'/tools/ref_eval.sh {} ${REF_BASE:-HEAD} all > '"$OUT"'/$n.txt 2>&1'
for f in "$@"; do n=$(basename $f .diff); a=$(grep -v "^NOTE" "$OUT/$n.txt" | grep -E "^(FINDING|UNDECIDED)|does not|fails" | sed -E 's/^(FINDING|UNDECIDED property=C[0-9]+) //' | cut -c1-90 | paste -sd'|'); if [ -z "$a" ]; then echo "$n OK"; else echo "$n ALARM $a"; fi; done
