#!/bin/bash
# Takes one change delivered by a sub-agent (<dir> with patch.diff, demo/, NOTES.md) into seeded/<seed-id>/, confirms it
# independently (tools/seed_verify.sh) and evaluates it with every quick check (tools/ref_eval.sh); prints both results.
# usage: tools/seed_intake.sh <agent-dir> <seed-id> [base-commit]
set -u
SRC=$(readlink -f "$1"); ID=$2; BASE=${3:-}
HERE=$(cd "$(dirname "$0")/.." && pwd)
D="$HERE/seeded/$ID"; mkdir -p "$D"
cp "$SRC/patch.diff" "$D/patch.diff"; rm -rf "$D/demo"; cp -r "$SRC/demo" "$D/demo"; rm -f "$D/demo/demo" "$D"/demo/*.txt
[ -f "$SRC/NOTES.md" ] && cp "$SRC/NOTES.md" "$D/README.agent.md"
if ! git -C /repo apply --check "$D/patch.diff" 2>/dev/null; then
  [ -n "$BASE" ] && echo "$BASE" > "$D/base"
fi
"$HERE/tools/seed_verify.sh" "$D/patch.diff" "$D/demo" > "$D/.verify.txt" 2>&1
"$HERE/tools/ref_eval.sh" "$D/patch.diff" auto all > "$D/.eval.txt" 2>&1
echo "== $ID $(grep -m1 '^VERIFY' "$D/.verify.txt") base=$(cat "$D/base" 2>/dev/null || echo HEAD)"
grep -E '^(FINDING|UNDECIDED|patch does not|patched tree)' "$D/.eval.txt" | cut -c1-260
