package main

// C09 — results never depend on map iteration order.
// E8 mapiter: every map-iteration site (SSA Range over a map, loop over reflect MapKeys) in functions
// reachable from NewFrom / Merge / Unpack is enumerated and classified by the checker: sorted before
// the loop; independent iterations (no loop-carried local, effects only on fresh objects, the per-call
// options, per-key values, or the destination through accessors keyed by the loop key);
// accumulate-then-sort. A site in none of the classes is a violation.

import (
	"fmt"
	"go/token"
	"go/types"
	"sort"
	"strings"

	"golang.org/x/tools/go/ssa"
)

func init() {
	register("C09", "Inventory and classification of every place the runtime's choice of map enumeration order can enter (E8): SSA Range instructions over map-typed values and loops over reflect.Value.MapKeys() in the functions reachable (VTA) from NewFrom, Merge and Unpack. Each site is classified from the code: (1) sorted — the iterated keys pass through sort.* before the loop; (2) independent — the loop header has no carried value besides the iterator, and every effect of the body (stores, map updates, calls with their E1 mod summaries, interface calls joined over callees) lands on objects allocated in the function, on the per-call options, on values obtained for the loop's own key/value, or on the destination through accessors whose key argument is the loop key (fields.get/set, m[k], reflect MapIndex/SetMapIndex); (3) accumulate-then-sort. A site in none of the classes is a violation. Early exit with an error is allowed in all classes, so which of several independent faults is reported first is not covered; order-independence of user callbacks and of reference evaluation across sibling keys is assumed.", checkC09)
}

type mapSite struct {
	fn     *ssa.Function
	in     ssa.Instruction // the Range or the MapKeys call
	kind   string          // "range" | "MapKeys"
	loop   map[*ssa.BasicBlock]bool
	key    ssa.Value // loop key value
	val    ssa.Value // loop element value (range only)
	keys   ssa.Value // the slice iterated (MapKeys)
	sorted bool
}

func checkC09(c *Ctx, r *Report) {
	r.Assumption("user callbacks (Unpacker, Validator, InitDefaults, resolvers) are order-independent")
	r.Assumption("evaluating a reference while merging one key does not write into a sibling key's subtree (references in a merge destination: DESIGN §5, seen but not claimed)")
	r.Assumption("the per-call value cache holds primitives only (C08 R08e): a cache hit returns what the evaluation would return")
	e := c.E1()
	roots := []*ssa.Function{c.Func("", "NewFrom"), c.Method("", "Config", "Merge"), c.Method("", "Config", "Unpack")}
	claimed := c.Reach(roots, nil, nil)

	r.Rule("R09a", "every map-iteration site reachable from NewFrom/Merge/Unpack is sorted, independent per key, or accumulate-then-sort", 4)
	r.Rule("R09i", "inventory of map-iteration sites outside the claimed entry points (information)", 2)
	var sites []mapSite
	for _, fn := range c.SrcFuncs() {
		Instrs(fn, false, func(in ssa.Instruction) {
			switch x := in.(type) {
			case *ssa.Range:
				if _, isMap := x.X.Type().Underlying().(*types.Map); !isMap {
					return
				}
				s := mapSite{fn: fn, in: in, kind: "range"}
				for _, ref := range *x.Referrers() {
					if nx, ok := ref.(*ssa.Next); ok {
						s.loop = loopOf(fn, nx.Block())
						for _, r2 := range *nx.Referrers() {
							if ex, ok := r2.(*ssa.Extract); ok {
								switch ex.Index {
								case 1:
									s.key = ex
								case 2:
									s.val = ex
								}
							}
						}
					}
				}
				sites = append(sites, s)
			case *ssa.Call:
				f := x.Call.StaticCallee()
				if f == nil || f.Pkg == nil || f.Pkg.Pkg.Path() != "reflect" || (f.Name() != "MapKeys" && f.Name() != "MapRange") {
					return
				}
				s := mapSite{fn: fn, in: in, kind: f.Name(), keys: x}
				if f.Name() == "MapRange" {
					// iterator protocol: the loop is the one around it.Next(); it.Key()/it.Value() are per-key
					for _, ci := range CallsIn(fn, false) {
						g := ci.Common().StaticCallee()
						if g == nil || g.Pkg == nil || g.Pkg.Pkg.Path() != "reflect" || len(ci.Common().Args) == 0 {
							continue
						}
						isIt := false
						for _, src := range Sources(ci.Common().Args[0]) {
							if src == ssa.Value(x) {
								isIt = true
							}
						}
						if !isIt {
							continue
						}
						switch g.Name() {
						case "Next":
							s.loop = loopOf(fn, ci.(ssa.Instruction).Block())
						case "Key":
							s.key = ci.Value()
						case "Value":
							s.val = ci.Value()
						}
					}
					s.keys = nil
					sites = append(sites, s)
					return
				}
				// the loop that indexes the returned slice
				Instrs(fn, false, func(in2 ssa.Instruction) {
					ia, ok := in2.(*ssa.IndexAddr)
					if !ok {
						return
					}
					for _, src := range Sources(ia.X) {
						if src == ssa.Value(x) {
							if lp := loopOf(fn, ia.Block()); lp != nil {
								s.loop = lp
								for _, ref := range *ia.Referrers() {
									if l, ok := ref.(*ssa.UnOp); ok {
										s.key = l
									}
								}
							}
						}
					}
				})
				// sorted before the loop?
				for _, ci := range CallsIn(fn, false) {
					g := ci.Common().StaticCallee()
					if g == nil || g.Pkg == nil || g.Pkg.Pkg.Path() != "sort" {
						continue
					}
					for _, a := range ci.Common().Args {
						for _, src := range Sources(a) {
							if src == ssa.Value(x) && s.loop != nil {
								hdr := loopHeader(s.loop)
								if ci.(ssa.Instruction).Block().Dominates(hdr) && !s.loop[ci.(ssa.Instruction).Block()] {
									s.sorted = true
								}
							}
						}
					}
				}
				sites = append(sites, s)
			}
		})
	}
	// R09b: enumeration hidden in library code
	r.Rule("R09b", "no map is handed to code outside the repository on the claimed paths, except to functions known not to enumerate it or to enumerate it in sorted order (reflect.ValueOf: tracked by R09a; fmt: prints maps sorted by key)", 0)
	for fn := range claimed {
		if !c.InRepo(fn) || fn.Blocks == nil {
			continue
		}
		Instrs(fn, false, func(in ssa.Instruction) {
			ci, ok := in.(ssa.CallInstruction)
			if !ok || BuiltinName(ci) != "" {
				return
			}
			cc := ci.Common()
			g := cc.StaticCallee()
			if g != nil && c.InRepo(g) {
				return
			}
			if g == nil {
				// interface / closure call: resolved callees inside the repository are analysed themselves
				all := true
				for _, t := range c.Callees(ci) {
					if !c.InRepo(t) {
						all = false
					}
				}
				if all {
					return
				}
			}
			for _, a := range cc.Args {
				v := a
				if mi, ok := v.(*ssa.MakeInterface); ok {
					v = mi.X
				}
				if _, isMap := v.Type().Underlying().(*types.Map); !isMap {
					continue
				}
				name := "dynamic callee"
				if g != nil {
					name = g.String()
				}
				r.Analysed["maps handed to library code"]++
				okLib := g != nil && (name == "reflect.ValueOf" || name == "reflect.TypeOf" || (g.Pkg != nil && g.Pkg.Pkg.Path() == "fmt"))
				r.Check(okLib, "R09b", c.FnName(fn), "map passed to "+name, c.Pos(in.Pos()), "the callee does not enumerate the map in runtime order", "a map is handed to "+name+", which may enumerate it in runtime order")
			}
		})
	}

	r.Rule("R09c", "every reflect.Value.String() call is dominated by a Kind() == reflect.String test on the same value", 3)
	valueStringRule(c, r, "R09c")
	keyedAccessorRule(c, r)
	// R09d: comparators of the sorts that establish an order
	r.Rule("R09d", "every sort.Slice comparator on the claimed paths has the form key(x[i]) < key(x[j]) with one key function for both sides, and the key is the element itself or mapKeyString(element): a key function that maps two map keys to one value leaves their order to the runtime", 2)
	for fn := range claimed {
		if !c.InRepo(fn) || fn.Blocks == nil {
			continue
		}
		for _, ci := range CallsIn(fn, false) {
			g := ci.Common().StaticCallee()
			if g == nil || (g.String() != "sort.Slice" && g.String() != "sort.SliceStable") {
				continue
			}
			mc, isMC := ci.Common().Args[1].(*ssa.MakeClosure)
			var less *ssa.Function
			if isMC {
				less, _ = mc.Fn.(*ssa.Function)
			} else if f, isF := ci.Common().Args[1].(*ssa.Function); isF {
				less = f
			}
			if less == nil || len(less.Params) != 2 {
				r.add("R09d", c.FnName(fn), "comparator", c.Pos(ci.Pos()), Undecided, true, "the comparator is not a function literal")
				continue
			}
			b := newNF(c)
			b.Role(less.Params[0], "i")
			b.Role(less.Params[1], "j")
			okForm := true
			form := ""
			// a comparator that hands its two elements to a function of the repository: key first, tie-break second
			if rets := Returns(less); len(rets) == 1 {
				if call, isCall := rets[0].Results[0].(*ssa.Call); isCall {
					if lf := call.Call.StaticCallee(); lf != nil && c.InRepo(lf) && len(lf.Params) == 2 && len(call.Call.Args) == 2 {
						ai, aj := b.Of(call.Call.Args[0]).String(), b.Of(call.Call.Args[1]).String()
						elems := strings.Contains(ai, "$i") && strings.ReplaceAll(ai, "$i", "$j") == aj
						okLex, why := lexicographicLess(c, lf)
						r.Analysed["sort comparators"]++
						r.Check(elems && okLex, "R09d", c.FnName(fn), "comparator", c.Pos(ci.Pos()), lf.Name()+"(x[i], x[j]): "+why,
							"the comparator "+lf.Name()+" is not a strict order on the keys: "+why)
						continue
					}
				}
			}
			for _, ret := range Returns(less) {
				n := b.Of(ret.Results[0])
				form = n.String()
				if n.op != "bin" || n.name != "<" || strings.ReplaceAll(n.args[0].String(), "$i", "$j") != n.args[1].String() || !strings.Contains(n.args[0].String(), "$i") {
					okForm = false
					continue
				}
				// the sort key must distinguish different map keys: the element itself, or the frozen
				// key function mapKeyString (text of a string key; R09c keeps it faithful)
				if why := injectiveSortKey(n.args[0]); why != "" {
					okForm = false
					form += " — " + why
				}
			}
			r.Analysed["sort comparators"]++
			r.Check(okForm, "R09d", c.FnName(fn), "comparator", c.Pos(ci.Pos()), form, "the comparator is not key(x[i]) < key(x[j]) with the same key on both sides (not a strict order on the keys): "+form)
		}
	}

	sort.Slice(sites, func(i, j int) bool {
		if c.FnName(sites[i].fn) != c.FnName(sites[j].fn) {
			return c.FnName(sites[i].fn) < c.FnName(sites[j].fn)
		}
		return sites[i].in.Pos() < sites[j].in.Pos()
	})
	for _, s := range sites {
		name := c.FnName(s.fn)
		what := s.kind + " over map"
		pos := c.Pos(s.in.Pos())
		top := s.fn
		for top.Parent() != nil {
			top = top.Parent()
		}
		if !claimed[s.fn] && !claimed[top] {
			cls, why := classifySite(c, e, s)
			r.Trivial("R09i", name, what, pos, "outside NewFrom/Merge/Unpack: "+cls+" ("+why+")")
			continue
		}
		r.Analysed["map-iteration sites on the claimed paths"]++
		cls, why := classifySite(c, e, s)
		switch cls {
		case "sorted", "independent", "accumulate-then-sort", "no loop":
			r.OK("R09a", name, what, pos, cls+": "+why)
		default:
			r.Bad("R09a", name, what, pos, "the order in which the runtime enumerates this map can change the outcome: "+why)
		}
	}
}

func classifySite(c *Ctx, e *E1, s mapSite) (string, string) {
	if s.sorted {
		return "sorted", "the keys are sorted before the loop"
	}
	if s.loop == nil {
		return "no loop", "the iterator is not used in a loop"
	}
	hdr := loopHeader(s.loop)
	// (i) loop-carried values
	var carried []*ssa.Phi
	for b := range s.loop {
		for _, in := range b.Instrs {
			phi, ok := in.(*ssa.Phi)
			if !ok {
				break
			}
			if b != hdr {
				continue
			}
			// the index into the iterated key slice is the iterator
			if s.keys != nil && isRangeIndex(phi) && indexesKeys(phi, s) {
				continue
			}
			// a map made on first use (`if m == nil { m = map… }`): the same map from then on, whatever key comes first
			if lazyMapPhi(phi, s.loop) {
				continue
			}
			carried = append(carried, phi)
		}
	}
	// accumulate-then-sort: carried slices only appended to, sorted after the loop in this function
	accOK := len(carried) > 0
	for _, phi := range carried {
		// a fill position: the counter only says where in a slice the next key goes, and that slice is sorted after
		// the loop (keys[n] = k; n++ … sort.Strings(keys))
		if fillPosition(phi, s) {
			continue
		}
		if _, isSlice := phi.Type().Underlying().(*types.Slice); !isSlice {
			accOK = false
			continue
		}
		for i, ed := range phi.Edges {
			if !s.loop[phi.Block().Preds[i]] {
				continue // the value the accumulator has before the loop
			}
			if call, ok := ed.(*ssa.Call); ok && BuiltinName(call) == "append" && flowsFromPhi(call.Call.Args[0], phi, map[ssa.Value]bool{}) {
				continue
			}
			if _, ok := ed.(*ssa.Const); ok {
				continue
			}
			if ed == ssa.Value(phi) {
				continue
			}
			if p2, ok := ed.(*ssa.Phi); ok && s.loop[p2.Block()] {
				continue
			}
			accOK = false
		}
		sortedAfter := false
		for _, ci := range CallsIn(s.fn, false) {
			g := ci.Common().StaticCallee()
			if g == nil || g.Pkg == nil || g.Pkg.Pkg.Path() != "sort" || s.loop[ci.(ssa.Instruction).Block()] {
				continue
			}
			for _, a := range ci.Common().Args {
				if flowsFromPhi(a, phi, map[ssa.Value]bool{}) {
					sortedAfter = true
				}
			}
		}
		if !sortedAfter {
			accOK = false
		}
	}
	if !accOK && len(carried) > 0 {
		var ns []string
		for _, p := range carried {
			ns = append(ns, p.Comment+" "+typeStr(p.Type()))
		}
		return "order-dependent", "the loop carries a value from one iteration to the next (" + strings.Join(ns, ", ") + ") and does not sort it afterwards"
	}
	// (i') early exits: which iteration stops the loop depends on the enumeration order
	for b := range s.loop {
		for _, succ := range b.Succs {
			if s.loop[succ] || b == hdr {
				continue
			}
			if exitIsPanic(succ) {
				continue
			}
			return "order-dependent", "the loop can stop early (exit at " + c.Pos(lastPos(b)) + "): with more than one key that stops it, the enumeration order picks the outcome — iterate over sorted keys"
		}
	}
	// (ii) effects of the body
	perKey := func(v ssa.Value) bool { return derivesFromKey(v, s, 0) }
	for b := range s.loop {
		for _, in := range b.Instrs {
			switch x := in.(type) {
			case *ssa.Store:
				if ok, why := addrIndependent(e, x.Addr, s, perKey); !ok {
					return "order-dependent", "a store in the loop body writes shared state: " + why + " at " + c.Pos(x.Pos())
				}
			case *ssa.MapUpdate:
				if !(x.Key == s.key || perKey(x.Key)) {
					if ok, why := addrIndependent(e, x.Map, s, perKey); !ok {
						return "order-dependent", "a map is updated under a key that is not the loop key: " + why + " at " + c.Pos(x.Pos())
					}
				}
			case ssa.CallInstruction:
				if ok, why := callIndependent(c, e, x, s, perKey); !ok {
					return "order-dependent", why + " at " + c.Pos(x.Pos())
				}
			}
		}
	}
	if accOK {
		return "accumulate-then-sort", "carried slices are only appended to and sorted after the loop; no early exit; no other shared effect"
	}
	return "independent", "no carried value, no early exit; every effect of the body is on fresh objects, the per-call options, per-key values or keyed accessors"
}

// fillPosition: phi is an integer advanced by one per iteration whose only other use is as the index of stores
// into one slice, and that slice is handed to package sort after the loop.
func fillPosition(phi *ssa.Phi, s mapSite) bool {
	if bt, ok := phi.Type().Underlying().(*types.Basic); !ok || bt.Info()&types.IsInteger == 0 {
		return false
	}
	refs := phi.Referrers()
	if refs == nil {
		return false
	}
	var target ssa.Value
	for _, ref := range *refs {
		switch x := ref.(type) {
		case *ssa.BinOp:
			k, isK := ConstInt(x.Y)
			if x.Op != token.ADD || x.X != ssa.Value(phi) || !isK || k != 1 {
				return false
			}
			// the sum only feeds the counter
			if xr := x.Referrers(); xr != nil {
				for _, r2 := range *xr {
					if p2, isPhi := r2.(*ssa.Phi); !isPhi || p2 != phi {
						return false
					}
				}
			}
		case *ssa.IndexAddr:
			if x.Index != ssa.Value(phi) {
				return false
			}
			if target != nil && target != x.X {
				return false
			}
			target = x.X
			if xr := x.Referrers(); xr != nil {
				for _, r2 := range *xr {
					if st, isSt := r2.(*ssa.Store); !isSt || st.Addr != ssa.Value(x) {
						return false
					}
				}
			}
		case *ssa.DebugRef:
		default:
			return false
		}
	}
	if target == nil {
		return false
	}
	for _, ci := range CallsIn(s.fn, false) {
		g := ci.Common().StaticCallee()
		if g == nil || g.Pkg == nil || g.Pkg.Pkg.Path() != "sort" || s.loop[ci.(ssa.Instruction).Block()] {
			continue
		}
		for _, a := range ci.Common().Args {
			if a == target {
				return true
			}
			for _, src := range Sources(a) {
				if src == target {
					return true
				}
			}
		}
	}
	return false
}

// lazyMapPhi: a loop-carried map that is only ever replaced by a fresh map while it is still nil.
func lazyMapPhi(phi *ssa.Phi, loop map[*ssa.BasicBlock]bool) bool {
	if _, isMap := phi.Type().Underlying().(*types.Map); !isMap {
		return false
	}
	seen := map[ssa.Value]bool{phi: true}
	var leafOK func(v ssa.Value) bool
	leafOK = func(v ssa.Value) bool {
		if seen[v] {
			return true
		}
		seen[v] = true
		switch x := v.(type) {
		case *ssa.Phi:
			if !loop[x.Block()] {
				return false
			}
			for _, e := range x.Edges {
				if !leafOK(e) {
					return false
				}
			}
			return true
		case *ssa.MakeMap:
			for _, cd := range ExpandConds(DomConds(x.Block())) {
				bo, ok := cd.V.(*ssa.BinOp)
				if !ok {
					continue
				}
				isNilTest := bo.Op == token.EQL && cd.Truth || bo.Op == token.NEQ && !cd.Truth
				if isNilTest && (bo.X == ssa.Value(phi) && IsNilConst(bo.Y) || bo.Y == ssa.Value(phi) && IsNilConst(bo.X)) {
					return true
				}
			}
			return false
		}
		return false
	}
	for i, ed := range phi.Edges {
		if !loop[phi.Block().Preds[i]] {
			continue
		}
		if !leafOK(ed) {
			return false
		}
	}
	return true
}

// flowsFromPhi: v is phi, or computed from it by phis, appends to it, re-slicing or interface boxing.
func flowsFromPhi(v ssa.Value, phi *ssa.Phi, seen map[ssa.Value]bool) bool {
	if v == ssa.Value(phi) {
		return true
	}
	if seen[v] {
		return false
	}
	seen[v] = true
	switch x := v.(type) {
	case *ssa.Phi:
		for _, e := range x.Edges {
			if flowsFromPhi(e, phi, seen) {
				return true
			}
		}
	case *ssa.Call:
		if BuiltinName(x) == "append" {
			return flowsFromPhi(x.Call.Args[0], phi, seen)
		}
	case *ssa.Slice:
		return flowsFromPhi(x.X, phi, seen)
	case *ssa.MakeInterface:
		return flowsFromPhi(x.X, phi, seen)
	case *ssa.ChangeType:
		return flowsFromPhi(x.X, phi, seen)
	}
	return false
}

// indexesKeys: phi (or phi+1, the rotated form) is used as the index into the site's key slice.
func indexesKeys(phi *ssa.Phi, s mapSite) bool {
	found := false
	Instrs(s.fn, false, func(in ssa.Instruction) {
		ia, ok := in.(*ssa.IndexAddr)
		if !ok {
			return
		}
		isKeys := false
		for _, src := range Sources(ia.X) {
			if src == s.keys {
				isKeys = true
			}
		}
		if !isKeys {
			return
		}
		if ia.Index == ssa.Value(phi) {
			found = true
		}
		if b, ok := ia.Index.(*ssa.BinOp); ok && b.Op == token.ADD && b.X == ssa.Value(phi) {
			found = true
		}
	})
	return found
}

func exitIsPanic(b *ssa.BasicBlock) bool {
	if len(b.Instrs) == 0 {
		return false
	}
	_, ok := b.Instrs[len(b.Instrs)-1].(*ssa.Panic)
	return ok
}

func lastPos(b *ssa.BasicBlock) token.Pos {
	for i := len(b.Instrs) - 1; i >= 0; i-- {
		if p := b.Instrs[i].Pos(); p.IsValid() {
			return p
		}
	}
	return token.NoPos
}

func isRangeIndex(phi *ssa.Phi) bool {
	// phi(-1, phi+1) of a rangeindex loop, or the counter of `for i := 0; i < n; i++`
	for _, ed := range phi.Edges {
		if b, ok := ed.(*ssa.BinOp); ok && b.Op == token.ADD && b.X == ssa.Value(phi) {
			if k, ok := ConstInt(b.Y); ok && k == 1 {
				return true
			}
		}
	}
	return false
}

// derivesFromKey: v is the loop key/value or computed from them (incl. results of keyed accessors).
func derivesFromKey(v ssa.Value, s mapSite, d int) bool {
	if v == nil || d > 8 {
		return false
	}
	if v == s.key || v == s.val {
		return true
	}
	for _, src := range Sources(v) {
		if src == s.key || src == s.val {
			return true
		}
		switch x := src.(type) {
		case *ssa.Extract:
			if call, ok := x.Tuple.(*ssa.Call); ok && keyedCall(call, s, d) {
				return true
			}
			if nx, ok := x.Tuple.(*ssa.Next); ok && s.in == ssa.Instruction(nx.Iter.(ssa.Instruction)) {
				return true
			}
		case *ssa.Call:
			if keyedCall(x, s, d) {
				return true
			}
		case *ssa.UnOp:
			// load of a local holding a per-key value, or element &keys[i] of the iterated key slice
			if ia, ok := x.X.(*ssa.IndexAddr); ok && s.keys != nil {
				for _, s2 := range Sources(ia.X) {
					if s2 == s.keys {
						return true
					}
				}
			}
		case *ssa.MakeInterface:
			if derivesFromKey(x.X, s, d+1) {
				return true
			}
		}
	}
	return false
}

// keyedCall: a call one of whose arguments is (derived from) the loop key or value: its result is per-key.
func keyedCall(call *ssa.Call, s mapSite, d int) bool {
	for _, a := range call.Call.Args {
		if a == s.key || a == s.val || derivesFromKey(a, s, d+1) {
			return true
		}
	}
	if call.Call.IsInvoke() && (call.Call.Value == s.val || derivesFromKey(call.Call.Value, s, d+1)) {
		return true
	}
	return false
}

// addrIndependent: the address written is a local of the function, an object allocated in the
// function, the per-call options, or a per-key object.
func addrIndependent(e *E1, addr ssa.Value, s mapSite, perKey func(ssa.Value) bool) (bool, string) {
	if localRoot(addr) != nil {
		return true, ""
	}
	// walk to the base
	base := addr
	for i := 0; i < 10; i++ {
		switch x := base.(type) {
		case *ssa.FieldAddr:
			base = x.X
			continue
		case *ssa.IndexAddr:
			base = x.X
			continue
		}
		break
	}
	if localRoot(base) != nil {
		return true, ""
	}
	if isNamed(base.Type(), modPath, "options") {
		return true, ""
	}
	if perKey(base) {
		return true, ""
	}
	if ok, _ := e.IsFresh(base, nil); ok {
		return true, ""
	}
	return false, "the written object (" + base.Name() + " " + typeStr(base.Type()) + ") is neither local, fresh, per-key nor the per-call options"
}

var keyedAccessors = map[string]int{ // method -> index of the key argument
	"(*github.com/elastic/go-ucfg.fields).get": 1, "(*github.com/elastic/go-ucfg.fields).set": 1, "(*github.com/elastic/go-ucfg.fields).del": 1,
	"(reflect.Value).MapIndex": 1, "(reflect.Value).SetMapIndex": 1,
}

func callIndependent(c *Ctx, e *E1, ci ssa.CallInstruction, s mapSite, perKey func(ssa.Value) bool) (bool, string) {
	cc := ci.Common()
	if b := BuiltinName(ci); b != "" {
		if b == "delete" || b == "copy" {
			return false, "builtin " + b + " on shared state in the loop body"
		}
		return true, ""
	}
	if f := cc.StaticCallee(); f != nil {
		if ki, ok := keyedAccessors[f.String()]; ok {
			if ki < len(cc.Args) && (cc.Args[ki] == s.key || perKey(cc.Args[ki])) {
				return true, ""
			}
			return false, "the destination is accessed through " + f.Name() + " with a key that is not the loop key"
		}
	}
	callees := c.Callees(ci)
	for _, g := range callees {
		sum := e.Summary(g)
		if sum == nil {
			continue // library / external: reads its arguments (E1 assumption)
		}
		if sum.gmod != nil {
			return false, "the loop body writes package-level state through " + c.FnName(g)
		}
		for sl := range sum.mods {
			pi := slotIdx(sl)
			var arg ssa.Value
			if cc.IsInvoke() {
				if pi == 0 {
					arg = cc.Value
				} else if pi-1 < len(cc.Args) {
					arg = cc.Args[pi-1]
				}
			} else if pi < len(cc.Args) {
				arg = cc.Args[pi]
			}
			if arg == nil {
				continue // free variable of a closure: local state of the function
			}
			if isNamed(arg.Type(), modPath, "options") || isNamed(arg.Type(), modPath, "fieldOptions") {
				continue
			}
			if perKey(arg) {
				continue
			}
			if ok, _ := e.IsFresh(arg, nil); ok {
				continue
			}
			if localRoot(arg) != nil {
				continue
			}
			return false, fmt.Sprintf("the loop body modifies shared state through %s (argument %s, %s): iterations are not independent of each other", c.FnName(g), arg.Name(), typeStr(arg.Type()))
		}
	}
	return true, ""
}

// sameReflectValue: a and b denote the same reflect.Value (same SSA value, or loads of the same local).
func sameReflectValue(a, b ssa.Value) bool {
	if a == b {
		return true
	}
	if SameValue(a, b) {
		return true
	}
	sa, sb := Sources(a), Sources(b)
	if len(sa) == 1 && len(sb) == 1 && sa[0] == sb[0] {
		return true
	}
	return false
}

// valueStringRule: reflect.Value.String on a value that is not known to be a string yields the
// constant "<T Value>" placeholder — as a sort key it makes all keys equal (the order falls back to
// the runtime's enumeration order), as a key name it merges all keys into one. Interface-keyed maps
// (what the YAML front-end produces) are where it differs from string-keyed ones.
func valueStringRule(c *Ctx, r *Report, rule string) {
	kt, _ := reflectKind(c)
	var stringKind int64 = 24
	for _, fn := range c.SrcFuncs() {
		if fn.Pkg != c.SSA[""] {
			continue
		}
		for _, ci := range CallsIn(fn, false) {
			g := ci.Common().StaticCallee()
			if g == nil || g.String() != "(reflect.Value).String" {
				continue
			}
			recv := ci.Common().Args[0]
			ok := false
			why := "dominated by Kind() == String on the same value"
			for _, cd := range DomConds(ci.(ssa.Instruction).Block()) {
				tag, k, isTest := enumTest(cd.V, kt)
				if !isTest || k != stringKind {
					continue
				}
				eq := cd.V.(*ssa.BinOp).Op == token.EQL
				if eq != cd.Truth {
					continue // the fact is kind != String
				}
				if kc, isCall := tag.(*ssa.Call); isCall {
					if kf := kc.Call.StaticCallee(); kf != nil && kf.String() == "(reflect.Value).Kind" && sameReflectValue(kc.Call.Args[0], recv) {
						ok = true
					}
				}
			}
			// a key handed out by M.MapKeys() has the kind of M's key type: M.Type().Key().Kind() == String
			// established in front of the call says the same about every key
			if m := mapKeysOrigin(recv); !ok && m != nil {
				for _, cd := range DomConds(ci.(ssa.Instruction).Block()) {
					tag, k, isTest := enumTest(cd.V, kt)
					if !isTest || k != stringKind || (cd.V.(*ssa.BinOp).Op == token.EQL) != cd.Truth {
						continue
					}
					if keyKindOf(tag, m) {
						ok = true
						why = "a key from MapKeys() of a map whose key type's kind was tested to be String"
					}
				}
			}
			r.Analysed["reflect.Value.String calls"]++
			r.Check(ok, rule, c.FnName(fn), "Value.String on a string", c.Pos(ci.Pos()), why,
				"reflect.Value.String() is called on a value whose kind is not known to be String: for any other kind (an interface-typed map key as produced by the YAML front-end, say) it returns the constant placeholder \"<T Value>\" instead of the text")
		}
	}
}

// mapKeysOrigin: v is an element of the slice some M.MapKeys() returned (read by index, directly or through a
// local that is assigned that result and nothing else) — the map value M, otherwise nil.
func mapKeysOrigin(v ssa.Value) ssa.Value {
	ld, ok := v.(*ssa.UnOp)
	if !ok || ld.Op != token.MUL {
		return nil
	}
	ia, ok := ld.X.(*ssa.IndexAddr)
	if !ok {
		return nil
	}
	sl := ia.X
	if l2, isLoad := sl.(*ssa.UnOp); isLoad && l2.Op == token.MUL {
		al, isAlloc := l2.X.(*ssa.Alloc)
		if !isAlloc || al.Referrers() == nil {
			return nil
		}
		var stored ssa.Value
		n := 0
		for _, ref := range *al.Referrers() {
			switch x := ref.(type) {
			case *ssa.Store:
				if x.Addr != al {
					return nil // the address itself escapes
				}
				stored = x.Val
				n++
			case *ssa.UnOp, *ssa.DebugRef:
			case *ssa.MakeClosure:
				// captured: the closure must not assign it
				for i, b := range x.Bindings {
					if b != al {
						continue
					}
					fv := x.Fn.(*ssa.Function).FreeVars[i]
					if fv.Referrers() != nil {
						for _, fr := range *fv.Referrers() {
							if st, isSt := fr.(*ssa.Store); isSt && st.Addr == fv {
								return nil
							}
							if _, isLd := fr.(*ssa.UnOp); !isLd {
								if _, isDbg := fr.(*ssa.DebugRef); !isDbg {
									return nil
								}
							}
						}
					}
				}
			default:
				return nil
			}
		}
		if n != 1 {
			return nil
		}
		sl = stored
	}
	call, ok := sl.(*ssa.Call)
	if !ok {
		return nil
	}
	if g := call.Call.StaticCallee(); g == nil || g.String() != "(reflect.Value).MapKeys" {
		return nil
	}
	return call.Call.Args[0]
}

// keyKindOf: tag is M.Type().Key().Kind() for the reflect value m.
func keyKindOf(tag, m ssa.Value) bool {
	kc, ok := tag.(*ssa.Call)
	if !ok || !kc.Call.IsInvoke() || kc.Call.Method.Name() != "Kind" {
		return false
	}
	key, ok := kc.Call.Value.(*ssa.Call)
	if !ok || !key.Call.IsInvoke() || key.Call.Method.Name() != "Key" {
		return false
	}
	ty, ok := key.Call.Value.(*ssa.Call)
	if !ok {
		return false
	}
	if g := ty.Call.StaticCallee(); g == nil || g.String() != "(reflect.Value).Type" {
		return false
	}
	return sameReflectValue(ty.Call.Args[0], m)
}

// injectiveSortKey: "" if the comparator operand is the slice element itself or mapKeyString of it
// (whose alternatives are the text of a string key and fmt.Sprint of anything else), otherwise why not.
// lexicographicLess: lf(a, b) compares a first key and, when that ties, a second one that tells keys of different
// types apart: `if k1(a) != k1(b) { return k1(a) < k1(b) }; return k2(a) < k2(b)` with k2 built on the key's Type().
func lexicographicLess(c *Ctx, lf *ssa.Function) (bool, string) {
	b := newNF(c)
	b.Role(lf.Params[0], "a")
	b.Role(lf.Params[1], "b")
	levels := 0
	typed := false
	for _, ret := range Returns(lf) {
		n := b.Of(ret.Results[0])
		if n.op != "bin" || n.name != "<" || strings.ReplaceAll(n.args[0].String(), "$a", "$b") != n.args[1].String() || !strings.Contains(n.args[0].String(), "$a") {
			return false, "a return is not key(a) < key(b) with one key function for both sides: " + clip(n.String(), 160)
		}
		levels++
		if strings.Contains(n.args[0].String(), "Type(") {
			typed = true
		}
	}
	switch {
	case levels < 2:
		return false, "one key only, no tie-break"
	case !typed:
		return false, "no level compares the keys' types: keys of different types that spell the same name still tie"
	}
	// the first level is returned only when it differs
	guarded := false
	for _, ret := range Returns(lf) {
		for _, cd := range DomConds(ret.Block()) {
			if bo, ok := cd.V.(*ssa.BinOp); ok && (bo.Op == token.NEQ && cd.Truth || bo.Op == token.EQL && !cd.Truth) {
				guarded = true
			}
		}
	}
	if !guarded {
		return false, "the first key is not tested for a tie"
	}
	return true, fmt.Sprintf("%d levels, the last on the key's type", levels)
}

func injectiveSortKey(n *nf) string {
	alts := []*nf{n}
	if n.op == "alt" {
		alts = n.args
	}
	for _, a := range alts {
		s := a.String()
		switch {
		case a.op == "call" && a.name == "index" && len(a.args) == 2 && a.args[1].String() == "$i":
			// the element itself
		case strings.HasPrefix(s, "(reflect.Value).String("+modPath+".chaseValueInterfaces(index(") && strings.HasSuffix(s, ", $i)))"),
			strings.HasPrefix(s, "fmt.Sprint(") && strings.Contains(s, "(reflect.Value).Interface("+modPath+".chaseValueInterfaces(index("):
			// mapKeyString alone: the text of a key does not tell keys of different types apart — "a" and a named
			// string type holding "a" are two keys of a map[interface{}]T that compare equal
			return "the sort key is the text of the map key (mapKeyString) alone: two keys of an interface keyed map that spell the same name tie, and their order is left to the runtime — a tie-break (the key's type) is needed"
		default:
			return "the sort key " + clip(s, 120) + " is not the element itself (or its text): different keys can compare equal, and sort.Slice is not stable"
		}
	}
	return ""
}

// keyedAccessorRule (R09e): R09a classifies a loop over a map as independent of the enumeration order when its body
// reaches the destination only through fields.get / set / del with the loop's own key — trusting that those accessors
// touch nothing but the entry of that key. The trust is an obligation of its own: in their bodies every write through
// the receiver is a map update or delete under the key parameter, or the creation of the map itself. An accessor that
// also records the order of its calls (a list of names appended to on every new key) turns every unsorted loop that
// uses it — cfgSub.cpy copies a dictionary with `range` — into a source of enumeration order.
func keyedAccessorRule(c *Ctx, r *Report) {
	r.Rule("R09e", "the keyed accessors of a node (fields.get, set, del) write nothing but the map entry of their key argument (and the map itself when it is created): no effect of theirs depends on the order of the calls", 3)
	for _, mname := range []string{"get", "set", "del"} {
		fn := c.Method("", "fields", mname)
		name := c.FnName(fn)
		if len(fn.Params) < 2 {
			r.add("R09e", name, "effects keyed", c.Pos(fn.Pos()), Undecided, true, "accessor without a key parameter")
			continue
		}
		recv, key := fn.Params[0], fn.Params[1]
		bad := ""
		derivesFromRecv := func(v ssa.Value) bool {
			p, ok := AccessPath(v)
			return ok && (p == recv.Name() || strings.HasPrefix(p, recv.Name()+"."))
		}
		Instrs(fn, false, func(in ssa.Instruction) {
			switch x := in.(type) {
			case *ssa.MapUpdate:
				if x.Key != ssa.Value(key) {
					bad = "a map entry is written under a key that is not the key argument at " + c.Pos(x.Pos())
				}
			case *ssa.Store:
				if !derivesFromRecv(x.Addr) {
					return
				}
				if _, isMake := x.Val.(*ssa.MakeMap); isMake {
					return
				}
				bad = "a field of the node is written at " + c.Pos(x.Pos()) + " (" + x.Val.String() + "): state besides the entry of the key"
			case ssa.CallInstruction:
				if b := BuiltinName(x); b == "delete" {
					if x.Common().Args[1] != ssa.Value(key) {
						bad = "delete under a key that is not the key argument at " + c.Pos(x.Pos())
					}
					return
				} else if b != "" {
					if b == "append" || b == "copy" {
						bad = "builtin " + b + " at " + c.Pos(x.Pos()) + ": a list kept next to the map records the order of the calls"
					}
					return
				}
				if g := x.Common().StaticCallee(); g != nil && g.Pkg == fn.Pkg {
					for _, a := range x.Common().Args {
						if derivesFromRecv(a) {
							bad = "the node is handed to " + g.Name() + " at " + c.Pos(x.Pos()) + ": effects outside the accessor are not keyed by construction"
						}
					}
				}
			}
		})
		r.Check(bad == "", "R09e", name, "effects keyed", c.Pos(fn.Pos()), "map update/delete under the key argument only",
			"R09a trusts this accessor to touch only the entry of its key, but "+bad+" — loops that enumerate a map in runtime order and store through it (the copy of a dictionary) then leave a trace of that order")
	}
}
