package main

// SSA helpers shared by the rules: instruction walks, callee matching, dominating branch
// conditions with polarity, backward value slices and access paths.

import (
	"fmt"
	"go/constant"
	"go/token"
	"go/types"
	"sort"
	"strings"

	"golang.org/x/tools/go/ssa"
)

// Instrs calls f for every instruction of fn and (if deep) of its anonymous functions.
func Instrs(fn *ssa.Function, deep bool, f func(ssa.Instruction)) {
	for _, b := range fn.Blocks {
		for _, in := range b.Instrs {
			f(in)
		}
	}
	if deep {
		for _, a := range fn.AnonFuncs {
			Instrs(a, true, f)
		}
	}
}

// WithAnon returns fn and all its (transitively) nested anonymous functions.
func WithAnon(fn *ssa.Function) []*ssa.Function {
	out := []*ssa.Function{fn}
	for _, a := range fn.AnonFuncs {
		out = append(out, WithAnon(a)...)
	}
	return out
}

// CallsIn lists call instructions (call, go, defer) in fn.
func CallsIn(fn *ssa.Function, deep bool) []ssa.CallInstruction {
	var out []ssa.CallInstruction
	Instrs(fn, deep, func(in ssa.Instruction) {
		if ci, ok := in.(ssa.CallInstruction); ok {
			out = append(out, ci)
		}
	})
	return out
}

// IsCallTo reports whether the site statically calls target (function, or method through a bound/static call).
func IsCallTo(site ssa.CallInstruction, target *ssa.Function) bool {
	if target == nil {
		return false
	}
	f := site.Common().StaticCallee()
	return f != nil && (f == target || f.Origin() == target)
}

// CallsTo lists the call sites in fn (deep) that statically call target.
func CallsTo(fn *ssa.Function, target *ssa.Function, deep bool) []ssa.CallInstruction {
	var out []ssa.CallInstruction
	for _, ci := range CallsIn(fn, deep) {
		if IsCallTo(ci, target) {
			out = append(out, ci)
		}
	}
	return out
}

// IsInvokeOf reports whether site is an interface method call of method name on interface type iface.
func IsInvokeOf(site ssa.CallInstruction, name string) bool {
	cc := site.Common()
	return cc.IsInvoke() && cc.Method.Name() == name
}

// CalleeName returns a printable callee for diagnostics.
func CalleeName(c *Ctx, site ssa.CallInstruction) string {
	cc := site.Common()
	if cc.IsInvoke() {
		return "(" + types.TypeString(cc.Value.Type(), shortQual) + ")." + cc.Method.Name()
	}
	if f := cc.StaticCallee(); f != nil {
		return c.FnName(f)
	}
	if b, ok := cc.Value.(*ssa.Builtin); ok {
		return b.Name()
	}
	return "dynamic:" + cc.Value.Name()
}

func shortQual(p *types.Package) string { return p.Name() }

// BuiltinName returns the builtin called at site, or "".
func BuiltinName(site ssa.CallInstruction) string {
	if b, ok := site.Common().Value.(*ssa.Builtin); ok {
		return b.Name()
	}
	return ""
}

// ---- dominating conditions -------------------------------------------------

// Cond is a branch condition known to hold (Value == Truth) on entry to some block.
type Cond struct {
	V     ssa.Value
	Truth bool
	If    *ssa.If
}

// DomConds returns the branch conditions that hold whenever block b is entered: for every
// dominator D ending in an If, if exactly one successor edge of D dominates b (the successor
// dominates b and has D as its only predecessor), the corresponding polarity is recorded.
func DomConds(b *ssa.BasicBlock) []Cond {
	var out []Cond
	for d := b.Idom(); d != nil; d = d.Idom() {
		if len(d.Instrs) == 0 {
			continue
		}
		ifi, ok := d.Instrs[len(d.Instrs)-1].(*ssa.If)
		if !ok {
			continue
		}
		t, f := d.Succs[0], d.Succs[1]
		if t == f {
			continue
		}
		td := edgeDominates(d, t, b)
		fd := edgeDominates(d, f, b)
		if td && !fd {
			out = append(out, Cond{ifi.Cond, true, ifi})
		} else if fd && !td {
			out = append(out, Cond{ifi.Cond, false, ifi})
		}
	}
	return out
}

// edgeDominates: does every path to b go through the edge d->s?
func edgeDominates(d, s, b *ssa.BasicBlock) bool {
	if !s.Dominates(b) {
		return false
	}
	// s must only be entered through d, or through predecessors that s itself dominates (loop back edges).
	for _, p := range s.Preds {
		if p == d {
			continue
		}
		if !s.Dominates(p) {
			return false
		}
	}
	return true
}

// InstrDominates reports whether instruction a is executed before b on every path reaching b.
func InstrDominates(a, b ssa.Instruction) bool {
	ba, bb := a.Block(), b.Block()
	if ba == bb {
		for _, in := range ba.Instrs {
			if in == a {
				return true
			}
			if in == b {
				return false
			}
		}
		return false
	}
	return ba.Dominates(bb)
}

// ---- constants -------------------------------------------------------------

func IsNilConst(v ssa.Value) bool {
	k, ok := v.(*ssa.Const)
	return ok && k.Value == nil
}

func ConstBool(v ssa.Value) (bool, bool) {
	k, ok := v.(*ssa.Const)
	if !ok || k.Value == nil || k.Value.Kind() != constant.Bool {
		return false, false
	}
	return constant.BoolVal(k.Value), true
}

func ConstInt(v ssa.Value) (int64, bool) {
	k, ok := v.(*ssa.Const)
	if !ok || k.Value == nil || k.Value.Kind() != constant.Int {
		return 0, false
	}
	i, ok := constant.Int64Val(k.Value)
	return i, ok
}

func ConstString(v ssa.Value) (string, bool) {
	k, ok := v.(*ssa.Const)
	if !ok || k.Value == nil || k.Value.Kind() != constant.String {
		return "", false
	}
	return constant.StringVal(k.Value), true
}

// ---- backward slice ----------------------------------------------------------

// Sources follows value-preserving instructions backwards from v and returns the terminal
// values it may come from: parameters, constants, calls (or Extracts of calls), loads from
// fields/elements/globals, allocations, closures ... Loads from local variables (Alloc) are
// followed through every store to that variable in the enclosing function and its closures;
// free variables are followed to their bindings.
func Sources(v ssa.Value) []ssa.Value {
	seen := map[ssa.Value]bool{}
	var out []ssa.Value
	var visit func(v ssa.Value)
	term := func(v ssa.Value) {
		out = append(out, v)
	}
	visit = func(v ssa.Value) {
		if v == nil || seen[v] {
			return
		}
		seen[v] = true
		switch x := v.(type) {
		case *ssa.Phi:
			for _, e := range x.Edges {
				visit(e)
			}
		case *ssa.ChangeType:
			visit(x.X)
		case *ssa.ChangeInterface:
			visit(x.X)
		case *ssa.Convert:
			visit(x.X)
		case *ssa.MakeInterface:
			visit(x.X)
		case *ssa.Slice:
			visit(x.X)
		case *ssa.TypeAssert:
			visit(x.X)
		case *ssa.Extract:
			switch t := x.Tuple.(type) {
			case *ssa.TypeAssert:
				if x.Index == 0 {
					visit(t.X)
				} else {
					term(v)
				}
			default:
				term(v)
			}
		case *ssa.UnOp:
			if x.Op == token.MUL {
				if vals, ok := localStores(x.X); ok {
					if len(vals) == 0 {
						term(v)
					}
					for _, s := range vals {
						visit(s)
					}
					return
				}
			}
			term(v)
		case *ssa.FreeVar:
			if b := freeVarBinding(x); b != nil {
				visit(b)
			} else {
				term(v)
			}
		case *ssa.Call:
			if BuiltinName(x) == "append" {
				for _, a := range x.Call.Args {
					visit(a)
				}
				return
			}
			term(v)
		default:
			term(v)
		}
	}
	visit(v)
	return out
}

// freeVarBinding returns the value bound to fv at the (unique) MakeClosure of its function.
func freeVarBinding(fv *ssa.FreeVar) ssa.Value {
	fn := fv.Parent()
	idx := -1
	for i, f := range fn.FreeVars {
		if f == fv {
			idx = i
		}
	}
	if idx < 0 || fn.Parent() == nil {
		return nil
	}
	var bound ssa.Value
	n := 0
	Instrs(fn.Parent(), false, func(in ssa.Instruction) {
		if mc, ok := in.(*ssa.MakeClosure); ok && mc.Fn == fn {
			bound = mc.Bindings[idx]
			n++
		}
	})
	if n != 1 {
		return nil
	}
	return bound
}

// localRoot resolves addr to the Alloc of a local variable, looking through free variables.
func localRoot(addr ssa.Value) *ssa.Alloc {
	for i := 0; i < 8; i++ {
		switch x := addr.(type) {
		case *ssa.Alloc:
			return x
		case *ssa.FreeVar:
			b := freeVarBinding(x)
			if b == nil {
				return nil
			}
			addr = b
		default:
			return nil
		}
	}
	return nil
}

// localStores returns every value stored into the local variable addr refers to (in the defining
// function and every closure capturing it). ok=false if addr is not a local variable or if its
// address escapes other than by closure capture (then the variable's contents are unknown).
func localStores(addr ssa.Value) ([]ssa.Value, bool) {
	root := localRoot(addr)
	if root == nil {
		return nil, false
	}
	var vals []ssa.Value
	ok := true
	var walk func(a ssa.Value)
	walk = func(a ssa.Value) {
		refs := a.Referrers()
		if refs == nil {
			return
		}
		for _, r := range *refs {
			switch in := r.(type) {
			case *ssa.Store:
				if in.Addr == a {
					vals = append(vals, in.Val)
				} else {
					ok = false // the address itself is stored somewhere
				}
			case *ssa.UnOp:
				// load
			case *ssa.MakeClosure:
				for i, b := range in.Bindings {
					if b == a {
						walk(in.Fn.(*ssa.Function).FreeVars[i])
					}
				}
			case *ssa.DebugRef:
			case *ssa.FieldAddr, *ssa.IndexAddr:
				// reading a component is a read; writing one (or leaking its address) makes the
				// variable's content unknown
				if !onlyRead(in.(ssa.Value)) {
					ok = false
				}
			case ssa.CallInstruction:
				// address passed to a call: the callee may assign through it — unless it only reads
				if calleeOnlyReads(in, a) {
					continue
				}
				vals = append(vals, escapedThrough{in, a}.asValue())
			default:
				ok = false
			}
		}
	}
	walk(root)
	return vals, ok
}

// escapedThrough marks "assigned by a callee that received the variable's address"; it is
// represented in slices by the call instruction's value (or the Alloc for go/defer).
type escapedThrough struct {
	site ssa.CallInstruction
	a    ssa.Value
}

func (e escapedThrough) asValue() ssa.Value {
	if v := e.site.Value(); v != nil {
		return &addrTaken{Call: v, Addr: e.a}
	}
	return &addrTaken{Addr: e.a}
}

// addrTaken is a pseudo-value: the variable's address was handed to Call.
type addrTaken struct {
	ssa.Value
	Call *ssa.Call
	Addr ssa.Value
}

func (a *addrTaken) Name() string { return "addr-passed-to-call" }
func (a *addrTaken) String() string {
	if a.Call != nil {
		return "address passed to " + a.Call.String()
	}
	return "address passed to go/defer call"
}
func (a *addrTaken) Type() types.Type {
	if p, ok := a.Addr.Type().Underlying().(*types.Pointer); ok {
		return p.Elem()
	}
	return a.Addr.Type()
}
func (a *addrTaken) Referrers() *[]ssa.Instruction { return nil }
func (a *addrTaken) Pos() token.Pos                { return a.Addr.Pos() }
func (a *addrTaken) Parent() *ssa.Function         { return a.Addr.Parent() }

// ---- access paths ----------------------------------------------------------

// AccessPath gives a canonical name to values that read the same storage: parameter/receiver
// + field chain, or a local variable. Two loads with equal access paths read the same location
// (whether the content is unchanged between them is a separate question, see NoStoreBetween).
// The second result is false when v is not such a path (calls, arithmetic, ...).
func AccessPath(v ssa.Value) (string, bool) {
	switch x := v.(type) {
	case *ssa.Parameter:
		return x.Name(), true
	case *ssa.FreeVar:
		if b := freeVarBinding(x); b != nil {
			if p, ok := AccessPath(b); ok {
				return p, true
			}
		}
		return "free:" + x.Name(), true
	case *ssa.Alloc:
		// a parameter spilled to a local (address taken / captured): one whole store, of the parameter
		if vals, ok := localStores(x); ok && len(vals) == 1 {
			if prm, isP := vals[0].(*ssa.Parameter); isP {
				return "&" + prm.Name(), true
			}
		}
		return fmt.Sprintf("&local(%s@%p)", x.Comment, x), true
	case *ssa.Global:
		return "&global:" + x.Name(), true
	case *ssa.FieldAddr:
		p, ok := AccessPath(x.X)
		if !ok {
			return "", false
		}
		return "&" + strings.TrimPrefix(p, "&") + "." + fieldName(x.X.Type(), x.Field), true
	case *ssa.Field:
		p, ok := AccessPath(x.X)
		if !ok {
			return "", false
		}
		return p + "." + fieldName(x.X.Type(), x.Field), true
	case *ssa.UnOp:
		if x.Op != token.MUL {
			return "", false
		}
		// a parameter spilled to a local because a closure captures it: one store, of the parameter
		if root := localRoot(x.X); root != nil {
			if vals, ok := localStores(root); ok && len(vals) == 1 {
				if prm, isP := vals[0].(*ssa.Parameter); isP {
					return prm.Name(), true
				}
			}
		}
		p, ok := AccessPath(x.X)
		if !ok {
			return "", false
		}
		if strings.HasPrefix(p, "&") {
			return p[1:], true
		}
		return "*" + p, true
	case *ssa.ChangeType:
		return AccessPath(x.X)
	case *ssa.Extract, *ssa.TypeAssert, *ssa.Call, *ssa.Phi:
		// a register holding a pointer is immutable: components reached through it are storage paths
		if _, isPtr := v.Type().Underlying().(*types.Pointer); isPtr {
			return fmt.Sprintf("reg(%s@%p)", v.Name(), v), true
		}
	}
	return "", false
}

func fieldName(t types.Type, idx int) string {
	if p, ok := t.Underlying().(*types.Pointer); ok {
		t = p.Elem()
	}
	if st, ok := t.Underlying().(*types.Struct); ok && idx < st.NumFields() {
		return st.Field(idx).Name()
	}
	return fmt.Sprintf("f%d", idx)
}

// FieldOf reports the (struct type, field name) addressed by a FieldAddr or Field value.
func FieldOf(v ssa.Value) (*types.Named, string, bool) {
	var t types.Type
	var idx int
	switch x := v.(type) {
	case *ssa.FieldAddr:
		t, idx = x.X.Type(), x.Field
	case *ssa.Field:
		t, idx = x.X.Type(), x.Field
	default:
		return nil, "", false
	}
	if p, ok := t.Underlying().(*types.Pointer); ok {
		t = p.Elem()
	}
	n, _ := t.(*types.Named)
	if n == nil {
		if a, ok := t.(*types.Alias); ok {
			n, _ = types.Unalias(a).(*types.Named)
		}
	}
	return n, fieldName(t, idx), n != nil
}

// IsLoadOfField reports whether v is a load `x.f` of field fname of struct type named tname.
func IsLoadOfField(v ssa.Value, tname, fname string) bool {
	switch x := v.(type) {
	case *ssa.UnOp:
		if x.Op == token.MUL {
			if n, f, ok := FieldOf(x.X); ok {
				return n.Obj().Name() == tname && f == fname
			}
		}
	case *ssa.Field:
		if n, f, ok := FieldOf(x); ok {
			return n.Obj().Name() == tname && f == fname
		}
	}
	return false
}

// ---- type helpers ----------------------------------------------------------

func derefType(t types.Type) types.Type {
	if p, ok := t.Underlying().(*types.Pointer); ok {
		return p.Elem()
	}
	return t
}

func namedOf(t types.Type) *types.Named {
	t = types.Unalias(t)
	if p, ok := t.(*types.Pointer); ok {
		t = types.Unalias(p.Elem())
	}
	n, _ := t.(*types.Named)
	return n
}

func isNamed(t types.Type, pkgPath, name string) bool {
	n := namedOf(t)
	if n == nil || n.Obj().Pkg() == nil {
		return false
	}
	return n.Obj().Name() == name && n.Obj().Pkg().Path() == pkgPath
}

func typeStr(t types.Type) string { return types.TypeString(t, shortQual) }

func sortedKeys(m map[string]bool) []string {
	var out []string
	for k := range m {
		out = append(out, k)
	}
	sort.Strings(out)
	return out
}

// Returns lists the Return instructions of fn.
func Returns(fn *ssa.Function) []*ssa.Return {
	var out []*ssa.Return
	for _, b := range fn.Blocks {
		if len(b.Instrs) == 0 || b == fn.Recover {
			continue // the recover block only runs after a recovered panic
		}
		if r, ok := b.Instrs[len(b.Instrs)-1].(*ssa.Return); ok {
			out = append(out, r)
		}
	}
	return out
}

// reachableAvoiding: is block `to` reachable from `from` without passing through a block in avoid
// (from itself is not tested against avoid)?
func reachableAvoiding(from, to *ssa.BasicBlock, avoid map[*ssa.BasicBlock]bool) bool {
	return reachableFromEdge(nil, from, to, avoid) // edge sensitive, see thread.go
}

// RetVal resolves result #i of a return to the value that is actually returned: when the
// function has defers, go/ssa spills results to a local (`*r = X; rundefers; t = *r; return t`);
// the store in the same block is looked up. Falls back to the operand itself.
func RetVal(ret *ssa.Return, i int) ssa.Value {
	v := ret.Results[i]
	u, ok := v.(*ssa.UnOp)
	if !ok || u.Op != token.MUL {
		return v
	}
	a, ok := u.X.(*ssa.Alloc)
	if !ok {
		return v
	}
	var last ssa.Value
	for _, in := range ret.Block().Instrs {
		if in == ssa.Instruction(u) {
			break
		}
		if st, ok := in.(*ssa.Store); ok && st.Addr == ssa.Value(a) {
			last = st.Val
		}
	}
	if last != nil {
		return last
	}
	return v
}

// onlyRead: the address v (of a component of a local) is only loaded from, directly or through
// further component addresses.
func onlyRead(v ssa.Value) bool {
	refs := v.Referrers()
	if refs == nil {
		return true
	}
	for _, r := range *refs {
		switch in := r.(type) {
		case *ssa.UnOp, *ssa.DebugRef:
		case *ssa.FieldAddr, *ssa.IndexAddr:
			if !onlyRead(in.(ssa.Value)) {
				return false
			}
		default:
			return false
		}
	}
	return true
}

// calleeOnlyReads: the address a is passed to a statically known callee with a body that neither
// stores through the corresponding parameter (or its components) nor hands it on.
func calleeOnlyReads(site ssa.CallInstruction, a ssa.Value) bool {
	g := site.Common().StaticCallee()
	if g == nil || g.Blocks == nil {
		return false
	}
	for i, arg := range site.Common().Args {
		if arg != a {
			continue
		}
		if i >= len(g.Params) || !onlyRead(g.Params[i]) {
			return false
		}
	}
	return true
}

// ExpandConds resolves short-circuit conditions: a dominating condition that is a boolean phi
// (a && b taken true, a || b taken false) pins the single incoming edge that can produce that
// value; the value on that edge and the conditions dominating the edge's source block then hold too.
func ExpandConds(conds []Cond) []Cond {
	var out []Cond
	seen := map[ssa.Value]bool{}
	var add func(cd Cond, depth int)
	add = func(cd Cond, depth int) {
		out = append(out, cd)
		phi, ok := cd.V.(*ssa.Phi)
		if !ok || depth > 6 || seen[phi] {
			return
		}
		seen[phi] = true
		idx := -1
		n := 0
		for i, e := range phi.Edges {
			if cv, isC := ConstBool(e); isC {
				if cv == cd.Truth {
					n++
					idx = i
				}
				continue
			}
			n++
			idx = i
		}
		if n != 1 {
			return
		}
		e := phi.Edges[idx]
		pred := phi.Block().Preds[idx]
		if _, isC := e.(*ssa.Const); !isC {
			add(Cond{V: e, Truth: cd.Truth}, depth+1)
		}
		for _, c2 := range DomConds(pred) {
			add(c2, depth+1)
		}
		// the edge pred -> phi block itself, if conditional
		if ifi, ok := pred.Instrs[len(pred.Instrs)-1].(*ssa.If); ok && pred.Succs[0] != pred.Succs[1] {
			add(Cond{V: ifi.Cond, Truth: pred.Succs[0] == phi.Block(), If: ifi}, depth+1)
		}
	}
	for _, cd := range conds {
		add(cd, 0)
	}
	return out
}

// ---- helper functions extracted from an owner ---------------------------------

// StaticCallers: the functions containing a static call of fn; asValue reports whether fn is also
// used as a value (stored, passed), in which case its callers are not all known.
func (c *Ctx) StaticCallers(fn *ssa.Function) (callers []*ssa.Function, asValue bool) {
	if c.callerIdx == nil {
		c.callerIdx = map[*ssa.Function][]*ssa.Function{}
		c.valueUse = map[*ssa.Function]bool{}
		for _, g := range c.SrcFuncs() {
			Instrs(g, false, func(in ssa.Instruction) {
				if ci, ok := in.(ssa.CallInstruction); ok {
					if callee := ci.Common().StaticCallee(); callee != nil {
						top := g
						for top.Parent() != nil {
							top = top.Parent()
						}
						c.callerIdx[callee] = append(c.callerIdx[callee], top)
					}
				}
				for _, op := range in.Operands(nil) {
					if f, ok := (*op).(*ssa.Function); ok {
						if ci, isCall := in.(ssa.CallInstruction); isCall && ci.Common().Value == ssa.Value(f) {
							continue
						}
						if _, isMC := in.(*ssa.MakeClosure); isMC {
							continue
						}
						c.valueUse[f] = true
					}
				}
			})
		}
	}
	return c.callerIdx[fn], c.valueUse[fn]
}

// OwnedBy: fn (its enclosing top-level function) satisfies pred, or is an unexported function that is
// never used as a value and whose every static caller is OwnedBy pred (a helper extracted from such
// a function, directly or through other helpers).
func (c *Ctx) OwnedBy(fn *ssa.Function, pred func(*ssa.Function) bool) bool {
	return c.ownedBy(fn, pred, 0, map[*ssa.Function]bool{})
}

func (c *Ctx) ownedBy(fn *ssa.Function, pred func(*ssa.Function) bool, depth int, seen map[*ssa.Function]bool) bool {
	top := fn
	for top.Parent() != nil {
		top = top.Parent()
	}
	if pred(top) {
		return true
	}
	if depth > 3 || seen[top] {
		return false
	}
	seen[top] = true
	if o := top.Object(); o == nil || o.Exported() {
		return false
	}
	callers, asValue := c.StaticCallers(top)
	if asValue || len(callers) == 0 {
		return false
	}
	for _, g := range callers {
		if g == top {
			continue // recursion
		}
		if !c.ownedBy(g, pred, depth+1, seen) {
			return false
		}
	}
	return true
}

// Family: fn, its closures, and the helpers it owns (unexported functions, never used as values,
// all of whose static callers belong to the family), transitively. Rules that look for a construct
// "in fn" look in its family, so that moving a block into a helper called from fn alone does not
// hide it.
func (c *Ctx) Family(fn *ssa.Function) []*ssa.Function {
	fam := map[*ssa.Function]bool{fn: true}
	order := []*ssa.Function{fn}
	for changed := true; changed; {
		changed = false
		for _, f := range append([]*ssa.Function{}, order...) {
			for _, ci := range CallsIn(f, true) {
				g := ci.Common().StaticCallee()
				if g == nil || fam[g] || !c.InRepo(g) || g.Blocks == nil || g.Parent() != nil {
					continue
				}
				if o := g.Object(); o == nil || o.Exported() {
					continue
				}
				callers, asValue := c.StaticCallers(g)
				if asValue {
					continue
				}
				all := true
				for _, cl := range callers {
					if !fam[cl] && cl != g {
						all = false
					}
				}
				if all {
					fam[g] = true
					order = append(order, g)
					changed = true
				}
			}
		}
	}
	return order
}
