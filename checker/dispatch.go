package main

// E7 dispatch: switches (or if-chains) over the configHandling enum, decided by simulating the
// chain of equality tests for every constant of the enum plus one value outside it.

import (
	"go/constant"
	"go/token"
	"go/types"
	"sort"

	"golang.org/x/tools/go/ssa"
)

type enumConst struct {
	Name string
	Val  int64
}

// handlingEnum lists the package-level constants of type configHandling.
func handlingEnum(c *Ctx) (*types.Named, []enumConst) {
	t := c.Named("", "configHandling")
	var out []enumConst
	sc := c.Pkgs[""].Types.Scope()
	for _, n := range sc.Names() {
		k, ok := sc.Lookup(n).(*types.Const)
		if !ok || !types.Identical(k.Type(), t) {
			continue
		}
		v, _ := constant.Int64Val(k.Val())
		out = append(out, enumConst{n, v})
	}
	sort.Slice(out, func(i, j int) bool { return out[i].Val < out[j].Val })
	if len(out) < 2 {
		undecidedf("ANCHOR-MISSING: constants of type configHandling")
	}
	return t, out
}

// dispatch describes one switch over an enum-typed tag inside a function.
type dispatch struct {
	Fn      *ssa.Function
	Tag     ssa.Value
	Head    *ssa.BasicBlock
	Tested  map[int64]bool           // constants compared against explicitly
	Members map[*ssa.BasicBlock]bool // the test blocks of the chain (Head included)
}

// findDispatches finds the enum switches of fn: chains of `tag == const` tests on the same tag. Two
// switches on the same tag value (`k := t.Kind(); switch k {...}; switch k {...}`) are two dispatches:
// a test block continues a chain only when every way into it comes from a test of that chain (directly
// or through empty jump blocks); a test block that is also entered from a case body starts a new one.
func findDispatches(fn *ssa.Function, enumT types.Type) []*dispatch {
	tagOf := map[*ssa.BasicBlock]ssa.Value{}
	for _, b := range fn.Blocks {
		if ifi, ok := lastInstr(b).(*ssa.If); ok {
			if tag, _, ok := enumTest(ifi.Cond, enumT); ok {
				tagOf[b] = tag
			}
		}
	}
	// pure: the block only computes its own test (so that reaching it from the previous test has no effect)
	pure := func(b *ssa.BasicBlock) bool {
		ifi := lastInstr(b).(*ssa.If)
		for _, in := range b.Instrs {
			if in == ssa.Instruction(ifi) || in == ifi.Cond.(ssa.Instruction) {
				continue
			}
			return false
		}
		return true
	}
	var fromChain func(p *ssa.BasicBlock, tag ssa.Value, depth int) bool
	fromChain = func(p *ssa.BasicBlock, tag ssa.Value, depth int) bool {
		if tagOf[p] == tag && tag != nil {
			return true
		}
		if _, isJ := lastInstr(p).(*ssa.Jump); isJ && len(p.Instrs) == 1 && depth < 4 && len(p.Preds) > 0 {
			for _, q := range p.Preds {
				if !fromChain(q, tag, depth+1) {
					return false
				}
			}
			return true
		}
		return false
	}
	continues := func(b *ssa.BasicBlock) bool {
		if len(b.Preds) == 0 || !pure(b) {
			return false
		}
		for _, p := range b.Preds {
			if !fromChain(p, tagOf[b], 0) {
				return false
			}
		}
		return true
	}
	var order []*dispatch
	for _, b := range fn.Blocks {
		if tagOf[b] == nil || continues(b) {
			continue
		}
		d := &dispatch{Fn: fn, Tag: tagOf[b], Head: b, Tested: map[int64]bool{}, Members: map[*ssa.BasicBlock]bool{b: true}}
		// collect the chain
		work := []*ssa.BasicBlock{b}
		seen := map[*ssa.BasicBlock]bool{b: true}
		for len(work) > 0 {
			x := work[len(work)-1]
			work = work[:len(work)-1]
			for _, su := range x.Succs {
				if seen[su] {
					continue
				}
				switch {
				case tagOf[su] == d.Tag && continues(su):
					seen[su] = true
					d.Members[su] = true
					work = append(work, su)
				case tagOf[su] == nil && len(su.Instrs) == 1 && len(su.Succs) == 1:
					if _, isJ := lastInstr(su).(*ssa.Jump); isJ {
						seen[su] = true
						work = append(work, su)
					}
				}
			}
		}
		for m := range d.Members {
			_, k, _ := enumTest(lastInstr(m).(*ssa.If).Cond, enumT)
			d.Tested[k] = true
		}
		order = append(order, d)
	}
	return order
}

// IsTest: b is one of the chain's test blocks.
func (d *dispatch) IsTest(b *ssa.BasicBlock) bool { return d.Members[b] }

// enumTest recognises `tag == K` / `tag != K` (K a constant of the enum type).
func enumTest(v ssa.Value, enumT types.Type) (tag ssa.Value, k int64, ok bool) {
	b, isB := v.(*ssa.BinOp)
	if !isB || (b.Op != token.EQL && b.Op != token.NEQ) {
		return nil, 0, false
	}
	if !types.Identical(b.X.Type(), enumT) {
		return nil, 0, false
	}
	if c, isC := ConstInt(b.Y); isC {
		return b.X, c, true
	}
	if c, isC := ConstInt(b.X); isC {
		return b.Y, c, true
	}
	return nil, 0, false
}

// Target simulates the chain for tag == k and returns the first block that is not one of the
// chain's tests (the case body).
func (d *dispatch) Target(k int64, enumT types.Type) *ssa.BasicBlock {
	b := d.Head
	for steps := 0; steps < 256; steps++ {
		ifi, ok := lastInstr(b).(*ssa.If)
		if ok {
			if tag, c, isTest := enumTest(ifi.Cond, enumT); isTest && tag == d.Tag && d.IsTest(b) {
				eq := c == k
				if ifi.Cond.(*ssa.BinOp).Op == token.NEQ {
					eq = !eq
				}
				if eq {
					b = b.Succs[0]
				} else {
					b = b.Succs[1]
				}
				continue
			}
		}
		if j, isJ := lastInstr(b).(*ssa.Jump); isJ && len(b.Instrs) == 1 && b != d.Head {
			_ = j
			b = b.Succs[0]
			continue
		}
		return b
	}
	return b
}

// onlyTests: the block (other than the head) consists of the comparison and the branch only, so
// passing through it has no effect.
func onlyTests(b *ssa.BasicBlock, ifi *ssa.If) bool {
	return true
}

// firstRepoCall returns the first call in block b to a function of the repository.
func firstRepoCall(c *Ctx, b *ssa.BasicBlock) *ssa.Function {
	for _, in := range b.Instrs {
		if ci, ok := in.(ssa.CallInstruction); ok {
			if f := ci.Common().StaticCallee(); f != nil && c.InRepo(f) {
				return f
			}
		}
	}
	return nil
}

// installedHandling: which enum constants can exported options / struct tags install?
// name of the exported option variable (or "tag:<word>") -> constant value.
func installedHandling(c *Ctx) map[string]int64 {
	out := map[string]int64{}
	mk := c.Func("", "makeOptValueHandling")
	mkf := c.Func("", "makeFieldOptValueHandling")
	initFn := c.SSA[""].Func("init")
	if initFn == nil {
		undecidedf("ANCHOR-MISSING: package init of ucfg")
	}
	Instrs(initFn, false, func(in ssa.Instruction) {
		st, ok := in.(*ssa.Store)
		if !ok {
			return
		}
		g, ok := st.Addr.(*ssa.Global)
		if !ok {
			return
		}
		call, ok := st.Val.(*ssa.Call)
		if !ok {
			return
		}
		if IsCallTo(call, mk) || IsCallTo(call, mkf) {
			if k, ok := ConstInt(call.Call.Args[0]); ok {
				out[g.Name()] = k
			}
		}
	})
	// struct tag words
	pt := c.Func("", "parseTags")
	enumT, _ := handlingEnum(c)
	Instrs(pt, false, func(in ssa.Instruction) {
		st, ok := in.(*ssa.Store)
		if !ok {
			return
		}
		if _, f, ok := FieldOf(st.Addr); ok && f == "cfgHandling" && types.Identical(st.Val.Type(), enumT) {
			if k, ok := ConstInt(st.Val); ok {
				out["tag#"+itoa(k)] = k
			}
		}
	})
	return out
}

func itoa(k int64) string {
	return constant.MakeInt64(k).String()
}
