package main

// C19 — repeated flags accumulate like sequential merges with the flag's options.
// Decided here (DESIGN §C19): R19a options given to a constructor reach every ucfg call made on
// behalf of the object; R19b the collector's error is write-once and sticky; R19c Set feeds the
// collector on every path; R19d empty value returns before parsing, bare key stores true.
// The option-flow engine (optflow) is shared with C18.

import (
	"fmt"
	"go/token"
	"go/types"
	"strings"

	"golang.org/x/tools/go/ssa"
)

func init() {
	register("C19", "Static def-use and path rules over packages flag and cfgutil: every ...ucfg.Option parameter must flow into each ucfg API call / option field made on behalf of the object (R19a), Collector.err is written only under err==nil and returned first (R19b), FlagValue.Set passes the loader's config and error to Collector.Add on every path (R19c), the key=value closure returns before parsing an empty value and stores the constant true for a bare key (R19d). Decides that options are not dropped and the first error sticks; does not decide equality with a sequence of merges.", checkC19)
}

func isOptionSlice(t types.Type) bool {
	s, ok := t.Underlying().(*types.Slice)
	return ok && isNamed(s.Elem(), modPath, "Option") && namedOf(s.Elem()) != nil && types.Unalias(s.Elem()) == types.Type(namedOf(s.Elem()))
}

// optOrigin classifies a terminal source of an []Option value.
func optOrigin(v ssa.Value) (string, bool) {
	switch x := v.(type) {
	case *ssa.Parameter:
		if isOptionSlice(x.Type()) {
			return "parameter " + x.Name(), true
		}
	case *ssa.UnOp:
		if x.Op == token.MUL {
			if n, f, ok := FieldOf(x.X); ok && isOptionSlice(x.Type()) {
				return "field " + n.Obj().Name() + "." + f, true
			}
		}
	case *ssa.Field:
		if n, f, ok := FieldOf(x); ok && isOptionSlice(x.Type()) {
			return "field " + n.Obj().Name() + "." + f, true
		}
	case *ssa.Call:
		if isOptionSlice(x.Type()) && BuiltinName(x) == "" {
			return "result of " + x.Call.Value.Name(), true
		}
	}
	return "", false
}

type optSink struct {
	fn   *ssa.Function // enclosing top-level function
	in   ssa.Instruction
	desc string
	val  ssa.Value
}

// optSinks enumerates, in fn and its closures, every place an []Option value is consumed: an
// argument of a call whose parameter type is []Option, or a store into a struct field of that type.
func optSinks(c *Ctx, fn *ssa.Function) []optSink {
	var out []optSink
	Instrs(fn, true, func(in ssa.Instruction) {
		switch x := in.(type) {
		case ssa.CallInstruction:
			if BuiltinName(x) != "" {
				return
			}
			for i, a := range x.Common().Args {
				if isOptionSlice(a.Type()) {
					out = append(out, optSink{fn, in, fmt.Sprintf("call %s arg%d", CalleeName(c, x), i), a})
				}
			}
		case *ssa.Store:
			if n, f, ok := FieldOf(x.Addr); ok && isOptionSlice(x.Val.Type()) {
				out = append(out, optSink{fn, in, "store " + n.Obj().Name() + "." + f, x.Val})
			}
		}
	})
	return out
}

// optflow applies R19a/R18a-flow to the given packages.
func optflow(c *Ctx, r *Report, rule string, pkgs []string) {
	for _, fn := range c.SrcFuncs() {
		if fn.Parent() != nil || fn.Pkg == nil {
			continue
		}
		in := false
		for _, p := range pkgs {
			if fn.Pkg == c.SSA[p] {
				in = true
			}
		}
		if !in || fn.Synthetic != "" {
			continue
		}
		r.Analysed["functions"]++
		sinks := optSinks(c, fn)
		var params []*ssa.Parameter
		for _, p := range fn.Params {
			if isOptionSlice(p.Type()) {
				params = append(params, p)
			}
		}
		used := map[*ssa.Parameter]bool{}
		for _, s := range sinks {
			srcs := Sources(s.val)
			// a defensive copy: own := make([]Option, len(opts)); copy(own, opts) hands on all of opts — a copy into a
			// slice of another length (make([]Option, 0, len(opts))) hands on nothing, or not all
			for _, src := range append([]ssa.Value{}, srcs...) {
				if ms, isMS := src.(*ssa.MakeSlice); isMS {
					for _, from := range wholeCopiesInto(ms) {
						srcs = append(srcs, Sources(from)...)
					}
				}
			}
			good := ""
			for _, src := range srcs {
				if d, ok := optOrigin(src); ok {
					good = d
					if p, ok := src.(*ssa.Parameter); ok {
						used[p] = true
					}
				}
			}
			if good != "" {
				r.OK(rule, c.FnName(fn), s.desc, c.Pos(s.in.Pos()), "options flow from "+good)
			} else {
				r.Bad(rule, c.FnName(fn), s.desc, c.Pos(s.in.Pos()), fmt.Sprintf("the []Option consumed here derives from none of the function's option parameters, option fields or getters (sources: %s) — the object's options are dropped at this call", describeVals(srcs)))
			}
		}
		for _, p := range params {
			if used[p] {
				continue
			}
			r.Bad(rule, c.FnName(fn), "param "+p.Name(), c.Pos(p.Pos()), "option parameter "+p.Name()+" reaches no ucfg call and no option field: options given to this constructor are silently dropped")
		}
	}
}

func describeVals(vs []ssa.Value) string {
	s := ""
	for i, v := range vs {
		if i > 0 {
			s += ", "
		}
		if v == nil {
			s += "<nil>"
			continue
		}
		s += fmt.Sprintf("%T %s", v, v.String())
		if i >= 5 {
			s += ", ..."
			break
		}
	}
	if s == "" {
		return "none"
	}
	return s
}

// MustPass: on every path from the entry of fn to a return selected by isRet, an instruction
// selected by isM is executed first (a matching `defer` counts as executed at exit).
// It returns the offending returns.
func MustPass(fn *ssa.Function, isM func(ssa.Instruction) bool, isRet func(*ssa.Return) bool) []*ssa.Return {
	if len(fn.Blocks) == 0 {
		return nil
	}
	// position of the first M in each block
	firstM := map[*ssa.BasicBlock]int{}
	for _, b := range fn.Blocks {
		for i, in := range b.Instrs {
			if isM(in) {
				firstM[b] = i
				break
			}
		}
	}
	avoid := map[*ssa.BasicBlock]bool{}
	for b := range firstM {
		avoid[b] = true
	}
	entry := fn.Blocks[0]
	var bad []*ssa.Return
	reach := map[*ssa.BasicBlock]bool{}
	if !avoid[entry] {
		reach[entry] = true
		work := []*ssa.BasicBlock{entry}
		for len(work) > 0 {
			b := work[len(work)-1]
			work = work[:len(work)-1]
			for _, s := range b.Succs {
				if !reach[s] && !avoid[s] {
					reach[s] = true
					work = append(work, s)
				}
			}
		}
	}
	for _, ret := range Returns(fn) {
		if isRet != nil && !isRet(ret) {
			continue
		}
		if reach[ret.Block()] {
			bad = append(bad, ret)
		}
	}
	return bad
}

func checkC19(c *Ctx, r *Report) {
	defer collectorOwnsConfigRule(c, r)
	defer loaderStateRule(c, r)
	defer keyValueVerbatimRule(c, r)
	r.Assumption("user-supplied FileLoader functions honour the options they are given")
	r.Assumption("equality of the accumulated config with a sequence of merges is not decided (value-level)")

	r.Rule("R19a", "every []ucfg.Option consumed by a call or stored in a field inside packages flag/cfgutil derives from the function's option parameter, an option field of the object, or a getter; no option parameter is unused", 14)
	optflow(c, r, "R19a", []string{"flag", "cfgutil"})

	// R19b: write-once error
	r.Rule("R19b", "every store to Collector.err is in Collector.Add under c.err == nil (or stores nil in the constructor); Add returns the stored error first", 3)
	coll := c.Named("cfgutil", "Collector")
	add := c.Method("cfgutil", "Collector", "Add")
	for _, fn := range c.SrcFuncs() {
		Instrs(fn, false, func(in ssa.Instruction) {
			st, ok := in.(*ssa.Store)
			if !ok {
				return
			}
			n, f, ok := FieldOf(st.Addr)
			if !ok || n != coll || f != "err" {
				return
			}
			if IsNilConst(st.Val) {
				r.Trivial("R19b", c.FnName(fn), "store err=nil", c.Pos(st.Pos()), "stores the nil constant")
				return
			}
			if fn != add {
				r.Bad("R19b", c.FnName(fn), "store err", c.Pos(st.Pos()), "Collector.err is written outside Collector.Add: the first error can be overwritten")
				return
			}
			// dominated by c.err == nil on the receiver
			ok2 := false
			for _, cd := range DomConds(st.Block()) {
				if isFieldNilTest(cd, "Collector", "err", true) {
					ok2 = true
				}
			}
			r.Check(ok2, "R19b", c.FnName(fn), "store err", c.Pos(st.Pos()), "dominated by c.err == nil", "store to Collector.err is not dominated by a test that no error is recorded yet: a later failure overwrites the first error")
		})
	}
	// Add returns the stored error before doing anything else
	{
		okFirst := false
		if len(add.Blocks) > 0 {
			if ifi, ok := lastInstr(add.Blocks[0]).(*ssa.If); ok {
				if isFieldNilTest(Cond{ifi.Cond, true, ifi}, "Collector", "err", false) {
					// true edge (err != nil) must return the field
					tb := add.Blocks[0].Succs[0]
					if ret, ok := lastInstr(tb).(*ssa.Return); ok && len(ret.Results) == 1 && IsLoadOfField(ret.Results[0], "Collector", "err") {
						okFirst = true
					}
				}
			}
		}
		r.Check(okFirst, "R19b", c.FnName(add), "sticky return", c.Pos(add.Pos()), "entry tests c.err != nil and returns c.err", "Collector.Add does not start by returning the recorded error: after the first failing argument later calls no longer report that first error")
	}

	// R19c: Set feeds the collector
	r.Rule("R19c", "FlagValue.Set calls collector.Add with the loader's config and internal error on every path to return", 1)
	set := c.Method("flag", "FlagValue", "Set")
	{
		var addCall ssa.CallInstruction
		isAdd := func(in ssa.Instruction) bool {
			ci, ok := in.(ssa.CallInstruction)
			if ok && IsCallTo(ci, add) {
				addCall = ci
				return true
			}
			return false
		}
		bad := MustPass(set, isAdd, nil)
		switch {
		case len(bad) > 0:
			r.Bad("R19c", c.FnName(set), "must-pass Add", c.Pos(bad[0].Pos()), "a return of FlagValue.Set is reachable without calling Collector.Add: the argument is not accumulated")
		case addCall == nil:
			r.Bad("R19c", c.FnName(set), "must-pass Add", c.Pos(set.Pos()), "FlagValue.Set never calls Collector.Add")
		default:
			// arguments: Extract #0 and #1 of one call through the loader field
			args := addCall.Common().Args // recv, cfg, err
			ok := len(args) == 3
			if ok {
				e0, ok0 := args[1].(*ssa.Extract)
				e1, ok1 := args[2].(*ssa.Extract)
				ok = ok0 && ok1 && e0.Tuple == e1.Tuple && e0.Index == 0 && e1.Index == 1
				if ok {
					call, isCall := e0.Tuple.(*ssa.Call)
					ok = isCall && IsLoadOfField(call.Call.Value, "FlagValue", "loader")
				}
			}
			r.Check(ok, "R19c", c.FnName(set), "must-pass Add", c.Pos(addCall.Pos()), "Add(loader result #0, loader result #1) on every path", "Collector.Add is not given the loader's config and internal error (results #0 and #1 of v.loader(arg))")
		}
	}

	// R19d: value syntax in the key=value closure
	r.Rule("R19d", "NewFlagKeyValue's loader: parse.Value is only reached when the value part is non-empty; the bare-key branch yields the constant true", 2)
	nfkv := c.Func("flag", "NewFlagKeyValue")
	parseValue := c.Func("parse", "Value")
	foundParse, foundTrue := false, false
	for _, fn := range WithAnon(nfkv) {
		for _, ci := range CallsTo(fn, parseValue, false) {
			foundParse = true
			ok := false
			for _, cd := range DomConds(ci.(ssa.Instruction).Block()) {
				if b, isb := cd.V.(*ssa.BinOp); isb && ((b.Op == token.EQL && !cd.Truth) || (b.Op == token.NEQ && cd.Truth)) {
					if s, iss := ConstString(b.Y); iss && s == "" && sameAsArg(b.X, ci.Common().Args[0]) {
						ok = true
					}
					if s, iss := ConstString(b.X); iss && s == "" && sameAsArg(b.Y, ci.Common().Args[0]) {
						ok = true
					}
				}
			}
			r.Check(ok, "R19d", c.FnName(fn), "empty value precedes parse", c.Pos(ci.Pos()), "parse.Value(x) dominated by x != \"\"", "parse.Value is reachable with an empty value part: `key=` is no longer ignored")
			// only an empty value is ignored: once a value was parsed, the argument is not dropped silently (a return of
			// no config and no error is not reachable from the parse — null, [] and {} parse to nil and must override)
			for _, ret := range Returns(fn) {
				allNil := len(ret.Results) > 0
				for i := range ret.Results {
					if !IsNilConst(RetVal(ret, i)) {
						allNil = false
					}
				}
				if !allNil {
					continue
				}
				pb := ci.(ssa.Instruction).Block()
				reach := pb == ret.Block()
				for _, su := range pb.Succs {
					if reachableFromEdge(pb, su, ret.Block(), nil) {
						reach = true
					}
				}
				r.Check(!reach, "R19d", c.FnName(fn), "only an empty value is ignored", c.Pos(ret.Pos()), "the ignoring return is not reachable once the value was parsed",
					"an argument whose value was parsed can still be ignored (returned as no config, no error): values that parse to nil (null, [], {}) no longer override an earlier setting")
			}
		}
		Instrs(fn, false, func(in ssa.Instruction) {
			if mu, ok := in.(*ssa.MapUpdate); ok {
				for _, s := range Sources(mu.Value) {
					if b, isb := ConstBool(s); isb && b {
						foundTrue = true
					}
				}
			}
			// the value travels in a struct member or another local on its way into the map: the constant true is boxed
			// in the branch that does not parse a value
			if mi, ok := in.(*ssa.MakeInterface); ok {
				if b, isb := ConstBool(mi.X); isb && b {
					parses := false
					for _, ci := range CallsTo(fn, parseValue, false) {
						pb := ci.(ssa.Instruction).Block()
						if pb == mi.Block() || pb.Dominates(mi.Block()) || reachableFromEdge(nil, pb, mi.Block(), nil) {
							parses = true
						}
					}
					if !parses {
						foundTrue = true
					}
				}
			}
		})
	}
	if !foundParse {
		r.Bad("R19d", c.FnName(nfkv), "empty value precedes parse", c.Pos(nfkv.Pos()), "no call of parse.Value found in the key=value loader")
	}
	r.Check(foundTrue, "R19d", c.FnName(nfkv), "bare key is true", c.Pos(nfkv.Pos()), "constant true flows into the value stored under the key", "no path stores the constant true as the value of a bare key")
	loaderNormalisesRule(c, r)
	addNilConfigRule(c, r)
	loaderErrorPairRule(c, r)
	observersReadOnlyRule(c, r)
}

// loaderErrorPairRule (R19g): a flag loader answers (config, error for the collector, error for the flag package).
// The two errors are one: what Set reports to the flag package is what the collector latches — an error that is
// only reported lets the collection go on as if nothing had happened (Error() stays nil, later arguments are still
// merged), an error that is only latched makes Set succeed for an argument that was refused.
func loaderErrorPairRule(c *Ctx, r *Report) {
	r.Rule("R19g", "an error a flag loader reports to the flag package is the one it hands to the collector (never reported without being latched)", 2)
	n := 0
	for _, top := range c.SrcFuncs() {
		if top.Pkg != c.SSA["flag"] || top.Parent() != nil {
			continue
		}
		for _, fn := range WithAnon(top) {
			res := fn.Signature.Results()
			if fn.Parent() == nil || res.Len() != 3 || typeStr(res.At(1).Type()) != "error" || typeStr(res.At(2).Type()) != "error" {
				continue
			}
			for _, ret := range Returns(fn) {
				n++
				a, b := RetVal(ret, 1), RetVal(ret, 2)
				// (the file loader latches its errors and lets Set succeed, so that parsing goes on: an error for the
				// collector alone is the design; an error for the flag package alone is lost to Error() and to the latch)
				same := a == b || IsNilConst(b) || SameValue(a, b) || sameSrc(a, b)
				r.Check(same, "R19g", c.FnName(fn), "one error for both", c.Pos(ret.Pos()), "the collector's error is the reported error",
					"a flag loader returns different errors for the collector ("+a.String()+") and for the flag package ("+b.String()+"): Set fails while Error() stays nil and the collection goes on, or the other way round")
			}
		}
	}
	if n == 0 {
		r.add("R19g", "flag loaders", "one error for both", "-", Undecided, true, "no loader with an (config, error, error) result found")
	}
}

// addNilConfigRule (R19f): the loaders answer an ignored argument (`key=`) with no config and no error (R19d), so
// Collector.Add must treat a nil config as "nothing to merge". Merge's own nil test does not see a nil *Config
// inside its interface{} parameter: it reports an unsupported type, and the collector keeps that as its sticky error.
func addNilConfigRule(c *Ctx, r *Report) {
	r.Rule("R19f", "Collector.Add merges the config it is given only when that config is not nil", 1)
	add := c.Method("cfgutil", "Collector", "Add")
	mergeFn := c.Method("", "Config", "Merge")
	var cfgParam *ssa.Parameter
	for _, p := range add.Params[1:] {
		if typeStr(p.Type()) == "*ucfg.Config" {
			cfgParam = p
		}
	}
	n := 0
	for _, ci := range CallsTo(add, mergeFn, false) {
		n++
		guarded := false
		for _, cd := range ExpandConds(DomConds(ci.(ssa.Instruction).Block())) {
			if tv, neq, ok := nilTest(cd.V); ok && tv == ssa.Value(cfgParam) && cd.Truth == neq {
				guarded = true
			}
		}
		r.Check(guarded, "R19f", c.FnName(add), "merge under cfg != nil", c.Pos(ci.Pos()), "dominated by cfg != nil",
			"Collector.Add hands a possibly nil *Config to Merge: the loaders return a nil config for an argument they ignore (`key=`), Merge does not recognise the nil pointer inside its interface{} parameter and fails, and every later argument is dropped behind the collector's sticky error")
	}
	if n == 0 {
		r.add("R19f", c.FnName(add), "merge under cfg != nil", c.Pos(add.Pos()), Undecided, true, "Collector.Add does not call Merge")
	}
}

// loaderNormalisesRule (R19e): the config a flag loader returns for an argument is made by ucfg.NewFrom (or
// New + Merge, the same thing), or by the user's file loader — the only constructors that run the flag's options
// over the *value* (variable expansion, path splitting of nested keys, metadata). The typed setters take the same
// options but store a string verbatim.
func loaderNormalisesRule(c *Ctx, r *Report) {
	r.Rule("R19e", "every config a flag loader returns is made by ucfg.NewFrom (or New followed by Merge) or by the user's file loader, so that the flag's options apply to the value", 2)
	newFrom := c.Func("", "NewFrom")
	newFn := c.Func("", "New")
	mergeFn := c.Method("", "Config", "Merge")
	for _, top := range c.SrcFuncs() {
		if top.Pkg != c.SSA["flag"] || top.Parent() != nil {
			continue
		}
		for _, fn := range WithAnon(top) {
			if fn.Parent() == nil {
				continue
			}
			res := fn.Signature.Results()
			if res.Len() == 0 || typeStr(res.At(0).Type()) != "*ucfg.Config" {
				continue
			}
			for _, ret := range Returns(fn) {
				ok, why := true, "made by NewFrom / the user's loader"
				for _, s := range Sources(RetVal(ret, 0)) {
					if IsNilConst(s) {
						continue
					}
					var call *ssa.Call
					switch x := s.(type) {
					case *ssa.Extract:
						if x.Index == 0 {
							call, _ = x.Tuple.(*ssa.Call)
						}
					case *ssa.Call:
						call = x
					}
					if call == nil {
						ok, why = false, "the config comes from "+s.String()
						continue
					}
					g := call.Call.StaticCallee()
					switch {
					case g == nil:
						// a loader function given by the user
					case g == newFrom:
					case g == newFn:
						merged := false
						for _, m := range CallsTo(fn, mergeFn, false) {
							mi := m.(ssa.Instruction)
							if sameAsArg(m.Common().Args[0], call) && (mi.Block() == ret.Block() || mi.Block().Dominates(ret.Block())) {
								merged = true
							}
						}
						if !merged {
							ok, why = false, "the config is an empty ucfg.New() filled by other means than Merge"
						}
					default:
						ok, why = false, "the config is made by "+g.String()
					}
				}
				r.Check(ok, "R19e", c.FnName(fn), "config made by NewFrom", c.Pos(ret.Pos()), why,
					"a flag loader builds its config without NewFrom/Merge ("+why+"): the flag's options are not applied to the value — with VarExp a ${reference} in the argument stays literal, nested keys in the value are not split")
			}
		}
	}
}

func lastInstr(b *ssa.BasicBlock) ssa.Instruction {
	if len(b.Instrs) == 0 {
		return nil
	}
	return b.Instrs[len(b.Instrs)-1]
}

// isFieldNilTest: does cond (with its polarity) establish field == nil (wantNil) — or, when
// wantNil is false, field != nil?
func isFieldNilTest(cd Cond, tname, fname string, wantNil bool) bool {
	b, ok := cd.V.(*ssa.BinOp)
	if !ok {
		return false
	}
	var other ssa.Value
	if IsNilConst(b.Y) {
		other = b.X
	} else if IsNilConst(b.X) {
		other = b.Y
	} else {
		return false
	}
	if !IsLoadOfField(other, tname, fname) {
		return false
	}
	isNil := (b.Op == token.EQL && cd.Truth) || (b.Op == token.NEQ && !cd.Truth)
	isNotNil := (b.Op == token.NEQ && cd.Truth) || (b.Op == token.EQL && !cd.Truth)
	if wantNil {
		return isNil
	}
	return isNotNil
}

// sameAsArg: do a and b denote the same value (identical SSA value, or loads with the same access
// path / same index expression)?
func sameAsArg(a, b ssa.Value) bool {
	if a == b {
		return true
	}
	return valueKey(a) != "" && valueKey(a) == valueKey(b)
}

// valueKey canonicalises loads: same access path, or same element of the same slice by constant index.
func valueKey(v ssa.Value) string {
	if p, ok := AccessPath(v); ok {
		return p
	}
	if u, ok := v.(*ssa.UnOp); ok && u.Op == token.MUL {
		if ia, ok := u.X.(*ssa.IndexAddr); ok {
			if i, ok := ConstInt(ia.Index); ok {
				if ia.X.Name() != "" {
					return fmt.Sprintf("%s[%d]@%p", ia.X.Name(), i, ia.X)
				}
			}
		}
	}
	return ""
}

// observersReadOnlyRule (R19h): the collected configuration is the sequential merge of the arguments, and the only
// thing that stops the collection is a failing argument. The only way into Collector.Add — which merges and latches —
// is therefore FlagValue.Set: an observer (String, which package flag itself calls when a flag is registered and when
// it prints defaults; Get, Config, Error) that reaches Add can latch an error of its own, and every later argument is
// dropped although none failed. Decided on the call graph (VTA: function values and bound methods are followed).
func observersReadOnlyRule(c *Ctx, r *Report) {
	r.Rule("R19h", "no observer of a flag value (every exported method of FlagValue but Set) reaches Collector.Add", 4)
	add := c.Method("cfgutil", "Collector", "Add")
	fv := c.Named("flag", "FlagValue")
	ms := c.Prog.MethodSets.MethodSet(types.NewPointer(fv))
	for i := 0; i < ms.Len(); i++ {
		sel := ms.At(i)
		if !sel.Obj().Exported() || sel.Obj().Name() == "Set" {
			continue
		}
		fn := c.Prog.MethodValue(sel)
		if fn == nil {
			continue
		}
		reach := c.Reach([]*ssa.Function{fn}, nil, nil)
		if reach[add] {
			r.Bad("R19h", c.FnName(fn), "reads only", c.Pos(fn.Pos()), "this observer reaches Collector.Add ("+strings.Join(c.PathTo(fn, add, nil), " → ")+"): looking at the flag value can latch an error in the collector, after which every later argument is dropped although no argument failed (package flag calls String() when the flag is registered)")
		} else {
			r.OK("R19h", c.FnName(fn), "reads only", c.Pos(fn.Pos()), fmt.Sprintf("%d functions reachable, Collector.Add is not among them", len(reach)))
		}
	}
}

// wholeCopiesInto: the slices that are copied completely into ms by the builtin copy — ms was made with the
// length of that very slice (make(T, len(src)); copy(ms, src)).
func wholeCopiesInto(ms *ssa.MakeSlice) []ssa.Value {
	var out []ssa.Value
	if ms.Referrers() == nil {
		return nil
	}
	for _, ref := range *ms.Referrers() {
		call, ok := ref.(*ssa.Call)
		if !ok || BuiltinName(call) != "copy" || len(call.Call.Args) != 2 || call.Call.Args[0] != ssa.Value(ms) {
			continue
		}
		src := call.Call.Args[1]
		if ln, isCall := ms.Len.(*ssa.Call); isCall && BuiltinName(ln) == "len" && (ln.Call.Args[0] == src || SameValue(ln.Call.Args[0], src)) {
			out = append(out, src)
		}
	}
	return out
}

// loaderStateRule (R19i): "repeated flags accumulate like sequential merges": every occurrence of the flag is loaded
// and merged, the tenth like the first. The loaders handed to newFlagValue are therefore functions of their argument:
// a loader that keeps state between calls (a set of files seen, a memo of the last value) answers a later occurrence
// differently from the first one — `-c base -c site -c base` no longer ends with base's values on top.
func loaderStateRule(c *Ctx, r *Report) {
	r.Rule("R19i", "the loader closures handed to newFlagValue write no captured variable and no captured map: every occurrence of a flag is loaded like the first", 2)
	nfv := c.Func("flag", "newFlagValue")
	n := 0
	for _, fn := range c.SrcFuncs() {
		if fn.Pkg != c.SSA["flag"] {
			continue
		}
		for _, ci := range CallsTo(fn, nfv, false) {
			for _, a := range ci.Common().Args {
				if _, isSig := a.Type().Underlying().(*types.Signature); !isSig {
					continue
				}
				var lit *ssa.Function
				switch x := a.(type) {
				case *ssa.MakeClosure:
					lit, _ = x.Fn.(*ssa.Function)
				case *ssa.Function:
					lit = x
				}
				if lit == nil {
					r.add("R19i", c.FnName(fn), "loader handed to newFlagValue", c.Pos(ci.Pos()), Undecided, true, "the loader is not a function literal or a named function: its effects cannot be enumerated")
					continue
				}
				n++
				bad := ""
				for _, f := range WithAnon(lit) {
					Instrs(f, false, func(in ssa.Instruction) {
						switch x := in.(type) {
						case *ssa.Store:
							addr := x.Addr
							for i := 0; i < 8; i++ {
								if fa, ok := addr.(*ssa.FieldAddr); ok {
									addr = fa.X
								} else if ia, ok := addr.(*ssa.IndexAddr); ok {
									addr = ia.X
								} else {
									break
								}
							}
							if fv, ok := addr.(*ssa.FreeVar); ok {
								bad = "assigns the captured variable " + fv.Name() + " at " + c.Pos(x.Pos())
							}
							if g, ok := addr.(*ssa.Global); ok {
								bad = "assigns the package variable " + g.Name() + " at " + c.Pos(x.Pos())
							}
						case *ssa.MapUpdate:
							cands := append([]ssa.Value{x.Map}, Sources(x.Map)...)
							for _, src := range cands {
								if l, ok := src.(*ssa.UnOp); ok && l.Op == token.MUL {
									src = l.X
								}
								if al, ok := src.(*ssa.Alloc); ok && al.Parent() != f {
									bad = "writes the captured map " + al.Comment + " at " + c.Pos(x.Pos())
								}
								switch y := src.(type) {
								case *ssa.FreeVar:
									bad = "writes the captured map " + y.Name() + " at " + c.Pos(x.Pos())
								case *ssa.Global:
									bad = "writes the package-level map " + y.Name() + " at " + c.Pos(x.Pos())
								}
							}
						}
					})
				}
				r.Check(bad == "", "R19i", c.FnName(fn), "loader handed to newFlagValue", c.Pos(ci.Pos()), "the loader writes nothing it captured",
					"the flag loader keeps state between its calls ("+bad+"): a later occurrence of the flag is not loaded like the first, so repeated flags no longer accumulate like sequential merges (a file given again after another one does not override it)")
			}
		}
	}
	if n == 0 {
		r.Bad("R19i", "flag", "loader handed to newFlagValue", "-", "no loader closure is handed to newFlagValue any more")
	}
}

// collectorOwnsConfigRule (R19j): the configuration of a Collector is the one its constructor was given, or a new one;
// everything that is added later is merged into it (copied, by C10). A Collector that adopts a configuration handed
// to Add shares it with whoever made it: the next merge writes into the loader's own object, and a loader that hands
// the same object out again sees its own defaults polluted.
func collectorOwnsConfigRule(c *Ctx, r *Report) {
	r.Rule("R19j", "Collector.config is stored only by NewCollector, or elsewhere with a configuration made by ucfg.New on the spot: a configuration handed to a method is merged, never adopted", 1)
	colT := c.Named("cfgutil", "Collector")
	nc := c.Func("cfgutil", "NewCollector")
	n := 0
	for _, fn := range c.SrcFuncs() {
		if fn.Pkg != c.SSA["cfgutil"] {
			continue
		}
		Instrs(fn, false, func(in ssa.Instruction) {
			st, ok := in.(*ssa.Store)
			if !ok {
				return
			}
			nt, fld, ok := FieldOf(st.Addr)
			if !ok || nt != colT || fld != "config" {
				return
			}
			n++
			if fn == nc {
				r.OK("R19j", c.FnName(fn), "store into Collector.config", c.Pos(st.Pos()), "the constructor")
				return
			}
			fresh := true
			for _, src := range Sources(st.Val) {
				call, isCall := src.(*ssa.Call)
				if !isCall {
					fresh = false
					continue
				}
				if g := call.Call.StaticCallee(); g == nil || g.String() != "github.com/elastic/go-ucfg.New" {
					fresh = false
				}
			}
			r.Check(fresh, "R19j", c.FnName(fn), "store into Collector.config", c.Pos(st.Pos()), "a configuration made by ucfg.New on the spot",
				"the collector takes over a configuration it was handed ("+describeVals(Sources(st.Val))+") instead of merging it into its own: later merges write into the caller's object, and the options of the collector never apply to that first value")
		})
	}
	if n == 0 {
		r.Bad("R19j", "cfgutil", "store into Collector.config", "-", "no store into Collector.config found: the constructor no longer sets it")
	}
}

// keyValueVerbatimRule (R19k): `-D key=value` is split at the first '=' and nothing else happens to the two parts: the
// key names the setting as written, the value goes to parse.Value as written, and "only an empty value is ignored"
// (R19d) is decided on that text. A rewrite in front of the test or the parser (TrimSpace) changes which arguments
// count as empty — `a.b= ` used to set null over an earlier a.b=1 and is dropped — and which key is set.
func keyValueVerbatimRule(c *Ctx, r *Report) {
	r.Rule("R19k", "in NewFlagKeyValue's loader the text given to parse.Value and the key of the setting are pieces of the argument as split (slices / strings.SplitN / IndexByte), not the result of any other strings function", 1)
	fn := c.Func("flag", "NewFlagKeyValue")
	n, bad := 0, ""
	for _, f := range WithAnon(fn) {
		Instrs(f, false, func(in ssa.Instruction) {
			ci, ok := in.(ssa.CallInstruction)
			if !ok {
				return
			}
			g := ci.Common().StaticCallee()
			if g == nil || g.Pkg == nil || g.Pkg.Pkg.Path() != "strings" {
				return
			}
			n++
			switch {
			case strings.HasPrefix(g.Name(), "Split"), strings.HasPrefix(g.Name(), "Index"), g.Name() == "Cut", g.Name() == "Contains", strings.HasPrefix(g.Name(), "Has"):
			default:
				bad = "strings." + g.Name() + " at " + c.Pos(ci.Pos())
			}
		})
	}
	r.Check(bad == "", "R19k", c.FnName(fn), "key and value as split", c.Pos(fn.Pos()), fmt.Sprintf("%d strings call(s), splitting only", n),
		"the key=value loader rewrites the text of its argument ("+bad+") before the emptiness test and the parser see it: which arguments count as empty, and which key is set, is no longer what a sequence of merges of the same arguments gives")
}
