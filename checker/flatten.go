package main

// Flattening of immediately invoked function literals. The x/tools inliner reduces a call to the
// callee's body only when the body is a single return (or the call is a statement); otherwise it
// "literalises": `d, err = f(a, b)` becomes `d, err = func(...) (...) { body }(a, b)`. This file
// turns such a literal call into the statements of the body, placed in front of the statement the
// call occurs in:
//
//	t := g(x)                         // whatever the statement evaluates before the call and is not a
//	                                  // plain local or constant is evaluated into temporaries first, in order
//	var r0 R0; var r1 R1
//	{
//		p0, p1 := P0(a), P1(b)        // parameters, bound in parallel, converted to the parameter type
//		var n0 R0; var n1 R1          // named results
//		body, each `return x, y` replaced by { r0, r1 = x, y; goto end }
//	}
//	end:
//	m[t], err = r0, r1                // the statement, the call replaced by the result temporaries
//
// `return f(...)` as a whole is simpler: every return of the body becomes a return of the caller.
//
// Evaluation order is preserved because everything the statement evaluates before the call is either
// held in a temporary, or a constant, or a local variable that nothing can change in between (its
// address is never taken and no function literal assigns it); receivers and assignment targets must be
// such locals. Short-circuit operands, defer/go, loop conditions and labelled statements are left
// alone, as are bodies with defer, recover, labels or goto. Nested function literals are not entered.
// The result is checked by the type checker in the next load; a text that does not type-check is
// dropped by the caller.

import (
	"bytes"
	"fmt"
	"go/ast"
	"go/format"
	"go/parser"
	"go/token"
	"sort"
	"strings"
)

// flattenLiterals rewrites every eligible literal call in src; it returns src unchanged when there is none.
// pkgVars: the package-level variables of the package (they may change during a call).
func flattenLiterals(filename string, src []byte, pkgVars map[string]bool) []byte {
	for n := 0; n < 60; n++ {
		out, ok := flattenOne(filename, src, pkgVars)
		if !ok {
			break
		}
		src = out
	}
	return src
}

type scanRes int

const (
	scStable   scanRes = iota // constant, stable local, or built from those without effects
	scUnstable                // has an effect or reads something a call could change: evaluate into a temporary
	scFound                   // contains the literal call
	scAbort                   // contains a literal call in a position that cannot be hoisted
)

type flattener struct {
	fset       *token.FileSet
	src        []byte
	pkgVars    map[string]bool
	stable     map[string]bool // obviously stable locals of the enclosing function
	localNames map[string]bool // every name declared inside the enclosing function
	call       *ast.CallExpr   // the literal call found
	lit        *ast.FuncLit
	pre        []ast.Expr        // expressions evaluated before the call that need a temporary
	preAddr    map[ast.Expr]bool // of those: assignment targets, held as `t := &target` and written through `*t`
}

func (fl *flattener) text(n ast.Node) string {
	return string(fl.src[fl.fset.Position(n.Pos()).Offset:fl.fset.Position(n.End()).Offset])
}

// stableLocals: names declared inside fn whose address is never taken and that no function literal assigns.
func stableLocals(fn *ast.FuncDecl) map[string]bool {
	decl := map[string]bool{}
	addField := func(fl *ast.FieldList) {
		if fl == nil {
			return
		}
		for _, f := range fl.List {
			for _, n := range f.Names {
				decl[n.Name] = true
			}
		}
	}
	addField(fn.Recv)
	addField(fn.Type.Params)
	addField(fn.Type.Results)
	bad := map[string]bool{}
	rootIdent := func(e ast.Expr) string {
		for {
			switch x := e.(type) {
			case *ast.Ident:
				return x.Name
			case *ast.SelectorExpr:
				e = x.X
			case *ast.IndexExpr:
				e = x.X
			case *ast.StarExpr:
				e = x.X
			case *ast.ParenExpr:
				e = x.X
			default:
				return ""
			}
		}
	}
	var walk func(n ast.Node, inLit bool)
	walk = func(n ast.Node, inLit bool) {
		ast.Inspect(n, func(m ast.Node) bool {
			switch x := m.(type) {
			case *ast.FuncLit:
				if m != n {
					addField(x.Type.Params)
					addField(x.Type.Results)
					walk(x.Body, true)
					return false
				}
			case *ast.AssignStmt:
				for _, l := range x.Lhs {
					if x.Tok == token.DEFINE {
						if id, ok := l.(*ast.Ident); ok {
							decl[id.Name] = true
						}
					}
					if inLit {
						if r := rootIdent(l); r != "" {
							bad[r] = true
						}
					}
				}
			case *ast.IncDecStmt:
				if inLit {
					if r := rootIdent(x.X); r != "" {
						bad[r] = true
					}
				}
			case *ast.ValueSpec:
				for _, id := range x.Names {
					decl[id.Name] = true
				}
			case *ast.RangeStmt:
				if x.Tok == token.DEFINE {
					if id, ok := x.Key.(*ast.Ident); ok {
						decl[id.Name] = true
					}
					if id, ok := x.Value.(*ast.Ident); ok {
						decl[id.Name] = true
					}
				} else if inLit {
					for _, e := range []ast.Expr{x.Key, x.Value} {
						if e != nil {
							if r := rootIdent(e); r != "" {
								bad[r] = true
							}
						}
					}
				}
			case *ast.UnaryExpr:
				if x.Op == token.AND {
					if r := rootIdent(x.X); r != "" {
						if _, isLit := ast.Unparen(x.X).(*ast.CompositeLit); !isLit {
							bad[r] = true
						}
					}
				}
			}
			return true
		})
	}
	if fn.Body != nil {
		walk(fn.Body, false)
	}
	out := map[string]bool{}
	for n := range decl {
		if !bad[n] && n != "_" {
			out[n] = true
		}
	}
	return out
}

func isConstIdent(n string) bool {
	switch n {
	case "nil", "true", "false", "iota":
		return true
	}
	return false
}

// asIIFE: e is a call of a function literal that can be flattened.
func asIIFE(e ast.Expr) (*ast.CallExpr, *ast.FuncLit) {
	ce, ok := e.(*ast.CallExpr)
	if !ok {
		return nil, nil
	}
	lit, ok := ast.Unparen(ce.Fun).(*ast.FuncLit)
	if !ok || !flattenable(lit, ce) {
		return nil, nil
	}
	return ce, lit
}

// containsIIFE: some flattenable literal call occurs in e (outside nested literals).
func containsIIFE(e ast.Node) bool {
	found := false
	ast.Inspect(e, func(n ast.Node) bool {
		if found {
			return false
		}
		if x, ok := n.(ast.Expr); ok {
			if ce, _ := asIIFE(x); ce != nil {
				found = true
				return false
			}
		}
		if _, ok := n.(*ast.FuncLit); ok {
			return false
		}
		return true
	})
	return found
}

// seq scans sub-expressions that are evaluated in the given order. When one of them contains the call,
// the unstable ones before it are recorded for temporaries; the ones after it are not looked at.
func (fl *flattener) seq(es []ast.Expr, selfEffect bool) scanRes {
	res := scStable
	var unstable []ast.Expr
	for _, e := range es {
		if e == nil {
			continue
		}
		switch fl.scan(e) {
		case scAbort:
			return scAbort
		case scFound:
			fl.pre = append(fl.pre, unstable...)
			return scFound
		case scUnstable:
			unstable = append(unstable, e)
			res = scUnstable
		}
	}
	if selfEffect {
		res = scUnstable
	}
	return res
}

// scan classifies e; the first literal call in evaluation order becomes fl.call.
func (fl *flattener) scan(e ast.Expr) scanRes {
	if fl.call == nil {
		if ce, lit := asIIFE(e); ce != nil {
			// the arguments become the parameter bindings of the block: nothing to do for them
			fl.call, fl.lit = ce, lit
			return scFound
		}
	}
	switch x := e.(type) {
	case *ast.BasicLit:
		return scStable
	case *ast.Ident:
		switch {
		case isConstIdent(x.Name) || x.Name == "_":
			return scStable
		case fl.isLocalName(x.Name):
			if fl.stable[x.Name] {
				return scStable
			}
			return scUnstable
		case fl.pkgVars[x.Name]:
			return scUnstable
		}
		return scStable // package-level function, type or constant, or a builtin
	case *ast.ParenExpr:
		return fl.scan(x.X)
	case *ast.FuncLit:
		return scStable // creating a closure evaluates nothing
	case *ast.SelectorExpr:
		// pkg.Name or value.field / value.method
		if id, ok := x.X.(*ast.Ident); ok && !fl.isLocalName(id.Name) && !fl.pkgVars[id.Name] {
			return scStable // qualified identifier of an imported package (or a method expression on a type)
		}
		r := fl.scan(x.X)
		if r == scFound || r == scAbort {
			return r
		}
		return scUnstable // a field read (possibly through a pointer)
	case *ast.CallExpr:
		var parts []ast.Expr
		switch fun := ast.Unparen(x.Fun).(type) {
		case *ast.SelectorExpr:
			// method call or pkg.F: the receiver must be a stable local (a temporary copy of a struct receiver would be a different object)
			if id, ok := fun.X.(*ast.Ident); ok && (fl.stable[id.Name] || (!fl.isLocalName(id.Name) && !fl.pkgVars[id.Name])) {
				// nothing evaluated for the receiver
			} else {
				if containsIIFE(x) {
					return scAbort
				}
				return scUnstable
			}
		case *ast.Ident:
			// function, conversion or builtin; a local function value must be stable
			if fl.isLocalName(fun.Name) && !fl.stable[fun.Name] {
				if containsIIFE(x) {
					return scAbort
				}
				return scUnstable
			}
		case *ast.FuncLit:
			// a literal call that is not flattenable (or a later one)
			if containsIIFE(x) {
				for _, a := range x.Args {
					if containsIIFE(a) {
						return scAbort
					}
				}
			}
			return scUnstable
		default:
			// (T)(x), arr[i](x), ...: conversions to composite types are fine, anything else is rare
			if _, isType := fun.(*ast.ArrayType); !isType {
				if _, isType := fun.(*ast.MapType); !isType {
					if _, isType := fun.(*ast.StarExpr); !isType {
						if _, isType := fun.(*ast.InterfaceType); !isType {
							if containsIIFE(x) {
								return scAbort
							}
							return scUnstable
						}
					}
				}
			}
		}
		parts = append(parts, x.Args...)
		return fl.seq(parts, true)
	case *ast.CompositeLit:
		var parts []ast.Expr
		for _, el := range x.Elts {
			if kv, ok := el.(*ast.KeyValueExpr); ok {
				if _, isIdent := kv.Key.(*ast.Ident); !isIdent {
					parts = append(parts, kv.Key) // map or array key expression (a field name is not evaluated)
				}
				parts = append(parts, kv.Value)
			} else {
				parts = append(parts, el)
			}
		}
		return fl.seq(parts, false)
	case *ast.UnaryExpr:
		if x.Op == token.AND {
			if _, ok := ast.Unparen(x.X).(*ast.CompositeLit); ok {
				return fl.scan(x.X)
			}
			if id, ok := ast.Unparen(x.X).(*ast.Ident); ok && fl.isLocalName(id.Name) {
				return scStable // the address of a local does not change
			}
			if containsIIFE(x) {
				return scAbort
			}
			return scUnstable
		}
		return fl.seq([]ast.Expr{x.X}, x.Op == token.ARROW)
	case *ast.BinaryExpr:
		if x.Op == token.LAND || x.Op == token.LOR {
			r := fl.scan(x.X)
			if r == scFound || r == scAbort {
				return r
			}
			if containsIIFE(x.Y) {
				return scAbort // evaluated conditionally
			}
			return scUnstable
		}
		// arithmetic can panic (division, shift): ordered with the call through a temporary unless both sides are constants
		_, lc := ast.Unparen(x.X).(*ast.BasicLit)
		_, rc := ast.Unparen(x.Y).(*ast.BasicLit)
		return fl.seq([]ast.Expr{x.X, x.Y}, !(lc && rc))
	case *ast.IndexExpr:
		return fl.seq([]ast.Expr{x.X, x.Index}, true)
	case *ast.SliceExpr:
		return fl.seq([]ast.Expr{x.X, x.Low, x.High, x.Max}, true)
	case *ast.StarExpr:
		return fl.seq([]ast.Expr{x.X}, true)
	case *ast.TypeAssertExpr:
		return fl.seq([]ast.Expr{x.X}, true)
	case *ast.KeyValueExpr:
		return fl.seq([]ast.Expr{x.Value}, false)
	case *ast.ArrayType, *ast.MapType, *ast.StructType, *ast.InterfaceType, *ast.FuncType, *ast.ChanType:
		return scStable
	}
	if containsIIFE(e) {
		return scAbort
	}
	return scUnstable
}

// isLocalName: the name is declared somewhere inside the enclosing function.
func (fl *flattener) isLocalName(n string) bool {
	_, ok := fl.localNames[n]
	return ok
}

// lhsOK: an assignment target that designates the same variable before and after the call.
func (fl *flattener) lhsOK(l ast.Expr) (ok bool, operands []ast.Expr) {
	switch x := ast.Unparen(l).(type) {
	case *ast.Ident:
		return true, nil
	case *ast.IndexExpr:
		if id, isID := ast.Unparen(x.X).(*ast.Ident); isID && fl.stable[id.Name] {
			return true, []ast.Expr{x.Index}
		}
	case *ast.SelectorExpr:
		if id, isID := ast.Unparen(x.X).(*ast.Ident); isID && fl.stable[id.Name] {
			return true, nil
		}
	case *ast.StarExpr:
		if id, isID := ast.Unparen(x.X).(*ast.Ident); isID && fl.stable[id.Name] {
			return true, nil
		}
	}
	return false, nil
}

// scanSimple scans a simple statement (assignment, definition, expression, send, var declaration, return).
func (fl *flattener) scanSimple(s ast.Stmt) scanRes {
	switch x := s.(type) {
	case *ast.ExprStmt:
		return fl.scan(x.X)
	case *ast.SendStmt:
		return fl.seq([]ast.Expr{x.Chan, x.Value}, true)
	case *ast.AssignStmt:
		if x.Tok != token.ASSIGN && x.Tok != token.DEFINE {
			return scAbort
		}
		var parts []ast.Expr
		var byAddr []ast.Expr
		for _, l := range x.Lhs {
			ok, ops := fl.lhsOK(l)
			if !ok {
				// a target that is not a plain local (a.b.c, p.items[i]): its address is taken before the call and the
				// result is written through it; a target that has no address (a map element) makes the text fail to
				// type-check, and the caller then keeps the literal call
				if x.Tok != token.ASSIGN || containsIIFE(l) {
					if containsIIFE(x) {
						return scAbort
					}
					return scUnstable
				}
				byAddr = append(byAddr, l)
				continue
			}
			parts = append(parts, ops...)
		}
		parts = append(parts, x.Rhs...)
		r := fl.seq(parts, true)
		if r == scFound && len(byAddr) > 0 {
			if fl.preAddr == nil {
				fl.preAddr = map[ast.Expr]bool{}
			}
			for _, l := range byAddr {
				fl.pre = append(fl.pre, l)
				fl.preAddr[l] = true
			}
		}
		return r
	case *ast.ReturnStmt:
		return fl.seq(x.Results, true)
	case *ast.DeclStmt:
		if gd, ok := x.Decl.(*ast.GenDecl); ok && gd.Tok == token.VAR && len(gd.Specs) == 1 {
			return fl.seq(gd.Specs[0].(*ast.ValueSpec).Values, true)
		}
	}
	return scAbort
}

// scanStmt: the part of a statement (in a statement list) that is evaluated first, exactly once.
func (fl *flattener) scanStmt(s ast.Stmt) scanRes {
	switch x := s.(type) {
	case *ast.RangeStmt:
		return fl.scan(x.X)
	case *ast.IfStmt:
		if x.Init != nil {
			return fl.scanSimple(x.Init)
		}
		return fl.scan(x.Cond)
	case *ast.SwitchStmt:
		if x.Init != nil {
			return fl.scanSimple(x.Init)
		}
		if x.Tag != nil {
			return fl.scan(x.Tag)
		}
		return scStable
	case *ast.TypeSwitchStmt:
		if x.Init != nil {
			return fl.scanSimple(x.Init)
		}
		switch a := x.Assign.(type) {
		case *ast.ExprStmt:
			return fl.scan(a.X)
		case *ast.AssignStmt:
			if len(a.Rhs) == 1 {
				return fl.scan(a.Rhs[0])
			}
		}
		return scAbort
	case *ast.ExprStmt, *ast.SendStmt, *ast.AssignStmt, *ast.ReturnStmt, *ast.DeclStmt:
		return fl.scanSimple(s)
	}
	return scStable
}

func flattenOne(filename string, src []byte, pkgVars map[string]bool) ([]byte, bool) {
	fset := token.NewFileSet()
	f, err := parser.ParseFile(fset, filename, src, parser.ParseComments|parser.SkipObjectResolution)
	if err != nil {
		return nil, false
	}
	used := map[string]bool{}
	ast.Inspect(f, func(n ast.Node) bool {
		if id, ok := n.(*ast.Ident); ok {
			used[id.Name] = true
		}
		return true
	})
	var fl *flattener
	var site ast.Stmt
	for _, d := range f.Decls {
		fd, ok := d.(*ast.FuncDecl)
		if !ok || fd.Body == nil || site != nil {
			continue
		}
		stable := stableLocals(fd)
		locals := map[string]bool{}
		ast.Inspect(fd, func(n ast.Node) bool {
			switch x := n.(type) {
			case *ast.AssignStmt:
				if x.Tok == token.DEFINE {
					for _, l := range x.Lhs {
						if id, ok := l.(*ast.Ident); ok {
							locals[id.Name] = true
						}
					}
				}
			case *ast.ValueSpec:
				for _, id := range x.Names {
					locals[id.Name] = true
				}
			case *ast.RangeStmt:
				for _, e := range []ast.Expr{x.Key, x.Value} {
					if id, ok := e.(*ast.Ident); ok && x.Tok == token.DEFINE {
						locals[id.Name] = true
					}
				}
			case *ast.Field:
				for _, id := range x.Names {
					locals[id.Name] = true
				}
			case *ast.TypeSwitchStmt:
				if a, ok := x.Assign.(*ast.AssignStmt); ok {
					if id, ok := a.Lhs[0].(*ast.Ident); ok {
						locals[id.Name] = true
					}
				}
			case *ast.LabeledStmt:
				// a label is not a value name
			}
			return true
		})
		try := func(s ast.Stmt) {
			if site != nil {
				return
			}
			if _, isLabeled := s.(*ast.LabeledStmt); isLabeled {
				return
			}
			c := &flattener{fset: fset, src: src, pkgVars: pkgVars, stable: stable, localNames: locals}
			if c.scanStmt(s) == scFound && c.call != nil {
				fl, site = c, s
			}
		}
		ast.Inspect(fd.Body, func(n ast.Node) bool {
			if site != nil {
				return false
			}
			switch x := n.(type) {
			case *ast.BlockStmt:
				// (also inside function literals: a return of the flattened body becomes a jump or a return of that literal)
				for _, s := range x.List {
					try(s)
				}
			case *ast.CaseClause:
				for _, s := range x.Body {
					try(s)
				}
			case *ast.CommClause:
				for _, s := range x.Body {
					try(s)
				}
			}
			return true
		})
	}
	if site == nil {
		return nil, false
	}
	fresh := func(base string) string {
		for i := 0; ; i++ {
			n := fmt.Sprintf("%s%d", base, i)
			if !used[n] {
				used[n] = true
				return n
			}
		}
	}
	text := fl.text
	lit, call := fl.lit, fl.call
	type pr struct{ name, typ string }
	var params, results []pr
	for _, fld := range lit.Type.Params.List {
		t := text(fld.Type)
		if len(fld.Names) == 0 {
			params = append(params, pr{"_", t})
		}
		for _, n := range fld.Names {
			params = append(params, pr{n.Name, t})
		}
	}
	namedResults := false
	if lit.Type.Results != nil {
		for _, fld := range lit.Type.Results.List {
			t := text(fld.Type)
			if len(fld.Names) == 0 {
				results = append(results, pr{"", t})
			}
			for _, n := range fld.Names {
				results = append(results, pr{n.Name, t})
				if n.Name != "_" {
					namedResults = true
				}
			}
		}
	}
	// is the statement `return <call>` as a whole?
	tail := false
	if rs, ok := site.(*ast.ReturnStmt); ok && len(rs.Results) == 1 && ast.Unparen(rs.Results[0]) == ast.Expr(call) && len(fl.pre) == 0 {
		tail = true
	}
	var b bytes.Buffer
	// 1. temporaries for what is evaluated before the call
	sort.Slice(fl.pre, func(i, j int) bool { return fl.pre[i].Pos() < fl.pre[j].Pos() })
	type repl struct {
		so, eo int
		with   string
	}
	var repls []repl
	for _, e := range fl.pre {
		t := fresh("ucfgInlTmp")
		if fl.preAddr[e] {
			fmt.Fprintf(&b, "%s := &(%s)\n", t, text(e))
			repls = append(repls, repl{fset.Position(e.Pos()).Offset, fset.Position(e.End()).Offset, "(*" + t + ")"})
			continue
		}
		fmt.Fprintf(&b, "%s := %s\n", t, text(e))
		repls = append(repls, repl{fset.Position(e.Pos()).Offset, fset.Position(e.End()).Offset, t})
	}
	// 2. result temporaries
	var temps []string
	if !tail {
		for _, r := range results {
			t := fresh("ucfgInlRet")
			temps = append(temps, t)
			fmt.Fprintf(&b, "var %s %s\n", t, r.typ)
		}
	}
	end := fresh("ucfgInlEnd")
	b.WriteString("{\n")
	if len(params) > 0 {
		var ls, rs, keep []string
		allBlank := true
		for i, p := range params {
			ls = append(ls, p.name)
			rs = append(rs, "("+p.typ+")("+text(call.Args[i])+")")
			if p.name != "_" {
				allBlank = false
				keep = append(keep, p.name)
			}
		}
		if allBlank {
			fmt.Fprintf(&b, "%s = %s\n", strings.Join(ls, ", "), strings.Join(rs, ", "))
		} else {
			fmt.Fprintf(&b, "%s := %s\n", strings.Join(ls, ", "), strings.Join(rs, ", "))
			fmt.Fprintf(&b, "%s = %s\n", strings.Repeat("_, ", len(keep)-1)+"_", strings.Join(keep, ", "))
		}
	}
	var resNames []string
	if namedResults {
		for _, r := range results {
			n := r.name
			if n == "_" || n == "" {
				n = fresh("ucfgInlRes")
			}
			resNames = append(resNames, n)
			fmt.Fprintf(&b, "var %s %s\n_ = %s\n", n, r.typ, n)
		}
	}
	bodyStart := fset.Position(lit.Body.Lbrace).Offset + 1
	bodyEnd := fset.Position(lit.Body.Rbrace).Offset
	body := append([]byte{}, src[bodyStart:bodyEnd]...)
	var rets []*ast.ReturnStmt
	ast.Inspect(lit.Body, func(n ast.Node) bool {
		switch x := n.(type) {
		case *ast.FuncLit:
			return false
		case *ast.ReturnStmt:
			rets = append(rets, x)
		}
		return true
	})
	sort.Slice(rets, func(i, j int) bool { return rets[i].Pos() > rets[j].Pos() })
	var last ast.Stmt
	if n := len(lit.Body.List); n > 0 {
		last = lit.Body.List[n-1]
	}
	usedGoto := false
	for _, r := range rets {
		var rep string
		var es []string
		for _, e := range r.Results {
			es = append(es, text(e))
		}
		if len(r.Results) == 0 {
			es = resNames
		}
		switch {
		case tail:
			rep = "return " + strings.Join(es, ", ")
		default:
			assign := ""
			if len(temps) > 0 {
				assign = strings.Join(temps, ", ") + " = " + strings.Join(es, ", ")
			}
			if ast.Stmt(r) == last {
				rep = "{ " + assign + " }"
			} else {
				usedGoto = true
				if assign != "" {
					rep = "{ " + assign + "; goto " + end + " }"
				} else {
					rep = "{ goto " + end + " }"
				}
			}
		}
		so, eo := fset.Position(r.Pos()).Offset-bodyStart, fset.Position(r.End()).Offset-bodyStart
		body = append(append(append([]byte{}, body[:so]...), rep...), body[eo:]...)
	}
	b.Write(body)
	b.WriteString("\n}\n")
	so, eo := fset.Position(site.Pos()).Offset, fset.Position(site.End()).Offset
	if !tail {
		if usedGoto {
			fmt.Fprintf(&b, "%s:\n", end)
		}
		if es, ok := site.(*ast.ExprStmt); ok && ast.Unparen(es.X) == ast.Expr(call) {
			// the call was the whole statement
			if len(temps) > 0 {
				fmt.Fprintf(&b, "%s = %s\n", strings.Repeat("_, ", len(temps)-1)+"_", strings.Join(temps, ", "))
			} else if usedGoto {
				b.WriteString(";\n")
			}
		} else {
			repls = append(repls, repl{fset.Position(call.Pos()).Offset, fset.Position(call.End()).Offset, strings.Join(temps, ", ")})
			sort.Slice(repls, func(i, j int) bool { return repls[i].so < repls[j].so })
			pos := so
			for _, rp := range repls {
				if rp.so < pos {
					return nil, false // overlapping (cannot happen: the recorded expressions are disjoint)
				}
				b.Write(src[pos:rp.so])
				b.WriteString(rp.with)
				pos = rp.eo
			}
			b.Write(src[pos:eo])
			b.WriteString("\n")
		}
	}
	out := append(append(append([]byte{}, src[:so]...), b.Bytes()...), src[eo:]...)
	formatted, err := format.Source(out)
	if err != nil {
		return nil, false
	}
	return formatted, true
}

// flattenable: no defer, recover, labels or goto in the body (outside nested literals), not variadic,
// as many arguments as parameters.
func flattenable(lit *ast.FuncLit, call *ast.CallExpr) bool {
	np := 0
	for _, fl := range lit.Type.Params.List {
		if _, ok := fl.Type.(*ast.Ellipsis); ok {
			return false
		}
		if len(fl.Names) == 0 {
			np++
		}
		np += len(fl.Names)
	}
	if np != len(call.Args) || call.Ellipsis.IsValid() {
		return false
	}
	if lit.Type.TypeParams != nil {
		return false
	}
	ok := true
	ast.Inspect(lit.Body, func(n ast.Node) bool {
		switch x := n.(type) {
		case *ast.FuncLit:
			return false
		case *ast.DeferStmt, *ast.LabeledStmt:
			ok = false
		case *ast.BranchStmt:
			if x.Tok == token.GOTO || x.Label != nil {
				ok = false
			}
		case *ast.CallExpr:
			if id, isID := x.Fun.(*ast.Ident); isID && id.Name == "recover" {
				ok = false
			}
		}
		return ok
	})
	return ok
}
