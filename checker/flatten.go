package main

// Flattening of immediately invoked function literals. The x/tools inliner reduces a call to the
// callee's body only when the body is a single return (or the call is a statement); otherwise it
// "literalises": `d, err = f(a, b)` becomes `d, err = func(...) (...) { body }(a, b)`. This file
// turns such a literal call, when it is the whole right-hand side of an assignment, definition,
// return or expression statement standing in a statement list, into the statements of the body:
//
//	var t0 R0; var t1 R1
//	{
//		p0, p1 := P0(a), P1(b)        // parameters, bound in parallel, converted to the parameter type
//		var r0 R0; var r1 R1          // named results
//		body, each `return x, y` replaced by { t0, t1 = x, y; goto end }
//	}
//	end:
//	d, err = t0, t1
//
// Go's scoping makes this behaviour preserving as long as the body has no defer/recover (they would
// bind to the caller) and no labels; those cases are left as literals. Nested function literals are
// not entered. The result is checked by the type checker in the next load; a text that does not
// type-check is dropped by the caller.

import (
	"bytes"
	"fmt"
	"go/ast"
	"go/format"
	"go/parser"
	"go/token"
	"sort"
	"strings"
)

// flattenLiterals rewrites every eligible literal call in src; it returns src unchanged when there is none.
func flattenLiterals(filename string, src []byte) []byte {
	for n := 0; n < 40; n++ {
		out, ok := flattenOne(filename, src, n)
		if !ok {
			break
		}
		src = out
	}
	return src
}

type iifeSite struct {
	stmt ast.Stmt      // statement in a statement list whose whole right-hand side is the call
	call *ast.CallExpr // the literal call
	lit  *ast.FuncLit
}

func flattenOne(filename string, src []byte, serial int) ([]byte, bool) {
	fset := token.NewFileSet()
	f, err := parser.ParseFile(fset, filename, src, parser.ParseComments|parser.SkipObjectResolution)
	if err != nil {
		return nil, false
	}
	// names in use (to keep the invented ones fresh)
	used := map[string]bool{}
	ast.Inspect(f, func(n ast.Node) bool {
		if id, ok := n.(*ast.Ident); ok {
			used[id.Name] = true
		}
		return true
	})
	var site *iifeSite
	var visitList func(list []ast.Stmt)
	asLit := func(e ast.Expr) (*ast.CallExpr, *ast.FuncLit) {
		ce, ok := ast.Unparen(e).(*ast.CallExpr)
		if !ok {
			return nil, nil
		}
		lit, ok := ast.Unparen(ce.Fun).(*ast.FuncLit)
		if !ok {
			return nil, nil
		}
		return ce, lit
	}
	// simpleRHS: the expression of a simple statement that is, as a whole, evaluated after everything else in it
	var simpleRHS func(s ast.Stmt) ast.Expr
	simpleRHS = func(s ast.Stmt) ast.Expr {
		switch x := s.(type) {
		case *ast.ExprStmt:
			return x.X
		case *ast.AssignStmt:
			if len(x.Rhs) == 1 && (x.Tok == token.ASSIGN || x.Tok == token.DEFINE) {
				// the left-hand side must not have effects of its own ordered before the call
				for _, l := range x.Lhs {
					if !simpleOperand(l) {
						return nil
					}
				}
				return x.Rhs[0]
			}
		case *ast.ReturnStmt:
			if len(x.Results) == 1 {
				return x.Results[0]
			}
			// several operands: one literal call, the others constants
			var e ast.Expr
			for _, r := range x.Results {
				if constOperand(r) {
					continue
				}
				if e != nil {
					return nil
				}
				e = r
			}
			return e
		case *ast.DeclStmt:
			if gd, ok := x.Decl.(*ast.GenDecl); ok && gd.Tok == token.VAR && len(gd.Specs) == 1 {
				if vs := gd.Specs[0].(*ast.ValueSpec); len(vs.Values) == 1 {
					return vs.Values[0]
				}
			}
		}
		return nil
	}
	consider := func(s ast.Stmt) {
		if site != nil {
			return
		}
		var e ast.Expr
		switch x := s.(type) {
		case *ast.RangeStmt:
			e = x.X // evaluated once, before the loop
		case *ast.IfStmt:
			if x.Init != nil {
				if _, isExpr := x.Init.(*ast.ExprStmt); !isExpr {
					e = simpleRHS(x.Init)
				}
			} else {
				e = x.Cond
			}
		case *ast.SwitchStmt:
			if x.Init != nil {
				if _, isExpr := x.Init.(*ast.ExprStmt); !isExpr {
					e = simpleRHS(x.Init)
				}
			} else {
				e = x.Tag
			}
		default:
			e = simpleRHS(s)
		}
		if e == nil {
			return
		}
		ce, lit := asLit(e)
		if lit == nil || !flattenable(lit, ce) {
			return
		}
		site = &iifeSite{s, ce, lit}
	}
	visitList = func(list []ast.Stmt) {
		for _, s := range list {
			consider(s)
		}
	}
	ast.Inspect(f, func(n ast.Node) bool {
		if site != nil {
			return false
		}
		switch x := n.(type) {
		case *ast.BlockStmt:
			visitList(x.List)
		case *ast.CaseClause:
			visitList(x.Body)
		case *ast.CommClause:
			visitList(x.Body)
		}
		return true
	})
	if site == nil {
		return nil, false
	}
	fresh := func(base string) string {
		for i := 0; ; i++ {
			n := fmt.Sprintf("%s%d", base, i)
			if !used[n] {
				used[n] = true
				return n
			}
		}
	}
	text := func(n ast.Node) string {
		return string(src[fset.Position(n.Pos()).Offset:fset.Position(n.End()).Offset])
	}
	lit, call := site.lit, site.call
	// flatten the signature
	type pr struct{ name, typ string }
	var params, results []pr
	for _, fl := range lit.Type.Params.List {
		t := text(fl.Type)
		if len(fl.Names) == 0 {
			params = append(params, pr{"_", t})
		}
		for _, n := range fl.Names {
			params = append(params, pr{n.Name, t})
		}
	}
	namedResults := false
	if lit.Type.Results != nil {
		for _, fl := range lit.Type.Results.List {
			t := text(fl.Type)
			if len(fl.Names) == 0 {
				results = append(results, pr{"", t})
			}
			for _, n := range fl.Names {
				results = append(results, pr{n.Name, t})
				if n.Name != "_" {
					namedResults = true
				}
			}
		}
	}
	var b bytes.Buffer
	var temps []string
	for _, r := range results {
		t := fresh("ucfgInlRet")
		temps = append(temps, t)
		fmt.Fprintf(&b, "var %s %s\n", t, r.typ)
	}
	end := fresh("ucfgInlEnd")
	b.WriteString("{\n")
	// parameters
	if len(params) > 0 {
		var ls, rs, keep []string
		allBlank := true
		for i, p := range params {
			ls = append(ls, p.name)
			rs = append(rs, "("+p.typ+")("+text(call.Args[i])+")")
			if p.name != "_" {
				allBlank = false
				keep = append(keep, p.name)
			}
		}
		if allBlank {
			fmt.Fprintf(&b, "%s = %s\n", strings.Join(ls, ", "), strings.Join(rs, ", "))
		} else {
			fmt.Fprintf(&b, "%s := %s\n", strings.Join(ls, ", "), strings.Join(rs, ", "))
			fmt.Fprintf(&b, "%s = %s\n", strings.Repeat("_, ", len(keep)-1)+"_", strings.Join(keep, ", "))
		}
	}
	var resNames []string
	if namedResults {
		for _, r := range results {
			n := r.name
			if n == "_" || n == "" {
				n = fresh("ucfgInlRes")
			}
			resNames = append(resNames, n)
			fmt.Fprintf(&b, "var %s %s\n_ = %s\n", n, r.typ, n)
		}
	}
	// body with the returns replaced (from the back so that offsets stay valid)
	bodyStart := fset.Position(lit.Body.Lbrace).Offset + 1
	bodyEnd := fset.Position(lit.Body.Rbrace).Offset
	body := append([]byte{}, src[bodyStart:bodyEnd]...)
	var rets []*ast.ReturnStmt
	ast.Inspect(lit.Body, func(n ast.Node) bool {
		switch x := n.(type) {
		case *ast.FuncLit:
			return false
		case *ast.ReturnStmt:
			rets = append(rets, x)
		}
		return true
	})
	sort.Slice(rets, func(i, j int) bool { return rets[i].Pos() > rets[j].Pos() })
	var last ast.Stmt
	if n := len(lit.Body.List); n > 0 {
		last = lit.Body.List[n-1]
	}
	usedGoto := false
	for _, r := range rets {
		var rep string
		assign := ""
		switch {
		case len(temps) == 0:
		case len(r.Results) == 0:
			assign = strings.Join(temps, ", ") + " = " + strings.Join(resNames, ", ")
		default:
			var es []string
			for _, e := range r.Results {
				es = append(es, text(e))
			}
			assign = strings.Join(temps, ", ") + " = " + strings.Join(es, ", ")
		}
		if ast.Stmt(r) == last {
			rep = "{ " + assign + " }"
		} else {
			usedGoto = true
			if assign != "" {
				rep = "{ " + assign + "; goto " + end + " }"
			} else {
				rep = "{ goto " + end + " }"
			}
		}
		so, eo := fset.Position(r.Pos()).Offset-bodyStart, fset.Position(r.End()).Offset-bodyStart
		body = append(append(append([]byte{}, body[:so]...), rep...), body[eo:]...)
	}
	b.Write(body)
	// a body that ends without a return (only possible with named results falling off? no: with results a
	// terminating statement is required; a panic or an endless loop leaves the temporaries unset, unreachable)
	b.WriteString("\n}\n")
	if usedGoto {
		fmt.Fprintf(&b, "%s:\n", end)
	}
	// the original statement with the call replaced by the temporaries
	so, eo := fset.Position(site.stmt.Pos()).Offset, fset.Position(site.stmt.End()).Offset
	cs, ce := fset.Position(call.Pos()).Offset, fset.Position(call.End()).Offset
	// widen to enclosing parentheses of the call, if any, is unnecessary: "(t0)" is fine
	switch site.stmt.(type) {
	case *ast.ExprStmt:
		if len(temps) > 0 {
			fmt.Fprintf(&b, "%s = %s\n", strings.Repeat("_, ", len(temps)-1)+"_", strings.Join(temps, ", "))
		} else if usedGoto {
			b.WriteString(";\n")
		}
	default:
		b.Write(src[so:cs])
		b.WriteString(strings.Join(temps, ", "))
		b.Write(src[ce:eo])
		b.WriteString("\n")
	}
	out := append(append(append([]byte{}, src[:so]...), b.Bytes()...), src[eo:]...)
	formatted, err := format.Source(out)
	if err != nil {
		return nil, false
	}
	return formatted, true
}

// constOperand: a literal or one of nil, true, false.
func constOperand(e ast.Expr) bool {
	switch x := ast.Unparen(e).(type) {
	case *ast.BasicLit:
		return true
	case *ast.Ident:
		return x.Name == "nil" || x.Name == "true" || x.Name == "false"
	}
	return false
}

// simpleOperand: an identifier, a field selection chain on an identifier or a blank.
func simpleOperand(e ast.Expr) bool {
	switch x := ast.Unparen(e).(type) {
	case *ast.Ident:
		return true
	case *ast.SelectorExpr:
		return simpleOperand(x.X)
	case *ast.StarExpr:
		return simpleOperand(x.X)
	}
	return false
}

// flattenable: no defer, recover, labels or goto in the body (outside nested literals), not variadic,
// as many arguments as parameters.
func flattenable(lit *ast.FuncLit, call *ast.CallExpr) bool {
	np := 0
	for _, fl := range lit.Type.Params.List {
		if _, ok := fl.Type.(*ast.Ellipsis); ok {
			return false
		}
		if len(fl.Names) == 0 {
			np++
		}
		np += len(fl.Names)
	}
	if np != len(call.Args) || call.Ellipsis.IsValid() {
		return false
	}
	if lit.Type.TypeParams != nil {
		return false
	}
	ok := true
	ast.Inspect(lit.Body, func(n ast.Node) bool {
		switch x := n.(type) {
		case *ast.FuncLit:
			return false
		case *ast.DeferStmt, *ast.LabeledStmt:
			ok = false
		case *ast.BranchStmt:
			if x.Tok == token.GOTO || x.Label != nil {
				ok = false
			}
		case *ast.CallExpr:
			if id, isID := x.Fun.(*ast.Ident); isID && id.Name == "recover" {
				ok = false
			}
		}
		return ok
	})
	return ok
}
