package main

// Comparison facts: normalising branch conditions on integer values (polarity applied) and
// collecting the facts that dominate a program point. No arithmetic solving: constants are
// folded with go/constant, everything else is bookkeeping of comparison outcomes.

import (
	"go/token"
	"go/types"

	"golang.org/x/tools/go/ssa"
)

// Cmp is a comparison known to hold: X Op Y.
type Cmp struct {
	X, Y ssa.Value
	Op   token.Token // LSS LEQ GTR GEQ EQL NEQ
}

func negateOp(op token.Token) token.Token {
	switch op {
	case token.LSS:
		return token.GEQ
	case token.LEQ:
		return token.GTR
	case token.GTR:
		return token.LEQ
	case token.GEQ:
		return token.LSS
	case token.EQL:
		return token.NEQ
	case token.NEQ:
		return token.EQL
	}
	return token.ILLEGAL
}

func flipOp(op token.Token) token.Token {
	switch op {
	case token.LSS:
		return token.GTR
	case token.LEQ:
		return token.GEQ
	case token.GTR:
		return token.LSS
	case token.GEQ:
		return token.LEQ
	}
	return op
}

// CmpOf turns a condition value with a truth value into a comparison fact, looking through `!`.
func CmpOf(v ssa.Value, truth bool) (Cmp, bool) {
	for {
		u, ok := v.(*ssa.UnOp)
		if !ok || u.Op != token.NOT {
			break
		}
		v = u.X
		truth = !truth
	}
	b, ok := v.(*ssa.BinOp)
	if !ok {
		return Cmp{}, false
	}
	switch b.Op {
	case token.LSS, token.LEQ, token.GTR, token.GEQ, token.EQL, token.NEQ:
	default:
		return Cmp{}, false
	}
	op := b.Op
	if !truth {
		op = negateOp(op)
	}
	return Cmp{b.X, b.Y, op}, true
}

// stripConv removes value-preserving integer conversions / type changes for identification purposes.
func stripConv(v ssa.Value) ssa.Value {
	for {
		switch x := v.(type) {
		case *ssa.ChangeType:
			v = x.X
		case *ssa.Convert:
			// widening conversions within one signedness keep the value (int -> int64, uint8 -> uint64)
			if !wideningConv(x.X.Type(), x.Type()) {
				return v
			}
			v = x.X
		default:
			return v
		}
	}
}

// SameValue: a and b are the same SSA value, or read the same storage path (go/ssa has no CSE).
// The caller is responsible for checking that no store intervenes when paths are used.
func SameValue(a, b ssa.Value) bool {
	a, b = stripConv(a), stripConv(b)
	if a == b {
		return true
	}
	pa, oka := AccessPath(a)
	pb, okb := AccessPath(b)
	return oka && okb && pa == pb && !isAddrPath(pa)
}

func isAddrPath(p string) bool { return len(p) > 0 && p[0] == '&' }

// FactsAt returns the comparison facts that hold on entry to block b (dominating branch edges).
func FactsAt(b *ssa.BasicBlock) []Cmp {
	var out []Cmp
	for _, cd := range ExpandConds(DomConds(b)) {
		if c, ok := CmpOf(cd.V, cd.Truth); ok {
			out = append(out, c)
		}
	}
	return out
}

// LowerBoundConst: do the facts imply v >= k for the constant k? (only direct comparisons of v with constants)
func LowerBoundConst(v ssa.Value, facts []Cmp, k int64) bool {
	for _, f := range facts {
		x, y, op := f.X, f.Y, f.Op
		if SameValue(y, v) {
			x, y, op = y, x, flipOp(op)
		}
		if !SameValue(x, v) {
			continue
		}
		c, ok := ConstInt(y)
		if !ok {
			continue
		}
		switch op {
		case token.GEQ:
			if c >= k {
				return true
			}
		case token.GTR:
			if c >= k-1 {
				return true
			}
		case token.EQL:
			if c >= k {
				return true
			}
		}
	}
	return false
}

// UpperBoundBy: do the facts contain v <= w (strict=false) or v < w (strict=true: only `<`) for a w accepted by isW?
func UpperBoundBy(v ssa.Value, facts []Cmp, isW func(ssa.Value) bool, needStrict bool) bool {
	for _, f := range facts {
		x, y, op := f.X, f.Y, f.Op
		if SameValue(y, v) && !SameValue(x, v) {
			x, y, op = y, x, flipOp(op)
		}
		if !SameValue(x, v) || !isW(y) {
			continue
		}
		switch op {
		case token.LSS:
			return true
		case token.LEQ, token.EQL:
			if !needStrict {
				return true
			}
		}
	}
	return false
}

func wideningConv(from, to types.Type) bool {
	fb, ok1 := from.Underlying().(*types.Basic)
	tb, ok2 := to.Underlying().(*types.Basic)
	if !ok1 || !ok2 || fb.Info()&types.IsInteger == 0 || tb.Info()&types.IsInteger == 0 {
		return false
	}
	if (fb.Info()&types.IsUnsigned != 0) != (tb.Info()&types.IsUnsigned != 0) {
		return false
	}
	width := func(b *types.Basic) int {
		switch b.Kind() {
		case types.Int8, types.Uint8:
			return 8
		case types.Int16, types.Uint16:
			return 16
		case types.Int32, types.Uint32:
			return 32
		case types.Int64, types.Uint64:
			return 64
		case types.Int, types.Uint, types.Uintptr:
			return 63 // at most 64, at least 32: wider than 32-bit types, not wider than 64-bit ones
		}
		return 0
	}
	fw, tw := width(fb), width(tb)
	if fw == 0 || tw == 0 {
		return false
	}
	if fw == 63 && tw == 63 {
		return true
	}
	if fw == 63 {
		return tw == 64
	}
	if tw == 63 {
		return fw <= 32
	}
	return fw <= tw
}
