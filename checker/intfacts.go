package main

// Comparison facts: normalising branch conditions on integer values (polarity applied) and
// collecting the facts that dominate a program point. No arithmetic solving: constants are
// folded with go/constant, everything else is bookkeeping of comparison outcomes.

import (
	"go/token"

	"golang.org/x/tools/go/ssa"
)

// Cmp is a comparison known to hold: X Op Y.
type Cmp struct {
	X, Y ssa.Value
	Op   token.Token // LSS LEQ GTR GEQ EQL NEQ
}

func negateOp(op token.Token) token.Token {
	switch op {
	case token.LSS:
		return token.GEQ
	case token.LEQ:
		return token.GTR
	case token.GTR:
		return token.LEQ
	case token.GEQ:
		return token.LSS
	case token.EQL:
		return token.NEQ
	case token.NEQ:
		return token.EQL
	}
	return token.ILLEGAL
}

func flipOp(op token.Token) token.Token {
	switch op {
	case token.LSS:
		return token.GTR
	case token.LEQ:
		return token.GEQ
	case token.GTR:
		return token.LSS
	case token.GEQ:
		return token.LEQ
	}
	return op
}

// CmpOf turns a condition value with a truth value into a comparison fact, looking through `!`.
func CmpOf(v ssa.Value, truth bool) (Cmp, bool) {
	for {
		u, ok := v.(*ssa.UnOp)
		if !ok || u.Op != token.NOT {
			break
		}
		v = u.X
		truth = !truth
	}
	b, ok := v.(*ssa.BinOp)
	if !ok {
		return Cmp{}, false
	}
	switch b.Op {
	case token.LSS, token.LEQ, token.GTR, token.GEQ, token.EQL, token.NEQ:
	default:
		return Cmp{}, false
	}
	op := b.Op
	if !truth {
		op = negateOp(op)
	}
	return Cmp{b.X, b.Y, op}, true
}

// stripConv removes value-preserving integer conversions / type changes for identification purposes.
func stripConv(v ssa.Value) ssa.Value {
	for {
		switch x := v.(type) {
		case *ssa.ChangeType:
			v = x.X
		default:
			return v
		}
	}
}

// SameValue: a and b are the same SSA value, or read the same storage path (go/ssa has no CSE).
// The caller is responsible for checking that no store intervenes when paths are used.
func SameValue(a, b ssa.Value) bool {
	a, b = stripConv(a), stripConv(b)
	if a == b {
		return true
	}
	pa, oka := AccessPath(a)
	pb, okb := AccessPath(b)
	return oka && okb && pa == pb && !isAddrPath(pa)
}

func isAddrPath(p string) bool { return len(p) > 0 && p[0] == '&' }

// FactsAt returns the comparison facts that hold on entry to block b (dominating branch edges).
func FactsAt(b *ssa.BasicBlock) []Cmp {
	var out []Cmp
	for _, cd := range DomConds(b) {
		if c, ok := CmpOf(cd.V, cd.Truth); ok {
			out = append(out, c)
		}
	}
	return out
}

// LowerBoundConst: do the facts imply v >= k for the constant k? (only direct comparisons of v with constants)
func LowerBoundConst(v ssa.Value, facts []Cmp, k int64) bool {
	for _, f := range facts {
		x, y, op := f.X, f.Y, f.Op
		if SameValue(y, v) {
			x, y, op = y, x, flipOp(op)
		}
		if !SameValue(x, v) {
			continue
		}
		c, ok := ConstInt(y)
		if !ok {
			continue
		}
		switch op {
		case token.GEQ:
			if c >= k {
				return true
			}
		case token.GTR:
			if c >= k-1 {
				return true
			}
		case token.EQL:
			if c >= k {
				return true
			}
		}
	}
	return false
}

// UpperBoundBy: do the facts contain v <= w (strict=false) or v < w (strict=true: only `<`) for a w accepted by isW?
func UpperBoundBy(v ssa.Value, facts []Cmp, isW func(ssa.Value) bool, needStrict bool) bool {
	for _, f := range facts {
		x, y, op := f.X, f.Y, f.Op
		if SameValue(y, v) && !SameValue(x, v) {
			x, y, op = y, x, flipOp(op)
		}
		if !SameValue(x, v) || !isW(y) {
			continue
		}
		switch op {
		case token.LSS:
			return true
		case token.LEQ, token.EQL:
			if !needStrict {
				return true
			}
		}
	}
	return false
}
