package main

// E7 normal forms: a value's defining expression, read back from SSA as a tree over named roles,
// constants, field selections and calls. Two sibling functions agree on how they compute something
// when the trees are equal after binding each one's own parameters to the shared roles.
// Local variables are resolved through their stores (whole-value and per-field), calls to
// loop-free repository functions are inlined (so a helper extracted on one side only is seen
// through), everything else is an opaque node compared by name and arguments.

import (
	"fmt"
	"go/token"
	"go/types"
	"sort"
	"strings"

	"golang.org/x/tools/go/ssa"
)

type nf struct {
	op     string // role | const | call | field | alt | struct | bin | un | opaque
	name   string
	args   []*nf
	fields map[string]*nf
}

func (n *nf) String() string {
	if n == nil {
		return "<nil>"
	}
	switch n.op {
	case "role":
		return "$" + n.name
	case "const":
		return n.name
	case "field":
		return n.args[0].String() + "." + n.name
	case "alt":
		var ss []string
		seen := map[string]bool{}
		for _, a := range n.args {
			s := a.String()
			if !seen[s] {
				seen[s] = true
				ss = append(ss, s)
			}
		}
		sort.Strings(ss)
		if len(ss) == 1 {
			return ss[0]
		}
		return "{" + strings.Join(ss, " | ") + "}"
	case "struct":
		var ks []string
		for k := range n.fields {
			ks = append(ks, k)
		}
		sort.Strings(ks)
		var ss []string
		for _, k := range ks {
			ss = append(ss, k+": "+n.fields[k].String())
		}
		return n.name + "{" + strings.Join(ss, ", ") + "}"
	}
	var ss []string
	for _, a := range n.args {
		ss = append(ss, a.String())
	}
	return n.name + "(" + strings.Join(ss, ", ") + ")"
}

// hasOpaque: does the tree contain a node the builder could not interpret?
func (n *nf) hasOpaque() bool {
	if n == nil {
		return true
	}
	if n.op == "opaque" {
		return true
	}
	for _, a := range n.args {
		if a.hasOpaque() {
			return true
		}
	}
	for _, f := range n.fields {
		if f.hasOpaque() {
			return true
		}
	}
	return false
}

func nfAlt(xs []*nf) *nf {
	var flat []*nf
	for _, x := range xs {
		if x.op == "alt" {
			flat = append(flat, x.args...)
		} else {
			flat = append(flat, x)
		}
	}
	if len(flat) == 1 {
		return flat[0]
	}
	return &nf{op: "alt", args: flat}
}

// sel selects a field of a tree.
func (n *nf) sel(f string) *nf {
	switch n.op {
	case "struct":
		if v, ok := n.fields[f]; ok {
			return v
		}
		return &nf{op: "const", name: "zero"}
	case "alt":
		var xs []*nf
		for _, a := range n.args {
			xs = append(xs, a.sel(f))
		}
		return nfAlt(xs)
	case "const":
		if strings.HasPrefix(n.name, "zero") {
			return &nf{op: "const", name: "zero"}
		}
	}
	return &nf{op: "field", name: f, args: []*nf{n}}
}

type nfBuilder struct {
	c      *Ctx
	bind   map[ssa.Value]*nf // roles and pre-resolved values
	active map[*ssa.Function]bool
	inPhi  map[*ssa.Phi]bool
}

func newNF(c *Ctx) *nfBuilder {
	return &nfBuilder{c: c, bind: map[ssa.Value]*nf{}, active: map[*ssa.Function]bool{}, inPhi: map[*ssa.Phi]bool{}}
}

func (b *nfBuilder) Role(v ssa.Value, name string) { b.bind[v] = &nf{op: "role", name: name} }

func hasLoop(fn *ssa.Function) bool {
	for _, blk := range fn.Blocks {
		if loopOf(fn, blk) != nil {
			return true
		}
	}
	return false
}

type nfEnv map[ssa.Value]*nf

func (b *nfBuilder) Of(v ssa.Value) *nf { return b.of(v, nil, 0) }

func (b *nfBuilder) of(v ssa.Value, env nfEnv, d int) *nf {
	if v == nil {
		return &nf{op: "opaque", name: "nil-value"}
	}
	if n, ok := b.bind[v]; ok {
		return n
	}
	if n, ok := env[v]; ok {
		return n
	}
	if d > 24 {
		return &nf{op: "opaque", name: "depth"}
	}
	switch x := v.(type) {
	case *ssa.Const:
		if x.Value == nil {
			if _, isStruct := x.Type().Underlying().(*types.Struct); isStruct {
				return &nf{op: "const", name: "zero"}
			}
			return &nf{op: "const", name: "nil"}
		}
		return &nf{op: "const", name: x.Value.ExactString()}
	case *ssa.Parameter:
		return &nf{op: "opaque", name: "param " + x.Name() + " of " + x.Parent().Name()}
	case *ssa.Global:
		return &nf{op: "const", name: "&" + x.Name()}
	case *ssa.Function:
		return &nf{op: "const", name: "func " + x.Name()}
	case *ssa.ChangeType:
		return b.of(x.X, env, d+1)
	case *ssa.MakeInterface:
		return b.of(x.X, env, d+1)
	case *ssa.ChangeInterface:
		return b.of(x.X, env, d+1)
	case *ssa.Convert:
		return &nf{op: "call", name: "convert<" + typeStr(x.Type()) + ">", args: []*nf{b.of(x.X, env, d+1)}}
	case *ssa.TypeAssert:
		return &nf{op: "call", name: "assert<" + typeStr(x.AssertedType) + ">", args: []*nf{b.of(x.X, env, d+1)}}
	case *ssa.Field:
		return b.of(x.X, env, d+1).sel(fieldName(x.X.Type(), x.Field))
	case *ssa.Phi:
		if b.inPhi[x] {
			// a value carried around a loop: named, not unrolled
			return &nf{op: "const", name: "loop<" + x.Comment + ">"}
		}
		b.inPhi[x] = true
		var xs []*nf
		for _, e := range x.Edges {
			if e == v {
				continue
			}
			xs = append(xs, b.of(e, env, d+1))
		}
		delete(b.inPhi, x)
		if len(xs) == 0 {
			return &nf{op: "const", name: "loop<" + x.Comment + ">"}
		}
		return nfAlt(xs)
	case *ssa.BinOp:
		return &nf{op: "bin", name: x.Op.String(), args: []*nf{b.of(x.X, env, d+1), b.of(x.Y, env, d+1)}}
	case *ssa.UnOp:
		if x.Op == token.MUL {
			return b.load(x.X, env, d+1)
		}
		return &nf{op: "un", name: x.Op.String(), args: []*nf{b.of(x.X, env, d+1)}}
	case *ssa.Extract:
		if call, ok := x.Tuple.(*ssa.Call); ok {
			return b.call(call, x.Index, env, d+1)
		}
		return &nf{op: "call", name: fmt.Sprintf("extract#%d", x.Index), args: []*nf{b.of(x.Tuple, env, d+1)}}
	case *ssa.Call:
		return b.call(x, -1, env, d+1)
	case *ssa.Lookup:
		return &nf{op: "call", name: "index", args: []*nf{b.of(x.X, env, d+1), b.of(x.Index, env, d+1)}}
	case *ssa.Slice:
		if al, ok := x.X.(*ssa.Alloc); ok {
			return &nf{op: "call", name: "slice", args: []*nf{b.local(al, env, d+1)}}
		}
		return &nf{op: "call", name: "slice", args: []*nf{b.of(x.X, env, d+1)}}
	case *ssa.Alloc:
		return &nf{op: "call", name: "addr", args: []*nf{b.local(x, env, d+1)}}
	case *ssa.FieldAddr:
		return &nf{op: "call", name: "addr", args: []*nf{b.load(x, env, d+1)}}
	}
	return &nf{op: "opaque", name: fmt.Sprintf("%T %s", v, v.Name())}
}

// load: the value read through address a.
func (b *nfBuilder) load(a ssa.Value, env nfEnv, d int) *nf {
	switch x := a.(type) {
	case *ssa.FieldAddr:
		f := fieldName(derefType(x.X.Type()), x.Field)
		return b.load(x.X, env, d+1).sel(f)
	case *ssa.Alloc:
		return b.local(x, env, d+1)
	case *ssa.IndexAddr:
		return &nf{op: "call", name: "index", args: []*nf{b.of(x.X, env, d+1), b.of(x.Index, env, d+1)}}
	case *ssa.Global:
		return &nf{op: "const", name: x.Name()}
	}
	// a pointer-typed value: parameter, call result, ...
	return &nf{op: "call", name: "deref", args: []*nf{b.of(a, env, d+1)}}
}

// local: the content of a local variable from its stores (flow-insensitive): whole-value stores
// as alternatives, per-field stores overlaid.
func (b *nfBuilder) local(al *ssa.Alloc, env nfEnv, d int) *nf {
	if n, ok := b.bind[al]; ok {
		return n
	}
	if al.Referrers() == nil {
		return &nf{op: "opaque", name: "alloc " + al.Name()}
	}
	var whole []*nf
	fields := map[string][]*nf{}
	bad := false
	for _, ref := range *al.Referrers() {
		switch in := ref.(type) {
		case *ssa.Store:
			if in.Addr == ssa.Value(al) {
				whole = append(whole, b.of(in.Val, env, d+1))
			} else {
				bad = true
			}
		case *ssa.FieldAddr:
			f := fieldName(derefType(al.Type()), in.Field)
			for _, r2 := range *in.Referrers() {
				switch s := r2.(type) {
				case *ssa.Store:
					if s.Addr == ssa.Value(in) {
						fields[f] = append(fields[f], b.of(s.Val, env, d+1))
					}
				case *ssa.UnOp, *ssa.DebugRef, *ssa.FieldAddr:
				default:
					bad = true
				}
			}
		case *ssa.IndexAddr:
			// element of a local array (variadic arguments)
			f := "[" + b.of(in.Index, env, d+1).String() + "]"
			for _, r2 := range *in.Referrers() {
				switch s := r2.(type) {
				case *ssa.Store:
					if s.Addr == ssa.Value(in) {
						fields[f] = append(fields[f], b.of(s.Val, env, d+1))
					}
				case *ssa.UnOp, *ssa.DebugRef:
				default:
					bad = true
				}
			}
		case *ssa.MakeClosure:
			// captured by a function literal: fine as long as the literal only reads it
			if g, ok := in.Fn.(*ssa.Function); !ok || closureWritesCell(g, al) {
				bad = true
			}
		case *ssa.Slice:
			// the array handed on as a slice: content is what was stored
		case *ssa.UnOp, *ssa.DebugRef:
		case ssa.CallInstruction:
			if !calleeOnlyReads(in, al) {
				bad = true
			}
		default:
			bad = true
		}
	}
	if bad {
		return &nf{op: "opaque", name: "escaping local " + al.Comment}
	}
	if len(fields) > 0 {
		st := &nf{op: "struct", name: typeStr(derefType(al.Type())), fields: map[string]*nf{}}
		for f, xs := range fields {
			st.fields[f] = nfAlt(xs)
		}
		if len(whole) == 0 {
			return st
		}
		// a whole-value store (typically *t = *opts) under field stores: fields not overlaid come from the base
		base := nfAlt(whole)
		st.name = "overlay<" + base.String() + ">"
		return st
	}
	if len(whole) == 0 {
		return &nf{op: "const", name: "zero"}
	}
	return nfAlt(whole)
}

// call: result idx (-1 for a single result) of a call.
func (b *nfBuilder) call(call *ssa.Call, idx int, env nfEnv, d int) *nf {
	cc := call.Call
	var args []*nf
	if cc.IsInvoke() {
		args = append(args, b.of(cc.Value, env, d+1))
	}
	for _, a := range cc.Args {
		args = append(args, b.of(a, env, d+1))
	}
	g := cc.StaticCallee()
	if g != nil && b.c.InRepo(g) && g.Blocks != nil && !hasLoop(g) && !b.active[g] && d < 16 && len(g.FreeVars) == 0 {
		b.active[g] = true
		env2 := nfEnv{}
		for i, p := range g.Params {
			if i < len(args) {
				env2[p] = args[i]
			}
		}
		var xs []*nf
		for _, ret := range Returns(g) {
			k := idx
			if k < 0 {
				k = 0
			}
			if k < len(ret.Results) {
				xs = append(xs, b.of(RetVal(ret, k), env2, d+1))
			}
		}
		delete(b.active, g)
		if len(xs) > 0 {
			return nfAlt(xs)
		}
	}
	name := ""
	switch {
	case cc.IsInvoke():
		name = "invoke " + cc.Method.Name()
	case g != nil:
		name = g.String()
	default:
		if bi, ok := cc.Value.(*ssa.Builtin); ok {
			name = bi.Name()
		} else {
			name = "dynamic"
			args = append([]*nf{b.of(cc.Value, env, d+1)}, args...)
		}
	}
	if idx >= 0 {
		name += fmt.Sprintf("#%d", idx)
	}
	return &nf{op: "call", name: name, args: args}
}

// Sites: the result tuples of a call to a loop-free repository function, one per return statement.
func (b *nfBuilder) Sites(call *ssa.Call) [][]*nf {
	g := call.Call.StaticCallee()
	if g == nil || g.Blocks == nil || hasLoop(g) {
		return nil
	}
	env2 := nfEnv{}
	for i, p := range g.Params {
		if i < len(call.Call.Args) {
			env2[p] = b.of(call.Call.Args[i], nil, 1)
		}
	}
	var out [][]*nf
	for _, ret := range Returns(g) {
		var tup []*nf
		for k := range ret.Results {
			tup = append(tup, b.of(RetVal(ret, k), env2, 2))
		}
		out = append(out, tup)
	}
	return out
}

// CondsAt: the dominating branch conditions of an instruction as (normal form, truth) strings.
func (b *nfBuilder) CondsAt(in ssa.Instruction) map[string]bool {
	out := map[string]bool{}
	for _, cd := range ExpandConds(DomConds(in.Block())) {
		n := b.Of(cd.V)
		t := cd.Truth
		for n.op == "un" && n.name == "!" {
			n, t = n.args[0], !t
		}
		out[n.String()] = t
	}
	return out
}
