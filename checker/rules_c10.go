package main

// C10 — Merge copies; the source is untouched.
// R10a: the source of Merge/NewFrom is a borrowed read-only parameter (never written through, never
// stored un-copied into the destination, the options or package-level state);
// R10b: every value stored into a node by the merge/copy functions is a fresh copy that contains no
// reference into the source; every cpy implementation returns a deep copy;
// R10c: normalization produces fresh values.

import (
	"fmt"
	"go/token"
	"go/types"

	"golang.org/x/tools/go/ssa"
)

func init() {
	register("C10", "Ownership analysis with E1 (see C11): the `from` argument of Merge/NewFrom/MustNewFrom is in no mod set and flows into neither the destination, the options nor package-level state; every value handed to fields.set/setAt (and stored directly into fields.d/a) inside the merge and copy functions is allocation-fresh and its transitive content contains no root of the function's source parameter; all cpy implementations return fresh roots whose content excludes the receiver (deep copy, modulo the immutable shared types whose immutability is rule R11c/R02c); every value returned by normalizeValue/normalizeArray/normalize*Value is fresh w.r.t. the Go value it was built from. Independence for all later histories follows from 'no shared mutable object exists'; what user code does with captured *Config values is not decided.", checkC10)
}

func checkC10(c *Ctx, r *Report) {
	e := c.E1()
	e1Assumptions(r, e)
	cpyCompleteRule(c, r, "R10d")
	primitiveCopyRule(c, r)
	mergeIntoReferenceRule(c, r)
	r.Rule("R10a", "Merge/NewFrom/MustNewFrom: the source parameter is not modified and nothing derived from it is stored into the destination, the options or package-level state", 9)
	type ep struct {
		fn  *ssa.Function
		src int
	}
	eps := []ep{{c.Method("", "Config", "Merge"), 1}, {c.Func("", "NewFrom"), 0}, {c.Func("", "MustNewFrom"), 0}}
	for _, p := range eps {
		s := e.Summary(p.fn)
		name := c.FnName(p.fn)
		for _, sl := range paramSlots(p.src) {
			if m := s.mods[sl]; m != nil {
				r.Bad("R10a", name, "source not modified "+slotStr(sl), c.Pos(p.fn.Pos()), "merging writes into the source: "+e.Chain(m))
			} else {
				r.OK("R10a", name, "source not modified "+slotStr(sl), c.Pos(p.fn.Pos()), "source "+slotStr(sl)+" is not in the mod set")
			}
		}
		leak := ""
		for _, sl := range paramSlots(p.src) {
			for dst := range s.flows[sl] {
				leak = fmt.Sprintf("%s flows into %s: %s", slotStr(sl), slotStr(dst), e.Chain(s.flowWhy[[2]int{sl, dst}]))
			}
		}
		// results (NewFrom returns the new config): fresh, not containing the source
		for k := range s.ret {
			for _, sl := range paramSlots(p.src) {
				if s.ret[k][sl] {
					leak = fmt.Sprintf("result #%d may be (part of) the source itself", k)
				}
				if s.retContent[sl] {
					leak = fmt.Sprintf("the returned config may contain references into the source (%s)", slotStr(sl))
				}
			}
		}
		r.Check(leak == "", "R10a", name, "source not shared", c.Pos(p.fn.Pos()), "nothing derived from the source is stored into the destination, options, result or globals", "destination and source share state after the merge: "+leak)
	}

	// R10b: stores into nodes inside the merge/copy functions
	r.Rule("R10b", "inside the merge strategies, fields.append and the cpy implementations every value stored into a node is allocation-fresh and contains no reference into the function's source; cpy implementations return deep copies", 14)
	setFn := c.Method("", "fields", "set")
	setAtFn := c.Method("", "fields", "setAt")
	addFn := c.TryMethod("", "fields", "add")
	fieldsT := c.Named("", "fields")
	valueT := c.Named("", "value")
	iface := valueT.Underlying().(*types.Interface)
	srcParam := map[*ssa.Function]int{}
	for _, fn := range c.SrcFuncs() {
		if fn.Pkg != c.SSA[""] || fn.Parent() != nil {
			continue
		}
		// (opts *options, to, from *Config) Error
		if len(fn.Params) == 3 && isNamed(fn.Params[0].Type(), modPath, "options") && isNamed(fn.Params[1].Type(), modPath, "Config") && isNamed(fn.Params[2].Type(), modPath, "Config") {
			srcParam[fn] = 2
		}
	}
	srcParam[c.Method("", "fields", "append")] = 2
	var cpys []*ssa.Function
	for _, t := range c.Implementations("", iface) {
		if f := c.MethodImpl(t, "cpy"); f != nil {
			// unwrap promoted/wrapper methods to the declared function
			if f.Synthetic != "" {
				continue
			}
			srcParam[f] = 0
			cpys = append(cpys, f)
		}
	}
	if len(cpys) < 7 {
		r.add("R10b", "ucfg", "cpy implementations", "-", Undecided, true, fmt.Sprintf("expected at least 7 cpy implementations, found %d", len(cpys)))
	}
	for _, fn := range c.SrcFuncs() {
		src, ok := srcParam[fn]
		if !ok {
			continue
		}
		name := c.FnName(fn)
		forbidden := map[int]bool{src: true}
		check := func(v ssa.Value, what string, in ssa.Instruction) {
			if !e.carries(v.Type()) {
				r.Trivial("R10b", name, what, c.Pos(in.Pos()), "stored value carries no references")
				return
			}
			ok, why := e.IsFresh(v, forbidden)
			r.Check(ok, "R10b", name, what, c.Pos(in.Pos()), "stored value is a fresh copy without references into the source", "a node receives a value that is not an independent copy: "+why+" — later writes on one side become visible on the other")
		}
		for _, ci := range CallsIn(fn, true) {
			switch {
			case IsCallTo(ci, setFn):
				check(ci.Common().Args[2], "value of fields.set", ci)
			case IsCallTo(ci, setAtFn):
				check(ci.Common().Args[3], "value of fields.setAt", ci)
			case addFn != nil && IsCallTo(ci, addFn):
				check(ci.Common().Args[1], "value of fields.add", ci)
			}
		}
		// the source parameter is not captured by a closure (closures are then free of it)
		Instrs(fn, false, func(in ssa.Instruction) {
			if mc, ok := in.(*ssa.MakeClosure); ok {
				for _, b := range mc.Bindings {
					if e.DerivedFromParam(b, src) {
						r.Bad("R10b", name, "closure captures the source", c.Pos(mc.Pos()), "a closure captures the source parameter; stores inside it are not checked")
					}
				}
			}
		})
		Instrs(fn, false, func(in ssa.Instruction) {
			st, ok := in.(*ssa.Store)
			if !ok {
				return
			}
			if nt, f, ok := FieldOf(st.Addr); ok && nt == fieldsT && (f == "d" || f == "a") {
				if IsNilConst(st.Val) {
					return
				}
				// restoring the destination's own old dictionary is fine: the value must not be source-derived
				derived := e.DerivedFromParam(st.Val, src)
				r.Check(!derived, "R10b", name, "direct store fields."+f, c.Pos(st.Pos()), "stored container is not the source's", "the destination node is given the source's own "+f+" container: both configs share it")
			}
		})
	}
	for _, f := range cpys {
		s := e.Summary(f)
		name := c.FnName(f)
		ok := len(s.ret) == 1 && s.retFresh[0] && len(s.ret[0]) == 0 && !s.retGlobal[0] && !s.retExt[0]
		r.Check(ok, "R10b", name, "cpy returns fresh", c.Pos(f.Pos()), "result is a new object", "cpy may return (part of) the receiver or shared state instead of a new object")
		deep := !s.retContent[0] && !s.retContent[1] && !s.retContG
		r.Check(deep, "R10b", name, "cpy is deep", c.Pos(f.Pos()), "the copy contains no reference into the receiver (immutable shared types excepted)", "the copy keeps references into the receiver's mutable state (shallow copy)")
		if m := s.mods[0]; m != nil {
			r.Bad("R10b", name, "cpy does not modify its receiver", c.Pos(f.Pos()), e.Chain(m))
		} else if m := s.mods[1]; m != nil {
			r.Bad("R10b", name, "cpy does not modify its receiver", c.Pos(f.Pos()), e.Chain(m))
		}
	}

	// R10c: normalization produces fresh values
	r.Rule("R10c", "normalizeValue / normalizeArray / normalize*Value return fresh values that contain no reference into the Go value they were built from, and do not modify it", 2)
	// normalizeValue and normalizeArray are the anchors (their summaries cover what they call); the per-kind helpers
	// are checked on their own while they exist (they may be folded into normalizeValue)
	for _, n := range []string{"normalizeValue", "normalizeArray", "normalizeMapValue", "normalizeStructValue", "normalizeString"} {
		fn := c.TryFunc("", n)
		if fn == nil {
			if n == "normalizeValue" || n == "normalizeArray" {
				fn = c.Func("", n) // ANCHOR-MISSING
			}
			continue
		}
		s := e.Summary(fn)
		name := c.FnName(fn)
		// the reflect.Value parameter is the source
		src := -1
		for i, p := range fn.Params {
			if isNamed(p.Type(), "reflect", "Value") {
				src = i
			}
		}
		if src < 0 {
			r.Trivial("R10c", name, "fresh result", c.Pos(fn.Pos()), "no Go value parameter")
			continue
		}
		bad := ""
		for _, sl := range paramSlots(src) {
			if s.ret[0][sl] {
				bad = "the result may be (part of) the input value itself — an embedded *Config is wrapped without copying"
			}
			if s.retContent[sl] {
				bad = "the result may contain references into the input value"
			}
			if m := s.mods[sl]; m != nil {
				bad = "normalization writes into the input value: " + e.Chain(m)
			}
		}
		r.Check(bad == "", "R10c", name, "fresh result", c.Pos(fn.Pos()), "result is fresh and independent of the input; input not modified", bad)
	}
}

// cpyCompleteRule: the copy of a sub-configuration (cfgSub.cpy and the helpers only it calls) copies the
// named entries and the indexed entries of the node on one and the same path. A node can hold both
// (an object merged with a list at the same key); a copy that treats the two parts as alternatives drops
// one of them whenever a merged value is re-copied into its parent.
func cpyCompleteRule(c *Ctx, r *Report, rule string) {
	r.Rule(rule, "cfgSub.cpy copies the dictionary part and the list part of a node on the same path (neither copy excludes the other)", 1)
	cpy := c.MethodImpl(c.Named("", "cfgSub"), "cpy")
	if cpy == nil {
		r.add(rule, "ucfg.cfgSub.cpy", "both parts copied", "-", Undecided, true, "cfgSub.cpy not found")
		return
	}
	name := c.FnName(cpy)
	type site struct {
		call ssa.CallInstruction
		kind string // "dict" | "list"
	}
	var sites []site
	for _, fn := range c.Family(cpy) {
		for _, ci := range CallsIn(fn, false) {
			cc := ci.Common()
			if !cc.IsInvoke() || cc.Method.Name() != "cpy" {
				continue
			}
			// where does the element come from: a map iteration or a slice element?
			kind := ""
			seen := map[ssa.Value]bool{}
			var walk func(v ssa.Value, d int)
			walk = func(v ssa.Value, d int) {
				if seen[v] || d > 12 || kind != "" {
					return
				}
				seen[v] = true
				switch x := v.(type) {
				case *ssa.Extract:
					if nx, ok := x.Tuple.(*ssa.Next); ok {
						if rg, ok := nx.Iter.(*ssa.Range); ok {
							if _, isMap := rg.X.Type().Underlying().(*types.Map); isMap {
								kind = "dict"
								return
							}
						}
					}
					walk(x.Tuple, d+1)
				case *ssa.Lookup:
					if _, isMap := x.X.Type().Underlying().(*types.Map); isMap {
						kind = "dict"
					}
				case *ssa.UnOp:
					if x.Op == token.MUL {
						if ia, ok := x.X.(*ssa.IndexAddr); ok {
							if _, isSlice := ia.X.Type().Underlying().(*types.Slice); isSlice {
								kind = "list"
								return
							}
						}
						if vals, ok := localStores(x.X); ok {
							for _, s := range vals {
								walk(s, d+1)
							}
						}
					}
				case *ssa.Phi:
					for _, e := range x.Edges {
						walk(e, d+1)
					}
				case *ssa.ChangeInterface:
					walk(x.X, d+1)
				}
			}
			walk(cc.Value, 0)
			if kind != "" {
				sites = append(sites, site{ci, kind})
			}
		}
	}
	var dict, list []site
	for _, s := range sites {
		if s.kind == "dict" {
			dict = append(dict, s)
		} else {
			list = append(list, s)
		}
	}
	if len(dict) == 0 || len(list) == 0 {
		r.add(rule, name, "both parts copied", c.Pos(cpy.Pos()), Undecided, true, fmt.Sprintf("expected an element copy in a loop over the dictionary and one in a loop over the list, found %d and %d", len(dict), len(list)))
		return
	}
	ok := false
	for _, d := range dict {
		for _, l := range list {
			db, lb := d.call.(ssa.Instruction).Block(), l.call.(ssa.Instruction).Block()
			if db.Parent() != lb.Parent() {
				// in two helpers: both are called from the family; accepted when the calls are not alternatives — decided after inlining only
				continue
			}
			if reachableFromEdge(nil, db, lb, nil) || reachableFromEdge(nil, lb, db, nil) {
				ok = true
			}
		}
	}
	r.Check(ok, rule, name, "both parts copied", c.Pos(dict[0].call.Pos()), "an execution that copies named entries can also copy indexed entries",
		"the copy of the dictionary part and the copy of the list part are alternatives: a node holding both (an object merged with a list under one key) loses one part whenever it is copied — every merge re-copies the merged value into its parent")
}

// primitiveCopyRule (R10e): the copy of a primitive node is a node of the same kind, built by that kind's own
// constructor from the receiver's payload, the receiver's metadata and the context handed in. A copy that changes
// kind or payload (a uint copied as an int, a string re-rendered) makes the destination of a merge differ from its
// source although nothing was merged over it.
func primitiveCopyRule(c *Ctx, r *Report) {
	r.Rule("R10e", "cfgBool / cfgInt / cfgUint / cfgFloat / cfgString.cpy return their own constructor applied to (ctx, c.meta(), own payload)", 5)
	kinds := map[string][2]string{"cfgBool": {"newBool", "b"}, "cfgInt": {"newInt", "i"}, "cfgUint": {"newUint", "u"}, "cfgFloat": {"newFloat", "f"}, "cfgString": {"newString", "s"}}
	for _, tn := range []string{"cfgBool", "cfgInt", "cfgUint", "cfgFloat", "cfgString"} {
		t := c.Named("", tn)
		fn := c.MethodImpl(types.NewPointer(t), "cpy")
		if fn == nil {
			r.add("R10e", "ucfg."+tn+".cpy", "same kind, same payload", "-", Undecided, true, "method not found")
			continue
		}
		fn = declared(c, fn)
		ctor := c.TryFunc("", kinds[tn][0])
		ok, why := false, "no call of "+kinds[tn][0]
		for _, ret := range Returns(fn) {
			for _, s := range append(Sources(RetVal(ret, 0)), RetVal(ret, 0)) {
				call, isC := s.(*ssa.Call)
				if !isC || ctor == nil || !IsCallTo(call, ctor) || len(call.Call.Args) != 3 {
					continue
				}
				ctxOK := call.Call.Args[0] == ssa.Value(fn.Params[1])
				payOK := false
				if l, isL := call.Call.Args[2].(*ssa.UnOp); isL && l.Op == token.MUL {
					if fa, isFA := l.X.(*ssa.FieldAddr); isFA && fa.X == ssa.Value(fn.Params[0]) {
						if _, f, _ := FieldOf(fa); f == kinds[tn][1] {
							payOK = true
						}
					}
				}
				metaOK := false
				for _, ms := range append(Sources(call.Call.Args[1]), call.Call.Args[1]) {
					if mc, isM := ms.(*ssa.Call); isM && calledName(mc) == "meta" {
						metaOK = true
					}
					if l, isL := ms.(*ssa.UnOp); isL {
						if _, f, okF := FieldOf(l.X); okF && f == "metadata" {
							metaOK = true
						}
					}
				}
				switch {
				case !ctxOK:
					why = "the context is not the one handed in"
				case !payOK:
					why = "the payload is not the receiver's own " + kinds[tn][1]
				case !metaOK:
					why = "the metadata is not the receiver's"
				default:
					ok = true
				}
			}
		}
		r.Check(ok, "R10e", c.FnName(fn), "same kind, same payload", c.Pos(fn.Pos()), kinds[tn][0]+"(ctx, c.meta(), c."+kinds[tn][1]+")",
			"the copy of a "+tn+" is not built by "+kinds[tn][0]+" from the receiver's own payload, metadata and the new context ("+why+"): a merged setting differs from its source in kind or value")
	}
}

// mergeIntoReferenceRule (R10f): mergeValues merges the new sub-configuration into the old one in place. The old
// one is the destination's own node only when the old value *is* a stored sub-config; a reference evaluates to a
// config that lives elsewhere — under another key of the destination, or in a configuration given with Env — and
// merging into that would write outside the key being merged. The destination handed to mergeConfig is the stored
// sub-config (under isSub(old)) or a copy made here.
func mergeIntoReferenceRule(c *Ctx, r *Report) {
	r.Rule("R10f", "mergeValues merges in place only into a stored sub-config of the destination; what a reference evaluates to is copied first", 1)
	mv := c.Func("", "mergeValues")
	mc := c.Func("", "mergeConfig")
	isSubF := c.TryFunc("", "isSub")
	var old *ssa.Parameter
	for _, p := range mv.Params {
		if isNamed(p.Type(), modPath, "value") && old == nil {
			old = p
		}
	}
	n := 0
	for _, ci := range CallsTo(mv, mc, false) {
		n++
		var dest ssa.Value
		for _, a := range ci.Common().Args {
			if typeStr(a.Type()) == "*ucfg.Config" && dest == nil {
				dest = a
			}
		}
		// every way the destination can come about: the evaluated old value under isSub(old), or a copy
		ok, why := true, "stored sub-config or copy"
		var check func(v ssa.Value, at *ssa.BasicBlock, d int)
		check = func(v ssa.Value, at *ssa.BasicBlock, d int) {
			if d > 6 {
				ok, why = false, "too deep"
				return
			}
			switch x := v.(type) {
			case *ssa.Phi:
				for i, e := range x.Edges {
					check(e, x.Block().Preds[i], d+1)
				}
				return
			case *ssa.Extract:
				if call, isCall := x.Tuple.(*ssa.Call); isCall && call.Call.IsInvoke() && call.Call.Method.Name() == "toConfig" && call.Call.Value == ssa.Value(old) {
					// the live result of old.toConfig: fine when old is a stored sub-config
					sub := false
					// the test "old is a stored sub-config": isSub(old), or a comma-ok assertion of old to cfgSub
					isSubTest := func(v ssa.Value) (bool, bool) {
						neg := false
						for {
							u, isU := v.(*ssa.UnOp)
							if !isU || u.Op != token.NOT {
								break
							}
							neg, v = !neg, u.X
						}
						if cc, isC := v.(*ssa.Call); isC && isSubF != nil && IsCallTo(cc, isSubF) && cc.Call.Args[0] == ssa.Value(old) {
							return true, neg
						}
						if e, isE := v.(*ssa.Extract); isE && e.Index == 1 {
							if ta, isTA := e.Tuple.(*ssa.TypeAssert); isTA && ta.CommaOk && ta.X == ssa.Value(old) && typeStr(ta.AssertedType) == "ucfg.cfgSub" {
								return true, neg
							}
						}
						return false, false
					}
					for _, cd := range DomConds(at) {
						if is, neg := isSubTest(cd.V); is && cd.Truth != neg {
							sub = true
						}
					}
					// the edge itself: at ends in a test of it and the φ is on its true side
					if ifi, isIf := lastInstr(at).(*ssa.If); isIf {
						if is, neg := isSubTest(ifi.Cond); is {
							side := 0
							if neg {
								side = 1
							}
							for _, ref := range *x.Referrers() {
								if phi, isPhi := ref.(*ssa.Phi); isPhi && at.Succs[side] == phi.Block() {
									sub = true
								}
							}
						}
					}
					if !sub {
						ok, why = false, "the live result of old.toConfig() without a test that old is a stored sub-config"
					}
					return
				}
			}
			// the config of a copy made here: cfgSub{…}.cpy(ctx).toConfig(opts)
			if ex, isEx := v.(*ssa.Extract); isEx {
				if call, isCall := ex.Tuple.(*ssa.Call); isCall && call.Call.IsInvoke() && call.Call.Method.Name() == "toConfig" {
					for _, s := range append(Sources(call.Call.Value), call.Call.Value) {
						if cp, isCp := s.(*ssa.Call); isCp && calledName(cp) == "cpy" {
							return
						}
					}
				}
			}
			// a copy: derives from a cpy call
			for _, s := range append(Sources(v), v) {
				if call, isCall := s.(*ssa.Call); isCall && calledName(call) == "cpy" {
					return
				}
				if f, isF := s.(*ssa.Field); isF {
					for _, s2 := range append(Sources(f.X), f.X) {
						if call, isCall := s2.(*ssa.Call); isCall && calledName(call) == "cpy" {
							return
						}
						if ta, isTA := s2.(*ssa.TypeAssert); isTA {
							if call, isCall := ta.X.(*ssa.Call); isCall && calledName(call) == "cpy" {
								return
							}
						}
					}
				}
			}
			ok, why = false, "neither the stored sub-config nor a copy ("+v.String()+")"
		}
		check(dest, ci.(ssa.Instruction).Block(), 0)
		r.Check(ok, "R10f", c.FnName(mv), "merge target owned", c.Pos(ci.Pos()), why,
			"mergeValues merges in place into "+why+": when the old value is a reference, the merge writes into the section the reference points to — an unrelated key of the destination, or a configuration that was only given with Env — instead of into the key being merged")
	}
	if n == 0 {
		r.add("R10f", c.FnName(mv), "merge target owned", c.Pos(mv.Pos()), Undecided, true, "mergeValues does not call mergeConfig")
	}
}
