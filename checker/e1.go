package main

// E1 — interprocedural, summary-based derivation-and-mod analysis on SSA (DESIGN §2, appendix B).
//
// Abstract roots: P(f,i) = everything reachable from parameter / receiver / free variable i of f at
// entry (one blob); A(site) = objects allocated at an allocation site or returned fresh by a call;
// G = package-level variables; X = unknown external objects.
// pts(v)  = roots a value may point into; content(r) = roots stored inside objects of r;
// mod(r)  = r is written through (store, map update, reflect setter, mutating callee).
// Flow-insensitive inside a function, fixpoint over all repository functions for summaries.
// Values of immutable types (shared by design between a source and its copy) carry no roots.

import (
	"fmt"
	"go/token"
	"go/types"
	"sort"
	"strings"

	"golang.org/x/tools/go/ssa"
)

type rootKind int

const (
	rkParam rootKind = iota
	rkAlloc
	rkGlobal
	rkExt
)

type root struct {
	kind rootKind
	fn   *ssa.Function
	idx  int // parameter index (free variables follow the parameters)
	lv   int // parameter roots come in nLv levels: the objects the parameter value refers to directly
	// (0), what one load from those yields (1), and everything reachable through two or more loads (2)
	site ssa.Value // allocation / call site
	id   int
}

// nLv: number of depth levels a parameter blob is split into. Level 0 and 1 are exact distances,
// the last level is "two or more loads" and closes over everything below (including links back up).
const nLv = 3

// slot numbers a parameter root: nLv*idx + level.
func (r *root) slot() int { return nLv*r.idx + r.lv }

func slotIdx(s int) int { return s / nLv }

// paramSlots: all slots of parameter idx.
func paramSlots(idx int) []int {
	var out []int
	for l := 0; l < nLv; l++ {
		out = append(out, nLv*idx+l)
	}
	return out
}

func slotStr(s int) string {
	if s < 0 {
		return "globals"
	}
	switch s % nLv {
	case 0:
		return fmt.Sprintf("P%d", s/nLv)
	case nLv - 1:
		return fmt.Sprintf("P%d+", s/nLv)
	}
	return fmt.Sprintf("P%d.%d", s/nLv, s%nLv)
}

// next: the parameter roots one load below parameter root r. The last level is closed under loads
// and may link back to every level (parent pointers).
func (f *e1Fn) next(r *root) []*root {
	if r.lv < nLv-1 {
		return f.proots[nLv*r.idx+r.lv+1 : nLv*r.idx+r.lv+2]
	}
	return f.proots[nLv*r.idx : nLv*r.idx+nLv]
}

func (r *root) String() string {
	switch r.kind {
	case rkParam:
		return slotStr(r.slot())
	case rkAlloc:
		return fmt.Sprintf("A(%s)", r.site.Name())
	case rkGlobal:
		return "G"
	}
	return "X"
}

type rootSet map[*root]struct{}

func (s rootSet) add(r *root) bool {
	if _, ok := s[r]; ok {
		return false
	}
	s[r] = struct{}{}
	return true
}

func (s rootSet) addAll(o rootSet) bool {
	ch := false
	for r := range o {
		if s.add(r) {
			ch = true
		}
	}
	return ch
}

type modInfo struct {
	instr ssa.Instruction
	what  string
	via   *modInfo // for calls: the callee's own reason
	fn    *ssa.Function
}

type e1Summary struct {
	nparams    int
	mods       map[int]*modInfo     // slot -> reason
	flows      map[int]map[int]bool // source slot -> destination slot ; -1 is "globals"
	flowWhy    map[[2]int]*modInfo
	ret        []map[int]bool // per result: slots it may derive from
	retFresh   []bool
	retGlobal  []bool
	retExt     []bool
	retContent map[int]bool // slots that fresh returned objects may contain references into
	retContG   bool
	gmod       *modInfo // non-atomic writes to package-level variables
}

func (s *e1Summary) size() int {
	n := len(s.mods) + len(s.retContent)
	for _, m := range s.flows {
		n += len(m)
	}
	for i := range s.ret {
		n += len(s.ret[i])
		if s.retFresh[i] {
			n++
		}
		if s.retGlobal[i] {
			n++
		}
		if s.retExt[i] {
			n++
		}
	}
	if s.retContG {
		n++
	}
	if s.gmod != nil {
		n++
	}
	return n
}

type e1Fn struct {
	fn      *ssa.Function
	params  []ssa.Value // parameters then free variables
	pts     map[ssa.Value]rootSet
	content map[*root]rootSet
	why     map[[2]*root]*modInfo // first reason a content edge r -> c was added
	mods    map[*root]*modInfo
	cur     ssa.Instruction // instruction being transferred (for edge reasons)
	curVia  *modInfo
	spec    *specKey // non-nil for a clone specialised to a closure argument
	base    int      // index of the first pseudo-parameter (the closure's bindings)
	proots  []*root
	aroots  map[ssa.Value]*root
	sum     *e1Summary
}

// specKey: function g analysed for the case that its func-typed parameter j is the closure h;
// the clone has one extra pseudo-parameter per free variable of h.
type specKey struct {
	g *ssa.Function
	j int
	h *ssa.Function
}

type E1 struct {
	c         *Ctx
	specs     map[specKey]*e1Fn
	all       []*e1Fn
	fns       map[*ssa.Function]*e1Fn
	order     []*ssa.Function
	G, X      *root
	nextID    int
	immut     map[string]bool // named types (pkgpath.Name) whose values carry no roots
	cached    *ssa.Function   // valueCache.cachedValue
	Unres     map[string]int  // unresolved dynamic calls (callee description -> count)
	External  map[string]int  // calls treated with the external summary
	typeMemo  map[types.Type]bool
	Modelled  map[string]string // modelled facts used (printed in the evidence)
	foreign   map[ssa.Value]bool
	tupleVals map[tupleKey]ssa.Value
	retVals   map[*ssa.Function]map[int]ssa.Value
}

// immutable cut (DESIGN §2 E1): types shared by design; that nothing writes them after construction
// is rule R02c.
var immutableTypes = []string{
	"Meta", "dynValue", "refDynValue", "spliceDynValue", "varEvaler", "reference", "splice", "expansion", "expansionSingle",
	"expansionDefault", "expansionAlt", "expansionErr", "constExp", "cfgPath", "field", "namedField", "idxField",
	"Error", "baseError", "criticalError", "validatorTag", "ValidatorCallback", "typeInfo", "tagOptions",
}

func NewE1(c *Ctx) *E1 {
	e := &E1{c: c, specs: map[specKey]*e1Fn{}, fns: map[*ssa.Function]*e1Fn{}, immut: map[string]bool{}, Unres: map[string]int{}, External: map[string]int{}, typeMemo: map[types.Type]bool{}, Modelled: map[string]string{}, foreign: map[ssa.Value]bool{}, tupleVals: map[tupleKey]ssa.Value{}, retVals: map[*ssa.Function]map[int]ssa.Value{}}
	e.G = &root{kind: rkGlobal, id: 0}
	e.X = &root{kind: rkExt, id: 1}
	e.nextID = 2
	for _, n := range immutableTypes {
		e.immut[modPath+"."+n] = true
	}
	e.immut[modPath+"/parse.Config"] = true
	e.immut["reflect.Type"] = true
	e.immut["reflect.rtype"] = true
	e.immut["reflect.Kind"] = true
	e.immut["reflect.StructField"] = true
	e.immut["reflect.StructTag"] = true
	e.immut["reflect.Method"] = true
	e.immut["regexp.Regexp"] = true
	e.immut["time.Duration"] = true
	e.cached = c.TryMethod("", "valueCache", "cachedValue")
	for fn := range c.allFns {
		if fn.Blocks == nil {
			continue
		}
		if c.InRepo(fn) {
			e.order = append(e.order, fn)
		}
	}
	sort.Slice(e.order, func(i, j int) bool { return e.order[i].String() < e.order[j].String() })
	for _, fn := range e.order {
		e.fns[fn] = e.newFn(fn)
		e.all = append(e.all, e.fns[fn])
	}
	return e
}

// specFor returns (creating on demand) the clone of g specialised to closure h in parameter j.
func (e *E1) specFor(g *ssa.Function, j int, h *ssa.Function) *e1Fn {
	k := specKey{g, j, h}
	if f, ok := e.specs[k]; ok {
		return f
	}
	f := e.newFn(g)
	f.spec = &k
	f.base = len(f.params)
	for _, fv := range h.FreeVars {
		f.params = append(f.params, fv)
		e.addParamRoots(f, len(f.params)-1, fv)
		delete(f.pts, fv) // the pseudo-parameter is not a value of g
	}
	f.sum.nparams = len(f.params)
	e.specs[k] = f
	e.all = append(e.all, f)
	return f
}

// closureArg: does the call pass a closure created in the calling function for a func-typed
// parameter of g? Returns the parameter index and the MakeClosure.
func (e *E1) closureArg(g *ssa.Function, args []ssa.Value) (int, *ssa.MakeClosure) {
	for j, p := range g.Params {
		if _, ok := p.Type().Underlying().(*types.Signature); !ok || j >= len(args) {
			continue
		}
		srcs := Sources(args[j])
		if len(srcs) != 1 {
			continue
		}
		if mc, ok := srcs[0].(*ssa.MakeClosure); ok {
			if h, ok := mc.Fn.(*ssa.Function); ok && e.fns[h] != nil && len(h.FreeVars) == len(mc.Bindings) {
				return j, mc
			}
		}
	}
	return -1, nil
}

func (e *E1) newRoot(k rootKind, fn *ssa.Function, idx int, site ssa.Value) *root {
	r := &root{kind: k, fn: fn, idx: idx, site: site, id: e.nextID}
	e.nextID++
	return r
}

func (e *E1) newFn(fn *ssa.Function) *e1Fn {
	f := &e1Fn{fn: fn, pts: map[ssa.Value]rootSet{}, content: map[*root]rootSet{}, why: map[[2]*root]*modInfo{}, mods: map[*root]*modInfo{}, aroots: map[ssa.Value]*root{}}
	for _, p := range fn.Params {
		f.params = append(f.params, p)
	}
	for _, fv := range fn.FreeVars {
		f.params = append(f.params, fv)
	}
	for i, p := range f.params {
		e.addParamRoots(f, i, p)
	}
	nres := fn.Signature.Results().Len()
	f.sum = &e1Summary{nparams: len(f.params), mods: map[int]*modInfo{}, flows: map[int]map[int]bool{}, flowWhy: map[[2]int]*modInfo{}, retContent: map[int]bool{},
		ret: make([]map[int]bool, nres), retFresh: make([]bool, nres), retGlobal: make([]bool, nres), retExt: make([]bool, nres)}
	for i := range f.sum.ret {
		f.sum.ret[i] = map[int]bool{}
	}
	return f
}

func (e *E1) addParamRoots(f *e1Fn, i int, p ssa.Value) {
	var r0 *root
	for l := 0; l < nLv; l++ {
		r := e.newRoot(rkParam, f.fn, i, p)
		r.lv = l
		if l == 0 {
			r0 = r
		}
		f.proots = append(f.proots, r)
	}
	if e.carries(p.Type()) {
		f.pts[p] = rootSet{r0: {}}
	}
}

// carries: can a value of type t hold a reference to mutable, non-cut storage?
func (e *E1) carries(t types.Type) bool {
	if v, ok := e.typeMemo[t]; ok {
		return v
	}
	e.typeMemo[t] = false // break recursion optimistically; recomputed below
	v := e.carries0(t, 0)
	e.typeMemo[t] = v
	return v
}

func (e *E1) carries0(t types.Type, depth int) bool {
	if depth > 6 {
		return true
	}
	t = types.Unalias(t)
	if n, ok := t.(*types.Named); ok {
		if n.Obj().Pkg() != nil && e.immut[n.Obj().Pkg().Path()+"."+n.Obj().Name()] {
			return false
		}
		if n.Obj().Pkg() == nil && n.Obj().Name() == "error" {
			return false
		}
	}
	switch u := t.Underlying().(type) {
	case *types.Basic:
		return u.Kind() == types.UnsafePointer
	case *types.Pointer:
		if n, ok := types.Unalias(u.Elem()).(*types.Named); ok && n.Obj().Pkg() != nil && e.immut[n.Obj().Pkg().Path()+"."+n.Obj().Name()] {
			return false
		}
		return true
	case *types.Slice, *types.Map, *types.Chan, *types.Signature, *types.Interface:
		if it, ok := u.(*types.Interface); ok {
			_ = it
		}
		if s, ok := u.(*types.Slice); ok {
			// a slice is itself a reference to a mutable backing array
			_ = s
		}
		return true
	case *types.Struct:
		for i := 0; i < u.NumFields(); i++ {
			if e.carries0(u.Field(i).Type(), depth+1) {
				return true
			}
		}
		return false
	case *types.Array:
		return e.carries0(u.Elem(), depth+1)
	case *types.Tuple:
		for i := 0; i < u.Len(); i++ {
			if e.carries0(u.At(i).Type(), depth+1) {
				return true
			}
		}
		return false
	}
	return true
}

// Run iterates to the global fixpoint.
func (e *E1) Run() {
	for iter := 0; iter < 60; iter++ {
		changed := false
		for i := 0; i < len(e.all); i++ {
			f := e.all[i]
			before := f.sum.size()
			e.analyse(f)
			e.summarise(f)
			if f.sum.size() != before {
				changed = true
			}
		}
		if !changed {
			return
		}
	}
	undecidedf("E1: no fixpoint after 60 rounds")
}

func (f *e1Fn) get(v ssa.Value) rootSet {
	return f.pts[v]
}

func (f *e1Fn) addPts(v ssa.Value, rs rootSet) bool {
	if len(rs) == 0 {
		return false
	}
	s := f.pts[v]
	if s == nil {
		s = rootSet{}
		f.pts[v] = s
	}
	return s.addAll(rs)
}

func (f *e1Fn) addContent(r *root, rs rootSet) bool {
	if len(rs) == 0 {
		return false
	}
	s := f.content[r]
	if s == nil {
		s = rootSet{}
		f.content[r] = s
	}
	ch := false
	for c := range rs {
		if s.add(c) {
			ch = true
			if f.cur != nil {
				f.why[[2]*root{r, c}] = &modInfo{instr: f.cur, what: "stores " + c.String() + " into " + r.String(), via: f.curVia, fn: f.fn}
			}
		}
	}
	return ch
}

func (f *e1Fn) addMod(r *root, m *modInfo) bool {
	if _, ok := f.mods[r]; ok {
		return false
	}
	f.mods[r] = m
	return true
}

// loadFrom: what a load through a pointer into rs may yield.
func (f *e1Fn) loadFrom(rs rootSet) rootSet {
	out := rootSet{}
	for r := range rs {
		switch r.kind {
		case rkParam:
			// a load through a parameter blob yields the next level; the last level may point
			// back to the upper ones (parent links)
			for _, n := range f.next(r) {
				out.add(n)
			}
		case rkGlobal, rkExt:
			out.add(r)
		}
		out.addAll(f.content[r])
	}
	return out
}

// step: what exactly one load from objects of rs yields (edges created by `skip` not followed).
func (f *e1Fn) step(rs rootSet, skip ssa.Instruction) rootSet {
	out := rootSet{}
	for r := range rs {
		if r.kind == rkParam {
			for _, n := range f.next(r) {
				out.add(n)
			}
		}
		if r.kind == rkGlobal || r.kind == rkExt {
			out.add(r)
		}
		for c := range f.content[r] {
			if skip != nil {
				if w := f.why[[2]*root{r, c}]; w != nil && w.instr == skip {
					continue
				}
			}
			out.add(c)
		}
	}
	return out
}

// below: everything reachable from rs through at least one load; edges created by instruction
// `skip` are not followed (a call must not see its own effects as part of its arguments).
func (f *e1Fn) below(rs rootSet, skip ssa.Instruction) rootSet {
	out := rootSet{}
	var work []*root
	push := func(r *root) {
		if out.add(r) {
			work = append(work, r)
		}
	}
	expand := func(r *root) {
		switch r.kind {
		case rkParam:
			for _, n := range f.next(r) {
				push(n)
			}
		}
		for c := range f.content[r] {
			if skip != nil {
				if w := f.why[[2]*root{r, c}]; w != nil && w.instr == skip {
					continue
				}
			}
			push(c)
		}
	}
	for r := range rs {
		expand(r)
	}
	for len(work) > 0 {
		r := work[len(work)-1]
		work = work[:len(work)-1]
		expand(r)
	}
	return out
}

// reach: rs and everything stored (transitively) inside.
func (f *e1Fn) reach(rs rootSet) rootSet {
	out := rootSet{}
	var work []*root
	for r := range rs {
		if out.add(r) {
			work = append(work, r)
		}
	}
	for len(work) > 0 {
		r := work[len(work)-1]
		work = work[:len(work)-1]
		if r.kind == rkParam {
			for _, d := range f.next(r) {
				if out.add(d) {
					work = append(work, d)
				}
			}
		}
		for c := range f.content[r] {
			if out.add(c) {
				work = append(work, c)
			}
		}
	}
	return out
}

// contentReach: roots stored into r0 by this function (through fresh objects transitively), each
// with the reason of the last edge on one path.
func (f *e1Fn) contentReach(r0 *root) map[*root]*modInfo {
	out := map[*root]*modInfo{}
	work := []*root{r0}
	seen := map[*root]bool{r0: true}
	for len(work) > 0 {
		r := work[len(work)-1]
		work = work[:len(work)-1]
		for c := range f.content[r] {
			if !seen[c] {
				seen[c] = true
				out[c] = f.why[[2]*root{r, c}]
				if c.kind == rkAlloc { // what a fresh object contains is contained, too
					work = append(work, c)
				}
			}
		}
	}
	return out
}

func (e *E1) alloc(f *e1Fn, site ssa.Value) *root {
	r := f.aroots[site]
	if r == nil {
		r = e.newRoot(rkAlloc, f.fn, 0, site)
		f.aroots[site] = r
	}
	return r
}

func (e *E1) analyse(f *e1Fn) {
	for round := 0; round < 100; round++ {
		changed := false
		for _, b := range f.fn.Blocks {
			for _, in := range b.Instrs {
				if e.transfer(f, in) {
					changed = true
				}
			}
		}
		if !changed {
			return
		}
	}
	undecidedf("E1: no local fixpoint in %s", f.fn)
}

func (e *E1) val(f *e1Fn, v ssa.Value) rootSet {
	switch x := v.(type) {
	case *ssa.Global:
		return rootSet{e.G: {}}
	case *ssa.Const, *ssa.Function, *ssa.Builtin:
		_ = x
		return nil
	}
	return f.pts[v]
}

func (e *E1) transfer(f *e1Fn, in ssa.Instruction) bool {
	ch := false
	f.cur, f.curVia = in, nil
	set := func(v ssa.Value, rs rootSet) {
		if v == nil || !e.carries(v.Type()) {
			return
		}
		if f.addPts(v, rs) {
			ch = true
		}
	}
	store := func(addr rootSet, val rootSet, what string) {
		for r := range addr {
			if f.addContent(r, val) {
				ch = true
			}
			if f.addMod(r, &modInfo{instr: in, what: what, fn: f.fn}) {
				ch = true
			}
		}
	}
	switch x := in.(type) {
	case *ssa.Alloc:
		set(x, rootSet{e.alloc(f, x): {}})
		if f.addPts(x, rootSet{e.alloc(f, x): {}}) {
			ch = true
		}
	case *ssa.MakeMap:
		set(x, rootSet{e.alloc(f, x): {}})
	case *ssa.MakeSlice:
		set(x, rootSet{e.alloc(f, x): {}})
	case *ssa.MakeChan:
		set(x, rootSet{e.alloc(f, x): {}})
	case *ssa.MakeClosure:
		r := e.alloc(f, x)
		set(x, rootSet{r: {}})
		for _, b := range x.Bindings {
			if f.addContent(r, e.val(f, b)) {
				ch = true
			}
		}
	case *ssa.FieldAddr:
		if f.addPts(x, e.val(f, x.X)) {
			ch = true
		}
	case *ssa.IndexAddr:
		// address of an element: for slices the backing array is what the slice value points to
		if f.addPts(x, e.val(f, x.X)) {
			ch = true
		}
	case *ssa.Field:
		set(x, e.val(f, x.X))
	case *ssa.Index:
		set(x, e.val(f, x.X))
	case *ssa.Phi:
		for _, ed := range x.Edges {
			set(x, e.val(f, ed))
		}
	case *ssa.ChangeType:
		set(x, e.val(f, x.X))
	case *ssa.ChangeInterface:
		set(x, e.val(f, x.X))
	case *ssa.Convert:
		set(x, e.val(f, x.X))
	case *ssa.MakeInterface:
		set(x, e.val(f, x.X))
	case *ssa.TypeAssert:
		set(x, e.val(f, x.X))
	case *ssa.Slice:
		if f.addPts(x, e.val(f, x.X)) {
			ch = true
		}
	case *ssa.SliceToArrayPointer:
		set(x, e.val(f, x.X))
	case *ssa.Extract:
		// tuples: pts of the tuple are kept per index under a synthetic key
		if t, ok := f.pts[e.tup(x.Tuple, x.Index)]; ok {
			set(x, t)
		} else if _, isCall := x.Tuple.(*ssa.Call); !isCall {
			set(x, e.val(f, x.Tuple))
		}
	case *ssa.Lookup:
		set(x, f.loadFrom(e.val(f, x.X)))
	case *ssa.UnOp:
		switch x.Op {
		case token.MUL, token.ARROW:
			set(x, f.loadFrom(e.val(f, x.X)))
		}
	case *ssa.Range:
		if f.addPts(x, e.val(f, x.X)) {
			ch = true
		}
	case *ssa.Next:
		if f.addPts(x, f.loadFrom(e.val(f, x.Iter))) {
			ch = true
		}
	case *ssa.Store:
		addr := e.val(f, x.Addr)
		var v rootSet
		if e.carries(x.Val.Type()) {
			v = e.val(f, x.Val)
		}
		if _, isGlobal := x.Addr.(*ssa.Global); isGlobal {
			if f.sum.gmod == nil {
				f.sum.gmod = &modInfo{instr: in, what: "store to package variable " + x.Addr.Name(), fn: f.fn}
				ch = true
			}
		}
		store(addr, v, "store")
	case *ssa.MapUpdate:
		var v rootSet
		if e.carries(x.Value.Type()) {
			v = e.val(f, x.Value)
		}
		if e.carries(x.Key.Type()) {
			if v == nil {
				v = rootSet{}
			} else {
				v2 := rootSet{}
				v2.addAll(v)
				v = v2
			}
			v.addAll(e.val(f, x.Key))
		}
		store(e.val(f, x.Map), v, "map update")
	case *ssa.Send:
		store(e.val(f, x.Chan), e.val(f, x.X), "channel send")
	case *ssa.Return:
		for i, res := range x.Results {
			if !e.carries(res.Type()) {
				continue
			}
			if f.addPts(e.retv(f, i), e.val(f, res)) {
				ch = true
			}
		}
	case ssa.CallInstruction:
		if e.call(f, x) {
			ch = true
		}
	}
	return ch
}

// synthetic keys for tuple components and results
type tupleKey struct {
	t ssa.Value
	i int
}

type pseudoVal struct {
	ssa.Value
	name string
	typ  types.Type
}

func (p *pseudoVal) Name() string                  { return p.name }
func (p *pseudoVal) String() string                { return p.name }
func (p *pseudoVal) Type() types.Type              { return p.typ }
func (p *pseudoVal) Referrers() *[]ssa.Instruction { return nil }
func (p *pseudoVal) Pos() token.Pos                { return token.NoPos }
func (p *pseudoVal) Parent() *ssa.Function         { return nil }

func (e *E1) tup(t ssa.Value, i int) ssa.Value {
	k := tupleKey{t, i}
	if v, ok := e.tupleVals[k]; ok {
		return v
	}
	v := &pseudoVal{name: fmt.Sprintf("%s#%d", k.t.Name(), k.i)}
	e.tupleVals[k] = v
	return v
}

func (e *E1) retv(f *e1Fn, i int) ssa.Value {
	m := e.retVals[f.fn]
	if m == nil {
		m = map[int]ssa.Value{}
		e.retVals[f.fn] = m
	}
	if v, ok := m[i]; ok {
		return v
	}
	v := &pseudoVal{name: fmt.Sprintf("ret#%d", i)}
	m[i] = v
	return v
}

func (e *E1) summarise(f *e1Fn) {
	s := f.sum
	slotOf := map[*root]int{}
	for _, r := range f.proots {
		slotOf[r] = r.slot()
	}
	for r, m := range f.mods {
		if sl, ok := slotOf[r]; ok {
			if s.mods[sl] == nil {
				s.mods[sl] = m
			}
		}
		if r == e.G && s.gmod == nil {
			s.gmod = m
		}
	}
	addFlow := func(src, dst int, why *modInfo) {
		if s.flows[src] == nil {
			s.flows[src] = map[int]bool{}
		}
		if !s.flows[src][dst] {
			s.flows[src][dst] = true
			s.flowWhy[[2]int{src, dst}] = why
		}
	}
	// flows: parameter roots found in the content (transitively through allocations) of another
	// parameter root or of the globals
	for _, rj := range f.proots {
		for r, why := range f.contentReach(rj) {
			if sl, ok := slotOf[r]; ok && r.idx != rj.idx {
				addFlow(sl, rj.slot(), why)
			}
		}
	}
	for r, why := range f.contentReach(e.G) {
		if sl, ok := slotOf[r]; ok {
			addFlow(sl, -1, why)
		}
	}
	for k := range s.ret {
		rs := f.pts[e.retv(f, k)]
		for r := range rs {
			switch r.kind {
			case rkParam:
				s.ret[k][r.slot()] = true
			case rkGlobal:
				s.retGlobal[k] = true
			case rkExt:
				s.retExt[k] = true
			case rkAlloc:
				s.retFresh[k] = true
				for c := range f.contentReach(r) {
					switch c.kind {
					case rkParam:
						s.retContent[c.slot()] = true
					case rkGlobal:
						s.retContG = true
					}
				}
			}
		}
	}
}

// ---- calls -----------------------------------------------------------------

var stdlibMutators = map[string][]int{ // function -> indices of arguments written through
	"sort.Strings": {0}, "sort.Ints": {0}, "sort.Slice": {0}, "sort.SliceStable": {0}, "sort.Sort": {0}, "sort.Stable": {0},
	"(*bytes.Buffer).WriteString": {0}, "(*bytes.Buffer).Write": {0}, "(*bytes.Buffer).WriteByte": {0}, "(*bytes.Buffer).WriteRune": {0},
	"(*strings.Builder).WriteString": {0}, "(*strings.Builder).WriteByte": {0}, "(*strings.Builder).WriteRune": {0}, "(*strings.Builder).Write": {0},
	"encoding/json.Unmarshal": {1}, "gopkg.in/yaml.v2.Unmarshal": {1}, "gopkg.in/hjson/hjson-go.v3.Unmarshal": {1},
	"(*flag.FlagSet).Var": {0}, "flag.Var": {},
}

var shallowMutators = map[string]bool{"sort.Strings": true, "sort.Ints": true, "sort.Slice": true, "sort.SliceStable": true}

var reflectSetters = map[string]bool{"Set": true, "SetInt": true, "SetUint": true, "SetFloat": true, "SetBool": true, "SetString": true,
	"SetMapIndex": true, "SetLen": true, "SetCap": true, "SetBytes": true, "SetComplex": true, "SetPointer": true, "SetZero": true, "Clear": true, "Grow": true, "SetIterKey": true, "SetIterValue": true}

var reflectFresh = map[string]bool{"reflect.New": true, "reflect.Zero": true, "reflect.MakeMap": true, "reflect.MakeMapWithSize": true, "reflect.MakeSlice": true, "reflect.MakeChan": true, "reflect.MakeFunc": true, "reflect.NewAt": true}

func (e *E1) call(f *e1Fn, ci ssa.CallInstruction) bool {
	ch := false
	cc := ci.Common()
	var result ssa.Value // nil for go/defer
	if cv, ok := ci.(*ssa.Call); ok {
		result = cv
	}
	args := cc.Args
	setRes := func(k int, rs rootSet) {
		if result == nil || len(rs) == 0 {
			return
		}
		if tup, ok := result.Type().(*types.Tuple); ok {
			if k < tup.Len() && e.carries(tup.At(k).Type()) {
				if f.addPts(e.tup(result, k), rs) {
					ch = true
				}
			}
			return
		}
		if k == 0 && e.carries(result.Type()) {
			if f.addPts(result, rs) {
				ch = true
			}
		}
	}
	nres := 0
	if result != nil {
		if tup, ok := result.Type().(*types.Tuple); ok {
			nres = tup.Len()
		} else {
			nres = 1
		}
	}
	allArgs := func() rootSet {
		out := rootSet{}
		for _, a := range args {
			if e.carries(a.Type()) {
				out.addAll(e.val(f, a))
			}
		}
		if cc.IsInvoke() {
			out.addAll(e.val(f, cc.Value))
		}
		return out
	}
	modRoots := func(rs rootSet, what string, via *modInfo) {
		for r := range rs {
			if f.addMod(r, &modInfo{instr: ci, what: what, via: via, fn: f.fn}) {
				ch = true
			}
		}
	}

	// builtins
	if b, ok := cc.Value.(*ssa.Builtin); ok {
		switch b.Name() {
		case "append":
			r := e.alloc(f, result)
			rs := rootSet{r: {}}
			rs.addAll(e.val(f, args[0]))
			setRes(0, rs)
			var elems rootSet
			if len(args) > 1 {
				elems = f.loadFrom(e.val(f, args[1]))
			}
			old := f.loadFrom(e.val(f, args[0]))
			if f.addContent(r, elems) || f.addContent(r, old) {
				ch = true
			}
			// elements may also be written into the spare capacity of the first argument
			for r0 := range e.val(f, args[0]) {
				if f.addContent(r0, elems) {
					ch = true
				}
			}
		case "copy":
			src := f.loadFrom(e.val(f, args[1]))
			for r := range e.val(f, args[0]) {
				if f.addContent(r, src) {
					ch = true
				}
			}
			modRoots(e.val(f, args[0]), "copy into", nil)
		case "delete":
			modRoots(e.val(f, args[0]), "delete from map", nil)
		case "clear":
			modRoots(e.val(f, args[0]), "clear", nil)
		}
		return ch
	}

	// valueCache.cachedValue(id, f): modelled as "returns what f returns" (a hit returns what the
	// same closure produced for the same id earlier in this call); no heap flow through the cache.
	if sc := cc.StaticCallee(); sc != nil && e.cached != nil && sc == e.cached && len(args) == 3 {
		return e.applyDynamic(f, ci, args[2], nil, setRes, modRoots)
	}

	// inside a clone: a call through the specialised func parameter is a call of the known closure
	if f.spec != nil && !cc.IsInvoke() {
		srcs := Sources(cc.Value)
		if len(srcs) == 1 && srcs[0] == ssa.Value(f.fn.Params[f.spec.j]) {
			return e.apply(f, ci, e.fns[f.spec.h], nil, setRes, modRoots)
		}
	}
	// a repository function that takes a closure created right here: use the clone for that closure
	if sc := cc.StaticCallee(); sc != nil && e.fns[sc] != nil {
		if j, mc := e.closureArg(sc, args); mc != nil {
			return e.apply(f, ci, e.specFor(sc, j, mc.Fn.(*ssa.Function)), mc, setRes, modRoots)
		}
	}

	callees := e.c.Callees(ci)
	var repoCallees []*ssa.Function
	var otherCallees []*ssa.Function
	for _, g := range callees {
		if _, ok := e.fns[g]; ok {
			repoCallees = append(repoCallees, g)
		} else {
			otherCallees = append(otherCallees, g)
		}
	}
	for _, g := range repoCallees {
		if e.apply(f, ci, e.fns[g], nil, setRes, modRoots) {
			ch = true
		}
	}
	for _, g := range otherCallees {
		if e.applyLibrary(f, ci, g, nres, setRes, modRoots, allArgs) {
			ch = true
		}
	}
	if len(callees) == 0 {
		// dynamic call nobody in the program implements: user callback / external
		desc := CalleeName(e.c, ci)
		e.External[desc]++
		rs := allArgs()
		rs2 := rootSet{e.X: {}}
		rs2.addAll(f.reach(rs))
		for k := 0; k < nres; k++ {
			setRes(k, rs2)
		}
	}
	return ch
}

// argument roots of callee parameter i at this call site. gf may be a clone (then mc is the
// closure whose bindings feed the pseudo-parameters); inside a clone, a call of the known closure
// through the specialised parameter maps the closure's free variables to the pseudo-parameters.
func (e *E1) argRoots(f *e1Fn, ci ssa.CallInstruction, gf *e1Fn, mc *ssa.MakeClosure, i int) rootSet {
	cc := ci.Common()
	g := gf.fn
	np := len(g.Params)
	if gf.spec != nil && i >= gf.base {
		if mc != nil && i-gf.base < len(mc.Bindings) {
			return e.val(f, mc.Bindings[i-gf.base])
		}
		return nil
	}
	if i < np {
		if cc.IsInvoke() {
			if i == 0 {
				return e.val(f, cc.Value)
			}
			if i-1 < len(cc.Args) {
				return e.val(f, cc.Args[i-1])
			}
			return nil
		}
		if i < len(cc.Args) {
			if e.foreignFresh(cc.Args[i]) {
				return nil
			}
			return e.val(f, cc.Args[i])
		}
		return nil
	}
	// free variable of the callee
	k := i - np
	if f.spec != nil && g == f.spec.h {
		if nLv*(f.base+k) < len(f.proots) {
			return rootSet{f.proots[nLv*(f.base+k)]: {}}
		}
		return nil
	}
	if m, ok := cc.Value.(*ssa.MakeClosure); ok && m.Fn == g && k < len(m.Bindings) {
		return e.val(f, m.Bindings[k])
	}
	return f.loadFrom(e.val(f, cc.Value))
}

func (e *E1) apply(f *e1Fn, ci ssa.CallInstruction, gf *e1Fn, mc *ssa.MakeClosure, setRes func(int, rootSet), modRoots func(rootSet, string, *modInfo)) bool {
	return e.applySummary(f, ci, gf.fn, gf.sum, func(i int) rootSet { return e.argRoots(f, ci, gf, mc, i) }, setRes, modRoots)
}

// applySummary instantiates a callee summary at a call site. arg(i) gives the roots the i-th
// parameter value refers to (shallow); the deep part is everything below them in the caller.
func (e *E1) applySummary(f *e1Fn, ci ssa.CallInstruction, g *ssa.Function, gs *e1Summary, arg func(int) rootSet, setRes func(int, rootSet), modRoots func(rootSet, string, *modInfo)) bool {
	ch := false
	in, _ := ci.(ssa.Instruction)
	slotRoots := func(sl int, skipOwn bool) rootSet {
		sh := arg(sl / nLv)
		var skip ssa.Instruction
		if skipOwn {
			skip = in
		}
		switch sl % nLv {
		case 0:
			return sh
		case 1:
			return f.step(sh, skip)
		}
		return f.below(f.step(sh, skip), skip)
	}
	for sl, m := range gs.mods {
		modRoots(slotRoots(sl, true), "call "+e.c.FnName(g), m)
	}
	if gs.gmod != nil && f.sum.gmod == nil {
		f.sum.gmod = &modInfo{instr: ci, what: "call " + e.c.FnName(g), via: gs.gmod, fn: f.fn}
		ch = true
	}
	for src, dsts := range gs.flows {
		srcRoots := slotRoots(src, true)
		for dst := range dsts {
			f.curVia = gs.flowWhy[[2]int{src, dst}]
			if dst == -1 {
				if f.addContent(e.G, srcRoots) {
					ch = true
				}
				continue
			}
			for rj := range slotRoots(dst, true) {
				if f.addContent(rj, srcRoots) {
					ch = true
				}
			}
		}
	}
	f.curVia = nil
	var fresh *root
	cv, isCall := ci.(*ssa.Call)
	for k := range gs.ret {
		rs := rootSet{}
		for sl := range gs.ret[k] {
			rs.addAll(slotRoots(sl, false))
		}
		if gs.retFresh[k] && isCall {
			if fresh == nil {
				fresh = e.alloc(f, cv)
				for sl := range gs.retContent {
					if f.addContent(fresh, slotRoots(sl, false)) {
						ch = true
					}
				}
				if gs.retContG {
					if f.addContent(fresh, rootSet{e.G: {}}) {
						ch = true
					}
				}
			}
			rs.add(fresh)
		}
		if gs.retGlobal[k] {
			rs.add(e.G)
		}
		if gs.retExt[k] {
			rs.add(e.X)
		}
		setRes(k, rs)
	}
	return ch
}

// applyDynamic applies the summaries of the closures fnVal may denote.
func (e *E1) applyDynamic(f *e1Fn, ci ssa.CallInstruction, fnVal ssa.Value, _ []ssa.Value, setRes func(int, rootSet), modRoots func(rootSet, string, *modInfo)) bool {
	ch := false
	n := 0
	for _, s := range Sources(fnVal) {
		mc, ok := s.(*ssa.MakeClosure)
		if !ok {
			continue
		}
		g := mc.Fn.(*ssa.Function)
		gf := e.fns[g]
		if gf == nil {
			continue
		}
		n++
		// the closure is called without explicit arguments here; free variables come from its bindings
		arg := func(i int) rootSet {
			k := i - len(g.Params)
			if k < 0 || k >= len(mc.Bindings) {
				return nil
			}
			return e.val(f, mc.Bindings[k])
		}
		if e.applySummary(f, ci, g, gf.sum, arg, setRes, modRoots) {
			ch = true
		}
	}
	if n == 0 {
		e.Unres["closure argument of "+CalleeName(e.c, ci)]++
	}
	return ch
}

// applyLibrary models a callee outside the repository.
func (e *E1) applyLibrary(f *e1Fn, ci ssa.CallInstruction, g *ssa.Function, nres int, setRes func(int, rootSet), modRoots func(rootSet, string, *modInfo), allArgs func() rootSet) bool {
	ch := false
	cc := ci.Common()
	name := g.String()
	args := cc.Args
	derived := func() rootSet {
		rs := allArgs()
		out := rootSet{}
		out.addAll(rs)
		out.addAll(f.loadFrom(rs))
		return out
	}
	pkg := ""
	if g.Pkg != nil {
		pkg = g.Pkg.Pkg.Path()
	} else if o := g.Object(); o != nil && o.Pkg() != nil {
		pkg = o.Pkg().Path()
	}
	switch {
	case pkg == "reflect":
		isValueMethod := g.Signature.Recv() != nil && strings.Contains(g.Signature.Recv().Type().String(), "reflect.Value")
		switch {
		case reflectFresh[name]:
			if v, ok := ci.(*ssa.Call); ok {
				setRes(0, rootSet{e.alloc(f, v): {}})
			}
		case name == "reflect.Copy":
			// SINK CUT (see DESIGN §2 E1): what is stored into reflect-addressed storage (the caller's
			// unpack target and its temporaries) is not tracked through that storage.
			dst := rootSet{}
			dst.addAll(e.val(f, args[0]))
			dst.addAll(f.loadFrom(e.val(f, args[0])))
			modRoots(dst, "reflect.Copy into", nil)
		case name == "reflect.Append" || name == "reflect.AppendSlice":
			if v, ok := ci.(*ssa.Call); ok {
				r := e.alloc(f, v)
				rs := rootSet{r: {}}
				rs.addAll(e.val(f, args[0]))
				setRes(0, rs)
			}
		case isValueMethod && reflectSetters[g.Name()]:
			recv := rootSet{}
			recv.addAll(e.val(f, args[0]))
			if g.Name() == "SetMapIndex" {
				recv.addAll(f.loadFrom(e.val(f, args[0])))
			}
			modRoots(recv, "reflect "+g.Name(), nil)
		case isValueMethod && g.Name() == "MapKeys":
			// a new slice of key copies (reflect: the keys are not addressable): reordering it does not
			// touch the map
			if v, ok := ci.(*ssa.Call); ok {
				r := e.alloc(f, v)
				if f.addContent(r, derived()) {
					ch = true
				}
				setRes(0, rootSet{r: {}})
				e.Modelled["reflect.Value.MapKeys"] = "returns a new slice; its elements are derived from the map"
			}
		case isValueMethod && g.Name() == "Call":
			e.External["reflect.Value.Call"]++
			rs := rootSet{e.X: {}}
			rs.addAll(f.reach(allArgs()))
			setRes(0, rs)
		default:
			d := derived()
			for k := 0; k < nres; k++ {
				setRes(k, d)
			}
		}
	case strings.HasPrefix(name, "sync/atomic."):
		// atomic updates are the accepted way to touch shared counters: recorded as a content-free mod
		// of nothing (the address is a package variable handled by rule R11b separately)
	default:
		if idxs, ok := stdlibMutators[name]; ok {
			for _, i := range idxs {
				if i < len(args) {
					if shallowMutators[name] {
						// permutes the elements of the slice it is given, writes nothing below them
						modRoots(e.val(f, args[i]), "library "+name, nil)
						continue
					}
					modRoots(f.reach(e.val(f, args[i])), "library "+name, nil)
				}
			}
			if strings.HasSuffix(name, "Unmarshal") && len(args) > 1 {
				// decoded data is fresh
				for r := range e.val(f, args[1]) {
					if f.addContent(r, rootSet{e.alloc(f, args[1]): {}}) {
						ch = true
					}
				}
			}
		}
		d := derived()
		for k := 0; k < nres; k++ {
			setRes(k, d)
		}
	}
	return ch
}

// foreignFresh: v is plain data freshly produced by a package that cannot know the repository's
// root package (it does not import it): it cannot contain a *Config or any other config-internal
// object, and nobody else holds it. Used for the text parsed by parse.ValueWithConfig.
func (e *E1) foreignFresh(v ssa.Value) bool {
	if r, ok := e.foreign[v]; ok {
		return r
	}
	e.foreign[v] = false
	res := true
	srcs := Sources(v)
	if len(srcs) == 0 {
		res = false
	}
	for _, s := range srcs {
		var call *ssa.Call
		switch x := s.(type) {
		case *ssa.Extract:
			call, _ = x.Tuple.(*ssa.Call)
		case *ssa.Call:
			call = x
		case *ssa.Const:
			continue
		}
		if call == nil {
			res = false
			break
		}
		g := call.Call.StaticCallee()
		if g == nil || g.Pkg == nil || g.Pkg.Pkg.Path() == modPath {
			res = false
			break
		}
		imports := false
		seen := map[*types.Package]bool{}
		var walk func(p *types.Package)
		walk = func(p *types.Package) {
			if seen[p] || imports {
				return
			}
			seen[p] = true
			if p.Path() == modPath {
				imports = true
				return
			}
			for _, q := range p.Imports() {
				walk(q)
			}
		}
		walk(g.Pkg.Pkg)
		if imports {
			res = false
			break
		}
		gf := e.fns[g]
		if gf == nil {
			res = false // only callees whose bodies were analysed
			break
		}
		// its result must be summarised as fresh only
		for k := range gf.sum.ret {
			if len(gf.sum.ret[k]) > 0 || gf.sum.retGlobal[k] || gf.sum.retExt[k] {
				res = false
			}
		}
		if res {
			e.Modelled["foreign-fresh:"+g.String()] = "results of " + g.String() + " are plain data from a package that does not import the root package: they cannot contain config-internal objects and are held by nobody else"
		}
	}
	e.foreign[v] = res
	return res
}

// ---- queries ---------------------------------------------------------------

func (e *E1) Summary(fn *ssa.Function) *e1Summary {
	if f := e.fns[fn]; f != nil {
		return f.sum
	}
	return nil
}

// ParamIndex of a parameter value (free variables follow the parameters).
func (e *E1) ParamIndex(fn *ssa.Function, v ssa.Value) int {
	f := e.fns[fn]
	if f == nil {
		return -1
	}
	for i, p := range f.params {
		if p == v {
			return i
		}
	}
	return -1
}

// Chain renders the call chain of a modification down to the store.
func (e *E1) Chain(m *modInfo) string {
	var parts []string
	for x := m; x != nil; x = x.via {
		parts = append(parts, fmt.Sprintf("%s: %s at %s", e.c.FnName(x.fn), x.what, e.c.Pos(x.instr.Pos())))
	}
	if len(parts) > 7 { // keep the entry and the actual write, elide the middle
		parts = append(append(append([]string{}, parts[:3]...), fmt.Sprintf("... %d calls ...", len(parts)-6)), parts[len(parts)-3:]...)
	}
	return strings.Join(parts, " -> ")
}

// Pts returns the roots of value v in its function (described for diagnostics).
func (e *E1) Pts(v ssa.Value) rootSet {
	fn := v.Parent()
	if f := e.fns[fn]; f != nil {
		return e.val(f, v)
	}
	return nil
}

// DerivedFromParam: may v point into the blob of parameter idx (directly or through content)?
func (e *E1) DerivedFromParam(v ssa.Value, idx int) bool {
	fn := v.Parent()
	f := e.fns[fn]
	if f == nil || nLv*idx+nLv > len(f.proots) {
		return false
	}
	rs := e.val(f, v)
	for l := 0; l < nLv; l++ {
		if _, ok := rs[f.proots[nLv*idx+l]]; ok {
			return true
		}
	}
	return false
}

// IsFresh: every root of v is an allocation of this function (or a callee's fresh result), and
// nothing reachable from it is a parameter in `forbidden`, a global or external.
func (e *E1) IsFresh(v ssa.Value, forbidden map[int]bool) (bool, string) {
	fn := v.Parent()
	f := e.fns[fn]
	if f == nil {
		return false, "function not analysed"
	}
	rs := e.val(f, v)
	for r := range rs {
		if r.kind != rkAlloc {
			return false, "value may be " + r.String() + " itself"
		}
	}
	for r := range f.reach(rs) {
		switch r.kind {
		case rkParam:
			if forbidden[r.idx] {
				return false, "value may contain references into " + r.String()
			}
		}
	}
	return true, ""
}

// DumpPts prints the roots of every value of fn (debugging aid).
func (e *E1) DumpPts(fn *ssa.Function) {
	f := e.fns[fn]
	for _, b := range fn.Blocks {
		for _, in := range b.Instrs {
			if v, ok := in.(ssa.Value); ok {
				if rs := f.pts[v]; len(rs) > 0 {
					fmt.Printf("      %s = %s   :: %s\n", v.Name(), v.String(), rsStr(rs))
				}
			}
		}
	}
	for r, cs := range f.content {
		fmt.Printf("      content[%s] = %s\n", r, rsStr(cs))
	}
}

func rsStr(rs rootSet) string {
	var out []string
	for r := range rs {
		out = append(out, r.String())
	}
	sort.Strings(out)
	return strings.Join(out, ",")
}

// Dump prints the summary of fn (debugging aid).
func (e *E1) Dump(fn *ssa.Function) {
	f := e.fns[fn]
	s := f.sum
	fmt.Printf("== %s\n", e.c.FnName(fn))
	for i, p := range f.params {
		fmt.Printf("   param %d %s %s\n", i, p.Name(), typeStr(p.Type()))
	}
	var idx []int
	for i := range s.mods {
		idx = append(idx, i)
	}
	sort.Ints(idx)
	for _, i := range idx {
		fmt.Printf("   MOD %s: %s\n", slotStr(i), e.Chain(s.mods[i]))
	}
	for i, js := range s.flows {
		for j := range js {
			w := s.flowWhy[[2]int{i, j}]
			ws := "?"
			if w != nil {
				ws = e.Chain(w)
			}
			fmt.Printf("   FLOW %s -> %s: %s\n", slotStr(i), slotStr(j), ws)
		}
	}
	for k := range s.ret {
		fmt.Printf("   RET %d: from=%v fresh=%v global=%v ext=%v\n", k, slotsOf(s.ret[k]), s.retFresh[k], s.retGlobal[k], s.retExt[k])
	}
	fmt.Printf("   RETCONTENT %v global=%v\n", slotsOf(s.retContent), s.retContG)
	if s.gmod != nil {
		fmt.Printf("   GMOD %s\n", e.Chain(s.gmod))
	}
}

func keysOf(m map[int]bool) []int {
	var out []int
	for k := range m {
		out = append(out, k)
	}
	sort.Ints(out)
	return out
}

func slotsOf(m map[int]bool) []string {
	var out []string
	for _, k := range keysOf(m) {
		out = append(out, slotStr(k))
	}
	return out
}
