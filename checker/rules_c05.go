package main

// C05 — every input shape normalizes to the same canonical tree.
// Equality of the resulting data over all trees and representations is a runtime-value property and
// is not decided. Decided are four structural conditions the property cannot hold without:
// R05a the generic image (what Unpack into interface{} produces) consists only of types the writer
// accepts, so feeding it back in cannot fail or take another path; R05b one enumeration path for all
// map flavours; R05c/d dotted keys, nested keys and struct fields meet in one function that parses
// the name with the configured separator, overwrites nothing silently, merges only object with
// object and rejects everything else as a duplicate; R05e pointers and interfaces are chased before
// any dispatch on the kind.

import (
	"fmt"
	"go/token"
	"go/types"
	"sort"
	"strings"

	"golang.org/x/tools/go/ssa"
)

func init() {
	register("C05", "Structural closure and single-path rules for normalization. The static types of everything a value.reify implementation can return (the image of Unpack into interface{}) are enumerated from the MakeInterface operands at its returns and each must have a kind normalizeValue accepts (dispatch simulated per kind), nil included; every enumeration of an input map on the NewFrom/Merge path happens in normalizeMapInto, which accepts string- and interface-kinded keys and turns the key into a name only after chasing the interface; every (name, value) pair from a map or a struct reaches the tree under construction through normalizeSetField and nothing else in the normalize family writes into it (fields.set/setAt/add, cfgPath.SetValue, direct stores to a foreign node); normalizeSetField parses the name with the configured separator, stores only where nothing non-nil is present, merges only when both sides are objects, and reports a duplicate otherwise; normalizeValue chases pointers and interfaces before it looks at the kind. Decides that all representations of one tree take one path and that the generic image is re-readable; does not decide that the data is equal.", checkC05)
}

func checkC05(c *Ctx, r *Report) {
	defer optionsThreadedRule(c, r)
	r.Assumption("equality of the normalized data over all representations (numeric equality, nil vs empty) is value-level and not decided")
	kt, kinds := reflectKind(c)
	NV := c.Func("", "normalizeValue")

	// ---- R05a ----
	r.Rule("R05a", "every static type a value.reify implementation returns (the generic image) has a kind normalizeValue accepts; nil is accepted as the nil setting", 6)
	wd := kindDispatchOn(NV, kt, nil)
	if wd == nil {
		r.add("R05a", c.FnName(NV), "kind switch", c.Pos(NV.Pos()), Undecided, true, "no kind switch in normalizeValue")
		return
	}
	accepted := acceptedKinds(c, wd, kt, kinds)
	valueT := c.Named("", "value")
	iface := valueT.Underlying().(*types.Interface)
	seen := map[string]bool{}
	for _, t := range c.Implementations("", iface) {
		f := c.MethodImpl(t, "reify")
		if f == nil {
			continue
		}
		f = declared(c, f)
		if f.Blocks == nil {
			continue
		}
		for _, ret := range Returns(f) {
			if len(ret.Results) != 2 {
				continue
			}
			for _, s := range append(Sources(RetVal(ret, 0)), RetVal(ret, 0)) {
				var st types.Type
				switch x := s.(type) {
				case *ssa.MakeInterface:
					st = x.X.Type()
				case *ssa.Const:
					if x.Value == nil {
						st = types.Typ[types.UntypedNil]
					}
				default:
					continue
				}
				key := c.FnName(f) + " -> " + typeStr(st)
				if seen[key] {
					continue
				}
				seen[key] = true
				r.Analysed["generic image types"]++
				if st == types.Typ[types.UntypedNil] {
					// nil inside a map or list arrives as a nil interface: the writer's default branch must turn it into the nil setting
					okNil := false
					def := wd.Target(9999, kt)
					for _, b := range region(def) {
						for _, in := range b.Instrs {
							if al, ok := in.(*ssa.Alloc); ok && isNamed(derefType(al.Type()), modPath, "cfgNil") {
								okNil = true
							}
						}
					}
					r.Check(okNil, "R05a", c.FnName(f), "image nil", c.Pos(ret.Pos()), "nil is turned into the nil setting on the writer's default path", "reify can return nil but normalizeValue has no nil case: the generic image cannot be fed back in")
					continue
				}
				kn := kindNameOf(st)
				_, ok := accepted[kn]
				r.Check(ok, "R05a", c.FnName(f), "image type "+typeStr(st), c.Pos(ret.Pos()), "kind "+kn+" is accepted by normalizeValue", "reify returns a "+typeStr(st)+" (kind "+kn+") that normalizeValue does not accept: the result of Unpack into interface{} cannot be fed back in")
			}
		}
	}

	// ---- R05b ----
	r.Rule("R05b", "input maps are enumerated in one place (normalizeMapInto), which accepts String and Interface key kinds", 2)
	roots := []*ssa.Function{c.Func("", "NewFrom"), c.Method("", "Config", "Merge")}
	reach := c.Reach(roots, nil, nil)
	nmi := c.Func("", "normalizeMapInto")
	var fns []*ssa.Function
	for fn := range reach {
		if c.InRepo(fn) && fn.Blocks != nil {
			fns = append(fns, fn)
		}
	}
	sort.Slice(fns, func(i, j int) bool { return fns[i].String() < fns[j].String() })
	for _, fn := range fns {
		for _, ci := range CallsIn(fn, true) {
			g := ci.Common().StaticCallee()
			if g == nil || (g.String() != "(reflect.Value).MapKeys" && g.String() != "(reflect.Value).MapRange") {
				continue
			}
			top := fn
			for top.Parent() != nil {
				top = top.Parent()
			}
			r.Check(top == nmi, "R05b", c.FnName(fn), "map enumeration", c.Pos(ci.Pos()), "in normalizeMapInto", "an input map is enumerated outside normalizeMapInto: that representation takes a path of its own")
		}
	}
	{
		// key kinds accepted: the key error is raised exactly for the kinds other than String and
		// Interface. Decided by simulating the tests on the key kind for every kind constant (any
		// spelling: != chain, switch with default, nested ifs).
		ok := false
		form := "no test of the map's key kind found"
		nbk := newNF(c)
		for _, p := range nmi.Params {
			if strings.Contains(p.Type().String(), "reflect.Value") {
				nbk.Role(p, "from")
			}
		}
		var raise *ssa.Call
		for _, ci := range CallsIn(nmi, false) {
			if g := ci.Common().StaticCallee(); g != nil && g.Name() == "raiseKeyInvalidTypeMerge" {
				if call, isCall := ci.(*ssa.Call); isCall && raise == nil {
					raise = call
				}
			}
		}
		for _, d := range findDispatches(nmi, kt) {
			if nbk.Of(d.Tag).String() != "invoke Kind(invoke Key((reflect.Value).Type($from)))" {
				continue
			}
			if raise == nil {
				form = "normalizeMapInto never raises the key type error"
				break
			}
			// kinds whose path through the tests leads to the first raise (the one guarding the map as a whole)
			rejected := map[int64]bool{}
			for _, k := range kinds {
				path := simulateKind(d, k.Val, kt)
				t := path[len(path)-1]
				if t == raise.Block() || (t.Dominates(raise.Block()) && onlyReturnsBetween(t, raise.Block())) {
					rejected[k.Val] = true
				}
			}
			var acc []string
			for _, k := range kinds {
				if !rejected[k.Val] {
					acc = append(acc, k.Name)
				}
			}
			form = "accepted key kinds: " + strings.Join(acc, ", ")
			ok = len(acc) == 2 && !rejected[24] && !rejected[20]
		}
		r.Check(ok, "R05b", c.FnName(nmi), "key kinds", c.Pos(nmi.Pos()), form, "normalizeMapInto does not accept exactly string-keyed and interface-keyed maps: "+form)
	}

	// ---- R05c ----
	namedStoreRule(c, r, "R05c")
	nsf := c.Func("", "normalizeSetField")
	setValue := c.Method("", "cfgPath", "SetValue")

	// ---- R05d ----
	r.Rule("R05d", "normalizeSetField: a store happens only where nothing non-nil is present; a merge only when old and new are both objects; every other collision is reported as a duplicate", 3)
	isNilF := c.Func("", "isNil")
	isSubF := c.Func("", "isSub")
	mergeC := c.Func("", "mergeConfig")
	dup := c.Func("", "raiseDuplicateKey")
	b := newNF(c)
	// roles: old = result #0 of GetValue (or nil after ErrMissing), val = result #0 of normalizeValue
	getValue := c.Method("", "cfgPath", "GetValue")
	for _, ci := range CallsTo(nsf, getValue, false) {
		if call, ok := ci.(*ssa.Call); ok {
			for _, ref := range *call.Referrers() {
				if ex, ok := ref.(*ssa.Extract); ok && ex.Index == 0 {
					b.Role(ex, "old")
				}
			}
		}
	}
	for _, ci := range CallsTo(nsf, NV, false) {
		if call, ok := ci.(*ssa.Call); ok {
			for _, ref := range *call.Referrers() {
				if ex, ok := ref.(*ssa.Extract); ok && ex.Index == 0 {
					b.Role(ex, "val")
				}
			}
		}
	}
	condsOf := func(at ssa.Instruction) map[string]bool {
		out := map[string]bool{}
		for _, cd := range ExpandConds(DomConds(at.Block())) {
			v, truth := cd.V, cd.Truth
			for {
				u, ok := v.(*ssa.UnOp)
				if !ok || u.Op != token.NOT {
					break
				}
				v, truth = u.X, !truth
			}
			call, ok := v.(*ssa.Call)
			if !ok {
				continue
			}
			g := call.Call.StaticCallee()
			if g != isNilF && g != isSubF {
				continue
			}
			arg := b.Of(call.Call.Args[0]).String()
			arg = strings.ReplaceAll(arg, "{$old | nil}", "$old")
			arg = strings.ReplaceAll(arg, "{nil | $old}", "$old")
			out[g.Name()+"("+arg+")"] = truth
		}
		return out
	}
	_, _ = isNilF, isSubF
	check := func(callee *ssa.Function, what string, need map[string]bool, bad string) {
		calls := CallsTo(nsf, callee, false)
		if len(calls) == 0 {
			r.Bad("R05d", c.FnName(nsf), what, c.Pos(nsf.Pos()), "normalizeSetField no longer calls "+callee.Name())
			return
		}
		for _, ci := range calls {
			m := condsOf(ci.(ssa.Instruction))
			ok := true
			for k, v := range need {
				if got, has := m[k]; !has || got != v {
					ok = false
				}
			}
			var ks []string
			for k, v := range m {
				if strings.Contains(k, "isNil") || strings.Contains(k, "isSub") {
					ks = append(ks, fmt.Sprintf("%s=%v", k, v))
				}
			}
			sort.Strings(ks)
			r.Check(ok, "R05d", c.FnName(nsf), what, c.Pos(ci.Pos()), "under "+strings.Join(ks, " ; "), bad+" (conditions found: "+strings.Join(ks, " ; ")+")")
		}
	}
	check(setValue, "store only over nothing", map[string]bool{"isNil($old)": true}, "a setting is stored although a non-nil value may already be present under that name: the same setting defined twice (dotted and nested, say) silently takes the later value instead of being rejected")
	check(mergeC, "merge only object with object", map[string]bool{"isSub($old)": true, "isSub($val)": true}, "old and new value are merged although not both are objects")
	check(dup, "duplicate otherwise", map[string]bool{"isNil($old)": false}, "the duplicate error is not restricted to a present value")

	// ---- R05e ----
	r.Rule("R05e", "normalizeValue looks at the kind (and at the special types) of the value only after chasing pointers and interfaces", 1)
	nb := newNF(c)
	for _, p := range NV.Params {
		if strings.Contains(p.Type().String(), "reflect.Value") {
			nb.Role(p, "v")
		}
	}
	tag := nb.Of(wd.Tag).String()
	r.Check(tag == "(reflect.Value).Kind("+modPath+".chaseValue($v))", "R05e", c.FnName(NV), "kind of the chased value", c.Pos(wd.Head.Instrs[0].Pos()), tag, "the kind dispatch of normalizeValue is not on chaseValue(v): pointers or interfaces around a value make it take another path ("+tag+")")
	verbatimNameRule(c, r)
}

func kindNameOf(t types.Type) string {
	switch u := t.Underlying().(type) {
	case *types.Basic:
		switch {
		case u.Kind() == types.Bool:
			return "Bool"
		case u.Kind() == types.String:
			return "String"
		case u.Kind() == types.Int64:
			return "Int64"
		case u.Kind() == types.Uint64:
			return "Uint64"
		case u.Kind() == types.Float64:
			return "Float64"
		case u.Kind() == types.Int:
			return "Int"
		case u.Kind() == types.Uint:
			return "Uint"
		case u.Kind() == types.Float32:
			return "Float32"
		}
		return "basic:" + u.Name()
	case *types.Map:
		return "Map"
	case *types.Slice:
		return "Slice"
	case *types.Array:
		return "Array"
	case *types.Struct:
		return "Struct"
	case *types.Pointer:
		return "Ptr"
	case *types.Interface:
		return "Interface"
	}
	return "other"
}

// onlyReturnsBetween: b is a itself, or a leads straight to b (a's only way forward is b).
func onlyReturnsBetween(a, b *ssa.BasicBlock) bool {
	for cur := a; cur != nil; {
		if cur == b {
			return true
		}
		if len(cur.Succs) != 1 {
			return false
		}
		cur = cur.Succs[0]
	}
	return false
}

// verbatimNameRule (R05f): a struct field is stored under the name part of its tag exactly as written —
// a map key arrives verbatim, so any rewriting of the tag's name (case folding, replacement) makes the
// struct form of a document normalize to a different tree than its map form. Decided on the value
// parseTags returns as the name: between the tag parameter and the result only splitting, indexing,
// slicing and trimming of white space are applied.
func verbatimNameRule(c *Ctx, r *Report) {
	r.Rule("R05f", "the field name parseTags returns is the name part of the tag as written: only Split/Cut/index/slice/TrimSpace lie between the tag parameter and the result", 1)
	fn := c.Func("", "parseTags")
	name := c.FnName(fn)
	if len(fn.Params) == 0 || fn.Signature.Results().Len() < 1 {
		r.add("R05f", name, "name part verbatim", c.Pos(fn.Pos()), Undecided, true, "parseTags has no parameter / result")
		return
	}
	preserving := map[string]bool{"strings.Split": true, "strings.SplitN": true, "strings.Cut": true, "strings.TrimSpace": true, "strings.SplitAfter": false}
	rewriting := map[string]bool{"strings.ToLower": true, "strings.ToUpper": true, "strings.Title": true, "strings.ToTitle": true, "strings.Replace": true, "strings.ReplaceAll": true,
		"strings.Map": true, "strings.ToLowerSpecial": true, "strings.ToUpperSpecial": true, "strings.ToValidUTF8": true, "strings.Trim": true, "strings.TrimLeft": true, "strings.TrimRight": true,
		"strings.TrimPrefix": true, "strings.TrimSuffix": true, "strings.TrimFunc": true, "strings.Repeat": true, "strings.Join": true, "strings.Fields": true, "fmt.Sprintf": true}
	n := 0
	for _, ret := range Returns(fn) {
		n++
		var bad, unknown []string
		reached := false
		seen := map[ssa.Value]bool{}
		var walk func(v ssa.Value, d int)
		walk = func(v ssa.Value, d int) {
			if seen[v] || d > 40 {
				return
			}
			seen[v] = true
			switch x := v.(type) {
			case *ssa.Parameter:
				if x == fn.Params[0] {
					reached = true
				}
			case *ssa.Const:
				// a constant name: not derived from the tag (e.g. "" for no tag) — nothing to follow
			case *ssa.Call:
				f := x.Call.StaticCallee()
				switch {
				case f == nil:
					unknown = append(unknown, "dynamic call")
				case preserving[f.String()]:
					walk(x.Call.Args[0], d+1)
				case rewriting[f.String()]:
					bad = append(bad, f.String())
					walk(x.Call.Args[0], d+1)
				default:
					unknown = append(unknown, f.String())
					for _, a := range x.Call.Args {
						if b, ok := a.Type().Underlying().(*types.Basic); ok && b.Info()&types.IsString != 0 {
							walk(a, d+1)
						}
					}
				}
			case *ssa.Extract:
				walk(x.Tuple, d+1)
			case *ssa.UnOp:
				if x.Op == token.MUL {
					switch a := x.X.(type) {
					case *ssa.IndexAddr:
						walk(a.X, d+1)
					default:
						if vals, ok := localStores(x.X); ok {
							for _, s := range vals {
								walk(s, d+1)
							}
						} else {
							unknown = append(unknown, "load "+x.X.Name())
						}
					}
				}
			case *ssa.Slice:
				walk(x.X, d+1)
			case *ssa.Index:
				walk(x.X, d+1)
			case *ssa.Lookup:
				walk(x.X, d+1)
			case *ssa.Phi:
				for _, e := range x.Edges {
					walk(e, d+1)
				}
			case *ssa.BinOp:
				if x.Op == token.ADD {
					bad = append(bad, "string concatenation")
				}
				walk(x.X, d+1)
				walk(x.Y, d+1)
			case *ssa.Convert:
				bad = append(bad, "conversion")
				walk(x.X, d+1)
			case *ssa.ChangeType:
				walk(x.X, d+1)
			default:
				unknown = append(unknown, fmt.Sprintf("%T", v))
			}
		}
		walk(RetVal(ret, 0), 0)
		switch {
		case len(bad) > 0:
			r.Bad("R05f", name, "name part verbatim", c.Pos(ret.Pos()), "the name a struct field is stored under is rewritten on the way from the tag ("+strings.Join(bad, ", ")+"): a struct with such a tag normalizes to other keys than the map holding the same document")
		case len(unknown) > 0:
			r.add("R05f", name, "name part verbatim", c.Pos(ret.Pos()), Undecided, true, "the name passes through operations not in the table of name-preserving / rewriting operations: "+strings.Join(unknown, ", "))
		case !reached:
			r.Trivial("R05f", name, "name part verbatim", c.Pos(ret.Pos()), "this return does not derive the name from the tag")
		default:
			r.OK("R05f", name, "name part verbatim", c.Pos(ret.Pos()), "only Split / index / TrimSpace between the tag and the name")
		}
	}
	if n == 0 {
		r.add("R05f", name, "name part verbatim", c.Pos(fn.Pos()), Undecided, true, "parseTags has no return")
	}
}

// namedStoreRule (R05c, and R18h for the front-ends): one place stores named settings while an input is normalised.
func namedStoreRule(c *Ctx, r *Report, rule string) {
	r.Rule(rule, "inside the normalize family only normalizeSetField stores a named setting into the tree under construction; maps and structs both hand (name, value) to it", 3)
	nsf := c.Func("", "normalizeSetField")
	setValue := c.Method("", "cfgPath", "SetValue")
	fset := c.Method("", "fields", "set")
	for _, fn := range c.SrcFuncs() {
		if fn.Pkg != c.SSA[""] || !strings.HasPrefix(fn.Name(), "normalize") {
			continue
		}
		for _, ci := range CallsIn(fn, true) {
			g := ci.Common().StaticCallee()
			if g == nil {
				// the segment-level writers through the interface: field.SetValue
				if ci.Common().IsInvoke() && ci.Common().Method.Name() == "SetValue" && namedOf(ci.Common().Value.Type()) == c.Named("", "field") {
					r.Check(fn == nsf, rule, c.FnName(fn), "named store field.SetValue", c.Pos(ci.Pos()), "in normalizeSetField", "a normalize function stores a setting through a path segment of its own making, without going through normalizeSetField: names from that source are not split at the separator, not classified as name or index by the path parser, and duplicates are not detected")
				}
				continue
			}
			if g.Name() == "SetValue" && g != setValue && (recvName(g) == "namedField" || recvName(g) == "idxField") {
				r.Check(fn == nsf, rule, c.FnName(fn), "named store "+recvName(g)+".SetValue", c.Pos(ci.Pos()), "in normalizeSetField", "a normalize function stores a setting through a path segment of its own making ("+recvName(g)+"), without going through normalizeSetField: names from that source are not split at the separator, not classified as name or index by the path parser, and duplicates are not detected")
			}
			if g == setValue || g == fset {
				r.Check(fn == nsf, rule, c.FnName(fn), "named store "+g.Name(), c.Pos(ci.Pos()), "in normalizeSetField", "a normalize function stores a named setting without going through normalizeSetField: names from that source are not split at the separator and duplicates are not detected")
			}
			// merging a normalised part into the tree under construction stores all its names at once, last one wins
			if g.Pkg == c.SSA[""] && g.Name() == "mergeConfig" {
				r.Check(fn == nsf, rule, c.FnName(fn), "named store "+g.Name(), c.Pos(ci.Pos()), "in normalizeSetField (R05d: only for two objects under one name)", "a normalize function merges a normalised part into the tree under construction: its names are stored by the merge, where the last one wins — a setting defined twice (by an inlined struct and a sibling field, by two inlined parts) is no longer rejected as a duplicate")
			}
		}
	}
	for _, name := range []string{"normalizeMapInto", "normalizeStructInto"} {
		fn := c.Func("", name)
		n := len(CallsTo(fn, nsf, false))
		r.Check(n >= 1, rule, c.FnName(fn), "hands pairs to normalizeSetField", c.Pos(fn.Pos()), fmt.Sprintf("%d call(s)", n), name+" no longer stores its settings through normalizeSetField")
	}

}

// optionsThreadedRule (R05g): how the parts of one input are put together — where a name is split, what counts as a
// list index, which policy joins a dotted and a nested spelling of the same object — is decided by the options of the
// NewFrom/Merge call, the same for every part. Inside the normalize family the *options of the call are therefore
// handed on as they are: a callee that gets options derived per field (the reader's accessField replaces the merging
// policy by the field's tag) combines the pieces of that field's value differently from the same data given as a map.
func optionsThreadedRule(c *Ctx, r *Report) {
	r.Rule("R05g", "every call from one normalize function to another hands over the caller's own *options parameter: no options derived per field or per key take part in putting an input together", 12)
	isOpts := func(t types.Type) bool {
		pt, ok := t.(*types.Pointer)
		return ok && isNamed(pt.Elem(), c.Pkgs[""].PkgPath, "options")
	}
	for _, fn := range c.SrcFuncs() {
		if fn.Pkg != c.SSA[""] || fn.Parent() != nil || !strings.HasPrefix(fn.Name(), "normalize") {
			continue
		}
		var own ssa.Value
		for _, p := range fn.Params {
			if isOpts(p.Type()) {
				own = p
			}
		}
		for _, ci := range CallsIn(fn, true) {
			g := ci.Common().StaticCallee()
			if g == nil || g.Pkg != c.SSA[""] || !strings.HasPrefix(g.Name(), "normalize") {
				continue
			}
			for _, a := range ci.Common().Args {
				if !isOpts(a.Type()) {
					continue
				}
				ok := own != nil
				if ok {
					for _, src := range Sources(a) {
						if src != own {
							if fv, isFV := src.(*ssa.FreeVar); isFV && freeVarBinding(fv) == own {
								continue
							}
							ok = false
						}
					}
				}
				r.Check(ok, "R05g", c.FnName(fn), "options handed to "+g.Name(), c.Pos(ci.Pos()), "the caller's own options",
					"a normalize function hands options of another origin ("+describeVals(Sources(a))+") to "+g.Name()+": the parts of this value are put together under options derived for one field or key (a merging policy from a struct tag, say), so the same data normalises differently as a struct, as a map, dotted or nested")
			}
		}
	}
}
