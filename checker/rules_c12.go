package main

// C12 — path-addressed reads, writes and removals behave like a tree.
// R12a all (name, idx) entry points use one address function; R12b node storage is written only by
// the fields methods, by construction of fresh nodes and by the merge functions (closed set);
// R12c Remove ignores environments; R12d a child handle is a live view (toConfig of a sub-config
// returns the stored config itself). The model equivalence over operation histories is not decided.

import (
	"fmt"
	"go/token"
	"go/types"
	"sort"
	"strings"

	"golang.org/x/tools/go/ssa"
)

func init() {
	register("C12", "Sibling/def-use agreement of the address function: every exported *Config method with parameters (name string, idx int, ...) hands exactly its own name and idx, with options built from its own option arguments, to parsePathIdx (directly or through getField/setField), and performs its access through the resulting path on its own receiver — a getter and a setter that parsed addresses differently could not read back what was written. Who-may-write rule for node storage: stores into fields.d / fields.a (field stores, map updates, element stores, whole-node assignments) occur only in methods of fields, on nodes constructed in the same function, or in the merge functions; anything else is a stray write. Remove clears env/resolvers and sets noParse on the options it walks with. A child handle is a live view: toConfig of a stored sub-config returns the stored object (E1: result derived from the receiver, not fresh). The equivalence with a plain tree over all operation histories is value-level and not decided; CountField takes no index and reads the top-level name without path parsing (outside R12a's slot definition).", checkC12)
}

func checkC12(c *Ctx, r *Report) {
	r.Assumption("equivalence with a plain tree of dictionaries and lists over all operation histories is not decided")
	ppi := c.Func("", "parsePathIdx")
	mk := c.Func("", "makeOptions")
	cfgT := c.Named("", "Config")

	r.Rule("R12a", "every exported *Config method with (name string, idx int, ...) passes its own name and idx and options made from its own option arguments to parsePathIdx (directly or via an unexported helper) and accesses its own receiver through the resulting path; no successful return avoids that", 28)
	var methods []*ssa.Function
	ms := c.Prog.MethodSets.MethodSet(types.NewPointer(cfgT))
	for i := 0; i < ms.Len(); i++ {
		fn := c.Prog.MethodValue(ms.At(i))
		if fn == nil || fn.Synthetic != "" || !ms.At(i).Obj().Exported() {
			continue
		}
		if len(fn.Params) >= 3 && isString(fn.Params[1].Type()) && isInt(fn.Params[2].Type()) {
			methods = append(methods, fn)
		}
	}
	sort.Slice(methods, func(i, j int) bool { return methods[i].Name() < methods[j].Name() })
	for _, fn := range methods {
		ok, why := addressFlow(c, fn, fn.Params[0], fn.Params[1], fn.Params[2], ppi, mk, 0)
		r.Check(ok, "R12a", c.FnName(fn), "address function", c.Pos(fn.Pos()), why, "this entry point does not address its setting through parsePathIdx(own name, own idx, own options) on its own receiver: "+why)
		// ... and on every way to a successful answer: a shortcut that answers from the node's own dictionary
		// (HasField(name) for a name without separator) classifies "0" as a name where every other entry point
		// takes it for a list index, and the spellings of one address stop agreeing
		reachesPPI := func(g *ssa.Function) bool {
			return g == ppi || c.Reach([]*ssa.Function{g}, nil, nil)[ppi]
		}
		isM := func(in ssa.Instruction) bool {
			ci, isCall := in.(ssa.CallInstruction)
			if !isCall {
				return false
			}
			g := ci.Common().StaticCallee()
			return g != nil && g.Pkg == c.SSA[""] && reachesPPI(g)
		}
		isSuccess := func(ret *ssa.Return) bool {
			n := len(ret.Results)
			return n > 0 && typeStr(ret.Results[n-1].Type()) == "error" && IsNilConst(ret.Results[n-1])
		}
		badRets := MustPass(fn, isM, isSuccess)
		pos := fn.Pos()
		if len(badRets) > 0 {
			pos = badRets[0].Pos()
		}
		r.Check(len(badRets) == 0, "R12a", c.FnName(fn), "no answer around the address function", c.Pos(pos), "every successful return lies behind the address function", "this entry point can answer successfully without addressing its setting through parsePathIdx: the shortcut classifies the name on its own (a bare number is a list index for every other entry point), so two spellings of one address — Has(\"1\", -1) and Has(\"\", 1) — disagree")
	}

	// R12b
	r.Rule("R12b", "node storage (fields.d / fields.a) is written only by methods of fields, on nodes constructed in the same function, or by the merge functions", 10)
	nodeWriters(c, r)

	atomicSetRule(c, r)

	// R12e: handles stay live across removals — the node's own mutators move stored values, they
	// never replace one by a copy (a copied sub-config detaches every handle taken before)
	r.Rule("R12e", "the methods of fields that rearrange stored values (everything except append, which takes over values from another node) never store the result of cpy: a moved sub-config keeps its identity", 5)
	fieldsT := c.Named("", "fields")
	fms := c.Prog.MethodSets.MethodSet(types.NewPointer(fieldsT))
	for i := 0; i < fms.Len(); i++ {
		fn := c.Prog.MethodValue(fms.At(i))
		if fn == nil || fn.Synthetic != "" || fn.Blocks == nil {
			continue
		}
		if fn.Name() == "append" {
			continue
		}
		copies := 0
		var pos token.Pos
		for _, ci := range CallsIn(fn, true) {
			if ci.Common().IsInvoke() && ci.Common().Method.Name() == "cpy" {
				copies++
				pos = ci.Pos()
			}
		}
		if copies == 0 {
			pos = fn.Pos()
		}
		r.Check(copies == 0, "R12e", c.FnName(fn), "moved values keep identity", c.Pos(pos), "no copy of a stored value", "a node mutator stores a copy of a value it already holds: for a sub-config the copy is a new *Config, so every handle obtained with Child before the operation is detached from the tree (writes through it are lost, writes through the parent are invisible to it)")
	}

	// R12c
	r.Rule("R12c", "Remove walks with options whose env and resolvers are cleared and noParse is set, on every path", 1)
	rm := c.Method("", "Config", "Remove")
	{
		var walk ssa.CallInstruction
		for _, ci := range CallsIn(rm, false) {
			if f := ci.Common().StaticCallee(); f != nil && recvName(f) == "cfgPath" && f.Name() == "Remove" {
				walk = ci
			}
		}
		if walk == nil {
			r.Bad("R12c", c.FnName(rm), "environments ignored", c.Pos(rm.Pos()), "Remove does not walk a parsed path")
		} else {
			need := map[string]string{"env": "nil", "resolvers": "nil", "noParse": "true"}
			got := map[string]bool{}
			optsArg := walk.Common().Args[len(walk.Common().Args)-1]
			Instrs(rm, false, func(in ssa.Instruction) {
				st, ok := in.(*ssa.Store)
				if !ok || !InstrDominates(st, walk) {
					return
				}
				nt, f, ok := FieldOf(st.Addr)
				if !ok || nt.Obj().Name() != "options" {
					return
				}
				fa := st.Addr.(*ssa.FieldAddr)
				if fa.X != optsArg {
					return
				}
				switch need[f] {
				case "nil":
					if IsNilConst(st.Val) {
						got[f] = true
					}
				case "true":
					if b, ok := ConstBool(st.Val); ok && b {
						got[f] = true
					}
				}
			})
			var missing []string
			for f := range need {
				if !got[f] {
					missing = append(missing, f)
				}
			}
			sort.Strings(missing)
			r.Check(len(missing) == 0, "R12c", c.FnName(rm), "environments ignored", c.Pos(walk.Pos()), "env = nil, resolvers = nil, noParse = true dominate the walk on the same options", "Remove walks with options that still carry "+strings.Join(missing, ", ")+": a setting that only exists in an environment or a resolver could be followed or evaluated during removal")
		}
	}

	// R12d
	r.Rule("R12d", "toConfig of a stored sub-config returns the stored config itself (live view), not a copy", 1)
	{
		tc := c.Method("", "cfgSub", "toConfig")
		s := c.E1().Summary(tc)
		ok := s != nil && len(s.ret) > 0 && !s.retFresh[0] && (s.ret[0][0] || s.ret[0][1])
		r.Check(ok, "R12d", c.FnName(tc), "live view", c.Pos(tc.Pos()), "result derives from the receiver and is never a fresh object", "Child() hands out a copy of the sub-config: writes through the child handle are no longer visible through the parent")
	}
	liveChildRule(c, r)
	partDisciplineRule(c, r, "R12h")
	accessorFamilyRules(c, r)
}

// accessorFamilyRules: three more families whose members must stay in step for "a getter reads back what a setter
// wrote at the same address".
//
//	R12i the four walkers of cfgPath (Has, GetValue, SetValue, Remove) read and write nodes only through the
//	     segment methods (field.GetValue / SetValue / Remove): none has a way of its own into a node;
//	R12j each typed getter converts the value it found with the accessor of its own type (Int with toInt, …);
//	R12k each typed setter stores the node type of its own kind with its argument as the payload.
func accessorFamilyRules(c *Ctx, r *Report) {
	r.Rule("R12i", "cfgPath.Has / GetValue / SetValue / Remove reach into nodes only through the segment methods of the field interface, never through the accessors of fields directly; neither do getField and setField", 6)
	pathT := c.Named("", "cfgPath")
	fieldsT := c.Named("", "fields")
	// the two address functions of Config come first: they find the node through the parsed path, never by looking
	// the name up as it is written (a literal answer disagrees with Has, the setters and Remove as soon as the name
	// contains the separator or is a number)
	for _, mn := range []string{"getField", "setField"} {
		fn := c.Method("", "Config", mn)
		bad := ""
		for _, g := range WithAnon(fn) {
			for _, ci := range CallsIn(g, false) {
				if f := ci.Common().StaticCallee(); f != nil && recvName(f) == "fields" {
					bad = "fields." + f.Name() + " at " + c.Pos(ci.Pos())
				}
			}
		}
		r.Check(bad == "", "R12i", c.FnName(fn), "walks through the segment methods", c.Pos(fn.Pos()), "no direct access to node storage",
			"the address function "+mn+" looks into the node by itself ("+bad+"): a name is answered literally where Has, the setters and Remove parse it — the getters read a setting at an address that is not there for the others")
	}
	for _, mn := range []string{"Has", "GetValue", "SetValue", "Remove"} {
		fn := c.MethodImpl(pathT, mn)
		if fn == nil {
			r.add("R12i", "ucfg.cfgPath."+mn, "walks through the segment methods", "-", Undecided, true, "method not found")
			continue
		}
		fn = declared(c, fn)
		bad := ""
		for _, g := range WithAnon(fn) {
			Instrs(g, false, func(in ssa.Instruction) {
				switch x := in.(type) {
				case ssa.CallInstruction:
					if f := x.Common().StaticCallee(); f != nil && recvName(f) == "fields" {
						bad = "fields." + f.Name() + " at " + c.Pos(x.Pos())
					}
				case *ssa.FieldAddr:
					if nt, f, ok := FieldOf(x); ok && nt == fieldsT {
						bad = "fields." + f + " at " + c.Pos(x.Pos())
					}
				}
			})
		}
		r.Check(bad == "", "R12i", c.FnName(fn), "walks through the segment methods", c.Pos(fn.Pos()), "no direct access to node storage",
			"a path walker reaches into a node by itself ("+bad+"): what it finds at a segment can differ from what the segment's getter, setter and remover agree on")
	}

	// CountField is the getter without an index: it addresses its setting like the others
	r.Rule("R12l", "CountField finds its setting through getField(own name, -1, options from its own arguments), not by a literal lookup of the name", 1)
	{
		cf := c.Method("", "Config", "CountField")
		gf := c.Method("", "Config", "getField")
		ok, why := false, "no call of getField"
		for _, ci := range CallsTo(cf, gf, false) {
			args := ci.Common().Args
			if len(args) >= 3 && args[1] == ssa.Value(cf.Params[1]) {
				if k, isK := ConstInt(args[2]); isK && k == -1 {
					ok, why = true, "getField(name, -1, options)"
				}
			} else {
				why = "getField is not given CountField's own name"
			}
		}
		for _, ci := range CallsIn(cf, false) {
			if f := ci.Common().StaticCallee(); f != nil && recvName(f) == "fields" && f.Name() == "get" {
				ok, why = false, "the name is looked up literally (fields.get)"
			}
		}
		r.Check(ok, "R12l", c.FnName(cf), "addressed like a getter", c.Pos(cf.Pos()), why,
			"CountField does not address its setting through the address function of the getters ("+why+"): with a path separator Has(\"a.b\") is true and CountField(\"a.b\") reports a missing field, a numeric name is an index for Has and Int and a name for CountField")
	}

	r.Rule("R12j", "Bool, String, Int, Uint, Float and Child convert the value found with the accessor of their own type (toBool, toString, toInt, toUint, toFloat, toConfig) and return its result", 6)
	want := map[string]string{"Bool": "toBool", "String": "toString", "Int": "toInt", "Uint": "toUint", "Float": "toFloat", "Child": "toConfig"}
	for _, g := range []string{"Bool", "String", "Int", "Uint", "Float", "Child"} {
		fn := c.Method("", "Config", g)
		used := map[string]bool{}
		var acc *ssa.Call
		for _, ci := range CallsIn(fn, false) {
			if ci.Common().IsInvoke() && strings.HasPrefix(ci.Common().Method.Name(), "to") && isNamed(ci.Common().Value.Type(), modPath, "value") {
				used[ci.Common().Method.Name()] = true
				if call, ok := ci.(*ssa.Call); ok && ci.Common().Method.Name() == want[g] {
					acc = call
				}
			}
		}
		ok := len(used) == 1 && used[want[g]] && acc != nil
		// the success value is the accessor's result
		if ok {
			for _, ret := range Returns(fn) {
				res := RetVal(ret, 0)
				if k, isK := res.(*ssa.Const); isK {
					_ = k
					continue // the zero value next to an error
				}
				from := false
				for _, s := range append(Sources(res), res) {
					if ex, isEx := s.(*ssa.Extract); isEx && ex.Tuple == ssa.Value(acc) && ex.Index == 0 {
						from = true
					}
				}
				if !from {
					ok = false
				}
			}
		}
		r.Check(ok, "R12j", c.FnName(fn), "own accessor", c.Pos(fn.Pos()), want[g]+" and nothing else",
			"the getter "+g+" does not return exactly what "+want[g]+" of the value found gives (accessors used: "+strings.Join(sortedKeys(used), ",")+"): it reads a setting differently from Unpack into the same type and from the setter of its own kind")
	}

	r.Rule("R12k", "SetBool, SetInt, SetUint, SetFloat and SetString store a node of their own kind (cfgBool, cfgInt, cfgUint, cfgFloat, cfgString) whose payload is their argument", 5)
	node := map[string][2]string{"SetBool": {"cfgBool", "b"}, "SetInt": {"cfgInt", "i"}, "SetUint": {"cfgUint", "u"}, "SetFloat": {"cfgFloat", "f"}, "SetString": {"cfgString", "s"}}
	for _, sname := range []string{"SetBool", "SetInt", "SetUint", "SetFloat", "SetString"} {
		fn := c.Method("", "Config", sname)
		var valParam *ssa.Parameter
		if len(fn.Params) >= 4 {
			valParam = fn.Params[3]
		}
		ok, why := false, "no node of kind "+node[sname][0]+" built"
		nodes := 0
		Instrs(fn, false, func(in ssa.Instruction) {
			al, isAl := in.(*ssa.Alloc)
			if !isAl || !al.Heap {
				return
			}
			nt, isN := al.Type().(*types.Pointer).Elem().(*types.Named)
			if !isN || !strings.HasPrefix(nt.Obj().Name(), "cfg") {
				return
			}
			nodes++
			if nt.Obj().Name() != node[sname][0] {
				why = "a node of kind " + nt.Obj().Name() + " is built"
				return
			}
			for _, ref := range *al.Referrers() {
				fa, isFA := ref.(*ssa.FieldAddr)
				if !isFA {
					continue
				}
				if _, f, _ := FieldOf(fa); f != node[sname][1] {
					continue
				}
				for _, r2 := range *fa.Referrers() {
					if st, isSt := r2.(*ssa.Store); isSt && st.Addr == ssa.Value(fa) {
						if st.Val == ssa.Value(valParam) {
							ok = true
						} else {
							why = "the payload stored is " + st.Val.String() + ", not the argument"
						}
					}
				}
			}
		})
		if nodes > 1 {
			ok, why = false, "more than one node built"
		}
		// the same through the kind's constructor
		ctorName := "new" + strings.TrimPrefix(node[sname][0], "cfg")
		if ctor := c.TryFunc("", ctorName); ctor != nil && nodes == 0 {
			for _, ci := range CallsTo(fn, ctor, false) {
				if len(ci.Common().Args) == 3 && ci.Common().Args[2] == ssa.Value(valParam) {
					ok = true
				} else {
					why = ctorName + " is not given the argument as payload"
				}
			}
		}
		r.Check(ok, "R12k", c.FnName(fn), "own node kind", c.Pos(fn.Pos()), "&"+node[sname][0]+"{"+node[sname][1]+": value}",
			"the setter "+sname+" does not store a "+node[sname][0]+" holding its argument ("+why+"): the getter of the same kind, and Unpack, read back something else than what was set")
	}
}

// partDisciplineRule (R12h, and R20f): a node has a dictionary part and a list part; a named path segment addresses
// the first, an index segment the second. The getter, the setter and the remover of each kind of segment are
// siblings that must agree on where a segment lives: none of them looks into the other part (an index answered from
// the dictionary, or by the node itself because it "is one object", is an address the setter and the remover do
// not know).
func partDisciplineRule(c *Ctx, r *Report, rule string) {
	r.Rule(rule, "the methods of idxField use only the list accessors of fields (array, setAt, delAt), the methods of namedField only the dictionary accessors (get, set, del, dict)", 6)
	fieldsT := c.Named("", "fields")
	dictPart := map[string]bool{"get": true, "set": true, "del": true, "dict": true, "d": true}
	listPart := map[string]bool{"array": true, "setAt": true, "delAt": true, "append": true, "add": true, "a": true}
	for _, tn := range []string{"idxField", "namedField"} {
		t := c.Named("", tn)
		allowed, other, otherName := listPart, dictPart, "dictionary"
		if tn == "namedField" {
			allowed, other, otherName = dictPart, listPart, "list"
		}
		_ = allowed
		for _, mn := range []string{"GetValue", "SetValue", "Remove"} {
			fn := c.MethodImpl(t, mn)
			if fn == nil {
				continue
			}
			fn = declared(c, fn)
			name := c.FnName(fn)
			bad := ""
			for _, g := range WithAnon(fn) {
				Instrs(g, false, func(in ssa.Instruction) {
					switch x := in.(type) {
					case ssa.CallInstruction:
						if f := x.Common().StaticCallee(); f != nil && recvName(f) == "fields" && other[f.Name()] {
							bad = "fields." + f.Name() + " at " + c.Pos(x.Pos())
						}
					case *ssa.FieldAddr:
						if nt, f, ok := FieldOf(x); ok && nt == fieldsT && other[f] {
							bad = "fields." + f + " at " + c.Pos(x.Pos())
						}
					}
				})
			}
			r.Check(bad == "", rule, name, "stays in its part of the node", c.Pos(fn.Pos()), "no access to the "+otherName+" part",
				"a "+tn+" method looks into the "+otherName+" part of the node ("+bad+"): the getter, the setter and the remover of a path segment no longer agree on where it lives — a setting can be read at an address it cannot be written or removed at (or the other way round), and a numeric segment is answered by a name")
		}
	}
}

// liveChildRule (R12g): the two ends of the live view. SetChild puts the caller's own config into the tree (wrapped,
// never copied), and Child returns what toConfig of the stored value returns (R12d: the stored config itself).
func liveChildRule(c *Ctx, r *Report) {
	r.Rule("R12g", "SetChild stores the config it is given (wrapped in cfgSub, on every path), Child returns the result of toConfig on the stored value: both ends of the live view are the same object", 2)
	cfgT := c.Named("", "Config")
	if sc := c.Method("", "Config", "SetChild"); sc != nil {
		var param *ssa.Parameter
		for _, p := range sc.Params[1:] {
			if pt, ok := p.Type().(*types.Pointer); ok && types.Identical(pt.Elem(), cfgT) {
				param = p
			}
		}
		n := 0
		valueT := c.Named("", "value")
		for _, ci := range CallsIn(sc, false) {
			g := ci.Common().StaticCallee()
			if g == nil || g.Pkg != c.SSA[""] {
				continue
			}
			for _, a := range ci.Common().Args {
				if !types.Identical(a.Type(), valueT) {
					continue
				}
				n++
				own, why := false, "the value handed on is not a cfgSub wrapper built here"
				if mi, ok := a.(*ssa.MakeInterface); ok {
					if l, ok := mi.X.(*ssa.UnOp); ok && l.Op == token.MUL {
						if al, ok := l.X.(*ssa.Alloc); ok {
							own, why = param != nil, "the wrapped config is the parameter itself"
							stores := 0
							for _, ref := range *al.Referrers() {
								fa, ok := ref.(*ssa.FieldAddr)
								if !ok {
									if st, isSt := ref.(*ssa.Store); isSt && st.Addr == ssa.Value(al) {
										own, why = false, "the wrapper is taken over from "+st.Val.String()
									}
									continue
								}
								for _, r2 := range *fa.Referrers() {
									if st, isSt := r2.(*ssa.Store); isSt && st.Addr == ssa.Value(fa) {
										stores++
										for _, s := range Sources(st.Val) {
											if s != ssa.Value(param) {
												own, why = false, "the wrapped config can be "+s.String()
											}
										}
									}
								}
							}
							if stores == 0 {
								own, why = false, "the wrapper's config is never set"
							}
						}
					}
				}
				r.Check(own, "R12g", c.FnName(sc), "stores the given config", c.Pos(ci.Pos()), why, "SetChild can put something else than the caller's config into the tree ("+why+"): writes through the handle the caller keeps are not visible through the parent, Child() at that address returns another object")
			}
		}
		if n == 0 {
			r.add("R12g", c.FnName(sc), "stores the given config", c.Pos(sc.Pos()), Undecided, true, "SetChild hands no value to a setter")
		}
	}
	if ch := c.Method("", "Config", "Child"); ch != nil {
		for _, ret := range Returns(ch) {
			ok, why := true, "nil or the result of toConfig"
			for _, s := range Sources(RetVal(ret, 0)) {
				if IsNilConst(s) {
					continue
				}
				if ex, isE := s.(*ssa.Extract); isE && ex.Index == 0 {
					if call, isC := ex.Tuple.(*ssa.Call); isC && call.Call.IsInvoke() && call.Call.Method.Name() == "toConfig" {
						continue
					}
				}
				ok, why = false, "the result can be "+s.String()
			}
			r.Check(ok, "R12g", c.FnName(ch), "returns the stored config", c.Pos(ret.Pos()), why, "Child does not return what toConfig of the stored value gives ("+why+"): the handle is not the node in the tree")
		}
	}
}

func isString(t types.Type) bool {
	b, ok := t.Underlying().(*types.Basic)
	return ok && b.Kind() == types.String
}

func isInt(t types.Type) bool {
	b, ok := t.Underlying().(*types.Basic)
	return ok && b.Kind() == types.Int
}

// addressFlow: fn (receiver recv, name, idx) reaches parsePathIdx(name, idx, opts) and uses the path on recv.
func addressFlow(c *Ctx, fn *ssa.Function, recv, name, idx ssa.Value, ppi, mk *ssa.Function, depth int) (bool, string) {
	only := func(v ssa.Value, want ssa.Value) bool {
		srcs := Sources(v)
		return len(srcs) == 1 && srcs[0] == want
	}
	// direct call
	for _, ci := range CallsTo(fn, ppi, false) {
		a := ci.Common().Args
		if !only(a[0], name) {
			return false, "parsePathIdx is not given the method's own name argument"
		}
		if !only(a[1], idx) {
			return false, "parsePathIdx is not given the method's own idx argument"
		}
		// options: result of makeOptions(own options) or an *options parameter
		optOK := false
		for _, s := range Sources(a[2]) {
			switch x := s.(type) {
			case *ssa.Call:
				if IsCallTo(x, mk) {
					for _, s2 := range Sources(x.Call.Args[0]) {
						if p, ok := s2.(*ssa.Parameter); ok && p.Parent() == fn {
							optOK = true
						}
					}
				}
			case *ssa.Parameter:
				if isNamed(x.Type(), modPath, "options") {
					optOK = true
				}
			}
		}
		if !optOK {
			return false, "the options given to parsePathIdx are not built from the method's own option arguments"
		}
		// the path is used for an access on recv
		call, _ := ci.(*ssa.Call)
		used := false
		for _, cj := range CallsIn(fn, false) {
			f := cj.Common().StaticCallee()
			if f == nil || recvName(f) != "cfgPath" {
				continue
			}
			switch f.Name() {
			case "GetValue", "SetValue", "Has", "Remove":
				pa := cj.Common().Args[0]
				fromPath := false
				for _, s := range Sources(pa) {
					if s == ssa.Value(call) {
						fromPath = true
					}
				}
				if fromPath && len(cj.Common().Args) > 1 && only(cj.Common().Args[1], recv) {
					used = true
				}
			}
		}
		if !used {
			return false, "the parsed path is not used for an access on the method's own receiver"
		}
		return true, "parsePathIdx(name, idx, own options) -> access on the receiver"
	}
	if depth >= 2 {
		return false, "no call of parsePathIdx found"
	}
	// via an unexported helper method of *Config that receives (recv, name, idx) unchanged
	for _, ci := range CallsIn(fn, false) {
		g := ci.Common().StaticCallee()
		if g == nil || g.Pkg != fn.Pkg || recvName(g) != "Config" || len(g.Params) < 3 || g.Object().Exported() {
			continue
		}
		a := ci.Common().Args
		if len(a) < 3 || !only(a[0], recv) || !only(a[1], name) || !only(a[2], idx) {
			continue
		}
		// options handed to the helper derive from the method's own option arguments
		for i, arg := range a[3:] {
			_ = i
			t := arg.Type()
			if isNamed(t, modPath, "options") || isOptionSlice(t) {
				okOpt := false
				for _, s := range Sources(arg) {
					switch x := s.(type) {
					case *ssa.Parameter:
						okOpt = x.Parent() == fn
					case *ssa.Call:
						if IsCallTo(x, mk) {
							for _, s2 := range Sources(x.Call.Args[0]) {
								if p, ok := s2.(*ssa.Parameter); ok && p.Parent() == fn {
									okOpt = true
								}
							}
						}
					}
				}
				if !okOpt {
					return false, "the options handed to " + g.Name() + " are not built from the method's own option arguments"
				}
			}
		}
		ok, why := addressFlow(c, g, g.Params[0], g.Params[1], g.Params[2], ppi, mk, depth+1)
		if ok {
			return true, "via " + g.Name() + ": " + why
		}
		return false, "via " + g.Name() + ": " + why
	}
	return false, "neither parsePathIdx nor an address helper is called with the method's own (name, idx)"
}

// nodeWriters: R12b.
func nodeWriters(c *Ctx, r *Report) {
	fieldsT := c.Named("", "fields")
	newFn := c.Func("", "New")
	isMergeFn := func(fn *ssa.Function) bool {
		top := fn
		for top.Parent() != nil {
			top = top.Parent()
		}
		return len(top.Params) == 3 && isNamed(top.Params[0].Type(), modPath, "options") && isNamed(top.Params[1].Type(), modPath, "Config") && isNamed(top.Params[2].Type(), modPath, "Config")
	}
	// base of an address chain
	freshBase := func(v ssa.Value) bool {
		for i := 0; i < 12; i++ {
			switch x := v.(type) {
			case *ssa.FieldAddr:
				v = x.X
				continue
			case *ssa.IndexAddr:
				v = x.X
				continue
			case *ssa.UnOp:
				if x.Op == token.MUL {
					// pointer loaded from a field of a fresh object, or from a local
					v = x.X
					continue
				}
			case *ssa.Alloc:
				// a parameter spilled to a local is not a fresh node
				if vals, ok := localStores(x); ok && len(vals) == 1 {
					if _, isP := vals[0].(*ssa.Parameter); isP {
						return false
					}
				}
				return true
			case *ssa.Call:
				return IsCallTo(x, newFn)
			case *ssa.MakeMap, *ssa.MakeSlice:
				return true
			}
			return false
		}
		return false
	}
	for _, fn := range c.SrcFuncs() {
		name := c.FnName(fn)
		report := func(in ssa.Instruction, what string, addr ssa.Value) {
			switch {
			case recvName(fn) == "fields" || (fn.Parent() != nil && recvName(fn.Parent()) == "fields"):
				r.OK("R12b", name, what, c.Pos(in.Pos()), "method of fields")
			case freshBase(addr):
				r.OK("R12b", name, what, c.Pos(in.Pos()), "node constructed in this function")
			case isMergeFn(fn):
				r.OK("R12b", name, what, c.Pos(in.Pos()), "merge function (shape checked under C01, pairing under C15)")
			case c.OwnedBy(fn, func(g *ssa.Function) bool { return isMergeFn(g) || recvName(g) == "fields" }):
				r.OK("R12b", name, what, c.Pos(in.Pos()), "helper called only from merge functions / methods of fields")
			default:
				r.Bad("R12b", name, what, c.Pos(in.Pos()), "a node's storage is written outside the fields methods, node construction and the merge functions: a stray write the tree model does not know about")
			}
		}
		Instrs(fn, false, func(in ssa.Instruction) {
			switch x := in.(type) {
			case *ssa.Store:
				if nt, f, ok := FieldOf(x.Addr); ok && nt == fieldsT {
					report(in, "store fields."+f, x.Addr)
					return
				}
				// whole node: *p = fields{...} with p of type *fields
				if pt, ok := x.Addr.Type().Underlying().(*types.Pointer); ok && types.Identical(pt.Elem(), fieldsT) {
					if _, isAlloc := x.Addr.(*ssa.Alloc); !isAlloc {
						report(in, "store whole node", x.Addr)
					}
					return
				}
				// element store a[i] = v where a was loaded from fields.a
				if ia, ok := x.Addr.(*ssa.IndexAddr); ok {
					for _, s := range Sources(ia.X) {
						if IsLoadOfField(s, "fields", "a") {
							report(in, "store element of fields.a", s.(*ssa.UnOp).X)
						}
					}
				}
			case *ssa.MapUpdate:
				for _, s := range Sources(x.Map) {
					if IsLoadOfField(s, "fields", "d") {
						report(in, "update fields.d", s.(*ssa.UnOp).X)
					}
				}
			case *ssa.Call:
				if b := BuiltinName(x); b == "delete" || b == "copy" {
					for _, s := range Sources(x.Call.Args[0]) {
						if IsLoadOfField(s, "fields", "d") || IsLoadOfField(s, "fields", "a") {
							report(in, b+" on node storage", s.(*ssa.UnOp).X)
						}
					}
				}
			}
		})
	}
	_ = fmt.Sprint
}

// atomicSetRule (R12f): a write through a path either happens completely or leaves the tree as it was. The
// walker builds the missing intermediate nodes as a detached sub-tree and attaches it with its last step:
// every field.SetValue call of cfgPath.SetValue whose target node is not a node created in this very call (the
// live tree) must be the last thing that can fail — no failing return other than that call's own error is
// reachable after it. A walker that creates intermediates in the live tree on the way down leaves them behind
// when a later step is rejected (index above MaxIdx, a primitive in the way).
func atomicSetRule(c *Ctx, r *Report) {
	r.Rule("R12f", "cfgPath.SetValue writes into nodes of the live tree only with its last fallible step: after a field.SetValue on a node that was not created in this call no other failure can be returned", 1)
	fn := c.Method("", "cfgPath", "SetValue")
	name := c.FnName(fn)
	newFn := c.Func("", "New")
	fresh := func(elem ssa.Value) bool {
		w := wrappedConfig(elem)
		if w == nil {
			return false
		}
		srcs := Sources(w)
		if len(srcs) == 0 {
			return false
		}
		for _, s := range srcs {
			call, ok := s.(*ssa.Call)
			if !ok || !IsCallTo(call, newFn) {
				return false
			}
		}
		return true
	}
	n := 0
	for _, ci := range CallsIn(fn, false) {
		cc := ci.Common()
		if !cc.IsInvoke() || cc.Method.Name() != "SetValue" || len(cc.Args) != 3 {
			continue
		}
		n++
		call, _ := ci.(*ssa.Call)
		elem := cc.Args[1]
		if fresh(elem) {
			r.OK("R12f", name, "write into a node", c.Pos(ci.Pos()), "the target node was created in this call (detached until the last step)")
			continue
		}
		// a write into the live tree: every return reachable from here is successful or returns this call's own result
		bad := ""
		if loopOf(fn, ci.(ssa.Instruction).Block()) != nil {
			bad = "the write is repeated in a loop: a later round (or the step after the loop) can fail"
		}
		for _, ret := range Returns(fn) {
			if !(ret.Block() == ci.(ssa.Instruction).Block() || reachableFromEdge(nil, ci.(ssa.Instruction).Block(), ret.Block(), nil)) {
				continue
			}
			if len(ret.Results) == 0 || IsNilConst(RetVal(ret, len(ret.Results)-1)) {
				continue // returns success
			}
			own := false
			if call != nil {
				for _, s := range Sources(RetVal(ret, len(ret.Results)-1)) {
					if s == ssa.Value(call) {
						own = true
					}
					if ex, ok := s.(*ssa.Extract); ok && ex.Tuple == ssa.Value(call) {
						own = true
					}
				}
			}
			if !own {
				bad = "a failure can be returned at " + c.Pos(ret.Pos()) + " after this write into the live tree"
			}
		}
		r.Check(bad == "", "R12f", name, "write into a node", c.Pos(ci.Pos()), "write into the live tree as the last fallible step", "the path writer modifies a node of the live tree and can still fail afterwards ("+bad+"): a rejected write leaves intermediate nodes (and list padding) behind")
	}
	if n == 0 {
		r.add("R12f", name, "write into a node", c.Pos(fn.Pos()), Undecided, true, "no field.SetValue call found in cfgPath.SetValue")
	}
}
