package main

// C17 — parse.Value accepts every JSON value and reads it back faithfully.
// R17a lookahead on a delimiter / value kind happens only at a whitespace-skipped position
// (typestate over flagParser.input); R17b all parser indexing is in bounds (E3 restricted to
// package parse); R17c syntax branches are gated by their Config flag.

import (
	"fmt"
	"go/token"
	"go/types"
	"path/filepath"
	"sort"
	"strings"

	"golang.org/x/tools/go/ssa"
)

func init() {
	register("C17", "Typestate analysis of the flag-value parser's input cursor: every read of the first byte of flagParser.input (in parseValue, parseArray, parseObj, parseKey, expectChar — directly or through a local copied from it) must be in state 'skipped', i.e. dominated by a call of ignoreWhitespace on the same parser with no possible write of input in between (writes found type-based through the call graph); functions that read at their entry inherit the state from all their call sites. JSON allows whitespace around every structural character, so a lookahead in state 'unknown' rejects valid indented JSON. Plus: the bounds obligations of package parse (shared with C07 R07a) and flag/branch agreement in parseValue and parse. That the data returned equals the JSON document (number syntax, escape decoding, string termination) is value-level and not decided.", checkC17)
}

func checkC17(c *Ctx, r *Report) {
	r.Assumption("strconv.Unquote / ParseInt / ParseUint / ParseFloat decode JSON strings and numbers correctly (trusted standard library); string termination in parseStringDQuote is value-level and not decided")
	be := newBoundsEngine(c)
	fpT := c.Named("parse", "flagParser")
	iw := c.Method("parse", "flagParser", "ignoreWhitespace")
	_ = fpT

	r.Rule("R17a", "every read of the first byte of flagParser.input is made in state 'skipped': dominated by ignoreWhitespace() with no possible write of input in between (entry reads: at every call site)", 6)
	var memo = map[*ssa.Function]int{} // 0 unknown, 1 ok, 2 bad
	// skippedAt: is the parser's input in state skipped at instruction `at`, which reads/calls with receiver recv?
	var skippedAt func(fn *ssa.Function, at ssa.Instruction, depth int) (bool, string)
	inputLoadFor := func(fn *ssa.Function) *ssa.UnOp {
		// some load of p.input in fn (used only for the may-write queries: field identity)
		var l *ssa.UnOp
		Instrs(fn, false, func(in ssa.Instruction) {
			if u, ok := in.(*ssa.UnOp); ok && u.Op == token.MUL && l == nil {
				if nt, f, ok := FieldOf(u.X); ok && nt.Obj().Name() == "flagParser" && f == "input" {
					l = u
				}
			}
		})
		return l
	}
	skippedAt = func(fn *ssa.Function, at ssa.Instruction, depth int) (bool, string) {
		p := be.prover(fn, 0)
		probe := inputLoadFor(fn)
		if probe == nil {
			return false, "no access to input found"
		}
		path, _ := memPath(probe)
		// a dominating ignoreWhitespace call with a clean region
		for _, ci := range CallsTo(fn, iw, false) {
			in := ci.(ssa.Instruction)
			if InstrDominates(in, at) && p.cleanBetween(in, at, path, probe) {
				return true, "dominated by ignoreWhitespace() at " + p.c.Pos(ci.Pos()) + " with no write of input in between"
			}
		}
		// clean from function entry and skipped at every call site
		first := fn.Blocks[0].Instrs[0]
		entryClean := first == at || (!p.mayWrite(first, path, probe) && p.cleanBetween(first, at, path, probe))
		if !entryClean {
			return false, "input may have been advanced since the last ignoreWhitespace()"
		}
		if depth >= 3 {
			return false, "call chain too deep"
		}
		if st := memo[fn]; st != 0 && depth > 0 {
			return st == 1, "state at the call sites"
		}
		node := c.CG().Nodes[fn]
		if node == nil || len(node.In) == 0 {
			return false, "no call sites"
		}
		for _, e := range node.In {
			if e.Site == nil || e.Caller.Func.Pkg != fn.Pkg {
				return false, "called from outside the parser"
			}
			ok, why := skippedAt(e.Caller.Func, e.Site, depth+1)
			if !ok {
				memo[fn] = 2
				return false, "not skipped at call site " + c.Pos(e.Site.Pos()) + " in " + c.FnName(e.Caller.Func) + ": " + why
			}
		}
		memo[fn] = 1
		return true, "state 'skipped' holds at every call site and nothing writes input before the read"
	}
	nreads := 0
	for _, fn := range c.SrcFuncs() {
		if fn.Pkg != c.SSA["parse"] {
			continue
		}
		name := c.FnName(fn)
		Instrs(fn, false, func(in ssa.Instruction) {
			var x, idx ssa.Value
			switch y := in.(type) {
			case *ssa.Index:
				x, idx = y.X, y.Index
			case *ssa.Lookup:
				if _, isMap := y.X.Type().Underlying().(*types.Map); !isMap {
					x, idx = y.X, y.Index
				}
			}
			if x == nil {
				return
			}
			if k, ok := ConstInt(idx); !ok || k != 0 {
				return
			}
			// operand is (a copy of) a load of flagParser.input
			isInput := false
			for _, s := range Sources(x) {
				if u, ok := s.(*ssa.UnOp); ok && u.Op == token.MUL {
					if nt, f, ok := FieldOf(u.X); ok && nt.Obj().Name() == "flagParser" && f == "input" {
						isInput = true
					}
				}
			}
			if !isInput {
				return
			}
			nreads++
			ok, why := skippedAt(fn, in, 0)
			r.Check(ok, "R17a", name, "lookahead input[0]", c.Pos(in.Pos()), why, "the next byte of the input is inspected at a position that is not known to be whitespace-skipped ("+why+"): whitespace that JSON allows here makes the parser reject or misread the document")
		})
	}
	if nreads == 0 {
		r.Bad("R17a", "parse", "lookahead input[0]", "-", "no lookahead read found in package parse")
	}

	// R17b: bounds in package parse
	r.Rule("R17b", "every index/slice operation of package parse that the compiler cannot prove is proved in bounds (E3, see C07 R07a)", 6)
	sites := runBCE(c)
	for _, fn := range c.SrcFuncs() {
		if fn.Pkg != c.SSA["parse"] {
			continue
		}
		Instrs(fn, false, func(in ssa.Instruction) {
			switch in.(type) {
			case *ssa.IndexAddr, *ssa.Index, *ssa.Slice, *ssa.Lookup:
			default:
				return
			}
			p := c.Fset.Position(in.Pos())
			rel, err := filepath.Rel(c.RepoDir, p.Filename)
			if err != nil {
				return
			}
			hit := false
			for _, s := range sites {
				if s.file == rel && s.line == p.Line && s.col == p.Column {
					hit = true
				}
			}
			if !hit {
				return
			}
			ok, why := be.proveSite(fn, in, 0)
			what := fmt.Sprintf("%s %s", opKind(in), operandName(in))
			r.Check(ok, "R17b", c.FnName(fn), what, c.Pos(in.Pos()), why, "not provably in bounds: "+why)
		})
	}

	// R17c: flag gating
	r.Rule("R17c", "parseValue enters the array/object/double-quote/single-quote scanner only under the matching first byte and the matching Config flag; parse uses the empty top-level stop set exactly under IgnoreCommas", 5)
	pv := c.Method("parse", "flagParser", "parseValue")
	gate := []struct {
		callee, flag string
		ch           int64
	}{{"parseArray", "Array", '['}, {"parseObj", "Object", '{'}, {"parseStringDQuote", "StringDQuote", '"'}, {"parseStringSQuote", "StringSQuote", '\''}}
	for _, g := range gate {
		callee := c.Method("parse", "flagParser", g.callee)
		calls := CallsTo(pv, callee, false)
		if len(calls) == 0 {
			r.Bad("R17c", c.FnName(pv), "gate "+g.flag, c.Pos(pv.Pos()), "parseValue never calls "+g.callee)
			continue
		}
		for _, ci := range calls {
			flagOK, chOK := false, false
			otherFlag := ""
			for _, cd := range ExpandConds(DomConds(ci.(ssa.Instruction).Block())) {
				v, truth := cd.V, cd.Truth
				if u, ok := v.(*ssa.UnOp); ok && u.Op == token.NOT {
					v, truth = u.X, !truth
				}
				if l, ok := v.(*ssa.UnOp); ok && l.Op == token.MUL && truth {
					if nt, f, ok := FieldOf(l.X); ok && nt.Obj().Name() == "Config" {
						if f == g.flag {
							flagOK = true
						} else {
							otherFlag = f
						}
					}
				}
				if b, ok := v.(*ssa.BinOp); ok && b.Op == token.EQL && truth {
					if k, ok := ConstInt(b.Y); ok && k == g.ch {
						chOK = true
					}
				}
			}
			msg := "the " + g.callee + " scanner is entered without the Config." + g.flag + " flag being tested true"
			if otherFlag != "" && !flagOK {
				msg += " (guarded by Config." + otherFlag + " instead)"
			}
			if !chOK {
				msg = "the " + g.callee + " scanner is not entered under the first byte " + fmt.Sprintf("%q", rune(g.ch))
			}
			r.Check(flagOK && chOK, "R17c", c.FnName(pv), "gate "+g.flag, c.Pos(ci.Pos()), fmt.Sprintf("entered under first byte %q and Config.%s", rune(g.ch), g.flag), msg)
		}
	}
	// parse(): stop set
	pf := c.Method("parse", "flagParser", "parse")
	okStop := false
	for _, ci := range CallsTo(pf, pv, false) {
		arg := ci.Common().Args[1]
		if phi, ok := arg.(*ssa.Phi); ok {
			good := true
			sawEmpty, sawComma := false, false
			for i, e := range phi.Edges {
				s, isS := ConstString(e)
				if !isS {
					good = false
					continue
				}
				pred := phi.Block().Preds[i]
				underIgnore := false
				for _, cd := range append(DomConds(pred), blockEdgeConds(pred)...) {
					if l, ok := cd.V.(*ssa.UnOp); ok && l.Op == token.MUL && cd.Truth {
						if _, f, ok := FieldOf(l.X); ok && f == "IgnoreCommas" {
							underIgnore = true
						}
					}
				}
				switch s {
				case "":
					sawEmpty = true
					if !underIgnore {
						good = false
					}
				case ",":
					sawComma = true
					if underIgnore {
						good = false
					}
				default:
					good = false
				}
			}
			okStop = good && sawEmpty && sawComma
		}
	}
	numberOrderRule(c, r)
	numberSourceRule(c, r, "R17i")
	dquoteRules(c, r)
	whitespaceSetRule(c, r)
	r.Check(okStop, "R17c", c.FnName(pf), "top-level stop set", c.Pos(pf.Pos()), "stop set is \"\" exactly under IgnoreCommas, otherwise \",\"", "the top-level stop set is not chosen by Config.IgnoreCommas as documented")
	_ = strings.TrimSpace
}

// numberOrderRule (R17d): an unquoted token is classified as a float only after both exact 64-bit
// integer parses failed on the same text. Without the unsigned attempt integers above MaxInt64 come
// back as rounded floats; without the signed one negative integers do.
func numberOrderRule(c *Ctx, r *Report) {
	r.Rule("R17d", "parsePrimitive tries strconv.ParseUint(text, 0, 64) and strconv.ParseInt(text, 0, 64) and falls through to strconv.ParseFloat only when both failed, all on the same text", 2)
	fn := c.Method("parse", "flagParser", "parsePrimitive")
	find := func(name string) []*ssa.Call {
		var out []*ssa.Call
		for _, ci := range CallsIn(fn, false) {
			if f := ci.Common().StaticCallee(); f != nil && f.String() == name {
				if call, ok := ci.(*ssa.Call); ok {
					out = append(out, call)
				}
			}
		}
		return out
	}
	floats := find("strconv.ParseFloat")
	if len(floats) != 1 {
		r.add("R17d", c.FnName(fn), "float fallback", c.Pos(fn.Pos()), Undecided, true, fmt.Sprintf("expected one strconv.ParseFloat call, found %d", len(floats)))
		return
	}
	fl := floats[0]
	for _, name := range []string{"strconv.ParseUint", "strconv.ParseInt"} {
		ok := false
		why := "not called"
		for _, call := range find(name) {
			base, okB := ConstInt(call.Call.Args[1])
			bits, okS := ConstInt(call.Call.Args[2])
			if !sameSrc(call.Call.Args[0], fl.Call.Args[0]) {
				why = "called on a different text than the float parse"
				continue
			}
			if !okB || base != 0 || !okS || bits != 64 {
				why = "not called with base 0 and 64 bits"
				continue
			}
			// the float attempt is reached only on the failing edge of this parse
			failed := false
			for _, cd := range DomConds(fl.Block()) {
				if isNilTestOfExtract(cd, call, 1, false) {
					failed = true
				}
			}
			if !failed {
				why = "the float parse is not restricted to the case that this parse failed"
				continue
			}
			ok = true
		}
		r.Check(ok, "R17d", c.FnName(fn), name+" before float", c.Pos(fl.Pos()), "tried on the same text with base 0 / 64 bits; the float parse is reached only when it failed",
			"the exact integer parse "+name+" does not precede the float fallback ("+why+"): integers outside its sibling's range are read back as rounded floats")
	}
	// … and nothing else stands between the token and the float parse: every JSON number that is no 64-bit integer
	// (fractions, exponents with e or E, numbers beyond 2^64) must reach it. A filter on the spelling in front of
	// strconv.ParseFloat decides by itself what a number is, and JSON's grammar is wider than any such shortcut.
	extra := ""
	for _, cd := range ExpandConds(DomConds(fl.Block())) {
		v := cd.V
		for {
			u, isU := v.(*ssa.UnOp)
			if !isU || u.Op != token.NOT {
				break
			}
			v = u.X
		}
		okCond := false
		switch x := v.(type) {
		case *ssa.BinOp:
			// err (of a parse or of the scanner) against nil, the token against a keyword
			for _, o := range []ssa.Value{x.X, x.Y} {
				if ex, isEx := o.(*ssa.Extract); isEx {
					if _, isCall := ex.Tuple.(*ssa.Call); isCall {
						okCond = true
					}
				}
				if _, isStr := ConstString(o); isStr && (x.Op == token.EQL || x.Op == token.NEQ) {
					okCond = true
				}
				// any error against nil (the scanner's error may arrive through the result variable of an inlined helper)
				if IsNilConst(o) && (typeStr(x.X.Type()) == "error" || typeStr(x.Y.Type()) == "error") {
					okCond = true
				}
			}
		case *ssa.Extract:
			// the ok of the keyword classifier
			if call, isCall := x.Tuple.(*ssa.Call); isCall && call.Call.StaticCallee() != nil && call.Call.StaticCallee().Pkg == fn.Pkg {
				if baselineHas("parse:" + call.Call.StaticCallee().Name()) {
					okCond = true // a classifier that is part of the pinned tree (parseBoolValue); a new one is inlined and judged by its tests
				}
			}
		case *ssa.Phi:
			okCond = true // expanded below into its operands
		}
		if !okCond {
			extra = v.String() + " at " + c.Pos(v.Pos())
		}
	}
	r.Check(extra == "", "R17d", c.FnName(fn), "nothing else in front of the float parse", c.Pos(fl.Pos()), "reached whenever the keyword tests and both integer parses failed",
		"strconv.ParseFloat is reached only under a further condition on the token ("+extra+"): a JSON number the condition does not let through (an exponent written with E, say) comes back as a string")
}

// dquoteRules: the double-quote scanner (R17e) hands the scanned literal to the decoder unmodified,
// (R17f) skips escape sequences as units — the closing-quote test is made only on a byte that is not
// behind a backslash, and a backslash advances the scan position by two — and (R17g) decodes with
// strconv.Unquote and, when that rejects the literal, with encoding/json on the same literal (the
// escapes JSON has and Go has not).
func dquoteRules(c *Ctx, r *Report) {
	fn := c.Method("parse", "flagParser", "parseStringDQuote")
	name := c.FnName(fn)
	b := newNF(c)
	b.Role(fn.Params[0], "p")

	r.Rule("R17e", "strconv.Unquote receives a sub-slice of the parser input as it is (no textual preprocessing of the literal)", 1)
	var unq *ssa.Call
	for _, ci := range CallsIn(fn, false) {
		if f := ci.Common().StaticCallee(); f != nil && f.String() == "strconv.Unquote" {
			unq, _ = ci.(*ssa.Call)
		}
	}
	if unq == nil {
		r.add("R17e", name, "decoder", c.Pos(fn.Pos()), Undecided, true, "no strconv.Unquote call in parseStringDQuote")
		return
	}
	lit := b.Of(unq.Call.Args[0]).String()
	r.Check(lit == "slice(deref($p).input)", "R17e", name, "literal handed to Unquote", c.Pos(unq.Pos()), lit,
		"the literal is rewritten before it is decoded ("+clip(lit, 160)+"): a textual replacement cannot tell an escape from an escaped backslash followed by the same character")

	r.Rule("R17f", "the scan for the closing quote skips escape sequences as units: the quote test is made under 'this byte is not a backslash', and after a backslash the position advances by two", 2)
	var bs, qt *ssa.If
	for _, blk := range fn.Blocks {
		ifi, ok := lastInstr(blk).(*ssa.If)
		if !ok {
			continue
		}
		bo, ok := ifi.Cond.(*ssa.BinOp)
		if !ok || bo.Op != token.EQL {
			continue
		}
		k, isK := ConstInt(bo.Y)
		if !isK {
			continue
		}
		switch k {
		case 92:
			bs = ifi
		case 34:
			qt = ifi
		}
	}
	if bs == nil || qt == nil {
		r.Bad("R17f", name, "escape units", c.Pos(fn.Pos()), "the scanner no longer tests bytes against both the backslash and the quote: it cannot tell an escaped quote from the closing one, or a string ending in an escaped backslash from an unterminated one")
	} else {
		under := false
		for _, cd := range DomConds(qt.Block()) {
			if cd.If == bs && !cd.Truth {
				under = true
			}
		}
		if qt.Block() == bs.Block() {
			under = false
		}
		// the other order: both tests read one and the same byte (one load), so a byte that is the quote is not the
		// backslash; what matters then is only that the byte after a backslash is never looked at (checked below)
		if !under {
			qb, _ := qt.Cond.(*ssa.BinOp)
			bb, _ := bs.Cond.(*ssa.BinOp)
			if qb != nil && bb != nil && qb.X == bb.X {
				if _, isConst := qb.X.(*ssa.Const); !isConst {
					under = true
				}
			}
		}
		r.Check(under, "R17f", name, "quote test on unescaped byte", c.Pos(qt.Pos()), "the quote test is reached only when the byte is not a backslash", "the closing-quote test is not restricted to bytes that are not part of an escape sequence")
		// after a backslash the position advances by two: some value computed under the backslash branch is position+1 and flows into the loop counter's back edge, which adds one more
		skip := false
		for _, blk := range fn.Blocks {
			for _, in := range blk.Instrs {
				phi, ok := in.(*ssa.Phi)
				if !ok || loopOf(fn, blk) == nil {
					continue
				}
				nb := newNF(c)
				nb.Role(phi, "i")
				for i, e := range phi.Edges {
					if !blk.Dominates(blk.Preds[i]) {
						continue
					}
					nb2 := newNF(c)
					nb2.bind[phi] = &nf{op: "role", name: "i"}
					f := nb2.Of(e).String()
					if strings.Contains(f, "+(+($i, 1), 1)") || strings.Contains(f, "+($i, 2)") || (strings.Contains(f, "+($i, 1)") && strings.HasPrefix(f, "+({") && strings.HasSuffix(f, ", 1)")) {
						skip = true
					}
				}
			}
		}
		r.Check(skip, "R17f", name, "backslash takes the next byte", c.Pos(bs.Pos()), "on one path the scan position advances by two", "a backslash does not take the following byte with it: the scanner looks at the escaped byte again (an escaped backslash before the closing quote hides the quote)")
	}

	r.Rule("R17g", "when strconv.Unquote rejects the literal it is decoded with encoding/json on the same literal before an error is returned", 1)
	okFallback := false
	for _, ci := range CallsIn(fn, false) {
		f := ci.Common().StaticCallee()
		if f == nil || f.String() != "encoding/json.Unmarshal" {
			continue
		}
		arg := b.Of(ci.Common().Args[0]).String()
		failed := false
		for _, cd := range DomConds(ci.(ssa.Instruction).Block()) {
			if isNilTestOfExtract(cd, unq, 1, false) {
				failed = true
			}
		}
		if strings.Contains(arg, lit) && failed {
			okFallback = true
		}
	}
	r.Check(okFallback, "R17g", name, "JSON-only escapes", c.Pos(unq.Pos()), "json.Unmarshal on the same literal under Unquote's failure", "a literal that strconv.Unquote rejects is not given to the JSON decoder: \\/ and surrogate pairs, which are valid JSON, are syntax errors")
}

// whitespaceSetRule (R17h): R17a shows that every lookahead is made after ignoreWhitespace(); this rule shows
// that ignoreWhitespace skips what JSON calls white space: space, tab, line feed and carriage return. Accepted
// are the library trimmers with unicode.IsSpace / strings.TrimSpace / a constant cutset, or a hand-written scan
// whose byte tests and lookup table (a package-level [N]bool initialised with constant indices) cover the four.
// spacePredicate: is f unicode.IsSpace (or a function that returns exactly unicode.IsSpace of its parameter), or
// the negation of it?
func spacePredicate(f *ssa.Function) (isSpace, isNotSpace bool) {
	if f.String() == "unicode.IsSpace" {
		return true, false
	}
	if len(f.Blocks) != 1 || len(f.Params) != 1 {
		return false, false
	}
	rets := Returns(f)
	if len(rets) != 1 || len(rets[0].Results) != 1 {
		return false, false
	}
	v := rets[0].Results[0]
	neg := false
	if u, ok := v.(*ssa.UnOp); ok && u.Op == token.NOT {
		neg = true
		v = u.X
	}
	call, ok := v.(*ssa.Call)
	if !ok || call.Common().StaticCallee() == nil || call.Common().StaticCallee().String() != "unicode.IsSpace" {
		return false, false
	}
	if len(call.Common().Args) != 1 || call.Common().Args[0] != ssa.Value(f.Params[0]) {
		return false, false
	}
	return !neg, neg
}

func whitespaceSetRule(c *Ctx, r *Report) {
	r.Rule("R17h", "ignoreWhitespace skips the four JSON white space characters (space, tab, line feed, carriage return)", 1)
	iw := c.Method("parse", "flagParser", "ignoreWhitespace")
	name := c.FnName(iw)
	need := map[int64]string{32: "space", 9: "tab", 10: "line feed", 13: "carriage return"}
	covered := map[int64]bool{}
	all := false
	var tables []*ssa.Global
	fam := c.Family(iw)
	for _, fn := range fam {
		Instrs(fn, true, func(in ssa.Instruction) {
			switch x := in.(type) {
			case ssa.CallInstruction:
				g := x.Common().StaticCallee()
				if g == nil {
					return
				}
				// a library trimmer counts only when it is applied to the whole input on every execution (not to a rest
				// of it under some condition, as a fallback for wide characters would be)
				whole := false
				if len(x.Common().Args) > 0 && fn == iw {
					unconditional := true
					for _, ret := range Returns(fn) {
						if !(x.(ssa.Instruction).Block() == ret.Block() || x.(ssa.Instruction).Block().Dominates(ret.Block())) {
							unconditional = false
						}
					}
					if unconditional {
						for _, s := range Sources(x.Common().Args[0]) {
							if l, ok := s.(*ssa.UnOp); ok && l.Op == token.MUL {
								if nt, f, ok := FieldOf(l.X); ok && nt.Obj().Name() == "flagParser" && f == "input" {
									whole = true
								}
							}
						}
					}
				}
				switch g.String() {
				case "strings.TrimSpace":
					all = all || whole
				case "strings.TrimLeftFunc", "strings.TrimFunc", "strings.IndexFunc":
					// trimmers take the white space predicate, the index search its negation
					for _, a := range x.Common().Args {
						for _, s := range Sources(a) {
							if f, ok := s.(*ssa.Function); ok {
								isSp, isNot := spacePredicate(f)
								if g.String() == "strings.IndexFunc" && isNot || g.String() != "strings.IndexFunc" && isSp {
									all = all || whole
								}
							}
						}
					}
				case "strings.TrimLeft", "strings.Trim":
					if len(x.Common().Args) == 2 {
						if cut, ok := ConstString(x.Common().Args[1]); ok {
							for _, ch := range cut {
								covered[int64(ch)] = true
							}
						}
					}
				}
			case *ssa.BinOp:
				if x.Op == token.EQL || x.Op == token.NEQ {
					if k, ok := ConstInt(x.Y); ok {
						covered[k] = true
					} else if k, ok := ConstInt(x.X); ok {
						covered[k] = true
					}
				}
			case *ssa.IndexAddr:
				if g, ok := x.X.(*ssa.Global); ok {
					tables = append(tables, g)
				}
			case *ssa.Index:
				for _, s := range Sources(x.X) {
					if l, ok := s.(*ssa.UnOp); ok && l.Op == token.MUL {
						if g, ok := l.X.(*ssa.Global); ok {
							tables = append(tables, g)
						}
					}
				}
			}
		})
	}
	// the entries set in the lookup tables: stores of true at constant indices in the package initialiser
	if initFn := c.SSA["parse"].Func("init"); initFn != nil {
		Instrs(initFn, false, func(in ssa.Instruction) {
			st, ok := in.(*ssa.Store)
			if !ok {
				return
			}
			ia, ok := st.Addr.(*ssa.IndexAddr)
			if !ok {
				return
			}
			g, ok := ia.X.(*ssa.Global)
			if !ok {
				return
			}
			for _, t := range tables {
				if t == g {
					if k, ok := ConstInt(ia.Index); ok {
						if b, isB := ConstBool(st.Val); isB && b {
							covered[k] = true
						}
					}
				}
			}
		})
	}
	var missing []string
	for k, n := range need {
		if !all && !covered[k] {
			missing = append(missing, n)
		}
	}
	sort.Strings(missing)
	r.Check(len(missing) == 0, "R17h", name, "JSON white space", c.Pos(iw.Pos()), "space, tab, line feed and carriage return are skipped",
		"ignoreWhitespace does not skip "+strings.Join(missing, ", ")+": JSON text laid out with it (CRLF line ends, say) is rejected or misread although every lookahead is preceded by the skip")
}

// numberSourceRule (R17i / R03g): the numbers parse.Value hands out are what strconv read from the token — exact, or
// an error that makes the next syntax (and finally the string) take over. A number computed by hand-written digit
// arithmetic in front of strconv has its own overflow behaviour (a 20-digit text above MaxUint64 wraps around where
// ParseUint fails and ParseFloat answers 3e19), and the typed unpacking that follows can only guard what it is given.
func numberSourceRule(c *Ctx, r *Report, rule string) {
	r.Rule(rule, "every number parsePrimitive returns is result #0 of strconv.ParseUint / ParseInt / ParseFloat called on the token's text; no other arithmetic produces a returned number", 3)
	fn := c.Method("parse", "flagParser", "parsePrimitive")
	name := c.FnName(fn)
	n := 0
	for _, ret := range Returns(fn) {
		if len(ret.Results) == 0 {
			continue
		}
		var boxes []*ssa.MakeInterface
		var expand func(v ssa.Value, depth int)
		seenV := map[ssa.Value]bool{}
		expand = func(v ssa.Value, depth int) {
			if seenV[v] || depth > 8 {
				return
			}
			seenV[v] = true
			switch x := v.(type) {
			case *ssa.MakeInterface:
				boxes = append(boxes, x)
			case *ssa.Phi:
				for _, e := range x.Edges {
					expand(e, depth+1)
				}
			case *ssa.ChangeInterface:
				expand(x.X, depth+1)
			}
		}
		expand(RetVal(ret, 0), 0)
		for _, mi := range boxes {
			b, isBasic := mi.X.Type().Underlying().(*types.Basic)
			if !isBasic || b.Info()&types.IsNumeric == 0 {
				continue
			}
			n++
			good := true
			for _, vs := range Sources(mi.X) {
				ex, isEx := vs.(*ssa.Extract)
				if !isEx || ex.Index != 0 {
					good = false
					continue
				}
				call, isCall := ex.Tuple.(*ssa.Call)
				f := (*ssa.Function)(nil)
				if isCall {
					f = call.Call.StaticCallee()
				}
				if f == nil || (f.String() != "strconv.ParseUint" && f.String() != "strconv.ParseInt" && f.String() != "strconv.ParseFloat") {
					good = false
				}
			}
			r.Check(good, rule, name, "number returned ("+b.Name()+")", c.Pos(ret.Pos()), "result #0 of a strconv parse",
				"parsePrimitive returns a "+b.Name()+" that is not the result of strconv.ParseUint/ParseInt/ParseFloat ("+describeVals(Sources(mi.X))+"): a number read by other means has its own rounding and overflow behaviour — a digit loop wraps around where strconv reports a range error")
		}
	}
	if n == 0 {
		r.Bad(rule, name, "number returned", c.Pos(fn.Pos()), "parsePrimitive returns no number at all")
	}
}
