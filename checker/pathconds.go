package main

// Bounded enumeration of acyclic CFG paths with branch polarity (DESIGN appendix B, E5 "paths").

import (
	"fmt"
	"go/token"

	"golang.org/x/tools/go/ssa"
)

type PathCond struct {
	V     ssa.Value
	Truth bool
	// for comparisons: the operands with phis resolved along the path the condition was recorded on
	X, Y ssa.Value
}

type CFGPath struct {
	Blocks []*ssa.BasicBlock
	Conds  []PathCond
}

const maxPaths = 4096

// PathsTo enumerates the acyclic paths from the entry of fn to block target. ok=false if the
// bound was exceeded (the caller must then treat the question as undecided).
func PathsTo(fn *ssa.Function, target *ssa.BasicBlock) (paths []CFGPath, ok bool) {
	if len(fn.Blocks) == 0 {
		return nil, true
	}
	// only walk blocks from which target is reachable
	canReach := map[*ssa.BasicBlock]bool{target: true}
	for changed := true; changed; {
		changed = false
		for _, b := range fn.Blocks {
			if canReach[b] {
				continue
			}
			for _, s := range b.Succs {
				if canReach[s] {
					canReach[b] = true
					changed = true
					break
				}
			}
		}
	}
	ok = true
	onPath := map[*ssa.BasicBlock]bool{}
	var blocks []*ssa.BasicBlock
	var conds []PathCond
	var dfs func(b *ssa.BasicBlock)
	dfs = func(b *ssa.BasicBlock) {
		if !ok || !canReach[b] || onPath[b] {
			return
		}
		blocks = append(blocks, b)
		onPath[b] = true
		defer func() {
			blocks = blocks[:len(blocks)-1]
			onPath[b] = false
		}()
		if b == target {
			if len(paths) >= maxPaths {
				ok = false
				return
			}
			if Feasible(conds) {
				paths = append(paths, CFGPath{append([]*ssa.BasicBlock(nil), blocks...), append([]PathCond(nil), conds...)})
			}
			return
		}
		if ifi, isIf := lastInstr(b).(*ssa.If); isIf && len(b.Succs) == 2 && b.Succs[0] != b.Succs[1] {
			// a condition that is a phi of a block on this path (short-circuit && / || stored in a
			// variable) is resolved through the predecessor actually taken
			cond := resolvePhiOnPath(ifi.Cond, blocks)
			for i, s := range b.Succs {
				if k, isConst := ConstBool(cond); isConst {
					if k != (i == 0) {
						continue // infeasible branch
					}
					dfs(s)
					continue
				}
				pc := PathCond{V: cond, Truth: i == 0}
				if bo, isB := cond.(*ssa.BinOp); isB {
					pc.X, pc.Y = resolvePhiOnPath(bo.X, blocks), resolvePhiOnPath(bo.Y, blocks)
					// two integer constants once the result variables of an inlined helper are resolved along the path
					if kx, okx := ConstInt(pc.X); okx {
						if ky, oky := ConstInt(pc.Y); oky {
							var outcome, known = false, true
							switch bo.Op {
							case token.LSS:
								outcome = kx < ky
							case token.LEQ:
								outcome = kx <= ky
							case token.GTR:
								outcome = kx > ky
							case token.GEQ:
								outcome = kx >= ky
							case token.EQL:
								outcome = kx == ky
							case token.NEQ:
								outcome = kx != ky
							default:
								known = false
							}
							if known && outcome != (i == 0) {
								continue
							}
						}
					}
					// a nil test of what is, on this path, a value known to be nil or non-nil (a constant, a fresh
					// object, the result of a constructor that never returns nil) has one outcome only
					if bo.Op == token.EQL || bo.Op == token.NEQ {
						var other ssa.Value
						if IsNilConst(pc.Y) {
							other = pc.X
						} else if IsNilConst(pc.X) {
							other = pc.Y
						}
						if other != nil {
							if n := nilness(other, nil, 0); n != 0 {
								outcome := (n == 1) == (bo.Op == token.NEQ)
								if outcome != (i == 0) {
									continue
								}
							}
						}
					}
				}
				conds = append(conds, pc)
				dfs(s)
				conds = conds[:len(conds)-1]
			}
			return
		}
		for _, s := range b.Succs {
			dfs(s)
		}
	}
	dfs(fn.Blocks[0])
	return paths, ok
}

// Feasible rejects paths that take contradictory outcomes of the same test: the same condition
// value with both polarities, or two comparisons of the same operands that cannot both hold.
// (Pure bookkeeping on comparison outcomes of identical SSA operands; no arithmetic.)
func Feasible(conds []PathCond) bool {
	truth := map[ssa.Value]bool{}
	type key struct{ x, y string }
	ops := map[key][]token.Token{}
	id := func(v ssa.Value) string {
		if k, ok := v.(*ssa.Const); ok {
			return "const:" + k.String()
		}
		return fmt.Sprintf("%p", v)
	}
	for _, pc := range conds {
		if t, ok := truth[pc.V]; ok && t != pc.Truth {
			return false
		}
		truth[pc.V] = pc.Truth
		cm, ok := CmpOf(pc.V, pc.Truth)
		if !ok {
			continue
		}
		if pc.X != nil && pc.Y != nil {
			if _, direct := pc.V.(*ssa.BinOp); direct {
				cm.X, cm.Y = pc.X, pc.Y
			}
		}
		k := key{id(cm.X), id(cm.Y)}
		op := cm.Op
		if _, ok := ops[key{id(cm.Y), id(cm.X)}]; ok {
			k = key{id(cm.Y), id(cm.X)}
			op = flipOp(op)
		}
		for _, prev := range ops[k] {
			if contradict(prev, op) {
				return false
			}
		}
		ops[k] = append(ops[k], op)
	}
	return true
}

func contradict(a, b token.Token) bool {
	sat := func(op token.Token) [3]bool { // outcomes: x<y, x==y, x>y
		switch op {
		case token.LSS:
			return [3]bool{true, false, false}
		case token.LEQ:
			return [3]bool{true, true, false}
		case token.GTR:
			return [3]bool{false, false, true}
		case token.GEQ:
			return [3]bool{false, true, true}
		case token.EQL:
			return [3]bool{false, true, false}
		case token.NEQ:
			return [3]bool{true, false, true}
		}
		return [3]bool{true, true, true}
	}
	sa, sb := sat(a), sat(b)
	for i := 0; i < 3; i++ {
		if sa[i] && sb[i] {
			return false
		}
	}
	return true
}

func resolvePhiOnPath(v ssa.Value, blocks []*ssa.BasicBlock) ssa.Value {
	for steps := 0; steps < 8; steps++ {
		phi, ok := v.(*ssa.Phi)
		if !ok {
			return v
		}
		pos := -1
		for i := len(blocks) - 1; i >= 0; i-- {
			if blocks[i] == phi.Block() {
				pos = i
				break
			}
		}
		if pos <= 0 {
			return v
		}
		pred := blocks[pos-1]
		found := false
		for i, p := range phi.Block().Preds {
			if p == pred {
				v = phi.Edges[i]
				found = true
				break
			}
		}
		if !found {
			return v
		}
	}
	return v
}

// MustPassRefined: path-sensitive refinement of MustPass for one return. It enumerates the feasible
// acyclic paths to ret (an M-free path with a repeated block implies an M-free acyclic one) and
// reports whether some feasible path reaches ret without executing an instruction selected by isM.
// undecided=true if the path bound was exceeded.
func MustPassRefined(fn *ssa.Function, isM func(ssa.Instruction) bool, ret *ssa.Return) (missing bool, undecided bool) {
	hasM := map[*ssa.BasicBlock]bool{}
	for _, b := range fn.Blocks {
		for _, in := range b.Instrs {
			if isM(in) {
				hasM[b] = true
			}
		}
	}
	paths, ok := PathsTo(fn, ret.Block())
	if !ok {
		return true, true
	}
	for _, p := range paths {
		passes := false
		for _, b := range p.Blocks {
			if hasM[b] {
				passes = true
				break
			}
		}
		if !passes {
			return true, false
		}
	}
	return false, false
}
