package main

// Bounded enumeration of acyclic CFG paths with branch polarity (DESIGN appendix B, E5 "paths").

import (
	"golang.org/x/tools/go/ssa"
)

type PathCond struct {
	V     ssa.Value
	Truth bool
}

type CFGPath struct {
	Blocks []*ssa.BasicBlock
	Conds  []PathCond
}

const maxPaths = 4096

// PathsTo enumerates the acyclic paths from the entry of fn to block target. ok=false if the
// bound was exceeded (the caller must then treat the question as undecided).
func PathsTo(fn *ssa.Function, target *ssa.BasicBlock) (paths []CFGPath, ok bool) {
	if len(fn.Blocks) == 0 {
		return nil, true
	}
	// only walk blocks from which target is reachable
	canReach := map[*ssa.BasicBlock]bool{target: true}
	for changed := true; changed; {
		changed = false
		for _, b := range fn.Blocks {
			if canReach[b] {
				continue
			}
			for _, s := range b.Succs {
				if canReach[s] {
					canReach[b] = true
					changed = true
					break
				}
			}
		}
	}
	ok = true
	onPath := map[*ssa.BasicBlock]bool{}
	var blocks []*ssa.BasicBlock
	var conds []PathCond
	var dfs func(b *ssa.BasicBlock)
	dfs = func(b *ssa.BasicBlock) {
		if !ok || !canReach[b] || onPath[b] {
			return
		}
		blocks = append(blocks, b)
		onPath[b] = true
		defer func() {
			blocks = blocks[:len(blocks)-1]
			onPath[b] = false
		}()
		if b == target {
			if len(paths) >= maxPaths {
				ok = false
				return
			}
			paths = append(paths, CFGPath{append([]*ssa.BasicBlock(nil), blocks...), append([]PathCond(nil), conds...)})
			return
		}
		if ifi, isIf := lastInstr(b).(*ssa.If); isIf && len(b.Succs) == 2 && b.Succs[0] != b.Succs[1] {
			for i, s := range b.Succs {
				conds = append(conds, PathCond{ifi.Cond, i == 0})
				dfs(s)
				conds = conds[:len(conds)-1]
			}
			return
		}
		for _, s := range b.Succs {
			dfs(s)
		}
	}
	dfs(fn.Blocks[0])
	return paths, ok
}
