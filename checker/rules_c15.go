package main

// C15 — Path, Parent, FlattenedKeys and diff always describe the actual structure.
// E2 store/context pairing: the invariant "a value stored under key k in node N has
// ctx.field == k and ctx.parent == N" can only be broken at a store or a move; those are finite
// program points. R15a pairing at every store; R15b moves renumber; R15d SetContext is effective;
// R15e Parent() and path() read the same two fields.

import (
	"fmt"
	"go/token"
	"go/types"
	"strings"

	"golang.org/x/tools/go/ssa"
)

func init() {
	register("C15", "Store/context pairing analysis (E2). Every write into a node's storage is enumerated from SSA: calls of fields.set / setAt / append, direct stores into fields.d / fields.a, whole-node assignments. At each site the context of the stored value is recovered (argument of the cpy call that produced it, argument of a SetContext call that follows the store, context argument of the normalize call, or the literal) and must pair with the storage key: its field is the same SSA value as the key (or the decimal rendering of the same index value, or the field of the element copied from the same key), and its parent wraps the Config that owns the receiving fields (for parent parameters: at every call site). Element moves inside a list (copy within fields.a) must be followed by re-contexting of every moved element with its new index. Every SetContext implementation must store its argument into storage reachable from the receiver on every path. Path/Parent/FlattenedKeys/diff are then right for all operation histories because the invariant is preserved by every writer; FlattenedKeys' set equality and the diff partition themselves are not decided.", checkC15)
}

type ctxDesc struct {
	parent ssa.Value // nil = inherited / unknown
	field  ssa.Value
	base   ssa.Value // context value it was derived from (e.g. v.Context()) when fields are overridden
	ok     bool
	how    string
}

// ctxDescOf recovers how a context value was built.
func ctxDescOf(v ssa.Value) ctxDesc {
	for _, s := range Sources(v) {
		l, ok := s.(*ssa.UnOp)
		if !ok || l.Op != token.MUL {
			// direct parameter / call result
			switch x := s.(type) {
			case *ssa.Parameter:
				return ctxDesc{ok: true, base: x, how: "parameter " + x.Name()}
			case *ssa.Call:
				return ctxDesc{ok: true, base: x, how: "result of " + x.Call.Value.Name()}
			}
			continue
		}
		a, ok := l.X.(*ssa.Alloc)
		if !ok {
			continue
		}
		d := ctxDesc{ok: true, how: "literal"}
		for _, ref := range *a.Referrers() {
			switch r := ref.(type) {
			case *ssa.FieldAddr:
				_, f, _ := FieldOf(r)
				for _, r2 := range *r.Referrers() {
					if st, ok := r2.(*ssa.Store); ok && st.Addr == ssa.Value(r) {
						switch f {
						case "parent":
							d.parent = st.Val
						case "field":
							d.field = st.Val
						}
					}
				}
			case *ssa.Store:
				if r.Addr == ssa.Value(a) {
					d.base = r.Val // whole-struct initialisation, e.g. ctx := v.Context()
				}
			}
		}
		return d
	}
	return ctxDesc{}
}

// sprintfOf: v = fmt.Sprintf("%d" or "%v", x), strconv.Itoa(x), strconv.FormatInt(int64(x), 10) -> x
func sprintfOf(v ssa.Value) ssa.Value {
	call, ok := v.(*ssa.Call)
	if !ok {
		return nil
	}
	f := call.Call.StaticCallee()
	if f == nil {
		return nil
	}
	// the other spellings of the decimal rendering
	switch f.String() {
	case "strconv.Itoa":
		return call.Call.Args[0]
	case "strconv.FormatInt", "strconv.FormatUint":
		if k, ok := ConstInt(call.Call.Args[1]); ok && k == 10 {
			x := call.Call.Args[0]
			if cv, ok := x.(*ssa.Convert); ok {
				x = cv.X
			}
			return x
		}
		return nil
	}
	if f.String() != "fmt.Sprintf" || len(call.Call.Args) != 2 {
		return nil
	}
	format, ok := ConstString(call.Call.Args[0])
	if !ok || (format != "%d" && format != "%v") {
		return nil
	}
	// the single vararg
	sl, ok := call.Call.Args[1].(*ssa.Slice)
	if !ok {
		return nil
	}
	arr, ok := sl.X.(*ssa.Alloc)
	if !ok {
		return nil
	}
	var val ssa.Value
	n := 0
	for _, ref := range *arr.Referrers() {
		if ia, ok := ref.(*ssa.IndexAddr); ok {
			for _, r2 := range *ia.Referrers() {
				if st, ok := r2.(*ssa.Store); ok {
					n++
					if mi, ok := st.Val.(*ssa.MakeInterface); ok {
						val = mi.X
					}
				}
			}
		}
	}
	if n != 1 {
		return nil
	}
	return val
}

// keyMatches: does the context field denote the storage key?
func keyMatches(field, key ssa.Value) (bool, string) {
	if field == nil || key == nil {
		return false, "no field in the context"
	}
	if field == key || SameValue(field, key) {
		return true, "ctx.field is the key itself"
	}
	if x := sprintfOf(field); x != nil {
		if x == key || SameValue(x, key) {
			return true, "ctx.field is the decimal rendering of the index"
		}
		return false, "ctx.field renders " + x.Name() + ", the storage index is " + key.Name()
	}
	// idxField.String() of the same idxField whose .i is the index
	if call, ok := field.(*ssa.Call); ok {
		if f := call.Call.StaticCallee(); f != nil && f.Name() == "String" && recvName(f) == "idxField" {
			if p, ok := AccessPath(call.Call.Args[0]); ok {
				if q, ok := AccessPath(key); ok && q == p+".i" {
					return true, "ctx.field is String() of the index field whose i is the index"
				}
			}
			// spilled receiver: both loads from the same local
			ra, rb := Sources(call.Call.Args[0]), Sources(key)
			_ = ra
			_ = rb
			if fl, ok := key.(*ssa.UnOp); ok {
				if fa, ok := fl.X.(*ssa.FieldAddr); ok {
					if l2, ok := call.Call.Args[0].(*ssa.UnOp); ok && l2.X == fa.X {
						return true, "ctx.field is String() of the index field whose i is the index"
					}
				}
			}
			if fl, ok := key.(*ssa.Field); ok && fl.X == call.Call.Args[0] {
				return true, "ctx.field is String() of the index field whose i is the index"
			}
		}
	}
	return false, "ctx.field (" + field.String() + ") is not the storage key (" + key.String() + ")"
}

// ownerOfFields: the *Config value whose .fields the receiver denotes (recv = X.fields), or the
// fresh fields object itself.
func ownerOfFields(recv ssa.Value) (owner ssa.Value, fresh *ssa.Alloc) {
	if a, ok := recv.(*ssa.Alloc); ok {
		return nil, a
	}
	if l, ok := recv.(*ssa.UnOp); ok && l.Op == token.MUL {
		if fa, ok := l.X.(*ssa.FieldAddr); ok {
			if _, f, ok := FieldOf(fa); ok && f == "fields" {
				return fa.X, nil
			}
		}
	}
	if p, ok := recv.(*ssa.Parameter); ok {
		return p, nil // the receiver parameter of a fields method: owner checked at the call sites
	}
	return nil, nil
}

// wrapsConfig: parent (a `value`) is cfgSub{c: X}; returns X.
func wrappedConfig(parent ssa.Value) ssa.Value {
	for _, s := range Sources(parent) {
		// Sources looks through MakeInterface: s is the cfgSub struct value (a load of a local literal)
		if l, ok := s.(*ssa.UnOp); ok && l.Op == token.MUL {
			if a, ok := l.X.(*ssa.Alloc); ok && isNamed(derefType(a.Type()), modPath, "cfgSub") {
				for _, ref := range *a.Referrers() {
					if fa, ok := ref.(*ssa.FieldAddr); ok {
						for _, r2 := range *fa.Referrers() {
							if st, ok := r2.(*ssa.Store); ok && st.Addr == ssa.Value(fa) {
								return st.Val
							}
						}
					}
					if st, ok := ref.(*ssa.Store); ok && st.Addr == ssa.Value(a) {
						// whole cfgSub stored (e.g. from a type assertion): sub := elem.(cfgSub)
						return st.Val
					}
				}
			}
		}
	}
	return nil
}

// resolveLocalField: v = load of field f of a local aggregate that receives exactly one store into
// that field: the stored value.
func resolveLocalField(v ssa.Value) ssa.Value {
	l, ok := v.(*ssa.UnOp)
	if !ok || l.Op != token.MUL {
		return v
	}
	fa, ok := l.X.(*ssa.FieldAddr)
	if !ok {
		return v
	}
	a, ok := fa.X.(*ssa.Alloc)
	if !ok {
		return v
	}
	var stored ssa.Value
	n := 0
	for _, ref := range *a.Referrers() {
		if fa2, ok := ref.(*ssa.FieldAddr); ok && fa2.Field == fa.Field {
			for _, r2 := range *fa2.Referrers() {
				if st, ok := r2.(*ssa.Store); ok && st.Addr == ssa.Value(fa2) {
					stored = st.Val
					n++
				}
			}
		}
	}
	if n == 1 {
		return stored
	}
	return v
}

func sameConfig(a, b ssa.Value) bool {
	if a == nil || b == nil {
		return false
	}
	a, b = resolveLocalField(a), resolveLocalField(b)
	if a == b || SameValue(a, b) {
		return true
	}
	for _, x := range Sources(a) {
		for _, y := range Sources(b) {
			if x == y || SameValue(x, y) {
				return true
			}
		}
	}
	return false
}

func checkC15(c *Ctx, r *Report) {
	defer diffOrderRule(c, r)
	defer keysAsRenderedRule(c, r)
	defer pathNotKeptRule(c, r, "R15o")
	r.Assumption("FlattenedKeys' set equality and CompareConfigs' partition are value-level and not decided; they read contexts through path(), which is right when the invariant holds")
	setFn := c.Method("", "fields", "set")
	setAtFn := c.Method("", "fields", "setAt")
	appendFn := c.Method("", "fields", "append")
	fieldsT := c.Named("", "fields")

	r.Rule("R15a", "at every store into a node the stored value's context pairs with the storage key (field) and with the owner of the receiving fields (parent)", 12)
	for _, fn := range c.SrcFuncs() {
		if fn.Pkg != c.SSA[""] {
			continue
		}
		name := c.FnName(fn)
		for _, ci := range CallsIn(fn, false) {
			call, ok := ci.(*ssa.Call)
			if !ok {
				continue
			}
			switch {
			case IsCallTo(call, setFn):
				recv, key, val := call.Call.Args[0], call.Call.Args[1], call.Call.Args[2]
				pairSite(c, r, fn, name, "fields.set", call, recv, key, nil, val)
			case IsCallTo(call, setAtFn):
				recv, key, parent, val := call.Call.Args[0], call.Call.Args[1], call.Call.Args[2], call.Call.Args[3]
				pairSite(c, r, fn, name, "fields.setAt", call, recv, key, parent, val)
			case IsCallTo(call, appendFn):
				// parent argument wraps the owner of the receiver
				recv, parent := call.Call.Args[0], call.Call.Args[1]
				ok, why := parentOwns(fn, parent, recv)
				r.Check(ok, "R15a", name, "fields.append parent", c.Pos(call.Pos()), why, "the elements appended here get a parent that is not the config owning the list: "+why)
			}
		}
		// direct stores
		Instrs(fn, false, func(in ssa.Instruction) {
			st, ok := in.(*ssa.Store)
			if !ok {
				return
			}
			if nt, f, ok := FieldOf(st.Addr); ok && nt == fieldsT && f == "a" {
				if recvName(fn) == "fields" {
					return // the container methods themselves: covered through their call sites and R15b
				}
				if IsNilConst(st.Val) {
					r.Trivial("R15a", name, "store fields.a", c.Pos(st.Pos()), "nil list")
					return
				}
				if made, direct := madeList(fn, st.Val); made {
					if len(direct) == 0 {
						r.Trivial("R15a", name, "store fields.a", c.Pos(st.Pos()), "empty/nil-filled array, elements stored through setAt")
						return
					}
					// elements written into the new list by index before it is installed: each pairs like a setAt
					for _, es := range direct {
						pairSite(c, r, fn, name, "element store", es, st.Addr.(*ssa.FieldAddr).X, es.Addr.(*ssa.IndexAddr).Index, nil, es.Val)
					}
					return
				}
				ok, why := positionalFill(c, fn, st)
				r.Check(ok, "R15a", name, "store fields.a", c.Pos(st.Pos()), why, "a list is installed whose elements' contexts do not match their positions: "+why)
			}
		})
	}
	// setAt padding
	{
		name := c.FnName(setAtFn)
		n := 0
		Instrs(setAtFn, false, func(in ssa.Instruction) {
			st, ok := in.(*ssa.Store)
			if !ok {
				return
			}
			ia, ok := st.Addr.(*ssa.IndexAddr)
			if !ok {
				return
			}
			if sl, isSl := ia.X.Type().Underlying().(*types.Slice); !isSl || !isNamed(sl.Elem(), modPath, "value") {
				return
			}
			if _, isConstNil := st.Val.(*ssa.Const); isConstNil {
				return
			}
			// value stored at index ia.Index
			if st.Val == ssa.Value(setAtFn.Params[3]) {
				return // the element itself: paired at the call sites
			}
			n++
			d := literalCtx(st.Val)
			okk, why := keyMatches(d.field, ia.Index)
			okp := d.parent == ssa.Value(setAtFn.Params[2])
			r.Check(d.ok && okk && okp, "R15a", name, "padding element", c.Pos(st.Pos()), "nil padding carries (parent, index) of its slot", "a padding element gets the wrong context: "+why)
		})
		if n == 0 {
			r.Trivial("R15a", name, "padding element", c.Pos(setAtFn.Pos()), "setAt pads with plain nil")
		}
	}

	r.Rule("R15b", "every operation that moves existing elements inside a list (copy within fields.a) is followed by re-contexting of every moved element with its new index", 1)
	movesRule(c, r)

	indexTextRule(c, r)

	orphanContextRule(c, r)

	flattenedKeysRule(c, r)

	rootTestRule(c, r)
	emptyPathRule(c, r)

	bothPartsRule(c, r)

	flattenByMeaningRule(c, r)

	r.Rule("R15d", "every implementation of value.SetContext stores its argument into storage reachable from the receiver on every path", 2)
	setContextRule(c, r)

	r.Rule("R15e", "Parent() returns the config wrapped by ctx.parent and nil otherwise; context.path recurses through parent.Context(): one source of truth", 2)
	parentRule(c, r)
}

// assertedFrom: the config v is the member c of parent.(cfgSub) — through struct copies, local variables and joins
// with the zero cfgSub (whose config is nil: nothing can be stored through it).
func assertedFrom(v, parent ssa.Value, d int) bool {
	if d > 8 {
		return false
	}
	switch x := v.(type) {
	case *ssa.Field:
		return assertedFrom(x.X, parent, d+1)
	case *ssa.Extract:
		if ta, ok := x.Tuple.(*ssa.TypeAssert); ok && x.Index == 0 {
			return ta.X == parent
		}
	case *ssa.TypeAssert:
		return x.X == parent
	case *ssa.Phi:
		n := 0
		for _, e := range x.Edges {
			if k, isK := e.(*ssa.Const); isK && k.Value == nil {
				continue // zero value
			}
			if !assertedFrom(e, parent, d+1) {
				return false
			}
			n++
		}
		return n > 0
	case *ssa.UnOp:
		if x.Op != token.MUL {
			return false
		}
		addr := x.X
		if fa, ok := addr.(*ssa.FieldAddr); ok {
			addr = fa.X
		}
		if a, ok := addr.(*ssa.Alloc); ok {
			n := 0
			for _, ref := range *a.Referrers() {
				if st, ok := ref.(*ssa.Store); ok && st.Addr == ssa.Value(a) {
					if k, isK := st.Val.(*ssa.Const); isK && k.Value == nil {
						continue
					}
					if !assertedFrom(st.Val, parent, d+1) {
						return false
					}
					n++
				}
			}
			return n > 0
		}
	}
	return false
}

// madeList: v is a slice made in this function (or nil on some paths); returns the stores that write its elements by index.
func madeList(fn *ssa.Function, v ssa.Value) (bool, []*ssa.Store) {
	set := map[ssa.Value]bool{}
	var mk *ssa.MakeSlice
	ok := true
	var walk func(x ssa.Value)
	walk = func(x ssa.Value) {
		if set[x] {
			return
		}
		set[x] = true
		switch y := x.(type) {
		case *ssa.Phi:
			for _, e := range y.Edges {
				walk(e)
			}
		case *ssa.MakeSlice:
			if mk != nil && mk != y {
				ok = false
			}
			mk = y
		case *ssa.Const:
			if !y.IsNil() {
				ok = false
			}
		default:
			ok = false
		}
	}
	walk(v)
	if !ok || mk == nil {
		return false, nil
	}
	var out []*ssa.Store
	Instrs(fn, false, func(in ssa.Instruction) {
		st, isSt := in.(*ssa.Store)
		if !isSt {
			return
		}
		if ia, isIA := st.Addr.(*ssa.IndexAddr); isIA && set[ia.X] {
			if c, isC := st.Val.(*ssa.Const); isC && c.IsNil() {
				return
			}
			out = append(out, st)
		}
	})
	return true, out
}

// literalCtx: v = &cfgNil{cfgPrimitive{ctx, meta}} or similar literal: the context stored in it.
func literalCtx(v ssa.Value) ctxDesc {
	a, ok := v.(*ssa.Alloc)
	if !ok {
		for _, s := range Sources(v) {
			if x, ok := s.(*ssa.Alloc); ok {
				a = x
			}
		}
	}
	if a == nil {
		return ctxDesc{}
	}
	var walk func(x ssa.Value) ctxDesc
	walk = func(x ssa.Value) ctxDesc {
		refs := x.Referrers()
		if refs == nil {
			return ctxDesc{}
		}
		// field-by-field initialisation (`n.ctx.parent = p; n.ctx.field = f`) builds one address chain per
		// statement (no CSE): what the chains say is put together
		merged := ctxDesc{how: "literal"}
		for _, ref := range *refs {
			fa, ok := ref.(*ssa.FieldAddr)
			if !ok {
				continue
			}
			_, f, _ := FieldOf(fa)
			if f == "ctx" {
				for _, r2 := range *fa.Referrers() {
					if st, ok := r2.(*ssa.Store); ok && st.Addr == ssa.Value(fa) {
						return ctxDescOf(st.Val)
					}
				}
				// nested literal: cfgPrimitive{ctx: context{parent: p, field: f}} stores into the fields of ctx in place
				d := ctxDesc{how: "literal"}
				for _, r2 := range *fa.Referrers() {
					if fa2, ok := r2.(*ssa.FieldAddr); ok {
						_, f2, _ := FieldOf(fa2)
						for _, r3 := range *fa2.Referrers() {
							if st, ok := r3.(*ssa.Store); ok && st.Addr == ssa.Value(fa2) {
								switch f2 {
								case "parent":
									d.parent, d.ok = st.Val, true
								case "field":
									d.field, d.ok = st.Val, true
								}
							}
						}
					}
				}
				if d.ok {
					if d.parent != nil && d.field != nil {
						return d
					}
					if d.parent != nil {
						merged.parent, merged.ok = d.parent, true
					}
					if d.field != nil {
						merged.field, merged.ok = d.field, true
					}
				}
			}
			if f == "cfgPrimitive" {
				if d := walk(fa); d.ok {
					if d.parent != nil && d.field != nil {
						return d
					}
					if d.parent != nil {
						merged.parent, merged.ok = d.parent, true
					}
					if d.field != nil {
						merged.field, merged.ok = d.field, true
					}
				}
			}
		}
		if merged.ok {
			return merged
		}
		return ctxDesc{}
	}
	return walk(a)
}

// contextOfStored: how does the stored value get its context?
func contextOfStored(fn *ssa.Function, at ssa.Instruction, val ssa.Value) (ctxDesc, string) {
	// (a) val = X.cpy(C)
	if call, ok := val.(*ssa.Call); ok && call.Call.IsInvoke() && call.Call.Method.Name() == "cpy" {
		return ctxDescOf(call.Call.Args[0]), "cpy"
	}
	// (c) a literal
	if d := literalCtx(val); d.ok {
		return d, "literal"
	}
	// (d) built by a function of the normalize family that is handed the context (normalizeValue(opts, tag, ctx, v))
	for _, s := range Sources(val) {
		if e, ok := s.(*ssa.Extract); ok && e.Index == 0 {
			if call, ok := e.Tuple.(*ssa.Call); ok {
				if g := call.Call.StaticCallee(); g != nil && strings.HasPrefix(g.Name(), "normalize") {
					for _, a := range call.Call.Args {
						if isNamed(a.Type(), modPath, "context") {
							return ctxDescOf(a), "built with the context handed to " + g.Name()
						}
					}
				}
			}
		}
	}
	// (b) val.SetContext(C) in the same block, after the store or in front of it (the last one counts)
	seen := false
	var before *ssa.Call
	for _, in := range at.Block().Instrs {
		if in == at {
			seen = true
			continue
		}
		if call, ok := in.(*ssa.Call); ok && call.Call.IsInvoke() && call.Call.Method.Name() == "SetContext" && call.Call.Value == val {
			if seen {
				return ctxDescOf(call.Call.Args[0]), "SetContext after the store"
			}
			before = call
		}
	}
	if before != nil {
		return ctxDescOf(before.Call.Args[0]), "SetContext in front of the store"
	}
	return ctxDesc{}, ""
}

func parentOwns(fn *ssa.Function, parent, recv ssa.Value) (bool, string) {
	owner, fresh := ownerOfFields(recv)
	if prm, ok := parent.(*ssa.Parameter); ok && recvName(fn) == "fields" {
		// passed through a container method: checked at its call sites (fields.append / setAt)
		return true, "parent parameter " + prm.Name() + " (paired at the call sites)"
	}
	w := wrappedConfig(parent)
	if w == nil {
		// elem / sub pattern: parent is the value whose assertion to cfgSub gave the owner
		if owner != nil {
			for _, s := range Sources(owner) {
				// owner = load of sub.c where sub = elem.(cfgSub)
				if l, ok := s.(*ssa.UnOp); ok {
					if fa, ok := l.X.(*ssa.FieldAddr); ok {
						if a, ok := fa.X.(*ssa.Alloc); ok {
							for _, ref := range *a.Referrers() {
								if st, ok := ref.(*ssa.Store); ok && st.Addr == ssa.Value(a) {
									if e, ok := st.Val.(*ssa.Extract); ok {
										if ta, ok := e.Tuple.(*ssa.TypeAssert); ok && ta.X == parent {
											return true, "parent is the value whose cfgSub wraps the receiving config"
										}
									}
								}
							}
						}
					}
				}
			}
		}
		if owner != nil && assertedFrom(owner, parent, 0) {
			return true, "parent is the value whose cfgSub wraps the receiving config"
		}
		return false, "the parent is not a wrapper of the config that owns the receiving fields"
	}
	if owner != nil {
		if sameConfig(w, owner) {
			return true, "parent wraps the config that owns the receiving fields"
		}
		return false, "parent wraps " + w.Name() + " but the fields belong to " + owner.Name()
	}
	if fresh != nil {
		// fresh fields later installed into w: *w.fields = fresh  or  w.fields = fresh
		installed := false
		Instrs(fn, false, func(in ssa.Instruction) {
			st, ok := in.(*ssa.Store)
			if !ok {
				return
			}
			fromFresh := false
			if l, ok := st.Val.(*ssa.UnOp); ok && l.Op == token.MUL && l.X == ssa.Value(fresh) {
				fromFresh = true // the node itself is copied out (Sources would look through a whole-value initialisation of it)
			}
			for _, s := range Sources(st.Val) {
				if s == ssa.Value(fresh) {
					fromFresh = true
				}
				if l, ok := s.(*ssa.UnOp); ok && l.X == ssa.Value(fresh) {
					fromFresh = true
				}
			}
			if !fromFresh {
				return
			}
			// address: w.fields (pointer store) or *(w.fields) (whole node)
			var base ssa.Value
			if fa, ok := st.Addr.(*ssa.FieldAddr); ok {
				if _, f, _ := FieldOf(fa); f == "fields" {
					base = fa.X
				}
			} else if l, ok := st.Addr.(*ssa.UnOp); ok {
				if fa, ok := l.X.(*ssa.FieldAddr); ok {
					if _, f, _ := FieldOf(fa); f == "fields" {
						base = fa.X
					}
				}
			}
			if base != nil && sameConfig(base, w) {
				installed = true
			}
			// newC.c.fields = fields where w is newC's Config literal
			if base != nil {
				for _, s := range Sources(base) {
					if s == w {
						installed = true
					}
				}
			}
		})
		if installed {
			return true, "parent wraps the config the fresh node is installed into"
		}
		return false, "the fresh node is not installed into the config the parent wraps"
	}
	return false, "cannot determine the owner of the receiving fields"
}

func pairSite(c *Ctx, r *Report, fn *ssa.Function, name, what string, call ssa.Instruction, recv, key, parentArg, val ssa.Value) {
	pos := c.Pos(call.Pos())
	d, how := contextOfStored(fn, call, val)
	if !d.ok {
		// pass-through parameter inside the container methods (append -> setAt handled above) or SetValue
		if prm, ok := val.(*ssa.Parameter); ok && recvName(fn) == "fields" {
			r.Trivial("R15a", name, what+" pass-through", pos, "stores its parameter "+prm.Name()+": paired at the call sites")
			return
		}
		r.Bad("R15a", name, what+" context", pos, "the value stored here is neither the result of cpy(ctx), a literal with a context, nor followed by SetContext: its context is whatever it had before")
		return
	}
	// field
	var okk bool
	var whyk string
	switch {
	case d.field != nil:
		okk, whyk = keyMatches(d.field, key)
	case d.base != nil:
		okk, whyk = false, "context taken over unchanged from "+d.base.Name()
	}
	// copy form: field = ctx.field of the element being copied from the same key of the source
	if !okk && d.field != nil {
		if f, ok := d.field.(*ssa.Field); ok {
			if _, fname, _ := FieldOf(f); fname == "field" {
				// f.X = result of X.Context() where X is the range value of the loop whose key is `key`
				if cc, ok := f.X.(*ssa.Call); ok && cc.Call.IsInvoke() && cc.Call.Method.Name() == "Context" {
					if sameRangeElem(cc.Call.Value, key) {
						okk, whyk = true, "ctx.field is the field of the element copied from the same key of the source"
					}
				}
			}
		}
		if l, ok := d.field.(*ssa.UnOp); ok {
			if fa, ok := l.X.(*ssa.FieldAddr); ok {
				if _, fname, _ := FieldOf(fa); fname == "field" {
					if a, ok := fa.X.(*ssa.Alloc); ok {
						for _, ref := range *a.Referrers() {
							if st, ok := ref.(*ssa.Store); ok && st.Addr == ssa.Value(a) {
								if cc, ok := st.Val.(*ssa.Call); ok && cc.Call.IsInvoke() && cc.Call.Method.Name() == "Context" && sameRangeElem(cc.Call.Value, key) {
									okk, whyk = true, "ctx.field is the field of the element copied from the same key/index of the source"
								}
							}
						}
					}
				}
			}
		}
	}
	r.Check(okk, "R15a", name, what+" field", pos, whyk+" ("+how+")", "the value stored under this key carries a different name in its context: "+whyk+" — Path()/FlattenedKeys report a location that does not exist")
	// parent
	okp, whyp := false, ""
	switch {
	case d.parent != nil:
		okp, whyp = parentOwns(fn, d.parent, recv)
		if okp && parentArg != nil && parentArg != d.parent && !sameConfig(parentArg, d.parent) {
			okp, whyp = false, "the parent handed to setAt for padding differs from the parent in the element's context"
		}
	default:
		whyp = "no parent in the context"
	}
	r.Check(okp, "R15a", name, what+" parent", pos, whyp, "the value stored here gets a parent other than the node it is stored in: "+whyp+" — Parent()/Path() are wrong")
}

// sameRangeElem: elem is the value and key the key/index of one and the same range iteration.
func sameRangeElem(elem, key ssa.Value) bool {
	e1, ok1 := elem.(*ssa.Extract)
	e2, ok2 := key.(*ssa.Extract)
	if ok1 && ok2 && e1.Tuple == e2.Tuple {
		return true
	}
	// range over a slice: elem = *(&arr[i]) with i == key
	if l, ok := elem.(*ssa.UnOp); ok {
		if ia, ok := l.X.(*ssa.IndexAddr); ok && (ia.Index == key || SameValue(ia.Index, key)) {
			return true
		}
	}
	return false
}

// positionalFill: `X.fields.a = out` where out is filled by exactly one append per loop iteration of
// values built with context{parent: wrapper of X, field: rendering of the loop counter}.
func positionalFill(c *Ctx, fn *ssa.Function, st *ssa.Store) (bool, string) {
	fa := st.Addr.(*ssa.FieldAddr)
	owner, _ := ownerOfFields(fa.X)
	phi, ok := st.Val.(*ssa.Phi)
	if !ok {
		return false, "the installed slice is not built by a recognisable loop"
	}
	var app *ssa.Call
	for _, e := range phi.Edges {
		if call, ok := e.(*ssa.Call); ok && BuiltinName(call) == "append" && call.Call.Args[0] == ssa.Value(phi) {
			app = call
		}
	}
	if app == nil {
		return false, "no append(out, v) feeding the loop variable"
	}
	// the only way back to the loop header is through the append's block
	hdr := phi.Block()
	for _, p := range hdr.Preds {
		if hdr.Dominates(p) && p != app.Block() && !app.Block().Dominates(p) {
			return false, "an iteration can continue without appending (positions shift)"
		}
	}
	// appended value and its context
	var elem ssa.Value
	if sl, ok := app.Call.Args[1].(*ssa.Slice); ok {
		if arr, ok := sl.X.(*ssa.Alloc); ok {
			for _, ref := range *arr.Referrers() {
				if ia, ok := ref.(*ssa.IndexAddr); ok {
					for _, r2 := range *ia.Referrers() {
						if s2, ok := r2.(*ssa.Store); ok {
							elem = s2.Val
						}
					}
				}
			}
		}
	}
	if elem == nil {
		return false, "cannot find the appended element"
	}
	var ctxArg ssa.Value
	for _, s := range Sources(elem) {
		if e, ok := s.(*ssa.Extract); ok {
			if call, ok := e.Tuple.(*ssa.Call); ok {
				for _, a := range call.Call.Args {
					if isNamed(a.Type(), modPath, "context") {
						ctxArg = a
					}
				}
			}
		}
	}
	if ctxArg == nil {
		return false, "the appended element is not built with an explicit context"
	}
	d := ctxDescOf(ctxArg)
	x := sprintfOf(d.field)
	if x == nil {
		return false, "ctx.field is not the rendering of the loop counter"
	}
	// x must be the loop counter that starts at 0 and steps by 1 in the same loop
	cnt, ok := x.(*ssa.Phi)
	if !ok || cnt.Block() != hdr {
		return false, "ctx.field renders " + x.Name() + ", which is not this loop's counter"
	}
	startsAtZero, stepsByOne := false, false
	for _, e := range cnt.Edges {
		if k, ok := ConstInt(e); ok && k == 0 {
			startsAtZero = true
		}
		if b, ok := e.(*ssa.BinOp); ok && b.Op == token.ADD && b.X == ssa.Value(cnt) {
			if k, ok := ConstInt(b.Y); ok && k == 1 {
				stepsByOne = true
			}
		}
	}
	if !startsAtZero || !stepsByOne {
		return false, "the loop counter does not run 0,1,2,..."
	}
	w := wrappedConfig(d.parent)
	if w == nil || owner == nil || !sameConfig(w, owner) {
		return false, "the elements' parent does not wrap the config that receives the list"
	}
	return true, "one append per iteration, ctx = (wrapper of the receiving config, rendering of the loop counter)"
}

// movesRule: builtin copy with source and destination inside the same fields.a.
func movesRule(c *Ctx, r *Report) {
	n := 0
	for _, fn := range c.SrcFuncs() {
		if fn.Pkg != c.SSA[""] {
			continue
		}
		name := c.FnName(fn)
		for _, ci := range CallsIn(fn, false) {
			call, ok := ci.(*ssa.Call)
			if !ok || BuiltinName(call) != "copy" {
				continue
			}
			dst, src := call.Call.Args[0], call.Call.Args[1]
			sd, ok1 := dst.(*ssa.Slice)
			ss, ok2 := src.(*ssa.Slice)
			if !ok1 || !ok2 {
				continue
			}
			// same underlying value of type []value
			if !(sd.X == ss.X || SameValue(sd.X, ss.X)) {
				continue
			}
			if sl, ok := sd.X.Type().Underlying().(*types.Slice); !ok || !isNamed(sl.Elem(), modPath, "value") {
				continue
			}
			n++
			// a later loop re-contexts a[j] for j from the destination's low index upwards
			okr, why := renumberAfter(fn, call, sd)
			r.Check(okr, "R15b", name, "copy within list", c.Pos(call.Pos()), why, "elements are moved inside a list without being re-contexted: "+why+" — the moved children keep their old index in Path()/FlattenedKeys/diff")
		}
	}
	// element-wise moves: a value loaded from a list is stored at (another) position of the same list
	valueT := c.Named("", "value")
	for _, fn := range c.SrcFuncs() {
		if fn.Pkg != c.SSA[""] {
			continue
		}
		name := c.FnName(fn)
		Instrs(fn, false, func(in ssa.Instruction) {
			st, ok := in.(*ssa.Store)
			if !ok {
				return
			}
			ia, ok := st.Addr.(*ssa.IndexAddr)
			if !ok {
				return
			}
			sl, ok := ia.X.Type().Underlying().(*types.Slice)
			if !ok || !types.Identical(sl.Elem(), valueT) {
				return
			}
			moved := false
			for _, src := range Sources(st.Val) {
				if l, ok := src.(*ssa.UnOp); ok && l.Op == token.MUL {
					if ia2, ok := l.X.(*ssa.IndexAddr); ok && (ia2.X == ia.X || SameValue(ia2.X, ia.X)) && ia2.Index != ia.Index {
						moved = true
					}
				}
			}
			if !moved {
				return
			}
			n++
			// the moved value is re-contexted in the same block: SetContext(ctx) with ctx.field = rendering of the index it is stored at
			okr, why := false, "no SetContext on the moved element in the iteration that stores it"
			// (anywhere in the same iteration: the call may sit under a nil test of the element)
			var near []ssa.Instruction
			if lp := loopOf(fn, st.Block()); lp != nil {
				for _, b := range fn.Blocks {
					if lp[b] {
						near = append(near, b.Instrs...)
					}
				}
			} else {
				near = st.Block().Instrs
			}
			for _, in2 := range near {
				call, ok := in2.(*ssa.Call)
				if !ok || !call.Call.IsInvoke() || call.Call.Method.Name() != "SetContext" {
					continue
				}
				same := call.Call.Value == st.Val
				for _, s1 := range Sources(call.Call.Value) {
					for _, s2 := range Sources(st.Val) {
						if s1 == s2 {
							same = true
						}
					}
				}
				if !same {
					continue
				}
				d := ctxDescOf(call.Call.Args[0])
				x := sprintfOf(d.field)
				switch {
				case x == nil:
					why = "the context given to the moved element does not render an index (" + d.how + ")"
				case !(x == ia.Index || SameValue(x, ia.Index)):
					why = "the index rendered into the context (" + x.Name() + ") is not the index the element is stored at (" + ia.Index.Name() + ")"
				default:
					okr, why = true, "the moved element is re-contexted with the rendering of the index it is stored at"
				}
			}
			if !okr {
				if ok2, why2 := renumberAfterStore(fn, st, ia); ok2 {
					okr, why = true, why2
				}
			}
			r.Check(okr, "R15b", name, "element moved within list", c.Pos(st.Pos()), why, "an element is moved to another position of its list without taking the index of that position: "+why+" — Path()/FlattenedKeys/diff report the old (or another element's) index")
		})
	}
	if n == 0 {
		r.Trivial("R15b", "ucfg", "copy within list", "-", "no in-place element move found")
	}
}

// renumberAfterStore: a loop that the store dominates (or that follows the store's loop) re-contexts the list's
// elements with their own index — accepted only in the simple form of renumberAfter, keyed on the stored-to slice.
func renumberAfterStore(fn *ssa.Function, st *ssa.Store, ia *ssa.IndexAddr) (bool, string) {
	return false, ""
}

func renumberAfter(fn *ssa.Function, cp *ssa.Call, dst *ssa.Slice) (bool, string) {
	// find SetContext calls on an element a[j] after the copy
	for _, ci := range CallsIn(fn, false) {
		sc, ok := ci.(*ssa.Call)
		if !ok || !sc.Call.IsInvoke() || sc.Call.Method.Name() != "SetContext" {
			continue
		}
		if !InstrDominates(cp, sc) {
			continue
		}
		// receiver: element loaded from an IndexAddr with index j
		var j, low ssa.Value
		for _, s := range Sources(sc.Call.Value) {
			if l, ok := s.(*ssa.UnOp); ok {
				if ia, ok := l.X.(*ssa.IndexAddr); ok {
					j = ia.Index
					// `for off, v := range a[i:]`: the element's position in the list is i+off
					if sl, ok := ia.X.(*ssa.Slice); ok && sl.Low != nil {
						low = sl.Low
					}
				}
			}
		}
		if j == nil {
			continue
		}
		d := ctxDescOf(sc.Call.Args[0])
		if low != nil {
			x := sprintfOf(d.field)
			add, isAdd := x.(*ssa.BinOp)
			same := func(a, b ssa.Value) bool { return a == b || SameValue(a, b) }
			if x == nil || !isAdd || add.Op != token.ADD || !(same(add.X, low) && same(add.Y, j) || same(add.Y, low) && same(add.X, j)) {
				return false, "the re-contexting loop does not give element j the index j"
			}
			if d.parent != nil {
				return false, "the re-contexting loop replaces the parent"
			}
			if k, ok := counterStart(j); !ok || k != 0 {
				return false, "the re-contexting loop does not start at the first element of the re-sliced list"
			}
			if !(dst.Low != nil && same(low, dst.Low)) {
				return false, "the re-contexting loop does not start at the first moved element"
			}
			return true, "a loop over the list from the first moved element gives every element its new index (offset + position), keeping its parent"
		}
		okk, _ := keyMatches(d.field, j)
		if !okk {
			return false, "the re-contexting loop does not give element j the index j"
		}
		// parent unchanged: the context is initialised from the element's own Context()
		if d.parent != nil {
			return false, "the re-contexting loop replaces the parent"
		}
		// j is a loop counter starting at the destination's low bound
		cnt, ok := j.(*ssa.Phi)
		if !ok {
			return false, "the re-contexted index is not a loop counter"
		}
		starts := false
		for _, e := range cnt.Edges {
			if dst.Low != nil && (e == dst.Low || SameValue(e, dst.Low)) {
				starts = true
			}
			if dst.Low == nil {
				if k, ok := ConstInt(e); ok && k == 0 {
					starts = true
				}
			}
		}
		if !starts {
			return false, "the re-contexting loop does not start at the first moved element"
		}
		// upper bound: the loop runs to the end of the (shortened) list: j < len(...)
		return true, "a loop after the move gives every element from the first moved one its new index, keeping its parent"
	}
	return false, "no re-contexting of the moved elements follows the copy"
}

// orphanContextRule (R15h): the context of a node that already sits in a tree is only changed together with the
// store that puts the node at the place the context names (R15a pairs the two), or to renumber it in its own list
// (R15b). A node can be reachable from more than one place it was attached to over time (SetChild of a handle
// taken with Child, a value moved by the caller): its context says where it was attached last, and re-contexting
// it on behalf of another slot — when that slot is removed, cleared or overwritten — makes Path()/Parent() of a
// node that is still in the tree describe a place that does not hold it.
func orphanContextRule(c *Ctx, r *Report) {
	r.Rule("R15h", "SetContext is called on an existing node only next to the store that attaches it (same value stored through fields.set/setAt or directly) or to renumber it within its list; everywhere else only values made in the function are given a context", 5)
	setFn := c.Method("", "fields", "set")
	setAtFn := c.Method("", "fields", "setAt")
	for _, fn := range c.SrcFuncs() {
		if fn.Pkg != c.SSA[""] || fn.Name() == "SetContext" {
			continue
		}
		name := c.FnName(fn)
		for _, ci := range CallsIn(fn, false) {
			call, ok := ci.(*ssa.Call)
			if !ok {
				continue
			}
			var recv, arg ssa.Value
			switch {
			case call.Call.IsInvoke() && call.Call.Method.Name() == "SetContext" && len(call.Call.Args) == 1:
				recv, arg = call.Call.Value, call.Call.Args[0]
			case call.Call.StaticCallee() != nil && call.Call.StaticCallee().Name() == "SetContext" && call.Call.StaticCallee().Pkg == c.SSA[""] && len(call.Call.Args) == 2:
				recv, arg = call.Call.Args[0], call.Call.Args[1]
			default:
				continue
			}
			existing := ""
			rs := Sources(recv)
			for _, s := range rs {
				switch x := s.(type) {
				case *ssa.Parameter:
					existing = "parameter " + x.Name()
				case *ssa.Lookup:
					existing = "map entry"
				case *ssa.Extract:
					if _, isL := x.Tuple.(*ssa.Lookup); isL {
						existing = "map entry"
					}
					if cl, isC := x.Tuple.(*ssa.Call); isC && !madeHere(cl) {
						existing = "result of " + cl.Call.Value.Name()
					}
				case *ssa.UnOp:
					if x.Op == token.MUL {
						if _, local := x.X.(*ssa.Alloc); !local {
							existing = "loaded from " + x.X.Name()
						}
					}
				case *ssa.Call:
					if !madeHere(x) {
						existing = "result of " + x.Call.Value.Name()
					}
				}
			}
			pos := c.Pos(call.Pos())
			if existing == "" {
				r.OK("R15h", name, "context given", pos, "the value is made in this function")
				continue
			}
			shares := func(v ssa.Value) bool {
				if v == recv {
					return true
				}
				for _, s1 := range Sources(v) {
					for _, s2 := range rs {
						if s1 == s2 {
							return true
						}
					}
				}
				return false
			}
			stored := false
			Instrs(fn, false, func(in ssa.Instruction) {
				switch x := in.(type) {
				case *ssa.Call:
					if IsCallTo(x, setFn) && shares(x.Call.Args[2]) || IsCallTo(x, setAtFn) && shares(x.Call.Args[3]) {
						stored = true
					}
				case *ssa.Store:
					if _, isIA := x.Addr.(*ssa.IndexAddr); isIA && isNamed(x.Val.Type(), modPath, "value") && shares(x.Val) {
						stored = true
					}
				case *ssa.MapUpdate:
					if isNamed(x.Value.Type(), modPath, "value") && shares(x.Value) {
						stored = true
					}
				}
			})
			if stored {
				r.OK("R15h", name, "context given", pos, "next to the store that attaches the value (paired by R15a)")
				continue
			}
			// renumbering: the element's own context with only the field replaced by the rendering of an index
			d := ctxDescOf(arg)
			renumber := false
			if d.ok && d.parent == nil && d.base != nil && sprintfOf(d.field) != nil {
				if bc, isC := d.base.(*ssa.Call); isC && bc.Call.IsInvoke() && bc.Call.Method.Name() == "Context" && shares(bc.Call.Value) {
					renumber = true
				}
			}
			r.Check(renumber, "R15h", name, "context given", pos, "the element keeps its parent and takes the rendering of an index (checked by R15b)",
				"an existing node ("+existing+") is given another context without being stored at the place that context names: a node that was attached somewhere else in the meantime (SetChild of a handle, a moved value) is still in the tree, and its Path()/Parent() — and FlattenedKeys, diff and every error below it — now describe a place that does not hold it")
		}
	}
}

// flattenedKeysRule (R15i): the keys FlattenedKeys reports are paths from the root of the tree. Every key it emits
// has a context path (context.path, Config.Path / PathOf) in its derivation — as the key itself, or as the prefix a
// top-down construction starts from. Keys built from names and positions alone are relative to the node the call
// was made on: right for a root, wrong for every child handle (and diff.CompareConfigs partitions these keys).
func flattenedKeysRule(c *Ctx, r *Report) {
	r.Rule("R15i", "every key FlattenedKeys emits derives from a context path (context.path / Config.Path / PathOf): keys are relative to the root, not to the node asked", 1)
	fam := map[*ssa.Function]bool{}
	var famList []*ssa.Function
	for _, n := range []string{"FlattenedKeys", "flattenedKeys"} {
		if f := c.Method("", "Config", n); f != nil {
			for _, g := range WithAnon(f) {
				fam[g] = true
				famList = append(famList, g)
			}
		}
	}
	if f := c.TryFunc("", "appendFlattenedKeys"); f != nil {
		for _, g := range WithAnon(f) {
			fam[g] = true
			famList = append(famList, g)
		}
	}
	isPath := func(f *ssa.Function) bool {
		if f == nil || f.Pkg != c.SSA[""] {
			return false
		}
		switch f.Name() {
		case "path", "pathOf", "Path", "PathOf":
			return true
		}
		return false
	}
	seen := map[ssa.Value]bool{}
	var derives func(v ssa.Value, d int) bool
	derives = func(v ssa.Value, d int) bool {
		if v == nil || d > 14 || seen[v] {
			return false
		}
		seen[v] = true
		defer delete(seen, v)
		switch x := v.(type) {
		case *ssa.Call:
			if isPath(x.Call.StaticCallee()) {
				return true
			}
			// formatting and joining keep the derivation of their operands
			for _, a := range x.Call.Args {
				if derives(a, d+1) {
					return true
				}
			}
		case *ssa.BinOp:
			return derives(x.X, d+1) || derives(x.Y, d+1)
		case *ssa.Phi:
			for _, e := range x.Edges {
				if derives(e, d+1) {
					return true
				}
			}
		case *ssa.Slice:
			// a variadic argument list: what was stored into it
			if al, ok := x.X.(*ssa.Alloc); ok {
				for _, ref := range *al.Referrers() {
					if ia, ok := ref.(*ssa.IndexAddr); ok {
						for _, r2 := range *ia.Referrers() {
							if st, ok := r2.(*ssa.Store); ok && derives(st.Val, d+1) {
								return true
							}
						}
					}
				}
			}
			return derives(x.X, d+1)
		case *ssa.MakeInterface:
			return derives(x.X, d+1)
		case *ssa.Extract:
			return derives(x.Tuple, d+1)
		case *ssa.UnOp:
			if x.Op == token.MUL {
				if vals, ok := localStores(x.X); ok {
					for _, sv := range vals {
						if derives(sv, d+1) {
							return true
						}
					}
				}
			}
		case *ssa.FreeVar:
			if b := freeVarBinding(x); b != nil {
				return derives(b, d+1)
			}
		case *ssa.Parameter:
			// what the callers inside the family hand over
			fn := x.Parent()
			idx := -1
			for i, p := range fn.Params {
				if p == x {
					idx = i
				}
			}
			for _, g := range famList {
				for _, ci := range CallsIn(g, false) {
					if ci.Common().StaticCallee() == fn && idx >= 0 && idx < len(ci.Common().Args) {
						if derives(ci.Common().Args[idx], d+1) {
							return true
						}
					}
				}
			}
		}
		return false
	}
	n := 0
	for _, fn := range famList {
		name := c.FnName(fn)
		for _, ci := range CallsIn(fn, false) {
			call, ok := ci.(*ssa.Call)
			if !ok || BuiltinName(call) != "append" || len(call.Call.Args) != 2 {
				continue
			}
			sl, isSl := call.Type().Underlying().(*types.Slice)
			if !isSl {
				continue
			}
			if bt, isB := sl.Elem().Underlying().(*types.Basic); !isB || bt.Info()&types.IsString == 0 {
				continue
			}
			// single elements are stored into a fresh array; a spread list (keys of a sub-tree) is checked where it was built
			va, isVA := call.Call.Args[1].(*ssa.Slice)
			if !isVA {
				continue
			}
			al, isAl := va.X.(*ssa.Alloc)
			if !isAl {
				continue
			}
			for _, ref := range *al.Referrers() {
				ia, ok := ref.(*ssa.IndexAddr)
				if !ok {
					continue
				}
				for _, r2 := range *ia.Referrers() {
					st, ok := r2.(*ssa.Store)
					if !ok {
						continue
					}
					n++
					r.Check(derives(st.Val, 0), "R15i", name, "key is a path from the root", c.Pos(call.Pos()), "the key has a context path in its derivation",
						"a key is put together from names and positions only, with no context path (context.path, Config.Path) in its derivation: it is relative to the node FlattenedKeys was called on — for a child handle the keys lose the path of the child, and diff.CompareConfigs compares such keys")
				}
			}
		}
	}
	if n == 0 {
		r.add("R15i", "ucfg.FlattenedKeys", "key is a path from the root", "-", Undecided, true, "no key appended in the FlattenedKeys family")
	}
}

// rootTestRule (R15j): the root of a tree is the node without a parent. context.path may return early (the path so
// far ends here) only under a test of ctx.parent — never because a name is empty: a setting can be named "", and
// the path of everything below it must not start over.
func rootTestRule(c *Ctx, r *Report) {
	r.Rule("R15j", "every return of context.path lies under a nil test of a parent (its own or its parent's): an empty name alone never ends the path", 2)
	ctxT := c.Named("", "context")
	fn := c.MethodImpl(types.NewPointer(ctxT), "path")
	if fn == nil {
		r.add("R15j", "ucfg.context.path", "root by parent", "-", Undecided, true, "context.path not found")
		return
	}
	fn = declared(c, fn)
	for _, ret := range Returns(fn) {
		under := false
		for _, cd := range ExpandConds(DomConds(ret.Block())) {
			if tv, _, ok := nilTest(cd.V); ok {
				for _, s := range append(Sources(tv), tv) {
					if l, isL := s.(*ssa.UnOp); isL {
						if _, f, okF := FieldOf(l.X); okF && f == "parent" {
							under = true
						}
					}
					if _, f, okF := FieldOf(s); okF && f == "parent" {
						under = true
					}
				}
			}
		}
		// the last return (the general case: parent's path + separator + name) needs no test of its own when every
		// other way out has one; it is the block that calls path recursively
		recursive := false
		for _, in := range ret.Block().Instrs {
			if call, isCall := in.(*ssa.Call); isCall && call.Call.StaticCallee() == fn {
				recursive = true
			}
		}
		r.Check(under || recursive, "R15j", c.FnName(fn), "root by parent", c.Pos(ret.Pos()), "under a test of ctx.parent (or the recursive case)",
			"context.path ends the path without looking at the parent (an empty name is taken for the root): below a setting named \"\" every path starts over — FlattenedKeys reports a..x as x, diff and error messages name another setting")
	}
}

// bothPartsRule (R15k): a node has a dictionary part and a list part, and can have both (a top-level {"0": x, "b": y};
// a dictionary emptied by Remove that got a list entry afterwards). flattenedKeys walks both: the loop over the list
// part is reachable also when the dictionary part was walked — the two are not alternatives.
func bothPartsRule(c *Ctx, r *Report) {
	r.Rule("R15k", "flattenedKeys walks the dictionary part and the list part of a node, not one or the other", 1)
	fk := c.Method("", "Config", "flattenedKeys")
	var dictLoop, arrLoop *ssa.BasicBlock
	for _, ci := range CallsIn(fk, false) {
		g := ci.Common().StaticCallee()
		if g == nil || recvName(g) != "fields" {
			continue
		}
		// the block in which the part is fetched for the loop (not the IsDict/IsArray tests, which are methods of Config)
		switch g.Name() {
		case "dict":
			dictLoop = ci.(ssa.Instruction).Block()
		case "array":
			arrLoop = ci.(ssa.Instruction).Block()
		}
	}
	if dictLoop == nil || arrLoop == nil {
		r.add("R15k", c.FnName(fk), "both parts walked", c.Pos(fk.Pos()), Undecided, true, "flattenedKeys does not fetch both parts of the node")
		return
	}
	ok := dictLoop == arrLoop || reachableFromEdge(nil, dictLoop, arrLoop, nil) || reachableFromEdge(nil, arrLoop, dictLoop, nil)
	// … and neither part is walked only on condition of what the other part is
	for _, blk := range []*ssa.BasicBlock{dictLoop, arrLoop} {
		for _, cd := range ExpandConds(DomConds(blk)) {
			v := cd.V
			for {
				u, isU := v.(*ssa.UnOp)
				if !isU || u.Op != token.NOT {
					break
				}
				v = u.X
			}
			for _, s := range append(Sources(v), v) {
				if call, isCall := s.(*ssa.Call); isCall {
					switch calledName(call) {
					case "IsDict", "IsArray", "dict", "array":
						ok = false
					}
				}
				if bo, isB := s.(*ssa.BinOp); isB {
					for _, o := range []ssa.Value{bo.X, bo.Y} {
						if call, isCall := o.(*ssa.Call); isCall {
							switch calledName(call) {
							case "IsDict", "IsArray", "dict", "array":
								ok = false
							}
						}
					}
				}
			}
		}
	}
	r.Check(ok, "R15k", c.FnName(fk), "both parts walked", c.Pos(fk.Pos()), "the list part is reached after the dictionary part",
		"flattenedKeys walks either the dictionary part or the list part of a node: for a node with both (or a dictionary emptied by Remove that has list entries) the list entries are missing from FlattenedKeys, and diff.CompareConfigs reports them as added against an equal config")
}

// flattenByMeaningRule (R15l): whether a value is a leaf or something to descend into is asked of the value
// (toConfig), not read off its Go type: a null answers toConfig with an empty config and contributes no key, a
// reference answers with what it points to. A classification by node type in the FlattenedKeys family has to repeat
// every node type's meaning by hand — the one it forgets (nulls; list padding) turns up as a key.
func flattenByMeaningRule(c *Ctx, r *Report) {
	r.Rule("R15l", "the FlattenedKeys family classifies values by toConfig, with no type assertion or type switch on the node types", 1)
	nodeT := map[string]bool{"cfgSub": true, "cfgDynamic": true, "cfgNil": true, "cfgBool": true, "cfgInt": true, "cfgUint": true, "cfgFloat": true, "cfgString": true, "cfgPrimitive": true}
	var fam []*ssa.Function
	for _, n := range []string{"FlattenedKeys", "flattenedKeys"} {
		if f := c.Method("", "Config", n); f != nil {
			fam = append(fam, WithAnon(f)...)
		}
	}
	if f := c.TryFunc("", "appendFlattenedKeys"); f != nil {
		fam = append(fam, WithAnon(f)...)
	}
	bad, asks := "", 0
	for _, fn := range fam {
		Instrs(fn, false, func(in ssa.Instruction) {
			switch x := in.(type) {
			case *ssa.TypeAssert:
				t := x.AssertedType
				if pt, ok := t.(*types.Pointer); ok {
					t = pt.Elem()
				}
				if nt, ok := t.(*types.Named); ok && nodeT[nt.Obj().Name()] && isNamed(x.X.Type(), modPath, "value") {
					bad = "assertion to " + nt.Obj().Name() + " at " + c.Pos(x.Pos())
				}
			case *ssa.Call:
				if x.Call.IsInvoke() && x.Call.Method.Name() == "toConfig" {
					asks++
				}
			}
		})
	}
	r.Check(bad == "" && asks > 0, "R15l", "ucfg.FlattenedKeys family", "leaf or subtree by toConfig", "-", fmt.Sprintf("%d toConfig call(s), no test of the node type", asks),
		"the FlattenedKeys family decides by the Go type of a node ("+bad+") what is a leaf: a node type whose meaning the hand-written classification does not repeat (a null, the padding of a list written behind its end) is reported as a key, and diff.CompareConfigs sees a change between equal configs")
}

// madeHere: the call returns a value that did not exist before (a constructor, a copy, a normalised input).
func madeHere(call *ssa.Call) bool {
	if call.Call.IsInvoke() {
		return call.Call.Method.Name() == "cpy"
	}
	f := call.Call.StaticCallee()
	if f == nil {
		return false
	}
	n := f.Name()
	return strings.HasPrefix(n, "new") || strings.HasPrefix(n, "New") || strings.HasPrefix(n, "normalize") || n == "cpy"
}

// counterStart: the first value of a loop counter (a φ with one constant start, or φ+k of the rotated range form).
func counterStart(j ssa.Value) (int64, bool) {
	if phi, ok := j.(*ssa.Phi); ok {
		return phiInit(phi)
	}
	if b, ok := j.(*ssa.BinOp); ok && b.Op == token.ADD {
		if phi, ok := b.X.(*ssa.Phi); ok {
			if k, isK := ConstInt(b.Y); isK {
				if lo, ok := phiInit(phi); ok {
					return lo + k, true
				}
			}
		}
	}
	return 0, false
}

// setContextRule: R15d.
func setContextRule(c *Ctx, r *Report) {
	valueT := c.Named("", "value")
	iface := valueT.Underlying().(*types.Interface)
	seen := map[*ssa.Function]bool{}
	for _, t := range c.Implementations("", iface) {
		f := c.MethodImpl(t, "SetContext")
		if f == nil {
			continue
		}
		f = declared(c, f)
		if seen[f] {
			continue
		}
		seen[f] = true
		name := c.FnName(f)
		recv, arg := f.Params[0], f.Params[1]
		// effective store: address reached from the receiver through a pointer (not the by-value copy), value = the argument
		isEffective := func(in ssa.Instruction) bool {
			st, ok := in.(*ssa.Store)
			if !ok {
				return false
			}
			fromArg := false
			for _, s := range Sources(st.Val) {
				if s == ssa.Value(arg) {
					fromArg = true
				}
			}
			if !fromArg {
				return false
			}
			// walk the address chain down to its base
			a := st.Addr
			throughPointer := false
			for {
				switch x := a.(type) {
				case *ssa.FieldAddr:
					a = x.X
					continue
				case *ssa.UnOp:
					if x.Op == token.MUL {
						throughPointer = true
						a = x.X
						continue
					}
				}
				break
			}
			switch b := a.(type) {
			case *ssa.Parameter:
				if b != recv {
					return false
				}
				_, isPtr := recv.Type().Underlying().(*types.Pointer)
				return isPtr || throughPointer
			case *ssa.Alloc:
				// the spilled by-value receiver: only effective through a pointer loaded from it
				if vals, ok := localStores(b); ok && len(vals) == 1 && vals[0] == ssa.Value(recv) {
					return throughPointer
				}
			}
			return false
		}
		bad := MustPass(f, isEffective, nil)
		r.Check(len(bad) == 0, "R15d", name, "effective on every path", c.Pos(f.Pos()), "every return is preceded by a store of the argument into storage reachable from the receiver", "SetContext can return without having stored the new context anywhere the receiver's holder can see (assignment to the by-value receiver?): re-attached or moved values keep their old path")
	}
}

func parentRule(c *Ctx, r *Report) {
	par := c.Method("", "Config", "Parent")
	name := c.FnName(par)
	// every non-nil return is <receiver>.ctx.parent.(cfgSub).c
	ok := true
	nonNil := 0
	for _, ret := range Returns(par) {
		v := ret.Results[0]
		if IsNilConst(v) {
			continue
		}
		nonNil++
		chain, base := chaseFields(v)
		if base != ssa.Value(par.Params[0]) || strings.Join(chain, ".") != "ctx.parent.(cfgSub).c" {
			ok = false
		}
	}
	r.Check(ok && nonNil > 0, "R15e", name, "returns ctx.parent's config", c.Pos(par.Pos()), "the non-nil result is receiver.ctx.parent.(cfgSub).c", "Parent() does not return the config wrapped by the receiver's ctx.parent")
	// context.path: recursion through parent.Context()
	pth := c.Method("", "context", "path")
	rec := false
	for _, ci := range CallsTo(pth, pth, false) {
		// receiver of the recursive call is (the address of) a context obtained from parent.Context()
		for _, s := range Sources(ci.Common().Args[0]) {
			if a, isA := s.(*ssa.Alloc); isA {
				for _, ref := range *a.Referrers() {
					if st, isSt := ref.(*ssa.Store); isSt && st.Addr == ssa.Value(a) {
						if call, isC := st.Val.(*ssa.Call); isC && call.Call.IsInvoke() && call.Call.Method.Name() == "Context" {
							if p, okp := AccessPath(call.Call.Value); okp && strings.HasSuffix(p, ".parent") {
								rec = true
							}
						}
					}
				}
			}
		}
	}
	r.Check(rec, "R15e", c.FnName(pth), "path recurses through parent", c.Pos(pth.Pos()), "path() = parent.Context().path() + field", "context.path does not build the path from parent.Context()")
	_ = fmt.Sprint
}

// deepAssertSources: follows loads of locals and type assertions/switches back to their operand.
func deepAssertSources(v ssa.Value) []ssa.Value {
	var out []ssa.Value
	seen := map[ssa.Value]bool{}
	var rec func(v ssa.Value, d int)
	rec = func(v ssa.Value, d int) {
		if seen[v] || d > 8 {
			return
		}
		seen[v] = true
		for _, s := range Sources(v) {
			switch x := s.(type) {
			case *ssa.UnOp:
				if fa, ok := x.X.(*ssa.FieldAddr); ok {
					if p, ok := AccessPath(x); ok && strings.HasSuffix(p, ".parent") {
						out = append(out, x)
						continue
					}
					rec(fa.X, d+1)
					continue
				}
				out = append(out, s)
			case *ssa.Extract:
				if ta, ok := x.Tuple.(*ssa.TypeAssert); ok {
					rec(ta.X, d+1)
					continue
				}
				out = append(out, s)
			case *ssa.Field:
				rec(x.X, d+1)
			default:
				out = append(out, s)
			}
		}
	}
	rec(v, 0)
	return out
}

// chaseFields walks a value back through field loads, copies into locals and type assertions and
// returns the chain of fields read (outermost last) and the base value reached.
func chaseFields(v ssa.Value) ([]string, ssa.Value) {
	var chain []string
	for i := 0; i < 20; i++ {
		switch x := v.(type) {
		case *ssa.UnOp:
			if x.Op != token.MUL {
				return chain, v
			}
			switch a := x.X.(type) {
			case *ssa.FieldAddr:
				_, f, _ := FieldOf(a)
				chain = append([]string{f}, chain...)
				// base of the address: a local copy or a pointer value
				switch b := a.X.(type) {
				case *ssa.Alloc:
					// single whole store into the local
					var stored ssa.Value
					n := 0
					for _, ref := range *b.Referrers() {
						if st, ok := ref.(*ssa.Store); ok && st.Addr == ssa.Value(b) {
							stored = st.Val
							n++
						}
					}
					if n != 1 {
						return chain, b
					}
					v = stored
				default:
					v = a.X
				}
				continue
			case *ssa.Alloc:
				var stored ssa.Value
				n := 0
				for _, ref := range *a.Referrers() {
					if st, ok := ref.(*ssa.Store); ok && st.Addr == ssa.Value(a) {
						stored = st.Val
						n++
					}
				}
				if n != 1 {
					return chain, a
				}
				v = stored
				continue
			}
			return chain, v
		case *ssa.Field:
			_, f, _ := FieldOf(x)
			chain = append([]string{f}, chain...)
			v = x.X
			continue
		case *ssa.Extract:
			if ta, ok := x.Tuple.(*ssa.TypeAssert); ok && x.Index == 0 {
				chain = append([]string{"(" + shortType(ta.AssertedType) + ")"}, chain...)
				v = ta.X
				continue
			}
			return chain, v
		case *ssa.TypeAssert:
			chain = append([]string{"(" + shortType(x.AssertedType) + ")"}, chain...)
			v = x.X
			continue
		case *ssa.FieldAddr:
			_, f, _ := FieldOf(x)
			chain = append([]string{f}, chain...)
			v = x.X
			continue
		}
		return chain, v
	}
	return chain, v
}

func shortType(t types.Type) string {
	if n := namedOf(t); n != nil {
		return n.Obj().Name()
	}
	return typeStr(t)
}

// renderedInt: v is the decimal rendering of an integer value (fmt.Sprintf("%d"/"%v", x), strconv.Itoa(x),
// strconv.FormatInt(int64(x), 10)); returns x.
func renderedInt(v ssa.Value) ssa.Value {
	if x := sprintfOf(v); x != nil {
		return x
	}
	call, ok := v.(*ssa.Call)
	if !ok {
		return nil
	}
	f := call.Call.StaticCallee()
	if f == nil {
		return nil
	}
	switch f.String() {
	case "strconv.Itoa":
		return call.Call.Args[0]
	case "strconv.FormatInt", "strconv.FormatUint":
		if k, ok := ConstInt(call.Call.Args[1]); ok && k == 10 {
			x := call.Call.Args[0]
			if cv, ok := x.(*ssa.Convert); ok {
				x = cv.X
			}
			return x
		}
	}
	return nil
}

// indexTextRule (R15g): the name under which a list entry is known is the decimal rendering of its position.
// idxField.SetValue names the stored value with the field's text, so idxField.String() must render the field's
// own integer — or, when the text is kept in the field, every idxField that is built must keep the rendering of
// the very integer it keeps. A field that keeps the user's spelling ("01", "0x2", "+1") stores the entry at
// position 1 or 2 under another name.
func indexTextRule(c *Ctx, r *Report) {
	r.Rule("R15g", "the text of an index field is the decimal rendering of its own integer (idxField.String, and every idxField built with a stored text)", 1)
	idxT := c.Named("", "idxField")
	str := c.MethodImpl(idxT, "String")
	if str == nil {
		r.add("R15g", "ucfg.idxField.String", "renders its integer", "-", Undecided, true, "idxField.String not found")
		return
	}
	name := c.FnName(str)
	direct, viaField := true, ""
	for _, ret := range Returns(str) {
		v := RetVal(ret, 0)
		x := renderedInt(v)
		isOwn := false
		if x != nil {
			for _, s := range Sources(x) {
				if _, f, ok := FieldOf(s); ok && f == "i" {
					isOwn = true
				}
				if l, ok := s.(*ssa.UnOp); ok && l.Op == token.MUL {
					if _, f, ok := FieldOf(l.X); ok && f == "i" {
						isOwn = true
					}
				}
				if fv, ok := s.(*ssa.Field); ok {
					if _, f, ok := FieldOf(fv); ok && f == "i" {
						isOwn = true
					}
				}
			}
		}
		if isOwn {
			continue
		}
		direct = false
		for _, s := range Sources(v) {
			if l, ok := s.(*ssa.UnOp); ok && l.Op == token.MUL {
				if nt, f, ok := FieldOf(l.X); ok && nt == idxT {
					viaField = f
				}
			}
			if fv, ok := s.(*ssa.Field); ok {
				if nt, f, ok := FieldOf(fv); ok && nt == idxT {
					viaField = f
				}
			}
		}
	}
	if direct {
		r.OK("R15g", name, "renders its integer", c.Pos(str.Pos()), "String() renders the field's own integer")
		return
	}
	if viaField == "" {
		r.Bad("R15g", name, "renders its integer", c.Pos(str.Pos()), "idxField.String() returns neither the rendering of the field's integer nor a text kept in the field: list entries are named by something else than their position")
		return
	}
	// the text is kept in the field: every store into that member must be the rendering of what is stored into i
	n := 0
	for _, fn := range c.SrcFuncs() {
		if fn.Pkg != c.SSA[""] {
			continue
		}
		Instrs(fn, false, func(in ssa.Instruction) {
			st, ok := in.(*ssa.Store)
			if !ok {
				return
			}
			fa, ok := st.Addr.(*ssa.FieldAddr)
			if !ok {
				return
			}
			nt, f, ok := FieldOf(fa)
			if !ok || nt != idxT || f != viaField {
				return
			}
			n++
			x := renderedInt(st.Val)
			good := false
			if x != nil {
				// the integer stored into member i of the same object
				for _, ref := range *fa.X.Referrers() {
					if fa2, ok := ref.(*ssa.FieldAddr); ok {
						if _, f2, _ := FieldOf(fa2); f2 == "i" {
							for _, r2 := range *fa2.Referrers() {
								if st2, ok := r2.(*ssa.Store); ok && st2.Addr == ssa.Value(fa2) {
									if st2.Val == x || SameValue(st2.Val, x) {
										good = true
									}
									if cv, ok := st2.Val.(*ssa.Convert); ok && (cv.X == x || SameValue(cv.X, x)) {
										good = true
									}
									if cv, ok := x.(*ssa.Convert); ok && (cv.X == st2.Val || SameValue(cv.X, st2.Val)) {
										good = true
									}
								}
							}
						}
					}
				}
			}
			r.Check(good, "R15g", c.FnName(fn), "stored index text", c.Pos(st.Pos()), "the text kept in the field is the rendering of the integer kept next to it",
				"an index field is built with a text that is not the decimal rendering of its integer (the user's spelling, say): the entry is stored at the integer's position under another name — Path(), FlattenedKeys and diff report a key that does not exist")
		})
	}
	if n == 0 {
		r.Bad("R15g", name, "renders its integer", c.Pos(str.Pos()), "idxField.String() returns member "+viaField+", which nothing assigns")
	}
}

// emptyPathRule (R15m): "the path is empty" does not mean "at the root" — a top-level setting named "" has the empty
// path too, and what lies below it is below it (".x", not "x"). The functions that produce paths (context.path,
// context.pathOf, the FlattenedKeys family and the string helpers they call) therefore never decide on a path *text*
// being empty: neither the result of path/pathOf/Path/PathOf nor a parameter that receives one is compared with "".
// The root is recognised by its context (R15j).
func emptyPathRule(c *Ctx, r *Report) {
	r.Rule("R15m", "no function that produces paths compares a path text with the empty string (the root is told by its context, not by an empty path)", 4)
	ctxT := c.Named("", "context")
	scope := map[*ssa.Function]bool{}
	var order []*ssa.Function
	add := func(fn *ssa.Function) {
		if fn != nil && !scope[fn] && len(fn.Blocks) > 0 {
			scope[fn] = true
			order = append(order, fn)
		}
	}
	for _, n := range []string{"path", "pathOf"} {
		if fn := c.MethodImpl(types.NewPointer(ctxT), n); fn != nil {
			add(declared(c, fn))
		}
	}
	for _, n := range []string{"FlattenedKeys", "flattenedKeys", "Path", "PathOf"} {
		add(c.TryMethod("", "Config", n))
	}
	add(c.TryFunc("", "appendFlattenedKeys"))
	returnsText := func(fn *ssa.Function) bool {
		res := fn.Signature.Results()
		for i := 0; i < res.Len(); i++ {
			t := typeStr(res.At(i).Type())
			if t == "string" || t == "[]string" {
				return true
			}
		}
		return false
	}
	for i := 0; i < len(order); i++ {
		for _, ci := range CallsIn(order[i], true) {
			if g := ci.Common().StaticCallee(); g != nil && g.Pkg == c.SSA[""] && returnsText(g) && !strings.HasPrefix(g.Name(), "raise") {
				add(g)
			}
		}
	}
	isPathCall := func(v ssa.Value) bool {
		call, ok := v.(*ssa.Call)
		if !ok {
			return false
		}
		switch calledName(call) {
		case "path", "pathOf", "Path", "PathOf":
			g := call.Call.StaticCallee()
			return g != nil && g.Pkg == c.SSA[""]
		}
		return false
	}
	// parameters that receive a path at some call site inside the scope (to a fixpoint)
	pathParam := map[*ssa.Parameter]bool{}
	var isPath func(v ssa.Value) bool
	isPath = func(v ssa.Value) bool {
		for _, s := range append(Sources(v), v) {
			if isPathCall(s) {
				return true
			}
			if p, ok := s.(*ssa.Parameter); ok && pathParam[p] {
				return true
			}
			if b, ok := s.(*ssa.BinOp); ok && b.Op == token.ADD && isString(b.Type()) {
				if isPath(b.X) || isPath(b.Y) {
					return true
				}
			}
		}
		return false
	}
	for changed := true; changed; {
		changed = false
		for _, fn := range order {
			for _, ci := range CallsIn(fn, true) {
				g := ci.Common().StaticCallee()
				if g == nil || !scope[g] {
					continue
				}
				for i, a := range ci.Common().Args {
					if i < len(g.Params) && isString(g.Params[i].Type()) && !pathParam[g.Params[i]] && isPath(a) {
						pathParam[g.Params[i]] = true
						changed = true
					}
				}
			}
		}
	}
	for _, fn := range order {
		bad, pos := "", fn.Pos()
		Instrs(fn, true, func(in ssa.Instruction) {
			b, ok := in.(*ssa.BinOp)
			if !ok || (b.Op != token.EQL && b.Op != token.NEQ) {
				return
			}
			for _, pr := range [][2]ssa.Value{{b.X, b.Y}, {b.Y, b.X}} {
				if k, isK := pr[1].(*ssa.Const); isK && k.Value != nil && k.Value.ExactString() == `""` && isString(pr[0].Type()) && isPath(pr[0]) {
					bad, pos = pr[0].Name(), b.Pos()
				}
			}
		})
		r.Check(bad == "", "R15m", c.FnName(fn), "no decision on an empty path text", c.Pos(pos), "no path text is compared with \"\"", "a path text ("+bad+") is compared with the empty string to tell the root: a top-level setting named \"\" has the empty path as well, so everything below it loses its leading separator (FlattenedKeys and PathOf report .x as x — the name of another setting; diff compares the wrong keys)")
	}
}

// diffOrderRule (R15n): CompareConfigs relates the keys of the two configurations. Today it does so by membership (a
// map from key to verdict), which needs nothing from FlattenedKeys but the set of keys. A comparison of the two lists
// by position and order (a merge walk: `oldKeys[i] < newKeys[j]`) is correct only if both lists are sorted by exactly
// that order — an agreement between a reader in package diff and a writer in the root package that no type states.
// If the reader compares keys by the string order, the writer's last step must be sort.Strings on what it returns.
func diffOrderRule(c *Ctx, r *Report) {
	r.Rule("R15n", "CompareConfigs relates the keys of FlattenedKeys by equality and membership only; if it compares them by the string order, FlattenedKeys sorts what it returns with sort.Strings", 1)
	cmp := c.Func("diff", "CompareConfigs")
	fk := c.Method("", "Config", "FlattenedKeys")
	// values that are elements of a FlattenedKeys result
	fromKeys := func(v ssa.Value) bool {
		for _, src := range Sources(v) {
			ld, ok := src.(*ssa.UnOp)
			if !ok || ld.Op != token.MUL {
				continue
			}
			ia, ok := ld.X.(*ssa.IndexAddr)
			if !ok {
				continue
			}
			for _, s2 := range Sources(ia.X) {
				if call, ok := s2.(*ssa.Call); ok && call.Call.StaticCallee() == fk {
					return true
				}
			}
		}
		return false
	}
	ordered := ""
	for _, f := range WithAnon(cmp) {
		Instrs(f, false, func(in ssa.Instruction) {
			bo, ok := in.(*ssa.BinOp)
			if !ok {
				return
			}
			switch bo.Op {
			case token.LSS, token.GTR, token.LEQ, token.GEQ:
			default:
				return
			}
			if b, isB := bo.X.Type().Underlying().(*types.Basic); !isB || b.Info()&types.IsString == 0 {
				return
			}
			if fromKeys(bo.X) || fromKeys(bo.Y) {
				ordered = c.Pos(bo.Pos())
			}
		})
	}
	if ordered == "" {
		r.OK("R15n", c.FnName(cmp), "keys related by membership", c.Pos(cmp.Pos()), "no ordered comparison of flattened keys: the verdict needs the sets of keys only")
		return
	}
	// the writer's side: what FlattenedKeys returns went through sort.Strings, and through no other sort
	sorted, other := false, ""
	for _, ci := range CallsIn(fk, false) {
		g := ci.Common().StaticCallee()
		if g == nil || g.Pkg == nil || g.Pkg.Pkg.Path() != "sort" {
			continue
		}
		if g.Name() == "Strings" {
			for _, ret := range Returns(fk) {
				if sameSrc(RetVal(ret, 0), ci.Common().Args[0]) {
					sorted = true
				}
			}
		} else {
			other = g.Name()
		}
	}
	r.Check(sorted && other == "", "R15n", c.FnName(cmp), "keys related by membership", c.Pos(cmp.Pos()), "ordered comparison at "+ordered+", and FlattenedKeys returns sort.Strings order",
		"CompareConfigs compares flattened keys by the string order (at "+ordered+") but FlattenedKeys does not return them in sort.Strings order (other sort: "+other+"): where the two orders disagree (a.2 / a.10, http / http-alt) a key that both configurations have is reported as added and removed")
}

// keysAsRenderedRule (R15p): what FlattenedKeys returns are the paths of the settings as the contexts render them —
// collected, sorted, returned. Text surgery on the keys on the way out (a prefix cut off, a separator trimmed, a
// replacement) produces strings that are no paths of the tree: a key relative to a sub-configuration loses its leading
// separator when the base is the root and the first name is "" ({"": {"x": 1}} reported as x, which Has denies).
func keysAsRenderedRule(c *Ctx, r *Report) {
	r.Rule("R15p", "FlattenedKeys returns the rendered paths as they are: between their collection and the return no strings.Trim* / Replace* / Cut* / Fields / Split call and no slicing rewrites a key", 1)
	fk := c.Method("", "Config", "FlattenedKeys")
	bad := ""
	for _, f := range WithAnon(fk) {
		Instrs(f, false, func(in ssa.Instruction) {
			switch x := in.(type) {
			case ssa.CallInstruction:
				g := x.Common().StaticCallee()
				if g == nil || g.Pkg == nil || g.Pkg.Pkg.Path() != "strings" {
					return
				}
				n := g.Name()
				if strings.HasPrefix(n, "Trim") || strings.HasPrefix(n, "Replace") || strings.HasPrefix(n, "Cut") || n == "Fields" || strings.HasPrefix(n, "Split") || n == "Map" || n == "ToLower" || n == "ToUpper" {
					bad = "strings." + n + " at " + c.Pos(x.Pos())
				}
			case *ssa.Slice:
				if b, ok := x.X.Type().Underlying().(*types.Basic); ok && b.Info()&types.IsString != 0 {
					bad = "a string is sliced at " + c.Pos(x.Pos())
				}
			}
		})
	}
	r.Check(bad == "", "R15p", c.FnName(fk), "keys returned as rendered", c.Pos(fk.Pos()), "no rewriting of key text in FlattenedKeys",
		"FlattenedKeys rewrites the text of its keys ("+bad+"): what it returns are then no longer the paths the contexts render — a key can lose a separator that belongs to it (a setting named \"\" at the top) and name a setting that Has denies, and the diff compares those texts")
}
