package main

// C07 R07g — reflect.Value.Set* and Addr panic on a value that is not addressable. Every such call in
// the root package must have a receiver that is provably addressable: by construction (reflect.New /
// MakeSlice element / field or element of an addressable value), under a CanSet/CanAddr test, or
// because every caller hands in a suitable value (contract on the parameter, followed over the
// call graph). Facts are computed on E7 normal forms, which resolve locals and inline the loop-free
// helpers (accessField), over a small domain:
//
//	ADDR   addressable            NNPTR  a non-nil pointer (its Elem is addressable)
//	MAPNN  a non-nil map          PM     NNPTR or MAPNN
//	OKT    ADDR or MAPNN  ("usable unpack target": everything but a nil map by value)
//	SLICE  a slice (its elements are addressable)
//
// OKT becomes ADDR where the site knows the value is not a map (the dominating kind dispatch) or is
// a nil map (IsNil tested true).

import (
	"fmt"
	"go/token"
	"go/types"
	"sort"
	"strings"

	"golang.org/x/tools/go/ssa"
)

type rfact string

const (
	fADDR  rfact = "ADDR"
	fNNPTR rfact = "NNPTR"
	fMAPNN rfact = "MAPNN"
	fPM    rfact = "PM"
	fOKT   rfact = "OKT"
	fSLICE rfact = "SLICE"
)

type rfacts map[rfact]bool

func closeFacts(f rfacts) rfacts {
	if f[fADDR] {
		f[fOKT] = true
	}
	if f[fMAPNN] {
		f[fOKT] = true
		f[fPM] = true
	}
	if f[fNNPTR] {
		f[fPM] = true
	}
	return f
}

func meetFacts(a, b rfacts) rfacts {
	out := rfacts{}
	for k := range a {
		if b[k] {
			out[k] = true
		}
	}
	return out
}

func (f rfacts) String() string {
	var ks []string
	for k := range f {
		ks = append(ks, string(k))
	}
	sort.Strings(ks)
	return "{" + strings.Join(ks, ",") + "}"
}

type addrAnalysis struct {
	c        *Ctx
	r        *Report
	kt       *ssaKind
	depth    int
	selField string // set by proveField: the fact is wanted for this member of the struct value
}

type ssaKind struct {
	kinds []enumConst
}

// factsOfNF: must-facts of the value denoted by a normal form; hyp gives assumed facts for role leaves.
func factsOfNF(n *nf, hyp map[string]rfacts) rfacts {
	switch n.op {
	case "role":
		out := rfacts{}
		for k := range hyp[n.name] {
			out[k] = true
		}
		return closeFacts(out)
	case "alt":
		var out rfacts
		for i, a := range n.args {
			f := factsOfNF(a, hyp)
			if i == 0 {
				out = f
			} else {
				out = meetFacts(out, f)
			}
		}
		if out == nil {
			out = rfacts{}
		}
		return out
	case "call":
		name := n.name
		name = strings.TrimPrefix(name, modPath+".")
		arg := func(i int) rfacts {
			if i < len(n.args) {
				return factsOfNF(n.args[i], hyp)
			}
			return rfacts{}
		}
		switch {
		case name == "reflect.New":
			return closeFacts(rfacts{fNNPTR: true})
		case name == "reflect.MakeMap" || name == "reflect.MakeMapWithSize":
			return closeFacts(rfacts{fMAPNN: true})
		case name == "reflect.MakeSlice":
			return rfacts{fSLICE: true}
		case name == "(reflect.Value).Elem":
			if arg(0)[fNNPTR] {
				return closeFacts(rfacts{fADDR: true})
			}
		case name == "(reflect.Value).Field":
			if arg(0)[fADDR] {
				return closeFacts(rfacts{fADDR: true})
			}
		case name == "(reflect.Value).Index":
			if a := arg(0); a[fADDR] || a[fSLICE] {
				return closeFacts(rfacts{fADDR: true})
			}
		case name == "(reflect.Value).Slice":
			if arg(0)[fSLICE] {
				return rfacts{fSLICE: true}
			}
		case name == "(reflect.Value).Addr":
			return closeFacts(rfacts{fNNPTR: true})
		case name == "chaseValuePointers":
			a := arg(0)
			switch {
			case a[fADDR] || a[fNNPTR]:
				out := rfacts{fADDR: true}
				return closeFacts(out)
			case a[fMAPNN]:
				return closeFacts(rfacts{fMAPNN: true})
			case a[fPM] || a[fOKT]:
				return rfacts{fOKT: true}
			}
		case name == "pointerize":
			// pointerize(t, base, v) with t a pointer type different from base wraps v at least once
			if len(n.args) == 3 {
				t := n.args[0].String()
				if t == "tConfigPtr" || strings.HasPrefix(t, "reflect.PtrTo(") || strings.HasPrefix(t, "reflect.PointerTo(") {
					return closeFacts(rfacts{fNNPTR: true})
				}
			}
		case strings.HasPrefix(name, "tryTConfig#0"):
			// frozen contract, checked by tryTConfigContract: returns Elem() of a pointer made by pointerize
			return closeFacts(rfacts{fADDR: true})
		case name == "(reflect.Value).Convert":
			// conversion between a pointer type and another pointer type keeps the pointer
			if arg(0)[fNNPTR] {
				return closeFacts(rfacts{fNNPTR: true})
			}
		}
	}
	return rfacts{}
}

// suffices: which single hypotheses on role P make `want` true for n (given local strengthening)?
func sufficientHyps(n *nf, want rfact, strengthen func(rfacts) rfacts) []rfact {
	var out []rfact
	for _, h := range []rfact{fADDR, fNNPTR, fMAPNN, fPM, fOKT, fSLICE} {
		f := factsOfNF(n, map[string]rfacts{"P": closeFacts(rfacts{h: true})})
		if strengthen != nil {
			f = strengthen(f)
		}
		if f[want] {
			out = append(out, h)
		}
	}
	return out
}

func addressabilityRule(c *Ctx, r *Report) {
	r.Rule("R07g", "every reflect.Value.Set* / Addr receiver is addressable: by construction, under CanSet/CanAddr, or because every caller passes a usable target (contract on the parameter, checked at the call sites)", 12)
	a := &addrAnalysis{c: c, r: r}
	tryTConfigContract(c, r)
	setters := map[string]bool{"Set": true, "SetInt": true, "SetUint": true, "SetFloat": true, "SetBool": true, "SetString": true, "SetLen": true, "SetBytes": true, "Addr": true}
	for _, fn := range c.SrcFuncs() {
		if fn.Pkg != c.SSA[""] {
			continue
		}
		for _, ci := range CallsIn(fn, false) {
			g := ci.Common().StaticCallee()
			if g == nil || g.Pkg == nil || g.Pkg.Pkg.Path() != "reflect" || g.Signature.Recv() == nil || !setters[g.Name()] || !strings.Contains(g.String(), "reflect.Value") {
				continue
			}
			recv := ci.Common().Args[0]
			what := g.Name() + " receiver"
			r.Analysed["reflect Set/Addr sites"]++
			ok, why := a.prove(fn, recv, ci.(ssa.Instruction), fADDR, 0, map[string]bool{})
			if !ok {
				if ex := addrException(c.FnName(fn), g.Name()); ex != "" {
					r.Except("R07g", c.FnName(fn), what, c.Pos(ci.Pos()), ex)
					continue
				}
			}
			r.Check(ok, "R07g", c.FnName(fn), what, c.Pos(ci.Pos()), why, "reflect.Value."+g.Name()+" is called on a value that is not known to be addressable ("+why+"): it panics for a value held by an interface or a map element, a nil pointer target, a value passed by value")
		}
	}
}

func addrException(fn, method string) string {
	switch fn + "/" + method {
	case "ucfg.reifyMergeValue/Addr":
		return "Config branch: reached only when the field's type differs from its base type (`t == baseType` returns ErrPointerRequired before) and the pointer is not nil (handled before): old is the Elem of a non-nil pointer, which is addressable"
	}
	return ""
}

// prove: does value v (in fn, at instruction `at`) have fact `want` on every execution?
func (a *addrAnalysis) prove(fn *ssa.Function, v ssa.Value, at ssa.Instruction, want rfact, depth int, seen map[string]bool) (bool, string) {
	return a.proveAt(fn, v, at, nil, want, depth, seen)
}

// proveField: as prove, for field `field` of the struct value v (a fieldInfo handed over whole: its value member).
func (a *addrAnalysis) proveField(fn *ssa.Function, v ssa.Value, field string, at ssa.Instruction, want rfact, depth int, seen map[string]bool) (bool, string) {
	save := a.selField
	a.selField = field
	defer func() { a.selField = save }()
	return a.proveAt(fn, v, at, nil, want, depth, seen)
}

// proveAt: as prove, with extra conditions known on the edge leaving `at`'s block (used for phi edges).
func (a *addrAnalysis) proveAt(fn *ssa.Function, v ssa.Value, at ssa.Instruction, extra []Cond, want rfact, depth int, seen map[string]bool) (bool, string) {
	selField := a.selField
	a.selField = "" // applies to this value only, not to what is proved on the way
	defer func() { a.selField = selField }()
	applySel := func(n *nf) *nf {
		if selField != "" {
			return n.sel(selField)
		}
		return n
	}
	// 0. a value merged from several paths: each feasible incoming edge must establish the fact
	if phi, ok := v.(*ssa.Phi); ok && depth < 6 && len(extra) == 0 && selField == "" {
		kt, kinds := reflectKind(a.c)
		var notes []string
		all := true
		for i, e := range phi.Edges {
			q := phi.Block().Preds[i]
			if e == ssa.Value(phi) {
				continue
			}
			if a.edgeInfeasible(fn, q, phi.Block(), at.Block(), kt, kinds) {
				notes = append(notes, fmt.Sprintf("edge from block %d excluded by the kind dispatched on at the use", q.Index))
				continue
			}
			var ec []Cond
			if ifi, ok := lastInstr(q).(*ssa.If); ok && q.Succs[0] != q.Succs[1] {
				ec = append(ec, Cond{V: ifi.Cond, Truth: q.Succs[0] == phi.Block(), If: ifi})
			}
			ok, why := a.proveAt(fn, e, lastInstr(q), ec, want, depth+1, seen)
			if !ok {
				all = false
				notes = append(notes, fmt.Sprintf("edge from block %d: %s", q.Index, clip(why, 160)))
				break
			}
			notes = append(notes, fmt.Sprintf("edge from block %d: %s", q.Index, clip(why, 80)))
		}
		if all {
			return true, "on every feasible incoming path [" + strings.Join(notes, "; ") + "]"
		}
		// fall through to the other arguments (the merged value as a whole)
	}
	// 1. local conditions on the value itself
	local := a.localFactsX(fn, v, at, extra)
	if selField != "" {
		local = localInfo{facts: rfacts{}} // conditions on the struct are not conditions on its member
	}
	strengthen := func(f rfacts) rfacts {
		out := rfacts{}
		for k := range f {
			out[k] = true
		}
		for k := range local.facts {
			out[k] = true
		}
		out = closeFacts(out)
		if out[fOKT] && (local.notMap || local.isNil) {
			out[fADDR] = true
		}
		if out[fPM] && local.notMap {
			out[fNNPTR] = true
		}
		return closeFacts(out)
	}
	if strengthen(rfacts{})[want] {
		return true, "dominated by a test that establishes it (" + local.why + ")"
	}
	// 2. by construction
	b := newNF(a.c)
	var params []*ssa.Parameter
	for _, p := range fn.Params {
		params = append(params, p)
	}
	n := applySel(a.nfAt(b, v, at))
	if strengthen(factsOfNF(n, nil))[want] {
		return true, "by construction: " + clip(n.String(), 160) + localNote(local)
	}
	// 3. contract on one parameter
	if depth >= 4 {
		return false, "call chain too deep"
	}
	for _, p := range params {
		if !strings.Contains(p.Type().String(), "reflect.Value") && !isNamed(p.Type(), modPath, "fieldInfo") {
			continue
		}
		b2 := newNF(a.c)
		b2.Role(p, "P")
		infoParam := isNamed(p.Type(), modPath, "fieldInfo")
		if infoParam {
			// the field's info handed over whole: the contract is on its value member
			b2.bind[p] = &nf{op: "struct", name: "fieldInfo", fields: map[string]*nf{"value": {op: "role", name: "P"}}}
		}
		// a spilled parameter: bind the local it is copied into as well
		Instrs(fn, false, func(in ssa.Instruction) {
			if st, ok := in.(*ssa.Store); ok && st.Val == ssa.Value(p) {
				if al, ok := st.Addr.(*ssa.Alloc); ok {
					onlyThis := true
					for _, ref := range *al.Referrers() {
						if s2, ok := ref.(*ssa.Store); ok && s2 != st && s2.Addr == ssa.Value(al) {
							onlyThis = false
						}
					}
					if onlyThis {
						b2.bind[al] = b2.bind[p]
					}
				}
			}
		})
		n2 := applySel(a.nfAt(b2, v, at))
		if !strings.Contains(n2.String(), "$P") {
			continue
		}
		hyps := sufficientHyps(n2, want, strengthen)
		if len(hyps) == 0 {
			continue
		}
		key := fmt.Sprintf("%s/%s/%v", fn.String(), p.Name(), hyps)
		if seen[key] {
			return true, "recursive contract (assumed inductively)"
		}
		seen[key] = true
		// every call site must establish one of the sufficient hypotheses
		sites := a.callSites(fn)
		if sites == nil {
			return false, "the function's callers are not all static calls"
		}
		if len(sites) == 0 {
			return false, "no caller found for " + fn.Name()
		}
		idx := -1
		for i, q := range fn.Params {
			if q == p {
				idx = i
			}
		}
		var notes []string
		for _, cs := range sites {
			arg := cs.Common().Args[idx]
			okSite := false
			whySite := ""
			for _, h := range hyps {
				var ok bool
				var why string
				if infoParam {
					ok, why = a.proveField(cs.Parent(), arg, "value", cs.(ssa.Instruction), h, depth+1, seen)
				} else {
					ok, why = a.prove(cs.Parent(), arg, cs.(ssa.Instruction), h, depth+1, seen)
				}
				if ok {
					okSite = true
					whySite = string(h) + " " + why
					break
				}
				whySite = why
			}
			if !okSite {
				return false, fmt.Sprintf("parameter %s of %s needs one of %v, which the call at %s does not establish (%s)", p.Name(), fn.Name(), hyps, a.c.Pos(cs.Pos()), clip(whySite, 200))
			}
			notes = append(notes, a.c.FnName(cs.Parent())+": "+clip(whySite, 80))
		}
		return true, fmt.Sprintf("parameter %s carries one of %v at all %d call sites [%s]%s", p.Name(), hyps, len(sites), clip(strings.Join(notes, "; "), 300), localNote(local))
	}
	return false, "not derivable: " + clip(n.String(), 200)
}

func localNote(l localInfo) string {
	if l.why == "" {
		return ""
	}
	return " (" + l.why + ")"
}

func clip(s string, n int) string {
	if len(s) > n {
		return s[:n] + "…"
	}
	return s
}

// nfAt: normal form of v as seen at instruction `at`: results of multi-result calls to loop-free
// helpers are narrowed to the return sites consistent with the dominating conditions on the call's
// other results (skip == false, err == nil).
func (a *addrAnalysis) nfAt(b *nfBuilder, v ssa.Value, at ssa.Instruction) *nf {
	fn := at.Parent()
	conds := DomConds(at.Block())
	Instrs(fn, false, func(in ssa.Instruction) {
		call, ok := in.(*ssa.Call)
		if !ok || call.Referrers() == nil {
			return
		}
		g := call.Call.StaticCallee()
		if g == nil || !a.c.InRepo(g) || g.Signature.Results().Len() < 2 {
			return
		}
		sites := b.Sites(call)
		if len(sites) < 2 {
			return
		}
		extracts := map[int]*ssa.Extract{}
		for _, ref := range *call.Referrers() {
			if ex, ok := ref.(*ssa.Extract); ok {
				extracts[ex.Index] = ex
			}
		}
		keep := make([]bool, len(sites))
		for i := range keep {
			keep[i] = true
		}
		narrowed := false
		for _, cd := range conds {
			for j, ex := range extracts {
				want := ""
				if cd.V == ssa.Value(ex) { // boolean result used as the condition
					want = fmt.Sprint(cd.Truth)
				} else if bo, ok := cd.V.(*ssa.BinOp); ok && (bo.Op == token.EQL || bo.Op == token.NEQ) && (bo.X == ssa.Value(ex) && IsNilConst(bo.Y)) {
					isNil := (bo.Op == token.EQL) == cd.Truth
					if isNil {
						want = "nil"
					} else {
						want = "!nil"
					}
				}
				if want == "" {
					continue
				}
				for i, s := range sites {
					if j >= len(s) {
						continue
					}
					got := s[j].String()
					switch want {
					case "true", "false":
						if (got == "true" || got == "false") && got != want {
							keep[i] = false
							narrowed = true
						}
					case "nil":
						if got != "nil" && (s[j].op == "struct" || (s[j].op == "call" && (strings.Contains(s[j].name, "raise") || strings.Contains(s[j].name, "Errorf") || strings.Contains(s[j].name, "errors.New")))) {
							keep[i] = false
							narrowed = true
						}
					case "!nil":
						if got == "nil" {
							keep[i] = false
							narrowed = true
						}
					}
				}
			}
		}
		if !narrowed {
			return
		}
		for j, ex := range extracts {
			var xs []*nf
			for i, s := range sites {
				if keep[i] && j < len(s) {
					xs = append(xs, s[j])
				}
			}
			if len(xs) > 0 {
				b.bind[ex] = nfAlt(xs)
			}
		}
	})
	return b.Of(v)
}

type localInfo struct {
	facts  rfacts
	notMap bool
	isNil  bool
	why    string
}

// localFacts: what the dominating conditions at `at` say about v.
func (a *addrAnalysis) localFacts(fn *ssa.Function, v ssa.Value, at ssa.Instruction) localInfo {
	return a.localFactsX(fn, v, at, nil)
}

func (a *addrAnalysis) localFactsX(fn *ssa.Function, v ssa.Value, at ssa.Instruction, extra []Cond) localInfo {
	li := localInfo{facts: rfacts{}}
	var notes []string
	b := newNF(a.c)
	nv := b.Of(v).String()
	same := func(x ssa.Value) bool {
		return x == v || sameSrc(x, v) || b.Of(x).String() == nv
	}
	kt, kinds := reflectKind(a.c)
	nonNil := false
	for _, cd := range append(DomConds(at.Block()), extra...) {
		cv, truth := cd.V, cd.Truth
		for {
			u, ok := cv.(*ssa.UnOp)
			if !ok || u.Op != token.NOT {
				break
			}
			cv, truth = u.X, !truth
		}
		if call, ok := cv.(*ssa.Call); ok {
			if g := call.Call.StaticCallee(); g != nil && g.Pkg != nil && g.Pkg.Pkg.Path() == "reflect" && len(call.Call.Args) == 1 && same(call.Call.Args[0]) {
				switch g.Name() {
				case "CanSet", "CanAddr":
					if truth {
						li.facts[fADDR] = true
						notes = append(notes, g.Name()+"() tested true")
					}
				case "IsNil":
					if truth {
						li.isNil = true
						notes = append(notes, "IsNil() tested true")
					} else {
						nonNil = true
					}
				}
			}
		}
	}
	// kinds the value can have here: simulate every kind dispatch on the value (or on its pointer-chased type)
	const kMap, kPtr = 21, 22
	possible := map[int64]bool{}
	for _, k := range kinds {
		possible[k.Val] = true
	}
	restricted := false
	for _, d := range findDispatches(fn, kt) {
		tagNF := b.Of(d.Tag).String()
		onValue := tagNF == "(reflect.Value).Kind("+nv+")"
		onType := tagNF == "invoke Kind((reflect.Value).Type("+nv+"))" || tagNF == "invoke Kind("+modPath+".chaseTypePointers((reflect.Value).Type("+nv+")))"
		if !onValue && !onType {
			continue
		}
		if shortCircuitDispatch(fn, d, kt) {
			continue // `a == K1 || a == K2` feeding a boolean: not a switch; handled by kindAllowsIsNil below
		}
		sub := kindsReaching(d, kt, kinds, at.Block())
		if len(sub) == len(kinds)+1 {
			continue // every kind (and anything else) can get here: no information
		}
		for k := range possible {
			if !sub[k] {
				delete(possible, k)
			}
		}
		restricted = true
		if onType {
			// the dispatch is on the pointer-chased type: the value itself may still be a pointer
			possible[kPtr] = true
		}
	}
	if ok, _ := kindAllowsIsNil(v, at, map[int64]bool{kMap: true, kPtr: true}); ok {
		for k := range possible {
			if k != kMap && k != kPtr {
				delete(possible, k)
			}
		}
		restricted = true
	}
	if restricted {
		var ks []string
		for _, kc := range kinds {
			if possible[kc.Val] {
				ks = append(ks, kc.Name)
			}
		}
		notes = append(notes, "kind in "+strings.Join(ks, "|"))
		if !possible[kMap] {
			li.notMap = true
		}
		if nonNil {
			onlyPM := true
			for k := range possible {
				if k != kMap && k != kPtr {
					onlyPM = false
				}
			}
			if onlyPM && len(possible) > 0 {
				li.facts[fPM] = true
				if !possible[kMap] {
					li.facts[fNNPTR] = true
				}
				if !possible[kPtr] {
					li.facts[fMAPNN] = true
				}
				notes = append(notes, "IsNil() tested false")
			}
		}
	}
	li.facts = closeFacts(li.facts)
	li.why = strings.Join(notes, ", ")
	return li
}

// callSites: the static call sites of fn inside the repository; nil if fn is also used as a value.
func (a *addrAnalysis) callSites(fn *ssa.Function) []ssa.CallInstruction {
	var out []ssa.CallInstruction
	asValue := false
	for _, g := range a.c.SrcFuncs() {
		Instrs(g, false, func(in ssa.Instruction) {
			if ci, ok := in.(ssa.CallInstruction); ok && ci.Common().StaticCallee() == fn {
				out = append(out, ci)
				return
			}
			for _, op := range in.Operands(nil) {
				if *op == ssa.Value(fn) {
					asValue = true
				}
			}
		})
	}
	if asValue {
		return nil
	}
	if out == nil {
		out = []ssa.CallInstruction{}
	}
	return out
}

// tryTConfigContract: every successful return of tryTConfig yields x.Elem() where x comes from
// pointerize to a pointer type (so the result is addressable) — the frozen fact used by factsOfNF.
func tryTConfigContract(c *Ctx, r *Report) {
	fn := c.TryFunc("", "tryTConfig")
	if fn == nil {
		return
	}
	n := 0
	for _, ret := range Returns(fn) {
		if okv, isC := ConstBool(RetVal(ret, 1)); !isC || !okv {
			continue
		}
		n++
		form := newNF(c).Of(RetVal(ret, 0)).String()
		good := strings.HasPrefix(form, "(reflect.Value).Elem(") && strings.Contains(form, "pointerize(") && (strings.Contains(form, "tConfigPtr") || strings.Contains(form, "reflect.PtrTo("))
		r.Check(good, "R07g", c.FnName(fn), "returns addressable", c.Pos(ret.Pos()), "Elem() of a pointer produced by pointerize", "tryTConfig no longer returns the Elem of a pointer it made: its callers take the address of the result ("+clip(form, 200)+")")
	}
	if n == 0 {
		r.add("R07g", c.FnName(fn), "returns addressable", c.Pos(fn.Pos()), Undecided, true, "no successful return found in tryTConfig")
	}
}

// shortCircuitDispatch: the kind tests of d feed a boolean phi (a || b, a && b) instead of selecting case bodies.
func shortCircuitDispatch(fn *ssa.Function, d *dispatch, kt types.Type) bool {
	for _, b := range fn.Blocks {
		ifi, ok := lastInstr(b).(*ssa.If)
		if !ok {
			continue
		}
		if tag, _, ok := enumTest(ifi.Cond, kt); !ok || tag != d.Tag || !d.IsTest(b) {
			continue
		}
		for _, su := range b.Succs {
			if len(su.Instrs) > 0 {
				if phi, ok := su.Instrs[0].(*ssa.Phi); ok {
					if bt, ok := phi.Type().Underlying().(*types.Basic); ok && bt.Info()&types.IsBoolean != 0 {
						return true
					}
				}
			}
		}
	}
	// tests whose result is stored/used as a value rather than branched on
	for _, b := range fn.Blocks {
		for _, in := range b.Instrs {
			if bo, ok := in.(*ssa.BinOp); ok {
				// (a carried operand belongs to the chain whose test block leads to it — another dispatch on the same
				// tag value elsewhere in the function is not concerned)
				attached := d.IsTest(b)
				if !attached && !isIfCond(bo) {
					for _, pr := range b.Preds {
						if d.IsTest(pr) {
							attached = true
						}
					}
				}
				if tag, _, ok := enumTest(bo, kt); ok && tag == d.Tag && attached {
					for _, ref := range *bo.Referrers() {
						if _, isIf := ref.(*ssa.If); !isIf {
							return true
						}
					}
				}
			}
		}
	}
	return false
}

// simulateKind follows the chain of equality tests of dispatch d for tag == k: the blocks visited
// (tests and pass-through jumps) followed by the first block that is not part of the chain.
func simulateKind(d *dispatch, k int64, kt types.Type) []*ssa.BasicBlock {
	var path []*ssa.BasicBlock
	b := d.Head
	for steps := 0; steps < 256; steps++ {
		path = append(path, b)
		if ifi, ok := lastInstr(b).(*ssa.If); ok {
			if tag, c, isTest := enumTest(ifi.Cond, kt); isTest && tag == d.Tag && d.IsTest(b) {
				eq := c == k
				if ifi.Cond.(*ssa.BinOp).Op == token.NEQ {
					eq = !eq
				}
				if eq {
					b = b.Succs[0]
				} else {
					b = b.Succs[1]
				}
				continue
			}
		}
		if _, isJ := lastInstr(b).(*ssa.Jump); isJ && len(b.Instrs) == 1 && b != d.Head {
			b = b.Succs[0]
			continue
		}
		// the last operand of a short-circuit expression: the test is computed and carried into the join as a value
		if _, isJ := lastInstr(b).(*ssa.Jump); isJ && b != d.Head && len(b.Succs) == 1 && hasPhi(b.Succs[0]) {
			only := true
			for _, in := range b.Instrs[:len(b.Instrs)-1] {
				switch x := in.(type) {
				case *ssa.DebugRef:
				case *ssa.BinOp:
					if tag, _, isTest := enumTest(x, kt); !isTest || tag != d.Tag {
						only = false
					}
				default:
					only = false
				}
			}
			if only {
				b = b.Succs[0]
				continue
			}
		}
		// the chain was a short-circuit expression (`isC := k == A || k == B`): its join holds the boolean as a φ and
		// branches on it — the way in decides the outcome
		if ifi, ok := lastInstr(b).(*ssa.If); ok && len(path) >= 2 {
			if phi, isPhi := ifi.Cond.(*ssa.Phi); isPhi && phi.Block() == b {
				prev := path[len(path)-2]
				var e ssa.Value
				for i, pr := range b.Preds {
					if pr == prev {
						e = phi.Edges[i]
					}
				}
				outcome := 0
				if e != nil {
					if cb, isC := ConstBool(e); isC {
						outcome = -1
						if cb {
							outcome = 1
						}
					} else if tag, c, isTest := enumTest(e, kt); isTest && tag == d.Tag {
						eq := c == k
						if e.(*ssa.BinOp).Op == token.NEQ {
							eq = !eq
						}
						outcome = -1
						if eq {
							outcome = 1
						}
					}
				}
				if outcome != 0 && len(b.Succs) == 2 {
					if outcome == 1 {
						b = b.Succs[0]
					} else {
						b = b.Succs[1]
					}
					// the successor is where the simulation ends
					path = append(path, b)
					return path
				}
			}
		}
		return path
	}
	return path
}

// kindsReaching: the tag values for which execution can get from the dispatch to block B (over-
// approximation by CFG reachability from the case body). The pseudo-kind -1 stands for "any value
// that is not a declared kind constant"; a result of len(kinds)+1 entries means no information.
func kindsReaching(d *dispatch, kt types.Type, kinds []enumConst, B *ssa.BasicBlock) map[int64]bool {
	out := map[int64]bool{}
	memo := map[*ssa.BasicBlock]bool{}
	reaches := func(t *ssa.BasicBlock) bool {
		if v, ok := memo[t]; ok {
			return v
		}
		// (not through the dispatch again: inside a loop the next round dispatches afresh)
		r := t == B || reachableAvoiding(t, B, map[*ssa.BasicBlock]bool{d.Head: true})
		memo[t] = r
		return r
	}
	if !d.Head.Dominates(B) {
		// B is not below the dispatch at all
		for _, k := range kinds {
			out[k.Val] = true
		}
		out[-1] = true
		return out
	}
	for _, k := range append(append([]enumConst{}, kinds...), enumConst{"other", -1}) {
		v := k.Val
		if v == -1 {
			v = 9999
		}
		path := simulateKind(d, v, kt)
		if reaches(path[len(path)-1]) {
			out[k.Val] = true
		}
	}
	return out
}

// edgeInfeasible: no tag value can both travel the CFG edge q -> j (as part of some kind dispatch)
// and reach block `use` according to another dispatch on the same expression.
func (a *addrAnalysis) edgeInfeasible(fn *ssa.Function, q, j, use *ssa.BasicBlock, kt types.Type, kinds []enumConst) bool {
	b := newNF(a.c)
	ds := findDispatches(fn, kt)
	for _, d1 := range ds {
		// (a short-circuit chain is fine here: simulateKind follows it through the boolean's join)
		// kinds that take the edge q -> j inside d1's chain
		onEdge := map[int64]bool{}
		any := false
		for _, k := range append(append([]enumConst{}, kinds...), enumConst{"other", -1}) {
			v := k.Val
			if v == -1 {
				v = 9999
			}
			path := simulateKind(d1, v, kt)
			for i := 0; i+1 < len(path); i++ {
				if path[i] == q && path[i+1] == j {
					onEdge[k.Val] = true
					any = true
				}
			}
		}
		if !any {
			continue
		}
		t1 := b.Of(d1.Tag).String()
		for _, d2 := range ds {
			if d2 == d1 || shortCircuitDispatch(fn, d2, kt) || b.Of(d2.Tag).String() != t1 {
				continue
			}
			if !j.Dominates(d2.Head) {
				continue // the second dispatch is not downstream of the join
			}
			at2 := kindsReaching(d2, kt, kinds, use)
			common := false
			for k := range onEdge {
				if at2[k] {
					common = true
				}
			}
			if !common {
				return true
			}
		}
	}
	return false
}

// typeAgreementRule (R07h): reflect.Value.Set / SetMapIndex / MapIndex panic when the value's type is
// not assignable to the destination's. The primitive converters are handed the destination type;
// every value they return for it must have been converted to that type (named types: `type Level
// string` is not string), or come from a sibling converter given the same type, or be the stored
// value under a test that its Go type is the destination type. Map keys are converted to the map's
// key type.
func typeAgreementRule(c *Ctx, r *Report) {
	r.Rule("R07h", "every value a primitive converter returns for a destination type T is x.Convert(T), a sibling converter's result for T, or the stored value under gotype == T; map keys are converted to the map's key type", 10)
	check := func(fn *ssa.Function, tparam *ssa.Parameter) {
		for _, ret := range Returns(fn) {
			if len(ret.Results) != 2 || !IsNilConst(RetVal(ret, 1)) {
				continue
			}
			b := newNF(c)
			b.Role(tparam, "T")
			n := (&addrAnalysis{c: c, r: r}).nfAt(b, RetVal(ret, 0), ret)
			alts := []*nf{n}
			if n.op == "alt" {
				alts = n.args
			}
			ok := true
			bad := ""
			for _, a := range alts {
				s := a.String()
				switch {
				case a.op == "call" && a.name == "(reflect.Value).Convert" && len(a.args) == 2 && a.args[1].String() == "$T":
				case a.op == "call" && strings.HasSuffix(s, "$T)") && (strings.HasPrefix(a.name, "dynamic#0") || strings.Contains(a.name, modPath+".reify")):
					// sibling converter (reifyInt/..., or the extras entry for T) called with the same T
				case strings.HasPrefix(s, "invoke reflect#0("):
					// the stored value itself: only under gotype == T
					under := false
					for _, cd := range DomConds(ret.Block()) {
						if bo, isB := cd.V.(*ssa.BinOp); isB && bo.Op == token.EQL && cd.Truth {
							f := b.Of(bo.X).String() + " " + b.Of(bo.Y).String()
							if strings.Contains(f, ".gotype") && strings.Contains(f, "$T") {
								under = true
							}
						}
					}
					if !under {
						ok, bad = false, s
					}
				default:
					ok, bad = false, s
				}
			}
			r.Analysed["converter returns"]++
			r.Check(ok, "R07h", c.FnName(fn), "value of the destination type", c.Pos(ret.Pos()), clip(n.String(), 200),
				"a converter returns a value that was not converted to the destination type ("+clip(bad, 200)+"): for a named destination type the later Set panics, or pointerize searches forever for a pointer depth at which the types match")
		}
	}
	if fn := c.TryFunc("", "doReifyPrimitive"); fn != nil {
		for _, p := range fn.Params {
			if p.Name() == "baseType" {
				check(fn, p)
			}
		}
	}
	for _, name := range []string{"reifyInt", "reifyUint", "reifyFloat", "reifyBool"} {
		if fn := c.TryFunc("", name); fn != nil {
			for _, p := range fn.Params {
				if strings.HasSuffix(p.Type().String(), "reflect.Type") {
					check(fn, p)
				}
			}
		}
	}
	// map keys
	for _, fn := range c.SrcFuncs() {
		if fn.Pkg != c.SSA[""] {
			continue
		}
		for _, ci := range CallsIn(fn, false) {
			g := ci.Common().StaticCallee()
			if g == nil || (g.String() != "(reflect.Value).SetMapIndex" && g.String() != "(reflect.Value).MapIndex") {
				continue
			}
			b := newNF(c)
			m := b.Of(ci.Common().Args[0]).String()
			k := b.Of(ci.Common().Args[1])
			ks := k.String()
			ok := false
			why := ks
			switch {
			case k.op == "call" && k.name == "(reflect.Value).Convert" && len(k.args) == 2 && k.args[1].String() == "invoke Key((reflect.Value).Type("+m+"))":
				ok, why = true, "key converted to the map's key type"
			case strings.Contains(ks, "index((reflect.Value).MapKeys("+m+")") || strings.Contains(ks, "(reflect.Value).MapKeys("+m+")"):
				ok, why = true, "key taken from the map's own keys"
			case strings.Contains(ks, "MapKeys("):
				// keys of the same map reached through a local (sorted copy)
				ok, why = true, "key taken from a key list of the map"
			}
			r.Analysed["map key uses"]++
			r.Check(ok, "R07h", c.FnName(fn), g.Name()+" key type", c.Pos(ci.Pos()), why, "a map is indexed with a key that was not converted to the map's key type ("+clip(ks, 160)+"): for a map keyed by a named string type MapIndex / SetMapIndex panic")
		}
	}
}

// isIfCond: the comparison is only branched on.
func isIfCond(bo *ssa.BinOp) bool {
	for _, ref := range *bo.Referrers() {
		if _, ok := ref.(*ssa.If); !ok {
			return false
		}
	}
	return len(*bo.Referrers()) > 0
}
