package main

// C02 — variable expansion is late-bound substitution with a fixed lookup order.
// R02a no copy path evaluates an expression; R02b ${} parsing is gated by VarExp; R02c expression
// trees are immutable after parse; R02d an unresolved reference is never a success;
// R02e the lookup order is tree root, then Env configs last-to-first, then resolvers last-to-first.

import (
	"fmt"
	"go/token"
	"go/types"
	"sort"
	"strings"

	"golang.org/x/tools/go/ssa"
)

func init() {
	register("C02", "Call-graph reachability (no cpy implementation, nor anything it calls, reaches cfgDynamic.getValue, a dynValue.getValue, a varEvaler.eval or reference.resolve*: references stay unresolved across Merge and are evaluated at read time), dominance (parseSplice only under options.varexp), a type-based store rule (no store into reference/splice/expansion/dynamic-value objects outside their constructors), an error-discipline path rule on resolveEnv (success only after a resolver succeeded; otherwise a non-nil error), and shape rules for the lookup order (resolveRef starts at the root of the owning tree and then takes Env configs from the end of the list; resolveEnv walks the resolvers from the last index down; resolvers are consulted only when the tree lookup found nothing and failed non-critically). Operator semantics and escapes are value-level and not decided.", checkC02)
}

func checkC02(c *Ctx, r *Report) {
	defer spliceThroughLexerRule(c, r)
	r.Assumption("operator semantics (${x:d}, ${x:+a}, ${x:?m}), escapes and typed results of single references are value-level and not decided")
	getValue := c.Method("", "cfgDynamic", "getValue")
	valueT := c.Named("", "value")
	iface := valueT.Underlying().(*types.Interface)

	// evaluation functions
	eval := map[*ssa.Function]string{getValue: "cfgDynamic.getValue"}
	for _, n := range []string{"resolve", "resolveRef", "resolveEnv", "eval"} {
		if f := c.TryMethod("", "reference", n); f != nil {
			eval[f] = "reference." + n
		}
	}
	for _, tn := range []string{"refDynValue", "spliceDynValue"} {
		if f := c.TryMethod("", tn, "getValue"); f != nil {
			eval[f] = tn + ".getValue"
		}
	}
	for _, tn := range []string{"splice", "expansionSingle", "expansionDefault", "expansionAlt", "expansionErr", "constExp"} {
		if f := c.TryMethod("", tn, "eval"); f != nil {
			eval[f] = tn + ".eval"
		}
	}
	if len(eval) < 10 {
		undecidedf("ANCHOR-MISSING: evaluation functions (%d found)", len(eval))
	}

	r.Rule("R02a", "no implementation of value.cpy, and nothing it calls, reaches an evaluation function (late binding: merging copies expressions unresolved)", 8)
	ncpy := 0
	for _, t := range c.Implementations("", iface) {
		f := c.MethodImpl(t, "cpy")
		if f == nil {
			continue
		}
		f = declared(c, f)
		ncpy++
		reach := c.Reach([]*ssa.Function{f}, nil, nil)
		hit := ""
		for g, n := range eval {
			if reach[g] {
				hit = n + " via " + strings.Join(c.PathTo(f, g, nil), " -> ")
			}
		}
		r.Check(hit == "", "R02a", c.FnName(f), "cpy evaluates nothing", c.Pos(f.Pos()), "no evaluation function reachable", "copying a value evaluates an expression ("+hit+"): references freeze at merge time instead of observing later values")
	}
	// positive control
	ts := c.Method("", "cfgDynamic", "toString")
	r.Check(c.Reach([]*ssa.Function{ts}, nil, nil)[getValue], "R02a", c.FnName(ts), "control: toString reaches getValue", c.Pos(ts.Pos()), "the reachability query is not vacuous", "positive control failed: cfgDynamic.toString does not reach getValue in the call graph")

	r.Rule("R02b", "every call of parseSplice is dominated by the true edge of a read of options.varexp", 1)
	ps := c.Func("", "parseSplice")
	n := 0
	for _, fn := range c.SrcFuncs() {
		for _, ci := range CallsTo(fn, ps, true) {
			n++
			ok := false
			for _, cd := range DomConds(ci.(ssa.Instruction).Block()) {
				v, truth := cd.V, cd.Truth
				if u, isU := v.(*ssa.UnOp); isU && u.Op == token.NOT {
					v, truth = u.X, !truth
				}
				if IsLoadOfField(v, "options", "varexp") && truth {
					ok = true
				}
			}
			r.Check(ok, "R02b", c.FnName(fn), "parseSplice under VarExp", c.Pos(ci.Pos()), "dominated by opts.varexp == true", "strings are parsed for ${...} without the VarExp option")
		}
	}
	if n == 0 {
		r.Bad("R02b", c.FnName(ps), "callers", c.Pos(ps.Pos()), "parseSplice has no callers")
	}

	r.Rule("R02c", "no store into reference / splice / expansion / dynamic-value / path objects outside the function constructing them", 10)
	immutableStoresRule(c, r, "R02c")

	r.Rule("R02d", "resolveEnv reports success only with a resolver's result under err == nil; all other returns carry a non-nil error", 2)
	resolveEnvRule(c, r, "R02d")

	computedNameRule(c, r)
	dynIdentityRule(c, r)
	r.Rule("R02e", "lookup order: resolveRef looks first in cfgRoot(owning config), then in env[len(env)-1] shrinking from the end; resolveEnv walks resolvers from len-1 downwards; resolvers are asked only after the tree lookup returned nothing and no critical error", 5)
	lookupOrder(c, r)
}

// computedNameRule (R02f): every evaluator that builds a reference from a name computed at read time
// (nested ${${k}.x}, and the left side of the :, :+ and :? operators) splits the name the same way:
// with the separator captured in the expansion object when the string was parsed, and the index /
// escape settings of the reading call. Sibling agreement on E7 normal forms.
func computedNameRule(c *Ctx, r *Report) {
	r.Rule("R02f", "all evaluators that build a reference from a computed name split it identically: parsePath(name, <separator captured at parse time in the expansion object>, reader's maxIdx / enableNumKeys / escapePath)", 4)
	newRef := c.Func("", "newReference")
	forms := map[string][]string{}
	for _, tn := range []string{"expansionSingle", "expansionDefault", "expansionAlt", "expansionErr"} {
		fn := c.TryMethod("", tn, "eval")
		if fn == nil {
			continue
		}
		for _, ci := range CallsTo(fn, newRef, false) {
			call := ci.(*ssa.Call)
			b := newNF(c)
			b.Role(fn.Params[0], "E")
			for _, p := range fn.Params[1:] {
				if isNamed(derefType(p.Type()), modPath, "options") {
					b.Role(p, "O")
				}
			}
			// the computed name: result #0 of an eval call on a component of the expansion
			Instrs(fn, false, func(in ssa.Instruction) {
				if ex, ok := in.(*ssa.Extract); ok && ex.Index == 0 {
					if cl, ok := ex.Tuple.(*ssa.Call); ok && cl.Call.IsInvoke() && cl.Call.Method.Name() == "eval" {
						b.Role(ex, "name")
					}
				}
			})
			form := b.Of(call.Call.Args[0]).String()
			form = strings.ReplaceAll(form, ".expansion.", ".") // embedded struct of the operator expansions
			forms[form] = append(forms[form], c.FnName(fn))
			r.Analysed["computed-name evaluators"]++
			sepOK := strings.Contains(form, "($name, deref($E).pathSep,") && !strings.Contains(form, "deref($O).pathSep")
			r.Check(sepOK, "R02f", c.FnName(fn), "separator of computed name", c.Pos(call.Pos()), form,
				"the computed name is not split with the separator captured when the string was parsed (a read without PathSep, e.g. through a child config, looks the name up as one literal key): "+form)
		}
	}
	if len(forms) > 1 {
		var ds []string
		for f, fns := range forms {
			ds = append(ds, strings.Join(fns, ",")+": "+f)
		}
		sort.Strings(ds)
		r.Bad("R02f", "evaluators", "sibling agreement", "-", "the evaluators split a computed name differently: "+strings.Join(ds, " ;; "))
	} else if len(forms) == 1 {
		r.OK("R02f", "evaluators", "sibling agreement", "-", "one form for all evaluators")
	}
}

func lookupOrder(c *Ctx, r *Report) {
	rr := c.Method("", "reference", "resolveRef")
	name := c.FnName(rr)
	cfgRoot := c.Func("", "cfgRoot")
	// the config handed to Path.GetValue is cfgRoot(x) where x is phi(param cfg, env[len(env)-1])
	var look *ssa.Call
	for _, ci := range CallsIn(rr, false) {
		if f := ci.Common().StaticCallee(); f != nil && recvName(f) == "cfgPath" && f.Name() == "GetValue" {
			look, _ = ci.(*ssa.Call)
		}
	}
	if look == nil {
		r.add("R02e", name, "lookup", c.Pos(rr.Pos()), Undecided, true, "no Path.GetValue call in resolveRef")
		return
	}
	rootOK, firstOK, envOK := false, false, false
	var envDesc string
	if rc, ok := look.Call.Args[1].(*ssa.Call); ok && IsCallTo(rc, cfgRoot) {
		rootOK = true
		for _, s := range Sources(rc.Call.Args[0]) {
			switch x := s.(type) {
			case *ssa.Parameter:
				if x == rr.Params[1] {
					firstOK = true
				}
			case *ssa.UnOp:
				if ia, ok := x.X.(*ssa.IndexAddr); ok {
					// index must be len(slice)-1 of the same slice
					if isLenMinus1(ia.Index, ia.X) {
						envOK = true
					} else {
						envDesc = "index " + ia.Index.String()
					}
					// the slice shrinks from the end: some Slice of it with High == len-1 and no Low
					shr := false
					Instrs(rr, false, func(in ssa.Instruction) {
						if sl, ok := in.(*ssa.Slice); ok && sl.Low == nil && sl.High != nil && isLenMinus1(sl.High, sl.X) {
							shr = true
						}
					})
					envOK = envOK && shr
					// the other spelling: a counter that starts at len(env)-1 of the same (unchanged) slice and is
					// decremented by one on every way round the loop
					idxV, off := ia.Index, int64(0)
					if b, ok := idxV.(*ssa.BinOp); ok {
						if k, isK := ConstInt(b.Y); isK && (b.Op == token.SUB || b.Op == token.ADD) {
							idxV = b.X
							off = k
							if b.Op == token.SUB {
								off = -k
							}
						}
					}
					if phi, isPhi := idxV.(*ssa.Phi); isPhi && !envOK {
						init, dec, other := false, false, false
						for i, e := range phi.Edges {
							back := phi.Block().Dominates(phi.Block().Preds[i])
							switch {
							case !back && off == 0 && isLenMinus1(e, ia.X):
								init = true
							case !back && off == -1 && isLenOf(e, ia.X):
								init = true // counter of what is left: starts at len(env), reads env[counter-1]
							case back:
								if b, ok := e.(*ssa.BinOp); ok && b.X == ssa.Value(phi) {
									if k, isK := ConstInt(b.Y); isK && (b.Op == token.SUB && k == 1 || b.Op == token.ADD && k == -1) {
										dec = true
										continue
									}
								}
								other = true
							default:
								other = true
							}
						}
						if init && dec && !other {
							envOK = true
							envDesc = ""
						}
					}
				}
			}
		}
	}
	r.Check(rootOK, "R02e", name, "lookup from the root", c.Pos(look.Pos()), "Path.GetValue(cfgRoot(cfg))", "references are not looked up from the root of the tree the setting lives in")
	r.Check(firstOK, "R02e", name, "own tree first", c.Pos(look.Pos()), "the first config consulted is the owning one", "the first lookup is not made in the configuration tree the setting lives in")
	r.Check(envOK, "R02e", name, "Env last-to-first", c.Pos(look.Pos()), "env[len(env)-1], then env = env[:len(env)-1]", "Env configurations are not consulted most-recently-added first ("+envDesc+")")

	// a configuration that does not hold the name hands over to the next one: the lookup loop is left only with the
	// value found, when the environments are used up, or when there is no tree at all
	if lp := loopOf(rr, look.Block()); lp != nil {
		var found, lookErr ssa.Value
		if refs := look.Referrers(); refs != nil {
			for _, ref := range *refs {
				if ex, ok := ref.(*ssa.Extract); ok {
					if ex.Index == 0 {
						found = ex
					} else {
						lookErr = ex
					}
				}
			}
		}
		derives := func(v, from ssa.Value) bool {
			if from == nil {
				return false
			}
			if v == from {
				return true
			}
			for _, s := range Sources(v) {
				if s == from {
					return true
				}
			}
			return false
		}
		isCount := func(v ssa.Value) bool {
			for _, s := range append(Sources(v), v) {
				if call, ok := s.(*ssa.Call); ok && BuiltinName(call) == "len" {
					return true
				}
				if b, ok := s.(*ssa.BinOp); ok {
					for _, o := range []ssa.Value{b.X, b.Y} {
						for _, s2 := range append(Sources(o), o) {
							if call, ok := s2.(*ssa.Call); ok && BuiltinName(call) == "len" {
								return true
							}
						}
					}
				}
			}
			return false
		}
		n := 0
		hdr := loopHeader(lp)
		for _, rb := range rr.Blocks {
			// the ways out: every edge into a returning block behind the loop header
			if _, isRet := lastInstr(rb).(*ssa.Return); !isRet || lp[rb] || hdr == nil || !hdr.Dominates(rb) {
				continue
			}
			for _, b := range rb.Preds {
				ifi, _ := lastInstr(b).(*ssa.If)
				n++
				conds := DomConds(b)
				if ifi != nil {
					conds = append(append([]Cond{}, conds...), Cond{V: ifi.Cond, Truth: b.Succs[0] == rb, If: ifi})
				}
				kind, why := "", ""
				for _, cd := range ExpandConds(conds) {
					bo, ok := cd.V.(*ssa.BinOp)
					if !ok || cd.If != nil && !hdr.Dominates(cd.If.Block()) {
						continue
					}
					isNil := IsNilConst(bo.Y) || IsNilConst(bo.X)
					other := bo.X
					if IsNilConst(bo.X) {
						other = bo.Y
					}
					eq := bo.Op == token.EQL && cd.Truth || bo.Op == token.NEQ && !cd.Truth
					ne := bo.Op == token.NEQ && cd.Truth || bo.Op == token.EQL && !cd.Truth
					switch {
					case isNil && ne && derives(other, found):
						kind = "found"
					case isNil && eq && IsCallTo2(other, cfgRoot):
						// a configuration without a tree — Env(nil) — has nothing to offer; it is no reason to stop
						if why == "" {
							why = "the configuration asked is nil (Env(nil))"
						}
					case !isNil && (isCount(bo.X) || isCount(bo.Y)):
						if kind == "" {
							kind = "exhausted"
						}
					case isNil && eq && derives(other, found):
						why = "nothing was found (the value is nil)"
					case isNil && ne && derives(other, lookErr):
						if why == "" {
							why = "the lookup failed (the path does not exist)"
						}
					}
				}
				pos := c.Pos(lastPos(b))
				if kind != "" {
					r.OK("R02e", name, "nothing found goes on to the next environment", pos, "lookup ends: "+kind)
					continue
				}
				if why == "" {
					why = "of a condition that is neither the value found, nor the environments used up"
				}
				r.Bad("R02e", name, "nothing found goes on to the next environment", pos, "the lookup ends because "+why+" while Env configurations remain: a name that the owning tree does not hold is never looked up in the environments (it goes to the resolvers, or fails) although the property's order is tree, then Env, then resolvers")
			}
		}
		if n == 0 {
			r.add("R02e", name, "nothing found goes on to the next environment", c.Pos(look.Pos()), Undecided, true, "the lookup loop has no exit")
		}
	} else {
		r.add("R02e", name, "nothing found goes on to the next environment", c.Pos(look.Pos()), Undecided, true, "Path.GetValue is not called in a loop over the environments")
	}

	// the resolvers are siblings of the environments: one that fails — with ErrMissing or with an error of its own —
	// hands over to the next one; the loop is left only with an answer or when no resolver is left
	if renv := c.Method("", "reference", "resolveEnv"); renv != nil {
		var rcall ssa.Instruction
		for _, ci := range CallsIn(renv, false) {
			if ci.Common().StaticCallee() == nil && !ci.Common().IsInvoke() {
				rcall = ci.(ssa.Instruction) // the dynamic call of a resolver function
			}
		}
		if rcall == nil {
			r.add("R02e", c.FnName(renv), "a failing resolver hands over", c.Pos(renv.Pos()), Undecided, true, "no resolver call found")
		} else if lp := loopOf(renv, rcall.Block()); lp == nil {
			r.add("R02e", c.FnName(renv), "a failing resolver hands over", c.Pos(rcall.Pos()), Undecided, true, "the resolver is not called in a loop")
		} else {
			bad := ""
			for b := range lp {
				ifi, isIf := lastInstr(b).(*ssa.If)
				for si, su := range b.Succs {
					if lp[su] {
						continue
					}
					if !isIf {
						continue
					}
					cond := ifi.Cond
					truth := si == 0
					// the answer: err == nil
					if tv, neq, ok := nilTest(cond); ok && typeStr(tv.Type()) == "error" && truth != neq {
						continue
					}
					// no resolver left: a test on the counter
					if bo, ok := cond.(*ssa.BinOp); ok {
						if bt, isB := bo.X.Type().Underlying().(*types.Basic); isB && bt.Info()&types.IsInteger != 0 {
							continue
						}
					}
					bad = c.Pos(ifi.Pos())
				}
			}
			r.Check(bad == "", "R02e", c.FnName(renv), "a failing resolver hands over", c.Pos(rcall.Pos()), "the loop is left with an answer or when no resolver is left",
				"the resolver loop is left at "+bad+" under a condition on the resolver's error: a resolver that fails with an error of its own keeps the older resolvers from being asked, although the name may be known to one of them (the property's order is: every resolver, most recently added first)")
		}
	}

	re := c.Method("", "reference", "resolveEnv")
	// index of resolvers: phi starting at len-1 with step -1
	ok := false
	Instrs(re, false, func(in ssa.Instruction) {
		ia, isIA := in.(*ssa.IndexAddr)
		if !isIA || !IsLoadOfField(ia.X, "options", "resolvers") {
			return
		}
		phi, isPhi := ia.Index.(*ssa.Phi)
		if !isPhi {
			return
		}
		start, step := false, false
		for _, e := range phi.Edges {
			if b, isB := e.(*ssa.BinOp); isB && b.Op == token.SUB {
				if k, isK := ConstInt(b.Y); isK && k == 1 {
					if b.X == ssa.Value(phi) {
						step = true
					} else if call, isCall := b.X.(*ssa.Call); isCall && BuiltinName(call) == "len" {
						start = true
					}
				}
			}
		}
		if start && step {
			ok = true
		}
	})
	r.Check(ok, "R02e", c.FnName(re), "resolvers last-to-first", c.Pos(re.Pos()), "i := len(resolvers)-1; i--", "resolvers are not consulted most-recently-added first")

	// resolvers only after the tree lookup found nothing and no critical error
	crit := c.Func("", "criticalResolveError")
	for _, fn := range []*ssa.Function{c.Method("", "refDynValue", "getValue"), c.Method("", "reference", "resolve")} {
		rrCalls := CallsTo(fn, rr, false)
		reCalls := CallsTo(fn, re, false)
		good := len(rrCalls) == 1 && len(reCalls) == 1
		if good {
			rc := rrCalls[0].(*ssa.Call)
			good = InstrDominates(rc, reCalls[0])
			// the resolveEnv call is dominated by v == nil and criticalResolveError(err) == false
			nilOK, critOK := false, false
			for _, cd := range DomConds(reCalls[0].(ssa.Instruction).Block()) {
				if isNilTestOfExtract(cd, rc, 0, true) {
					nilOK = true
				}
				if call, isCall := cd.V.(*ssa.Call); isCall && IsCallTo(call, crit) && !cd.Truth {
					critOK = true
				}
			}
			good = good && nilOK && critOK
		}
		r.Check(good, "R02e", c.FnName(fn), "tree before resolvers", c.Pos(fn.Pos()), "resolveEnv only after resolveRef returned nil without a critical error", fmt.Sprintf("the resolvers are not consulted strictly after an unsuccessful, non-critical tree lookup (%d resolveRef, %d resolveEnv calls)", len(rrCalls), len(reCalls)))
	}
}

// isLenMinus1: v == len(of) - 1 (same slice value or same access path)
func isLenMinus1(v ssa.Value, of ssa.Value) bool {
	b, ok := v.(*ssa.BinOp)
	if !ok || b.Op != token.SUB {
		return false
	}
	if k, isK := ConstInt(b.Y); !isK || k != 1 {
		return false
	}
	call, ok := b.X.(*ssa.Call)
	if !ok || BuiltinName(call) != "len" {
		return false
	}
	return call.Call.Args[0] == of || SameValue(call.Call.Args[0], of)
}

// dynIdentityRule (R02g): the per-call value cache is keyed by the id of the dynamic value object.
// Two objects with one id answer for each other within a call — a copy made by Merge lives under
// another root and must not find the original's result. Objects of type cfgDynamic are therefore
// created only where the id is drawn (newDyn): no other allocation, no struct copy.
func dynIdentityRule(c *Ctx, r *Report) {
	r.Rule("R02g", "cfgDynamic objects are allocated only in the constructor that draws a fresh cache id (newDyn); copies are made through it, never by copying the struct", 1)
	dynT := c.Named("", "cfgDynamic")
	ctor := c.Func("", "newDyn")
	n := 0
	for _, fn := range c.SrcFuncs() {
		if fn.Pkg != c.SSA[""] {
			continue
		}
		Instrs(fn, false, func(in ssa.Instruction) {
			al, ok := in.(*ssa.Alloc)
			if !ok || !types.Identical(derefType(al.Type()), dynT) {
				return
			}
			n++
			r.Check(fn == ctor, "R02g", c.FnName(fn), "cfgDynamic allocated", c.Pos(al.Pos()), "in newDyn, which draws the id", "a cfgDynamic object is created outside newDyn (a struct copy keeps the id of the original): the copy and the original share one slot of the per-call cache, and whichever is evaluated first — under its own root — answers for the other")
		})
	}
	if n == 0 {
		r.add("R02g", "ucfg.newDyn", "cfgDynamic allocated", c.Pos(ctor.Pos()), Undecided, true, "no allocation of cfgDynamic found")
	}
}

// isLenOf: v is len(slice) of the same slice value.
func isLenOf(v, slice ssa.Value) bool {
	call, ok := v.(*ssa.Call)
	if !ok || BuiltinName(call) != "len" || len(call.Call.Args) != 1 {
		return false
	}
	return call.Call.Args[0] == slice || SameValue(call.Call.Args[0], slice)
}

// IsCallTo2: v is a call of f.
func IsCallTo2(v ssa.Value, f *ssa.Function) bool {
	call, ok := v.(*ssa.Call)
	return ok && IsCallTo(call, f)
}

// spliceThroughLexerRule (R02h): under VarExp every string goes through the lexer, because the lexer is also what
// takes the escapes away ($$ is a dollar, $} a brace). The expression parseSplice answers with is therefore the one
// parseVarExp built from the lexer's tokens — never the input text handed back as a constant by a shortcut ("no ${ in
// it, nothing to do"), which would leave "USD 5$$" as it is while "${c} 5$$" next to it reads "… 5$".
func spliceThroughLexerRule(c *Ctx, r *Report) {
	r.Rule("R02h", "parseSplice answers only with what parseVarExp built from the lexer's tokens (no shortcut hands the input text back unlexed)", 1)
	ps := c.Func("", "parseSplice")
	pv := c.Func("", "parseVarExp")
	n := 0
	for _, ret := range Returns(ps) {
		if len(ret.Results) != 2 || IsNilConst(ret.Results[0]) {
			continue
		}
		n++
		ok := true
		why := ""
		for _, s := range append(Sources(ret.Results[0]), ret.Results[0]) {
			switch x := s.(type) {
			case *ssa.Extract:
				if call, isCall := x.Tuple.(*ssa.Call); !isCall || call.Call.StaticCallee() != pv {
					ok, why = false, "the result of another call"
				}
			case *ssa.Const:
				if !x.IsNil() {
					ok, why = false, "a constant"
				}
			case *ssa.Parameter:
				ok, why = false, "the input text itself (parameter "+x.Name()+")"
			case *ssa.Call:
				ok, why = false, "the result of "+calledName(x)
			}
		}
		r.Check(ok, "R02h", c.FnName(ps), "expression built from the lexer's tokens", c.Pos(ret.Pos()), "the value returned is parseVarExp's result", "parseSplice answers with "+why+" instead of the expression parseVarExp built from the lexer's tokens: a string without a reference keeps its escapes ($$, $}) while the same text next to a reference loses them")
	}
	if n == 0 {
		r.add("R02h", c.FnName(ps), "expression built from the lexer's tokens", c.Pos(ps.Pos()), Undecided, true, "parseSplice returns no expression")
	}
}
