package main

// C03 — typed unpacking preserves the value or fails; it never wraps around.
// E4 numconv: every lossy numeric conversion (SSA Convert float->integer, signed<->unsigned,
// wider->narrower; Duration multiplication; reflect.Value.Convert to a numeric type) on the
// unpack/getter path must be dominated by a sound range guard on its operand. Bounds are
// evaluated exactly (math/big) after the rounding the comparison's own type imposes; for float
// operands the guard must also exclude NaN (a fact taken from the false edge of a comparison
// holds for NaN as well and does not count).

import (
	"fmt"
	"go/constant"
	"go/token"
	"go/types"
	"math/big"
	"strings"

	"golang.org/x/tools/go/ssa"
)

func init() {
	register("C03", "Guard analysis for lossy numeric conversions (E4). All SSA Convert instructions of the root package between numeric basic types are classified (float->integer, signed->unsigned, unsigned->signed, narrowing; widening and same-representation conversions are value-preserving), plus multiplications whose result is a time.Duration with a non-constant operand, plus every reflect.Value.Convert whose receiver may hold a number. For each, the comparison facts dominating the instruction on the same operand (identified by access path, go/ssa has no CSE) are collected with polarity; constants are evaluated exactly with math/big after conversion to the comparison's type (math.MaxInt64 as float64 is 2^63); the facts must imply the destination's range, with a strict upper bound against 2^63/2^64 for floats and at least one fact from a true edge (NaN fails every ordered comparison, so a reject-form guard lets it through). reflect conversions need the false edge of OverflowInt/OverflowUint/OverflowFloat on a zero value of the same type with the same operand. Decides 'no wrap-around' for all values at once; that an in-range number is stored exactly (truncation toward zero, seconds semantics) and string parsing by strconv are not decided.", checkC03)
}

type numClass int

const (
	ncSafe numClass = iota
	ncF2I
	ncI2U
	ncU2I
	ncNarrow
	ncF2F
)

type basicInfo struct {
	float, signed, unsigned bool
	bits                    int
}

func basicOf(t types.Type, sizes types.Sizes) (basicInfo, bool) {
	b, ok := t.Underlying().(*types.Basic)
	if !ok {
		return basicInfo{}, false
	}
	info := b.Info()
	bi := basicInfo{}
	switch {
	case info&types.IsFloat != 0:
		bi.float = true
	case info&types.IsUnsigned != 0:
		bi.unsigned = true
	case info&types.IsInteger != 0:
		bi.signed = true
	default:
		return basicInfo{}, false
	}
	bi.bits = int(sizes.Sizeof(b)) * 8
	return bi, true
}

func pow2(n int) *big.Float {
	f := new(big.Float).SetPrec(300).SetInt64(1)
	return f.SetMantExp(f, n)
}

type bound struct {
	v      *big.Float
	strict bool // exclusive
	strong bool // from a true edge (excludes NaN)
}

type facts struct {
	lo, hi *bound
	strong bool
	descr  []string
}

func constFloat(v ssa.Value) (*big.Float, bool) {
	k, ok := v.(*ssa.Const)
	if !ok || k.Value == nil {
		return nil, false
	}
	val := k.Value
	// a constant used at a float type has been rounded to that type by the type checker; make sure
	// by rounding again to the operand type's precision
	var f *big.Float
	switch val.Kind() {
	case constant.Int:
		if i, ok := constant.Val(val).(*big.Int); ok {
			f = new(big.Float).SetPrec(300).SetInt(i)
		} else if i64, ok := constant.Val(val).(int64); ok {
			f = new(big.Float).SetPrec(300).SetInt64(i64)
		}
	case constant.Float:
		switch x := constant.Val(val).(type) {
		case *big.Float:
			f = new(big.Float).SetPrec(300).Set(x)
		case *big.Rat:
			f = new(big.Float).SetPrec(300).SetRat(x)
		}
	}
	if f == nil {
		return nil, false
	}
	if b, ok := k.Type().Underlying().(*types.Basic); ok && b.Info()&types.IsFloat != 0 {
		prec := uint(53)
		if b.Kind() == types.Float32 {
			prec = 24
		}
		r := new(big.Float).SetPrec(prec).SetMode(big.ToNearestEven).Set(f)
		f = new(big.Float).SetPrec(300).Set(r)
	}
	return f, true
}

// factsFor collects the dominating comparison facts about operand x at block b.
func factsFor(x ssa.Value, b *ssa.BasicBlock) facts {
	var fs facts
	for _, cd := range DomConds(b) {
		v, truth := cd.V, cd.Truth
		for {
			u, ok := v.(*ssa.UnOp)
			if !ok || u.Op != token.NOT {
				break
			}
			v, truth = u.X, !truth
		}
		bo, ok := v.(*ssa.BinOp)
		if !ok {
			continue
		}
		op := bo.Op
		var k *big.Float
		switch {
		case SameValue(bo.X, x):
			if kk, ok := constFloat(bo.Y); ok {
				k = kk
			}
		case SameValue(bo.Y, x):
			if kk, ok := constFloat(bo.X); ok {
				k = kk
				op = flipOp(op)
			}
		}
		if k == nil {
			continue
		}
		strong := truth
		if !truth {
			op = negateOp(op)
		}
		if op == token.NEQ || op == token.ILLEGAL {
			continue
		}
		if strong {
			fs.strong = true
		}
		fs.descr = append(fs.descr, fmt.Sprintf("x %s %s (%s edge)", op, k.Text('g', 20), map[bool]string{true: "true", false: "false"}[truth]))
		nb := &bound{v: k, strong: strong}
		switch op {
		case token.LSS:
			nb.strict = true
			fs.hi = tighterHi(fs.hi, nb)
		case token.LEQ:
			fs.hi = tighterHi(fs.hi, nb)
		case token.GTR:
			nb.strict = true
			fs.lo = tighterLo(fs.lo, nb)
		case token.GEQ:
			fs.lo = tighterLo(fs.lo, nb)
		case token.EQL:
			fs.hi = tighterHi(fs.hi, nb)
			fs.lo = tighterLo(fs.lo, &bound{v: k, strong: strong})
		}
	}
	return fs
}

func tighterHi(a, b *bound) *bound {
	if a == nil {
		return b
	}
	c := b.v.Cmp(a.v)
	if c < 0 || (c == 0 && b.strict && !a.strict) {
		return b
	}
	return a
}

func tighterLo(a, b *bound) *bound {
	if a == nil {
		return b
	}
	c := b.v.Cmp(a.v)
	if c > 0 || (c == 0 && b.strict && !a.strict) {
		return b
	}
	return a
}

// hiOK: facts imply x < limit (exclusive limit)? For integers an inclusive bound limit-1 is fine too.
func hiImpliesBelow(fs facts, limit *big.Float, integerOperand bool) bool {
	if fs.hi == nil {
		return false
	}
	c := fs.hi.v.Cmp(limit)
	if fs.hi.strict {
		return c <= 0
	}
	if c < 0 {
		if integerOperand {
			return true // x <= K with K < limit, integers
		}
		return true // x <= K < limit
	}
	return false
}

// loImpliesAtLeast: facts imply x >= limit (inclusive), or for truncating float->int x > limit-1.
func loImpliesAtLeast(fs facts, limit *big.Float, truncating bool) bool {
	if fs.lo == nil {
		return false
	}
	c := fs.lo.v.Cmp(limit)
	if c >= 0 {
		return true
	}
	if truncating || fs.lo.strict {
		// x > K with K >= limit-1 : for integers x >= limit ; for truncation toward zero the result is >= limit
		lm1 := new(big.Float).SetPrec(300).Sub(limit, new(big.Float).SetInt64(1))
		if fs.lo.strict && fs.lo.v.Cmp(lm1) >= 0 {
			return true
		}
	}
	return false
}

func checkC03(c *Ctx, r *Report) {
	defer numericKindsRule(c, r)
	defer numberSourceRule(c, r, "R03g")
	r.Assumption("strconv.ParseInt/ParseUint/ParseFloat/ParseBool and time.ParseDuration report out-of-range and malformed input as errors (trusted standard library)")
	r.Assumption("int->float conversions round to the nearest float and are not treated as wrap-around; that an in-range value is stored exactly is not decided")
	sizes := c.Pkgs[""].TypesSizes
	if sizes == nil {
		undecidedf("no type sizes for the loaded configuration")
	}
	exactDurationRule(c, r)
	stringAccessorRule(c, r)
	durationThroughReferenceRule(c, r)
	r.Rule("R03a", "every lossy SSA numeric conversion in the root package is dominated by facts on the same operand that imply the destination range (strict against 2^63/2^64 for floats, NaN excluded by a true-edge fact)", 4)
	r.Rule("R03b", "every multiplication producing a time.Duration from a non-constant operand is dominated by facts bounding the operand to MaxInt64/unit", 2)
	r.Rule("R03c", "every reflect.Value.Convert whose receiver may hold a number is guarded by the false edge of OverflowInt/OverflowUint/OverflowFloat on a zero value of the same type with the same operand, or converts to a provably non-numeric type", 4)

	durT := types.Type(nil)
	if tp := c.Pkgs[""].Types; tp != nil {
		for _, imp := range tp.Imports() {
			if imp.Path() == "time" {
				durT = imp.Scope().Lookup("Duration").Type()
			}
		}
	}
	for _, fn := range c.SrcFuncs() {
		if fn.Pkg != c.SSA[""] {
			continue
		}
		top := fn
		for top.Parent() != nil {
			top = top.Parent()
		}
		name := c.FnName(fn)
		outOfClaim := top.Name() == "param2Duration" // validator parameter, not a setting
		treeInternal := recvName(top) == "fieldHandlingTree"
		Instrs(fn, false, func(in ssa.Instruction) {
			switch x := in.(type) {
			case *ssa.Convert:
				src, ok1 := basicOf(x.X.Type(), sizes)
				dst, ok2 := basicOf(x.Type(), sizes)
				if !ok1 || !ok2 {
					return
				}
				if _, isConst := x.X.(*ssa.Const); isConst {
					return
				}
				cls := classify(src, dst)
				if cls == ncSafe {
					return
				}
				r.Analysed["lossy conversions"]++
				what := fmt.Sprintf("convert %s -> %s", typeStr(x.X.Type()), typeStr(x.Type()))
				if outOfClaim {
					r.Except("R03a", name, what, c.Pos(x.Pos()), "validator tag parameter (min=/max= durations), not a configuration setting: outside the property")
					return
				}
				if treeInternal {
					r.Except("R03a", name, what, c.Pos(x.Pos()), "reads a policy constant back from the private field-handling tree, which holds only configHandling constants (C08 R08c backing obligation): not a configuration setting")
					return
				}
				ok, why := convGuarded(x.X, x.Block(), src, dst, cls)
				r.Check(ok, "R03a", name, what, c.Pos(x.Pos()), why, "lossy conversion without a sound range guard: "+why)
			case *ssa.BinOp:
				if x.Op != token.MUL || durT == nil || !types.Identical(x.Type(), durT) {
					return
				}
				var operand ssa.Value
				var k *big.Float
				if kk, ok := constFloat(x.Y); ok {
					operand, k = x.X, kk
				} else if kk, ok := constFloat(x.X); ok {
					operand, k = x.Y, kk
				}
				if operand == nil {
					if _, c1 := x.X.(*ssa.Const); c1 {
						return
					}
					r.Bad("R03b", name, "duration multiply", c.Pos(x.Pos()), "time.Duration product of two non-constant operands: overflow cannot be excluded")
					return
				}
				if _, isConst := operand.(*ssa.Const); isConst {
					return
				}
				r.Analysed["duration multiplications"]++
				if outOfClaim {
					r.Except("R03b", name, "duration multiply", c.Pos(x.Pos()), "validator tag parameter, not a configuration setting")
					return
				}
				// operand is usually Convert(Duration <- int64/uint64 x): look through same-representation conversions
				base := operand
				for {
					cv, ok := base.(*ssa.Convert)
					if !ok {
						break
					}
					s, ok1 := basicOf(cv.X.Type(), sizes)
					d, ok2 := basicOf(cv.Type(), sizes)
					if !ok1 || !ok2 || classify(s, d) != ncSafe && !(s.unsigned && d.signed && s.bits == d.bits) {
						break
					}
					base = cv.X
				}
				fs := factsFor(base, x.Block())
				max := new(big.Float).SetPrec(300).Quo(new(big.Float).Sub(pow2(63), new(big.Float).SetInt64(1)), k)
				min := new(big.Float).SetPrec(300).Quo(new(big.Float).Neg(pow2(63)), k)
				hiOK := fs.hi != nil && fs.hi.v.Cmp(max) <= 0
				bi, _ := basicOf(base.Type(), sizes)
				loOK := bi.unsigned || (fs.lo != nil && fs.lo.v.Cmp(min) >= 0)
				r.Check(hiOK && loOK, "R03b", name, "duration multiply", c.Pos(x.Pos()), "operand bounded: "+strings.Join(fs.descr, ", "),
					fmt.Sprintf("a number of seconds is multiplied into a time.Duration without bounding it to [%s, %s]: large settings wrap around (facts: %s)", min.Text('f', 0), max.Text('f', 0), strings.Join(fs.descr, ", ")))
			case *ssa.Call:
				f := x.Call.StaticCallee()
				if f == nil || f.Pkg == nil || f.Pkg.Pkg.Path() != "reflect" || f.Name() != "Convert" || f.Signature.Recv() == nil {
					return
				}
				if !strings.HasSuffix(f.Signature.Recv().Type().String(), "reflect.Value") {
					return
				}
				reflectConvertRule(c, r, fn, x, sizes)
			}
		})
	}
}

func classify(src, dst basicInfo) numClass {
	switch {
	case src.float && !dst.float:
		return ncF2I
	case src.float && dst.float:
		if dst.bits < src.bits {
			return ncF2F
		}
		return ncSafe
	case !src.float && dst.float:
		return ncSafe
	case src.signed && dst.unsigned:
		return ncI2U
	case src.unsigned && dst.signed:
		if dst.bits > src.bits {
			return ncSafe
		}
		return ncU2I
	default:
		if dst.bits < src.bits {
			return ncNarrow
		}
		return ncSafe
	}
}

func convGuarded(x ssa.Value, b *ssa.BasicBlock, src, dst basicInfo, cls numClass) (bool, string) {
	// float operands that are themselves products etc. are identified as SSA values
	fs := factsFor(x, b)
	desc := "facts on the operand: " + strings.Join(fs.descr, ", ")
	if len(fs.descr) == 0 {
		desc = "no dominating comparison on the operand"
	}
	var lo, hi *big.Float
	if dst.signed {
		lo = new(big.Float).SetPrec(300).Neg(pow2(dst.bits - 1))
		hi = pow2(dst.bits - 1)
	} else {
		lo = new(big.Float).SetPrec(300)
		hi = pow2(dst.bits)
	}
	needLo, needHi := true, true
	switch cls {
	case ncI2U:
		needHi = dst.bits < src.bits
	case ncU2I:
		needLo = false
	case ncNarrow:
		if src.unsigned {
			needLo = false
		}
	}
	if needHi && !hiImpliesBelow(fs, hi, !src.float) {
		return false, fmt.Sprintf("upper bound x < %s not established (%s)", hi.Text('g', 22), desc)
	}
	if needLo && !loImpliesAtLeast(fs, lo, src.float) {
		return false, fmt.Sprintf("lower bound x >= %s not established (%s)", lo.Text('g', 22), desc)
	}
	if src.float && !fs.strong {
		return false, "NaN is not excluded: every fact comes from the false edge of a comparison, which NaN also takes (" + desc + ")"
	}
	return true, desc
}

func reflectConvertRule(c *Ctx, r *Report, fn *ssa.Function, call *ssa.Call, sizes types.Sizes) {
	name := c.FnName(fn)
	recv, typ := call.Call.Args[0], call.Call.Args[1]
	// destination provably non-numeric?
	nonNumeric := ""
	for _, s := range Sources(typ) {
		switch x := s.(type) {
		case *ssa.Call:
			if f := x.Call.StaticCallee(); f != nil && f.Pkg != nil && f.Pkg.Pkg.Path() == "reflect" && (f.Name() == "PtrTo" || f.Name() == "PointerTo") {
				nonNumeric = "destination is a pointer type (reflect.PtrTo)"
			}
			if x.Call.IsInvoke() && x.Call.Method.Name() == "In" {
				nonNumeric = "destination is a method parameter type checked to be Config-convertible"
			}
		case *ssa.UnOp:
			if g, ok := x.X.(*ssa.Global); ok {
				switch g.Name() {
				case "tConfigPtr", "tError", "tConfig":
					nonNumeric = "destination is the package-level type " + g.Name()
				}
			}
		}
	}
	// the destination's kind went through the three numeric kind predicates and none accepted it: with R03h (every
	// numeric kind is listed by exactly one of them) the destination is no number, so nothing can wrap around
	if nonNumeric == "" {
		refused := map[string]bool{}
		for _, cd := range DomConds(call.Block()) {
			pc, isCall := cd.V.(*ssa.Call)
			if !isCall || cd.Truth {
				continue
			}
			f := pc.Call.StaticCallee()
			if f == nil || !c.InRepo(f) || len(pc.Call.Args) != 1 {
				continue
			}
			if f.Name() != "isInt" && f.Name() != "isUint" && f.Name() != "isFloat" {
				continue
			}
			// the argument is Kind() of the destination type
			for _, ks := range Sources(pc.Call.Args[0]) {
				kc, ok := ks.(*ssa.Call)
				if !ok || !kc.Call.IsInvoke() || kc.Call.Method.Name() != "Kind" {
					continue
				}
				for _, ts := range Sources(kc.Call.Value) {
					for _, ds := range Sources(typ) {
						if ts == ds {
							refused[f.Name()] = true
						}
					}
				}
			}
		}
		if refused["isInt"] && refused["isUint"] && refused["isFloat"] {
			nonNumeric = "the destination's kind was refused by isInt, isUint and isFloat, which between them list every numeric kind (R03h): the destination is no number"
		}
	}
	// receiver: reflect.ValueOf(x) with x of known basic type?
	var operand ssa.Value
	for _, s := range Sources(recv) {
		if vc, ok := s.(*ssa.Call); ok {
			if f := vc.Call.StaticCallee(); f != nil && f.Name() == "ValueOf" && len(vc.Call.Args) == 1 {
				for _, s2 := range Sources(vc.Call.Args[0]) {
					operand = s2
				}
			}
		}
	}
	what := "reflect Convert of unknown content"
	if operand != nil {
		what = "reflect Convert of " + typeStr(operand.Type())
	}
	if nonNumeric != "" {
		r.Trivial("R03c", name, what, c.Pos(call.Pos()), nonNumeric)
		return
	}
	if operand != nil {
		if _, ok := basicOf(operand.Type(), sizes); !ok {
			r.Trivial("R03c", name, what, c.Pos(call.Pos()), "operand of type "+typeStr(operand.Type())+" is not a number")
			return
		}
	}
	r.Analysed["reflect conversions of numbers"]++
	if operand == nil {
		r.Bad("R03c", name, what, c.Pos(call.Pos()), "a reflect value of unknown content is converted to a type chosen at run time without an overflow test: for a numeric setting and a numeric target outside the handled kinds the value wraps around")
		return
	}
	// guard: false edge of Overflow*(tmp, operand) with tmp = reflect.Zero(typ)
	ok := false
	for _, cd := range DomConds(call.Block()) {
		oc, isCall := cd.V.(*ssa.Call)
		if !isCall || cd.Truth {
			continue
		}
		f := oc.Call.StaticCallee()
		if f == nil || !strings.HasPrefix(f.Name(), "Overflow") || len(oc.Call.Args) != 2 {
			continue
		}
		bi, _ := basicOf(operand.Type(), sizes)
		want := "OverflowInt"
		if bi.unsigned {
			want = "OverflowUint"
		} else if bi.float {
			want = "OverflowFloat"
		}
		if f.Name() != want {
			continue
		}
		sameOperand := false
		for _, s := range Sources(oc.Call.Args[1]) {
			if s == operand {
				sameOperand = true
			}
		}
		sameType := false
		for _, s := range Sources(oc.Call.Args[0]) {
			if zc, isZ := s.(*ssa.Call); isZ {
				if zf := zc.Call.StaticCallee(); zf != nil && (zf.Name() == "Zero" || zf.Name() == "New") && len(zc.Call.Args) == 1 {
					if zc.Call.Args[0] == typ || SameValue(zc.Call.Args[0], typ) {
						sameType = true
					}
				}
			}
		}
		if sameOperand && sameType {
			ok = true
		}
	}
	if !ok {
		// the test does not branch around the conversion itself but records the failure (err = ErrOverflow) and a
		// later test of that record leaves: no feasible path leads from the true edge of the test to the conversion
		ok = overflowEdgeCut(call, operand, typ, sizes)
	}
	r.Check(ok, "R03c", name, what, c.Pos(call.Pos()), "guarded by the false edge of Overflow* on a zero value of the same type with the same operand", "a number is converted to the target type through reflect without the matching Overflow test on the same value and type: out-of-range settings wrap around")
}

// accessorTightRule (R06h): the numeric accessors of the stored values (cfgInt/cfgUint/cfgFloat toInt,
// toUint, toFloat) convert every value the destination can represent. R03a demands that the guard in
// front of a lossy conversion is strong enough; this rule demands that it is not stronger than the
// destination's range: a guard that also rejects the largest (smallest) representable value makes an
// extreme number that was written into a Config fail to come back (C06), although nothing wraps.
func accessorTightRule(c *Ctx, r *Report) {
	r.Rule("R06h", "the range guards of the numeric value accessors reject only values the destination cannot represent (the extreme representable values pass)", 3)
	sizes := c.Pkgs[""].TypesSizes
	if sizes == nil {
		undecidedf("no type sizes for the loaded configuration")
	}
	for _, fn := range c.SrcFuncs() {
		if fn.Pkg != c.SSA[""] || fn.Parent() != nil {
			continue
		}
		rn := recvName(fn)
		if !(rn == "cfgInt" || rn == "cfgUint" || rn == "cfgFloat") || !(fn.Name() == "toInt" || fn.Name() == "toUint" || fn.Name() == "toFloat") {
			continue
		}
		name := c.FnName(fn)
		Instrs(fn, false, func(in ssa.Instruction) {
			x, ok := in.(*ssa.Convert)
			if !ok {
				return
			}
			src, ok1 := basicOf(x.X.Type(), sizes)
			dst, ok2 := basicOf(x.Type(), sizes)
			if !ok1 || !ok2 || classify(src, dst) == ncSafe {
				return
			}
			if _, isConst := x.X.(*ssa.Const); isConst {
				return
			}
			what := fmt.Sprintf("guard of %s -> %s", typeStr(x.X.Type()), typeStr(x.Type()))
			fs := factsFor(x.X, x.Block())
			one := new(big.Float).SetPrec(300).SetInt64(1)
			rangeOf := func(bi basicInfo) (lo, hi *big.Float) { // inclusive for integers; for floats the exclusive powers of two
				if bi.signed {
					return new(big.Float).SetPrec(300).Neg(pow2(bi.bits - 1)), new(big.Float).SetPrec(300).Sub(pow2(bi.bits-1), one)
				}
				return new(big.Float).SetPrec(300), new(big.Float).SetPrec(300).Sub(pow2(bi.bits), one)
			}
			dlo, dhi := rangeOf(dst)
			bad := ""
			if !src.float && !dst.float {
				slo, shi := rangeOf(src)
				needHi, needLo := dhi, dlo
				if shi.Cmp(needHi) < 0 {
					needHi = shi
				}
				if slo.Cmp(needLo) > 0 {
					needLo = slo
				}
				if fs.hi != nil {
					adm := new(big.Float).SetPrec(300).Set(fs.hi.v)
					if fs.hi.strict {
						adm.Sub(adm, one)
					}
					if adm.Cmp(needHi) < 0 {
						bad = fmt.Sprintf("values above %s are rejected although the destination holds up to %s", adm.Text('f', 0), needHi.Text('f', 0))
					}
				}
				if fs.lo != nil {
					adm := new(big.Float).SetPrec(300).Set(fs.lo.v)
					if fs.lo.strict {
						adm.Add(adm, one)
					}
					if adm.Cmp(needLo) > 0 {
						bad = fmt.Sprintf("values below %s are rejected although the destination holds down to %s", adm.Text('f', 0), needLo.Text('f', 0))
					}
				}
			} else if src.float && !dst.float {
				// float operand: the bounds are the powers of two themselves (x < 2^63, x >= -2^63)
				lim := new(big.Float).SetPrec(300).Add(dhi, one)
				if fs.hi != nil && fs.hi.v.Cmp(lim) < 0 {
					bad = fmt.Sprintf("numbers from %s on are rejected although everything below %s fits", fs.hi.v.Text('g', 22), lim.Text('g', 22))
				}
				if fs.lo != nil && fs.lo.v.Cmp(dlo) > 0 && dst.signed {
					bad = fmt.Sprintf("numbers below %s are rejected although everything from %s on fits", fs.lo.v.Text('g', 22), dlo.Text('g', 22))
				}
			} else {
				return
			}
			r.Check(bad == "", "R06h", name, what, c.Pos(x.Pos()), "the guard admits the whole range of the destination ("+strings.Join(fs.descr, ", ")+")",
				"the range guard is stricter than the destination type: "+bad+" — an extreme number written into a Config does not come back")
		})
	}
}

// exactDurationRule (R03d): an integer number of seconds becomes a Duration in integer arithmetic. "Stores
// exactly the mathematical value" fails without any wrap-around when integers are sent through float64
// (seconds above 2^53 ns / 1e9 lose their low bits). In reifyDuration the integer settings (the int64 / uint64
// the cfgInt / cfgUint case holds) must each feed a time.Duration multiplication directly — up to integer
// conversions of the same width — and not a conversion to a floating-point type.
func exactDurationRule(c *Ctx, r *Report) {
	r.Rule("R03d", "reifyDuration turns the integer of a cfgInt / cfgUint setting into a Duration by integer multiplication (no detour through float64)", 2)
	fn := c.Func("", "reifyDuration")
	name := c.FnName(fn)
	for _, tn := range []struct{ typ, field string }{{"cfgInt", "i"}, {"cfgUint", "u"}} {
		intMul, viaFloat := false, false
		var pos token.Pos
		Instrs(fn, false, func(in ssa.Instruction) {
			l, ok := in.(*ssa.UnOp)
			if !ok || l.Op != token.MUL {
				return
			}
			nt, f, ok := FieldOf(l.X)
			if !ok || nt.Obj().Name() != tn.typ || f != tn.field {
				return
			}
			pos = l.Pos()
			// follow the loaded integer through integer conversions to its uses
			seen := map[ssa.Value]bool{}
			var walk func(v ssa.Value, d int)
			walk = func(v ssa.Value, d int) {
				if seen[v] || d > 8 || v.Referrers() == nil {
					return
				}
				seen[v] = true
				for _, ref := range *v.Referrers() {
					switch x := ref.(type) {
					case *ssa.Convert:
						if b, ok := x.Type().Underlying().(*types.Basic); ok {
							if b.Info()&types.IsFloat != 0 {
								viaFloat = true
							} else if b.Info()&types.IsInteger != 0 {
								walk(x, d+1)
							}
						}
					case *ssa.ChangeType:
						walk(x, d+1) // int64 -> time.Duration: same representation
					case *ssa.BinOp:
						if x.Op == token.MUL && strings.HasSuffix(x.Type().String(), "time.Duration") {
							intMul = true
						}
					case *ssa.Phi:
						walk(x, d+1)
					}
				}
			}
			walk(l, 0)
		})
		what := "integer seconds of " + tn.typ
		switch {
		case intMul:
			r.OK("R03d", name, what, c.Pos(pos), "multiplied into the Duration as an integer")
		case viaFloat:
			r.Bad("R03d", name, what, c.Pos(pos), "the integer of a "+tn.typ+" setting is converted to floating point on its way to the Duration: second counts whose nanoseconds exceed 2^53 are stored inexactly (no error)")
		default:
			r.Bad("R03d", name, what, c.Pos(fn.Pos()), "reifyDuration does not multiply the integer of a "+tn.typ+" setting into the Duration itself (it goes through another accessor, e.g. toFloat): large second counts are stored inexactly")
		}
	}
}

// overflowEdgeCut: a matching Overflow* call dominates the conversion and the conversion cannot be reached from
// the edge on which the call answered true (edge-sensitive reachability, thread.go).
func overflowEdgeCut(call *ssa.Call, operand, typ ssa.Value, sizes types.Sizes) bool {
	fn := call.Parent()
	found := false
	Instrs(fn, false, func(in ssa.Instruction) {
		oc, isCall := in.(*ssa.Call)
		if !isCall || found {
			return
		}
		f := oc.Call.StaticCallee()
		if f == nil || !strings.HasPrefix(f.Name(), "Overflow") || len(oc.Call.Args) != 2 {
			return
		}
		bi, _ := basicOf(operand.Type(), sizes)
		want := "OverflowInt"
		if bi.unsigned {
			want = "OverflowUint"
		} else if bi.float {
			want = "OverflowFloat"
		}
		if f.Name() != want {
			return
		}
		// every feasible way to the conversion leads through the test
		if oc.Block() != call.Block() && reachableFromEdge(nil, fn.Blocks[0], call.Block(), map[*ssa.BasicBlock]bool{oc.Block(): true}) {
			return
		}
		if oc.Block() == call.Block() {
			return
		}
		sameOperand := false
		for _, s := range Sources(oc.Call.Args[1]) {
			if s == operand {
				sameOperand = true
			}
		}
		sameType := false
		for _, s := range Sources(oc.Call.Args[0]) {
			if zc, isZ := s.(*ssa.Call); isZ {
				if zf := zc.Call.StaticCallee(); zf != nil && (zf.Name() == "Zero" || zf.Name() == "New") && len(zc.Call.Args) == 1 {
					if zc.Call.Args[0] == typ || SameValue(zc.Call.Args[0], typ) {
						sameType = true
					}
				}
			}
		}
		if !sameOperand || !sameType {
			return
		}
		// the test's result is branched on directly
		refs := oc.Referrers()
		if refs == nil {
			return
		}
		for _, ref := range *refs {
			ifi, isIf := ref.(*ssa.If)
			if !isIf || ifi.Cond != ssa.Value(oc) {
				continue
			}
			b := ifi.Block()
			if !reachableFromEdge(b, b.Succs[0], call.Block(), nil) && reachableFromEdge(b, b.Succs[1], call.Block(), nil) {
				found = true
			}
		}
	})
	return found
}

// stringAccessorRule (R03e): a number kept as text is converted by handing the stored text itself to strconv: a
// string that does not parse is an error, and a string that parses denotes exactly the number stored. Any
// rewriting of the text in front of the parser (cutting a fraction, trimming, replacing) makes some non-number
// parse, or some number parse to another value.
func stringAccessorRule(c *Ctx, r *Report) {
	r.Rule("R03e", "cfgString.toInt / toUint / toFloat / toBool hand the stored text itself to strconv.Parse*, and what they return is the parser's result", 4)
	strT := c.Named("", "cfgString")
	for _, mname := range []string{"toInt", "toUint", "toFloat", "toBool"} {
		fn := c.MethodImpl(types.NewPointer(strT), mname)
		if fn == nil {
			r.add("R03e", "ucfg.cfgString."+mname, "parses the stored text", "-", Undecided, true, "method not found")
			continue
		}
		fn = declared(c, fn)
		name := c.FnName(fn)
		n := 0
		for _, ci := range CallsIn(fn, false) {
			g := ci.Common().StaticCallee()
			if g == nil || g.Pkg == nil || g.Pkg.Pkg.Path() != "strconv" || !strings.HasPrefix(g.Name(), "Parse") {
				continue
			}
			n++
			arg := ci.Common().Args[0]
			own := false
			if l, ok := arg.(*ssa.UnOp); ok && l.Op == token.MUL {
				if nt, f, ok := FieldOf(l.X); ok && nt == strT && f == "s" {
					if fa, ok := l.X.(*ssa.FieldAddr); ok && fa.X == ssa.Value(fn.Params[0]) {
						own = true
					}
				}
			}
			r.Check(own, "R03e", name, "parses the stored text", c.Pos(ci.Pos()), "strconv."+g.Name()+"(c.s, …)", "the text handed to strconv."+g.Name()+" is not the stored string itself ("+arg.String()+"): strings that are no number can be accepted, or a number written in another notation (exponent, hex float, dotted text) is read as a different value")
		}
		if n == 0 {
			r.Bad("R03e", name, "parses the stored text", c.Pos(fn.Pos()), "no strconv.Parse* call: the string is not converted by the standard parser")
		}
		// the result is the parser's result
		for _, ret := range Returns(fn) {
			if len(ret.Results) != 2 {
				continue
			}
			if k, isK := RetVal(ret, 1).(*ssa.Const); !isK || !k.IsNil() {
				continue
			}
			fromParser := false
			for _, s := range Sources(RetVal(ret, 0)) {
				if ex, ok := s.(*ssa.Extract); ok && ex.Index == 0 {
					if call, ok := ex.Tuple.(*ssa.Call); ok {
						if g := call.Call.StaticCallee(); g != nil && g.Pkg != nil && g.Pkg.Pkg.Path() == "strconv" {
							fromParser = true
						}
					}
				}
			}
			r.Check(fromParser, "R03e", name, "returns the parsed value", c.Pos(ret.Pos()), "the success value is strconv's result", "a success return does not return the parser's result")
		}
		// toInt / toUint: the exact integer parser decides. An answer that comes from somewhere else after that parser
		// failed (the text read as a float and converted) replaces its *range* error by a rounded number: the text
		// "-9223372036854775809" becomes MinInt64. Such an answer is acceptable only where the failure was tested to be
		// a syntax error (errors.Is / a comparison with strconv.ErrSyntax or ErrRange in front of it).
		if mname == "toInt" || mname == "toUint" {
			for _, ret := range Returns(fn) {
				if len(ret.Results) != 2 {
					continue
				}
				foreign := ""
				for _, src := range Sources(RetVal(ret, 0)) {
					switch x := src.(type) {
					case *ssa.Const:
					case *ssa.Extract:
						call, _ := x.Tuple.(*ssa.Call)
						if call == nil {
							foreign = x.String()
							break
						}
						if g := call.Call.StaticCallee(); g == nil || g.Pkg == nil || g.Pkg.Pkg.Path() != "strconv" || (g.Name() != "ParseInt" && g.Name() != "ParseUint") {
							foreign = "result of " + call.Call.String()
						}
					default:
						foreign = describeVals([]ssa.Value{src})
					}
				}
				if foreign == "" {
					continue
				}
				kindTested := false
				for _, cd := range DomConds(ret.Block()) {
					for _, part := range ExpandConds([]Cond{cd}) {
						for _, src := range append([]ssa.Value{part.V}, Sources(part.V)...) {
							switch y := src.(type) {
							case *ssa.Call:
								for _, a := range y.Call.Args {
									for _, as := range append([]ssa.Value{a}, Sources(a)...) {
										if l, ok := as.(*ssa.UnOp); ok {
											if g, ok := l.X.(*ssa.Global); ok && (g.Name() == "ErrSyntax" || g.Name() == "ErrRange") {
												kindTested = true
											}
										}
									}
								}
							case *ssa.BinOp:
								for _, a := range []ssa.Value{y.X, y.Y} {
									for _, as := range append([]ssa.Value{a}, Sources(a)...) {
										if l, ok := as.(*ssa.UnOp); ok {
											if g, ok := l.X.(*ssa.Global); ok && (g.Name() == "ErrSyntax" || g.Name() == "ErrRange") {
												kindTested = true
											}
										}
									}
								}
							}
						}
					}
				}
				r.Check(kindTested, "R03e", name, "no second opinion on a range error", c.Pos(ret.Pos()), "the other answer is given only where the integer parser's failure was tested to be a syntax error",
					"a return of "+mname+" answers with "+foreign+" after strconv's exact integer parse failed, without telling a syntax error from a range error: an integer text just outside the 64-bit range is rounded by the other reader and stored as a different number (\"-9223372036854775809\" reads as MinInt64)")
			}
		}
	}
}

// durationThroughReferenceRule (R03f): reifyDuration tells numbers (seconds) from text (a duration with a unit) by
// the node type of the value. A setting that is exactly one reference takes the referenced value with its type
// (C02), so the node that is classified has to be what the reference evaluates to: `d: ${t}` with `t: 5` is five
// seconds, not the text "5" without a unit. The subject of the node-type switch can be the result of getValue of the
// value asserted to *cfgDynamic.
func durationThroughReferenceRule(c *Ctx, r *Report) {
	r.Rule("R03f", "reifyDuration classifies the value a reference evaluates to, not the reference node (a number behind a reference means seconds)", 1)
	fn := c.Func("", "reifyDuration")
	var val *ssa.Parameter
	for _, p := range fn.Params {
		if isNamed(p.Type(), modPath, "value") {
			val = p
		}
	}
	n := 0
	Instrs(fn, false, func(in ssa.Instruction) {
		ta, ok := in.(*ssa.TypeAssert)
		if !ok || typeStr(ta.AssertedType) != "*ucfg.cfgInt" {
			return
		}
		n++
		through := false
		for _, s := range append(Sources(ta.X), ta.X) {
			ex, isEx := s.(*ssa.Extract)
			if !isEx || ex.Index != 0 {
				continue
			}
			call, isCall := ex.Tuple.(*ssa.Call)
			if !isCall || calledName(call) != "getValue" || len(call.Call.Args) == 0 {
				continue
			}
			for _, s2 := range append(Sources(call.Call.Args[0]), call.Call.Args[0]) {
				if s2 == ssa.Value(val) {
					through = true
				}
				if t2, isTA := s2.(*ssa.TypeAssert); isTA && t2.X == ssa.Value(val) {
					through = true
				}
			}
		}
		r.Check(through, "R03f", c.FnName(fn), "node type of the evaluated value", c.Pos(ta.Pos()), "the switch subject can be getValue() of the reference", "the node-type switch of reifyDuration looks at the reference node itself: a number behind a reference falls into the text branch and fails with \"missing unit\" (d: ${t} with t: 5), although the same number written in place means seconds")
	})
	if n == 0 {
		r.add("R03f", c.FnName(fn), "node type of the evaluated value", c.Pos(fn.Pos()), Undecided, true, "no assertion to *cfgInt found in reifyDuration")
	}
}

// numericKindsRule (R03h): doReifyPrimitive sends a target to the range-checked converters (reifyInt / reifyUint /
// reifyFloat) by the kind predicates isInt / isUint / isFloat and lets everything else fall through to a raw reflect
// Convert (the known finding of R03c). A numeric kind that no predicate lists — uintptr was missing from isUint —
// takes that fall-through: int64(-1) became 18446744073709551615 without an error (repaired in 00c881a).
func numericKindsRule(c *Ctx, r *Report) {
	r.Rule("R03h", "each of the thirteen numeric reflect kinds (Int..Int64, Uint..Uint64, Uintptr, Float32, Float64) is accepted by exactly one of the kind predicates isInt / isUint / isFloat that doReifyPrimitive dispatches on", 13)
	_, kinds := reflectKind(c)
	want := map[string]string{"Int": "isInt", "Int8": "isInt", "Int16": "isInt", "Int32": "isInt", "Int64": "isInt",
		"Uint": "isUint", "Uint8": "isUint", "Uint16": "isUint", "Uint32": "isUint", "Uint64": "isUint", "Uintptr": "isUint",
		"Float32": "isFloat", "Float64": "isFloat"}
	dp := c.Func("", "doReifyPrimitive")
	preds := map[string]*ssa.Function{}
	for _, n := range []string{"isInt", "isUint", "isFloat"} {
		f := c.Func("", n)
		preds[n] = f
		if len(CallsTo(dp, f, false)) == 0 {
			r.Bad("R03h", c.FnName(dp), "dispatch on "+n, c.Pos(dp.Pos()), "doReifyPrimitive no longer consults "+n+": the kinds it lists take the unchecked fall-through conversion")
		}
	}
	for _, kc := range kinds {
		w, numeric := want[kc.Name]
		if !numeric {
			continue
		}
		var got []string
		und := false
		for _, n := range []string{"isInt", "isUint", "isFloat"} {
			v, ok := evalIntPredicate(preds[n], kc.Val)
			if !ok {
				und = true
			}
			if v {
				got = append(got, n)
			}
		}
		if und {
			r.add("R03h", "ucfg.kind predicates", "kind "+kc.Name, c.Pos(preds[w].Pos()), Undecided, true, "a kind predicate could not be evaluated for "+kc.Name)
			continue
		}
		r.Check(len(got) == 1 && got[0] == w, "R03h", "ucfg.kind predicates", "kind "+kc.Name, c.Pos(preds[w].Pos()), "accepted by "+w+" only",
			fmt.Sprintf("kind %s is accepted by %v instead of %s alone: a target of that kind does not reach its range-checked converter (no predicate: the raw reflect Convert of doReifyPrimitive wraps negative and out-of-range numbers around)", kc.Name, got, w))
	}
}
