package main

// R07m — kind contracts of reflect receivers that are parameters.
//
// Many reflect methods panic unless the receiver has one of a few kinds (MapKeys: Map; Len: Array, Chan,
// Map, Slice, String; Type.Key: Map; NumField: Struct; …). R07f/R07g/R07h decide IsNil, Set/Addr and
// Convert. The remaining methods are mostly called right under a kind switch on the same value — except
// in the helpers that take the value as a parameter and rely on "the caller has dispatched on the kind":
// reifyMap, validateMap, validateArray, reifyDoArray, … . That reliance is where the defects were: the
// caller dispatched on the kind of the pointer-chased *type* (or of the chased value) and handed over the
// unchased value (Unpack(&pm) with pm a nil *map; a pre-filled interface{} holding a map). This rule checks
// exactly that hand-over: for every kind-restricted call whose receiver is a parameter P (or P.Type()) of
// an unexported function, the kinds P can have — at every static call site, from the kind dispatches that
// dominate the site and relate to the argument, transitively through parameters — are among the kinds the
// method allows (after the function's own tests on P). A dispatch on chaseTypePointers(x.Type()).Kind()
// says "K or Ptr" about x, one on chaseValue(x).Kind() says "K, Ptr or Interface".

import (
	"fmt"
	"go/token"
	"go/types"
	"sort"
	"strings"

	"golang.org/x/tools/go/ssa"
)

type kmask uint64

const (
	kInvalid = iota
	kBool
	kInt
	kInt8
	kInt16
	kInt32
	kInt64
	kUint
	kUint8
	kUint16
	kUint32
	kUint64
	kUintptr
	kFloat32
	kFloat64
	kComplex64
	kComplex128
	kArray
	kChan
	kFunc
	kInterface
	kMap
	kPtr
	kSlice
	kString
	kStruct
	kUnsafePointer
)

const kAll kmask = (1 << 27) - 1

func km(ks ...int) kmask {
	var m kmask
	for _, k := range ks {
		m |= 1 << uint(k)
	}
	return m
}

func (m kmask) String() string {
	names := []string{"Invalid", "Bool", "Int", "Int8", "Int16", "Int32", "Int64", "Uint", "Uint8", "Uint16", "Uint32", "Uint64", "Uintptr", "Float32", "Float64", "Complex64", "Complex128", "Array", "Chan", "Func", "Interface", "Map", "Ptr", "Slice", "String", "Struct", "UnsafePointer"}
	if m == kAll {
		return "any kind"
	}
	var out []string
	for i, n := range names {
		if m&(1<<uint(i)) != 0 {
			out = append(out, n)
		}
	}
	return strings.Join(out, "|")
}

// the kind-restricted methods: reflect.Value methods by name, reflect.Type (interface) methods with the prefix "T."
var kindRestricted = map[string]kmask{
	"MapKeys": km(kMap), "MapIndex": km(kMap), "MapRange": km(kMap), "SetMapIndex": km(kMap),
	"Len":      km(kArray, kChan, kMap, kSlice, kString, kPtr), // Ptr: pointer to array (not used here; Ptr to anything else panics — handled below)
	"Index":    km(kArray, kSlice, kString),
	"Elem":     km(kInterface, kPtr),
	"NumField": km(kStruct), "Field": km(kStruct), "FieldByName": km(kStruct),
	"SetLen": km(kSlice), "Cap": km(kArray, kChan, kSlice, kPtr),
	"T.Key": km(kMap), "T.Elem": km(kArray, kChan, kMap, kPtr, kSlice), "T.NumField": km(kStruct), "T.Field": km(kStruct),
	"T.NumIn": km(kFunc), "T.NumOut": km(kFunc), "T.In": km(kFunc), "T.Out": km(kFunc), "T.Len": km(kArray),
}

type kindEngine struct {
	c         *Ctx
	kt        *types.Named
	kinds     []enumConst
	seen      map[string]bool
	assumed   map[string]string // hand-overs taken from handOverAssumption, with their reasons
	typeKinds map[string]kmask  // package-level reflect.Type variables -> kind of the type they hold
}

// subjectOfTag: which value does a Kind dispatch talk about, and what does "kind K" say about that value?
// Returns the NF string of the subject and the kinds to add to whatever the dispatch lets through.
func (e *kindEngine) relate(tagNF, subj string) (kmask, bool) {
	mp := modPath + "."
	switch tagNF {
	case "(reflect.Value).Kind(" + subj + ")", "invoke Kind((reflect.Value).Type(" + subj + "))", "invoke Kind(" + subj + ")":
		return 0, true
	case "invoke Kind(" + mp + "chaseTypePointers((reflect.Value).Type(" + subj + ")))":
		return km(kPtr), true
	case "(reflect.Value).Kind(" + mp + "chaseValue(" + subj + "))":
		return km(kPtr, kInterface), true
	case "(reflect.Value).Kind(" + mp + "chaseValuePointers(" + subj + "))":
		return km(kPtr), true
	case "(reflect.Value).Kind(" + mp + "chaseValueInterfaces(" + subj + "))":
		return km(kInterface), true
	}
	return 0, false
}

// localMask: the kinds the value with normal form subj can have at block `at`, from the dispatches of fn.
func (e *kindEngine) localMask(fn *ssa.Function, b *nfBuilder, subj string, at *ssa.BasicBlock) (kmask, []string) {
	mask := kAll
	var notes []string
	for _, d := range findDispatches(fn, e.kt) {
		if shortCircuitDispatch(fn, d, e.kt) {
			continue
		}
		if !(d.Head == at || d.Head.Dominates(at)) {
			continue
		}
		extra, ok := e.relate(b.Of(d.Tag).String(), subj)
		if !ok {
			continue
		}
		reach := kindsReaching(d, e.kt, e.kinds, at)
		var m kmask
		for k := range reach {
			if k >= 0 && k < 27 {
				m |= 1 << uint(k)
			}
		}
		if reach[-1] {
			m |= 0 // no kind outside the constants exists
		}
		m |= extra
		if m != kAll {
			notes = append(notes, fmt.Sprintf("dispatch at %s lets through %s", e.c.Pos(d.Head.Instrs[0].Pos()), m))
		}
		mask &= m
	}
	// IsValid() tested true on the same value
	for _, cd := range ExpandConds(DomConds(at)) {
		if call, ok := cd.V.(*ssa.Call); ok && cd.Truth && calledName(call) == "IsValid" && !call.Call.IsInvoke() && len(call.Call.Args) == 1 {
			if b.Of(call.Call.Args[0]).String() == subj {
				mask &^= km(kInvalid)
				notes = append(notes, "IsValid() holds")
			}
		}
	}
	// `x.Type() == tGlobal` with the kind of the global known
	for _, cd := range DomConds(at) {
		bo, ok := cd.V.(*ssa.BinOp)
		if !ok || bo.Op.String() != "==" || !cd.Truth {
			continue
		}
		for _, pair := range [][2]ssa.Value{{bo.X, bo.Y}, {bo.Y, bo.X}} {
			l, ok := pair[1].(*ssa.UnOp)
			if !ok {
				continue
			}
			g, ok := l.X.(*ssa.Global)
			if !ok {
				continue
			}
			km2, ok := e.typeKinds[g.Name()]
			if !ok {
				continue
			}
			if b.Of(pair[0]).String() == "(reflect.Value).Type("+subj+")" {
				mask &= km2
				notes = append(notes, "its type equals "+g.Name()+" ("+km2.String()+")")
			}
		}
	}
	return mask, notes
}

// constructed: kinds known from how the value was made.
func (e *kindEngine) constructed(n *nf) kmask {
	if n == nil {
		return kAll
	}
	if n.op == "const" && strings.HasPrefix(n.name, "zero") {
		return km(kInvalid)
	}
	switch n.op {
	case "alt":
		var m kmask
		for _, a := range n.args {
			m |= e.constructed(a)
		}
		return m
	case "call":
		name := strings.TrimPrefix(n.name, modPath+".")
		switch name {
		case "reflect.MakeMap", "reflect.MakeMapWithSize":
			return km(kMap)
		case "reflect.MakeSlice":
			return km(kSlice)
		case "reflect.New", "(reflect.Value).Addr":
			return km(kPtr)
		}
	}
	return kAll
}

// kindsOf: the kinds value v can have at instruction `at` in fn.
func (e *kindEngine) kindsOf(fn *ssa.Function, v ssa.Value, at ssa.Instruction, depth int) (kmask, string) {
	b := newNF(e.c)
	n := b.Of(v)
	subj := n.String()
	mask := e.constructed(n)
	lm, notes := e.localMask(fn, b, subj, at.Block())
	mask &= lm
	why := strings.Join(notes, "; ")
	// a parameter: what the callers hand over
	if p := paramOf(fn, v); p != nil && depth < 4 {
		key := fn.String() + "/" + p.Name()
		if e.seen[key] {
			return mask, why + " (recursive: assumed)"
		}
		e.seen[key] = true
		defer delete(e.seen, key)
		cm, cwhy, ok := e.fromCallers(fn, p, depth)
		if ok {
			mask &= cm
			if cwhy != "" {
				why = strings.TrimPrefix(why+"; callers: "+cwhy, "; ")
			}
		}
	}
	return mask, why
}

// paramOf: v is parameter p of fn (directly or through the local it was spilled into).
func paramOf(fn *ssa.Function, v ssa.Value) *ssa.Parameter {
	for _, s := range Sources(v) {
		if p, ok := s.(*ssa.Parameter); ok && p.Parent() == fn {
			if len(Sources(v)) == 1 {
				return p
			}
		}
	}
	return nil
}

func (e *kindEngine) fromCallers(fn *ssa.Function, p *ssa.Parameter, depth int) (kmask, string, bool) {
	if o := fn.Object(); o == nil || o.Exported() || fn.Parent() != nil {
		return kAll, "", false
	}
	callers, asValue := e.c.StaticCallers(fn)
	if asValue || len(callers) == 0 {
		return kAll, "", false
	}
	idx := -1
	for i, q := range fn.Params {
		if q == p {
			idx = i
		}
	}
	var m kmask
	var notes []string
	for _, cl := range callers {
		for _, ci := range CallsTo(cl, fn, false) {
			if idx >= len(ci.Common().Args) {
				return kAll, "", false
			}
			cm, why := e.kindsOf(cl, ci.Common().Args[idx], ci.(ssa.Instruction), depth+1)
			if am, reason := handOverAssumption(cl.Name(), fn.Name(), p.Name()); reason != "" && cm&^am != 0 {
				// a hand-over that is argued by reading, not derived (recorded as an exception of the rule)
				e.assumed[cl.Name()+" -> "+fn.Name()+"("+p.Name()+")"] = reason
				cm &= am
				why = "ASSUMED " + am.String()
			}
			m |= cm
			notes = append(notes, fmt.Sprintf("%s at %s: %s%s", cl.Name(), e.c.Pos(ci.Pos()), cm, ifNonEmpty(" ("+clip(why, 120)+")", why)))
		}
	}
	sort.Strings(notes)
	return m, strings.Join(notes, " | "), true
}

func ifNonEmpty(s, cond string) string {
	if cond == "" {
		return ""
	}
	return s
}

func paramKindContractRule(c *Ctx, r *Report) {
	r.Rule("R07m", "every kind-restricted reflect call whose receiver is a parameter (or its Type()) of an unexported function is allowed for every kind the callers can hand over (kind dispatches at the call sites, related through chaseValue / chaseTypePointers, transitively)", 8)
	kt, kinds := reflectKind(c)
	e := &kindEngine{c: c, kt: kt, kinds: kinds, seen: map[string]bool{}, assumed: map[string]string{}, typeKinds: globalTypeKinds(c)}
	for _, fn := range c.SrcFuncs() {
		if fn.Pkg != c.SSA[""] || fn.Parent() != nil {
			continue
		}
		if o := fn.Object(); o == nil || o.Exported() {
			continue
		}
		name := c.FnName(fn)
		for _, ci := range CallsIn(fn, false) {
			cc := ci.Common()
			var recv ssa.Value
			method := ""
			if cc.IsInvoke() {
				// reflect.Type method: receiver t; the subject is the value v with t = v.Type()
				if !strings.HasSuffix(cc.Value.Type().String(), "reflect.Type") {
					continue
				}
				method = "T." + cc.Method.Name()
				tc, ok := cc.Value.(*ssa.Call)
				if !ok || calledName(tc) != "Type" || tc.Call.IsInvoke() || len(tc.Call.Args) != 1 {
					continue
				}
				recv = tc.Call.Args[0]
			} else {
				g := cc.StaticCallee()
				if g == nil || g.Pkg == nil || g.Pkg.Pkg.Path() != "reflect" || g.Signature.Recv() == nil || !strings.Contains(g.String(), "reflect.Value") {
					continue
				}
				method = g.Name()
				recv = cc.Args[0]
			}
			allowed, ok := kindRestricted[method]
			if !ok {
				continue
			}
			p := paramOf(fn, recv)
			if p == nil {
				continue
			}
			r.Analysed["kind-restricted reflect calls on parameters"]++
			mask, why := e.kindsOf(fn, recv, ci.(ssa.Instruction), 0)
			what := method + " on parameter " + p.Name()
			bad := mask &^ allowed
			if method == "Len" || method == "Cap" {
				// Ptr is only fine for pointers to arrays, which nothing here passes: treat Ptr as not allowed
				bad = mask &^ (allowed &^ km(kPtr))
			}
			if bad != 0 {
				if ex := kindContractException(name, method); ex != "" {
					r.Except("R07m", name, what, c.Pos(ci.Pos()), ex)
					continue
				}
			}
			r.Check(bad == 0, "R07m", name, what, c.Pos(ci.Pos()), "possible kinds: "+mask.String()+ifNonEmpty(" — "+clip(why, 300), why),
				fmt.Sprintf("reflect %s is called on parameter %s, which can have kind %s here (%s): the method panics for it — the kind test the function relies on is made on another value (the chased type or the chased value) or not at all", strings.TrimPrefix(method, "T."), p.Name(), bad, clip(why, 400)))
		}
	}
	reportAssumptions(e, r)
}

func reportAssumptions(e *kindEngine, r *Report) {
	var ks []string
	for k := range e.assumed {
		ks = append(ks, k)
	}
	sort.Strings(ks)
	for _, k := range ks {
		r.Except("R07m", "hand-over", k, "-", e.assumed[k])
	}
}

func kindContractException(fn, method string) string {
	return ""
}

// handOverAssumption: the kinds an argument has at a hand-over the engine cannot derive, each argued from the
// code. All of them rest on the same two facts about reifyMergeValue / reifyStruct / validateStruct: the value
// was run through chaseValuePointers (chaseValue) and the nil-pointer case returned before, so the value is not
// a pointer any more and its kind is the kind of its pointer-chased type, which is what the dispatch tested.
func handOverAssumption(caller, callee, param string) (kmask, string) {
	chased := "the argument is `old` after chaseValueInterfaces + chaseValuePointers with the nil pointer/interface case returned before (reifyMergeValue's first statements): it is no pointer, so its kind is baseType.Kind(), which the dominating switch tested"
	switch caller + ">" + callee + ">" + param {
	case "reifyMergeValue>reifyMap>to":
		return km(kMap), chased
	case "reifyMergeValue>reifyArray>to":
		return km(kArray), chased
	case "reifyMergeValue>reifySliceMerge>old":
		return km(kSlice), chased
	case "reifySlice>reifySliceMerge>old":
		return km(kInvalid), "the zero reflect.Value: reifySliceMerge tests IsValid() before every use of old"
	case "reifyMergeValue>reifyStruct>orig", "reifyInto>reifyStruct>orig":
		return kAll, ""
	case "reifyStruct>accessField>structVal":
		return km(kStruct), "the argument is `to` = chaseValuePointers(reflect.New(chaseTypePointers(orig.Type()))): a fresh value of the pointer-chased type, whose kind every caller of reifyStruct dispatched as Struct on that same chased type"
	case "validateStruct>accessField>structVal":
		return km(kStruct), "the argument is chaseValue(val), and tryRecursiveValidate calls validateStruct only under chaseValue(val).Kind() == Struct"
	}
	return kAll, ""
}

// globalTypeKinds: the kind held by each package-level reflect.Type variable initialised as reflect.TypeOf(x) or
// reflect.TypeOf((*T)(nil)).Elem().
func globalTypeKinds(c *Ctx) map[string]kmask {
	out := map[string]kmask{}
	initFn := c.SSA[""].Func("init")
	if initFn == nil {
		return out
	}
	kindOf := func(t types.Type) (int, bool) {
		switch u := t.Underlying().(type) {
		case *types.Map:
			return kMap, true
		case *types.Struct:
			return kStruct, true
		case *types.Slice:
			return kSlice, true
		case *types.Array:
			return kArray, true
		case *types.Pointer:
			return kPtr, true
		case *types.Interface:
			return kInterface, true
		case *types.Signature:
			return kFunc, true
		case *types.Basic:
			switch u.Kind() {
			case types.Int64:
				return kInt64, true
			case types.String:
				return kString, true
			case types.Bool:
				return kBool, true
			}
		}
		return 0, false
	}
	Instrs(initFn, false, func(in ssa.Instruction) {
		st, ok := in.(*ssa.Store)
		if !ok {
			return
		}
		g, ok := st.Addr.(*ssa.Global)
		if !ok || !strings.HasSuffix(g.Type().String(), "reflect.Type") {
			return
		}
		v := st.Val
		elem := false
		if call, ok := v.(*ssa.Call); ok && call.Call.IsInvoke() && call.Call.Method.Name() == "Elem" {
			elem = true
			v = call.Call.Value
		}
		call, ok := v.(*ssa.Call)
		if !ok || call.Call.StaticCallee() == nil || call.Call.StaticCallee().String() != "reflect.TypeOf" {
			return
		}
		mi, ok := call.Call.Args[0].(*ssa.MakeInterface)
		if !ok {
			return
		}
		t := mi.X.Type()
		if elem {
			pt, ok := t.Underlying().(*types.Pointer)
			if !ok {
				return
			}
			t = pt.Elem()
		}
		if k, ok := kindOf(t); ok {
			out[g.Name()] = km(k)
		}
	})
	return out
}

// stringConvertRule (R07o): reflect.Value.Convert panics when the value is not convertible to the type. A string
// (a setting's name on its way to becoming a map key) converts to every type of kind String and to nothing else the
// library can know about: an interface type takes it only if string implements it (interface{} does, fmt.Stringer
// does not), and "kind Interface" does not tell the two apart.
func stringConvertRule(c *Ctx, r *Report) {
	r.Rule("R07o", "a string value is converted through reflect only to a type whose kind was tested to be String", 2)
	kt, kinds := reflectKind(c)
	e := &kindEngine{c: c, kt: kt, kinds: kinds, seen: map[string]bool{}, assumed: map[string]string{}, typeKinds: globalTypeKinds(c)}
	n := 0
	for _, fn := range c.SrcFuncs() {
		if fn.Pkg != c.SSA[""] {
			continue
		}
		for _, ci := range CallsIn(fn, false) {
			call, ok := ci.(*ssa.Call)
			if !ok {
				continue
			}
			g := call.Call.StaticCallee()
			if g == nil || g.String() != "(reflect.Value).Convert" || len(call.Call.Args) != 2 {
				continue
			}
			// receiver: reflect.ValueOf(<string>)
			isStr := false
			if vc, ok := call.Call.Args[0].(*ssa.Call); ok && vc.Call.StaticCallee() != nil && vc.Call.StaticCallee().String() == "reflect.ValueOf" {
				if mi, ok := vc.Call.Args[0].(*ssa.MakeInterface); ok {
					if bt, ok := mi.X.Type().Underlying().(*types.Basic); ok && bt.Info()&types.IsString != 0 {
						isStr = true
					}
				}
			}
			if !isStr {
				continue
			}
			n++
			b := newNF(c)
			subj := b.Of(call.Call.Args[1]).String()
			mask, notes := e.localMask(fn, b, subj, call.Block())
			ok = mask&^km(kString) == 0
			r.Check(ok, "R07o", c.FnName(fn), "string converted to a string kind", c.Pos(call.Pos()), "destination kind: "+mask.String(),
				"a string is converted through reflect to a type that can have kind "+(mask&^km(kString)).String()+" here ("+strings.Join(notes, "; ")+"): Convert panics for a type the string is not convertible to — for kind Interface every interface with methods (fmt.Stringer, error)")
		}
	}
	if n == 0 {
		r.Trivial("R07o", "ucfg", "string converted to a string kind", "-", "no reflect conversion of a string value")
	}
}

// mergeResultRule (R07p): reifyMergeValue chases the pointers of the value it merges into and can answer with the
// value the pointers lead to (the map, the array, the new slice) instead of a value of the slot's own type. Its
// callers are siblings: each stores the answer back into the slot it came from, and reflect.Value.Set /
// SetMapIndex panic on a value that is not assignable to the slot. Every one of them therefore restores the
// pointers (pointerize with the slot's type) — or has chased the slot itself before the call.
func mergeResultRule(c *Ctx, r *Report) {
	r.Rule("R07p", "what reifyMergeValue returns is stored into its slot (Set, SetMapIndex) through pointerize with the slot's type, unless the slot itself was pointer-chased before the call", 4)
	rmv := c.Func("", "reifyMergeValue")
	ptrz := c.Func("", "pointerize")
	for _, fn := range c.SrcFuncs() {
		if fn.Pkg != c.SSA[""] {
			continue
		}
		for _, ci := range CallsTo(fn, rmv, false) {
			call, ok := ci.(*ssa.Call)
			if !ok || call.Referrers() == nil {
				continue
			}
			var res ssa.Value
			for _, ref := range *call.Referrers() {
				if ex, ok := ref.(*ssa.Extract); ok && ex.Index == 0 {
					res = ex
				}
			}
			if res == nil {
				continue
			}
			// the merge target
			var target ssa.Value
			for _, a := range call.Call.Args {
				if isNamed(a.Type(), "reflect", "Value") {
					target = a
				}
			}
			chased := false
			for _, s := range append(Sources(target), target) {
				if tc, ok := s.(*ssa.Call); ok && tc.Call.StaticCallee() != nil && (tc.Call.StaticCallee().Name() == "chaseValuePointers" || tc.Call.StaticCallee().Name() == "chaseValue") {
					chased = true
				}
			}
			// stores of the result
			Instrs(fn, false, func(in ssa.Instruction) {
				sc, ok := in.(*ssa.Call)
				if !ok || sc.Call.StaticCallee() == nil {
					return
				}
				var stored ssa.Value
				switch sc.Call.StaticCallee().String() {
				case "(reflect.Value).Set":
					stored = sc.Call.Args[1]
				case "(reflect.Value).SetMapIndex":
					stored = sc.Call.Args[2]
				default:
					return
				}
				direct, wrapped := false, false
				for _, s := range append(Sources(stored), stored) {
					if s == res {
						direct = true
					}
					if pc, ok := s.(*ssa.Call); ok && IsCallTo(pc, ptrz) {
						for _, a := range pc.Call.Args {
							for _, s2 := range append(Sources(a), a) {
								if s2 == res {
									wrapped = true
								}
							}
						}
					}
				}
				if !direct && !wrapped {
					return
				}
				ok2 := wrapped || chased
				why := "through pointerize"
				if !wrapped {
					why = "the slot was pointer-chased before the merge"
				}
				if !ok2 {
					// the store goes into the chased slot (whose type is what the merge answers with), or — when that
					// is not settable — into the interface that holds it
					isChaseOf := func(v ssa.Value) bool {
						for _, s := range append(Sources(v), v) {
							if tc, ok := s.(*ssa.Call); ok && tc.Call.StaticCallee() != nil && strings.HasPrefix(tc.Call.StaticCallee().Name(), "chaseValue") && len(tc.Call.Args) == 1 {
								if tc.Call.Args[0] == target || SameValue(tc.Call.Args[0], target) || sameSrc(tc.Call.Args[0], target) {
									return true
								}
							}
						}
						return false
					}
					if isChaseOf(sc.Call.Args[0]) {
						ok2, why = true, "stored into the pointer-chased slot"
					}
					for _, cd := range DomConds(sc.Block()) {
						if cs, ok := cd.V.(*ssa.Call); ok && !cd.Truth && cs.Call.StaticCallee() != nil && cs.Call.StaticCallee().String() == "(reflect.Value).CanSet" && isChaseOf(cs.Call.Args[0]) {
							ok2, why = true, "the chased slot is not settable: the value is held by an interface, which takes any value"
						}
					}
				}
				r.Check(ok2, "R07p", c.FnName(fn), "merge result stored with its pointers", c.Pos(sc.Pos()), why,
					"the value reifyMergeValue returns is stored back into its slot as it is: for a slot that already holds a non-nil pointer (a []*map[string]T element, a map[string]*[]T entry) the answer is the map / array / slice behind the pointer, and "+sc.Call.StaticCallee().Name()+" panics because it is not assignable to the pointer type")
			})
		}
	}
}

// nilConfigArgRule (R07q): a *Config handed to an exported function and put into the tree (wrapped as a cfgSub) is a
// node every later operation dereferences: its context is set right away, its fields are read by every walk. A nil
// argument must be refused where it comes in.
func nilConfigArgRule(c *Ctx, r *Report) {
	r.Rule("R07q", "an exported function wraps a *Config parameter (other than its receiver) into a cfgSub node only under a test that it is not nil", 1)
	n := 0
	for _, fn := range c.SrcFuncs() {
		if fn.Pkg != c.SSA[""] || fn.Parent() != nil {
			continue
		}
		if o := fn.Object(); o == nil || !o.Exported() {
			continue
		}
		first := 0
		if rc := fn.Signature.Recv(); rc != nil {
			first = 1
			// a method is public only on an exported type
			rt := rc.Type()
			if pt, ok := rt.(*types.Pointer); ok {
				rt = pt.Elem()
			}
			if nt, ok := rt.(*types.Named); !ok || !nt.Obj().Exported() {
				continue
			}
		}
		Instrs(fn, false, func(in ssa.Instruction) {
			st, ok := in.(*ssa.Store)
			if !ok {
				return
			}
			nt, f, ok := FieldOf(st.Addr)
			if !ok || nt.Obj().Name() != "cfgSub" || f != "c" {
				return
			}
			for _, s := range Sources(st.Val) {
				p, isP := s.(*ssa.Parameter)
				if !isP {
					continue
				}
				idx := -1
				for i, q := range fn.Params {
					if q == p {
						idx = i
					}
				}
				if idx < first {
					continue
				}
				n++
				guarded := false
				for _, cd := range ExpandConds(DomConds(st.Block())) {
					if tv, neq, ok := nilTest(cd.V); ok && tv == ssa.Value(p) && cd.Truth == neq {
						guarded = true
					}
				}
				r.Check(guarded, "R07q", c.FnName(fn), "nil config refused", c.Pos(st.Pos()), "wrapped under "+p.Name()+" != nil",
					"the *Config parameter "+p.Name()+" is put into the tree without a nil test: "+fn.Name()+"(…, nil) dereferences the nil pointer (the new node's context is set at once) and the call panics")
			}
		})
	}
	if n == 0 {
		r.add("R07q", "ucfg", "nil config refused", "-", Undecided, true, "no exported function wraps a *Config parameter")
	}
}

// ancestorRule (R07r): the tree stays a tree. SetChild walks from its receiver up through Parent() and refuses a
// value that is the receiver itself or one of its ancestors; the store is not reachable from the edge on which the
// two were found identical. A config that becomes its own descendant makes every walk (Path, FlattenedKeys, Unpack,
// the path in an error message, the root search of a reference) run forever or overflow the stack.
func ancestorRule(c *Ctx, r *Report) {
	r.Rule("R07r", "SetChild compares its receiver and every Parent() above it with the config it is given and does not store on the edge where they are identical", 1)
	sc := c.Method("", "Config", "SetChild")
	name := c.FnName(sc)
	var valParam *ssa.Parameter
	for _, p := range sc.Params[1:] {
		if typeStr(p.Type()) == "*ucfg.Config" {
			valParam = p
		}
	}
	var store ssa.Instruction
	for _, ci := range CallsIn(sc, false) {
		if g := ci.Common().StaticCallee(); g != nil && g.Pkg == c.SSA[""] && (g.Name() == "setField" || g.Name() == "SetValue") {
			store = ci.(ssa.Instruction)
		}
	}
	if store == nil || valParam == nil {
		r.add("R07r", name, "ancestors refused", c.Pos(sc.Pos()), Undecided, true, "SetChild's store or its *Config parameter not found")
		return
	}
	ok, why := false, "no comparison of the receiver's ancestors with the value"
	Instrs(sc, false, func(in ssa.Instruction) {
		bo, isB := in.(*ssa.BinOp)
		if !isB || bo.Op != token.EQL && bo.Op != token.NEQ {
			return
		}
		var walker ssa.Value
		switch {
		case bo.X == ssa.Value(valParam):
			walker = bo.Y
		case bo.Y == ssa.Value(valParam):
			walker = bo.X
		default:
			return
		}
		// the other side walks up: a φ of the receiver and Parent() of itself
		phi, isPhi := walker.(*ssa.Phi)
		if !isPhi {
			return
		}
		fromRecv, fromParent := false, false
		for _, e := range phi.Edges {
			if e == ssa.Value(sc.Params[0]) {
				fromRecv = true
			}
			if call, isCall := e.(*ssa.Call); isCall && calledName(call) == "Parent" && len(call.Call.Args) == 1 && call.Call.Args[0] == ssa.Value(phi) {
				fromParent = true
			}
		}
		if !fromRecv || !fromParent {
			why = "the compared value does not walk from the receiver up through Parent()"
			return
		}
		// the store is cut off from the edge on which the two are identical
		for _, ref := range *bo.Referrers() {
			ifi, isIf := ref.(*ssa.If)
			if !isIf {
				continue
			}
			b := ifi.Block()
			same := b.Succs[0]
			if bo.Op == token.NEQ {
				same = b.Succs[1]
			}
			if reachableFromEdge(b, same, store.Block(), nil) {
				why = "the store is still reached after the value was found among the ancestors"
			} else {
				ok, why = true, "receiver and ancestors compared with the value; no store on the identical edge"
			}
		}
	})
	r.Check(ok, "R07r", name, "ancestors refused", c.Pos(store.Pos()), why,
		"SetChild can make a config a child of itself or of one of its own children ("+why+"): Path, FlattenedKeys, Unpack, every error message and the root search of references then recurse without end (fatal stack overflow, or a hang in cfgRoot)")
}

// zeroConfigRule (R07s): the zero value of Config — a Config that was not made by New: an unset struct field of type
// Config inside merged data, `var c ucfg.Config` as the target of Unpack — has no `fields` object. It reads as an empty
// configuration (the read accessors of fields test their receiver) and gets its fields when it is first written to
// (mergeConfig for a destination, setField for a setter).
func zeroConfigRule(c *Ctx, r *Report) {
	r.Rule("R07s", "every method of *fields that does not grow the node (all but set / setAt / add / append, whose callers give the destination its fields first) dereferences its receiver only under a nil test; mergeConfig and setField give a destination without fields a fresh fields object", 7)
	// the methods are enumerated from the type, so that a new accessor is checked without being listed; the writers
	// that grow a node are exempt by name, with the reason above (the second half of the rule is their side)
	growers := map[string]bool{"set": true, "setAt": true, "add": true, "append": true}
	var readers []string
	if ms := c.Prog.MethodSets.MethodSet(types.NewPointer(c.Named("", "fields"))); ms != nil {
		for i := 0; i < ms.Len(); i++ {
			if mn := ms.At(i).Obj().Name(); !growers[mn] {
				readers = append(readers, mn)
			}
		}
	}
	sort.Strings(readers)
	for _, mn := range readers {
		fn := c.Method("", "fields", mn)
		recv := fn.Params[0]
		ok := true
		derefs := 0
		Instrs(fn, false, func(in ssa.Instruction) {
			fa, isFA := in.(*ssa.FieldAddr)
			if !isFA || fa.X != ssa.Value(recv) {
				return
			}
			derefs++
			guarded := false
			for _, cd := range ExpandConds(DomConds(fa.Block())) {
				if tv, neq, isT := nilTest(cd.V); isT && tv == ssa.Value(recv) && cd.Truth == neq {
					guarded = true
				}
			}
			if !guarded {
				ok = false
			}
		})
		r.Check(ok && derefs > 0, "R07s", c.FnName(fn), "nil receiver reads as empty", c.Pos(fn.Pos()), "every dereference of the receiver under f != nil",
			"fields."+mn+" dereferences a nil receiver: reading a zero-valued Config (an unset Config field in merged data, a Config not made by New) panics")
	}
	cfgT := c.Named("", "Config")
	for _, fname := range []string{"mergeConfig", "setField"} {
		var fn *ssa.Function
		if fname == "setField" {
			fn = c.Method("", "Config", "setField")
		} else {
			fn = c.Func("", fname)
		}
		ok := false
		Instrs(fn, false, func(in ssa.Instruction) {
			st, isSt := in.(*ssa.Store)
			if !isSt {
				return
			}
			nt, f, isF := FieldOf(st.Addr)
			if !isF || nt != cfgT || f != "fields" {
				return
			}
			if al, isAl := st.Val.(*ssa.Alloc); !isAl || !al.Heap {
				return
			}
			// under a test that the destination has none
			for _, cd := range DomConds(st.Block()) {
				if tv, neq, isT := nilTest(cd.V); isT && cd.Truth != neq {
					if l, isL := tv.(*ssa.UnOp); isL {
						if nt2, f2, ok2 := FieldOf(l.X); ok2 && nt2 == cfgT && f2 == "fields" {
							ok = true
						}
					}
				}
			}
		})
		r.Check(ok, "R07s", c.FnName(fn), "destination gets its fields", c.Pos(fn.Pos()), "fields == nil → fresh fields object",
			fname+" writes into a Config without making sure it has a fields object: a zero-valued Config as the destination of Merge / Unpack / a setter panics")
	}
}

// unhashableKeyRule (R07t): a map whose key type is an interface hashes the dynamic value of every key it is given, and
// the runtime panics ("hash of unhashable type") when that value is a slice, a map, a function or a struct or array
// holding one. Comparing two interface values with == panics the same way. Where the key (or operand) is data — it
// comes out of reflect's Interface(), or is an interface value of unknown origin — the operation needs a dominating
// Comparable() test on the value or its type. Keys boxed from a static type that is comparable are fine.
func unhashableKeyRule(c *Ctx, r *Report) {
	r.Rule("R07t", "no map keyed by the empty interface is looked up or updated with a key of unknown dynamic type (from reflect Interface() or an interface value of unknown origin) without a dominating Comparable() test", 0)
	n := 0
	for _, fn := range c.SrcFuncs() {
		if !c.InRepo(fn) {
			continue
		}
		Instrs(fn, false, func(in ssa.Instruction) {
			var m, key ssa.Value
			switch x := in.(type) {
			case *ssa.MapUpdate:
				m, key = x.Map, x.Key
			case *ssa.Lookup:
				m, key = x.X, x.Index
			default:
				return
			}
			mt, ok := m.Type().Underlying().(*types.Map)
			if !ok {
				return
			}
			// the empty interface: a key type with methods (reflect.Type) is implemented by the library's own comparable types
			if it, isIface := mt.Key().Underlying().(*types.Interface); !isIface || it.NumMethods() > 0 {
				return
			}
			n++
			unknown := ""
			for _, src := range append([]ssa.Value{key}, Sources(key)...) {
				switch y := src.(type) {
				case *ssa.MakeInterface:
					if !types.Comparable(y.X.Type()) {
						unknown = "a value of the non-comparable type " + typeStr(y.X.Type())
					}
				case *ssa.Call:
					if g := y.Call.StaticCallee(); g != nil && g.String() == "(reflect.Value).Interface" {
						unknown = "the result of reflect.Value.Interface()"
					}
				case *ssa.Parameter, *ssa.UnOp, *ssa.Extract, *ssa.TypeAssert:
					if _, isI := y.Type().Underlying().(*types.Interface); isI {
						unknown = "an interface value of unknown dynamic type (" + y.Name() + ")"
					}
				}
			}
			if unknown == "" {
				r.OK("R07t", c.FnName(fn), "key of an interface-keyed map", c.Pos(in.Pos()), "boxed from a comparable static type")
				return
			}
			guarded := false
			for _, cd := range DomConds(in.Block()) {
				for _, part := range ExpandConds([]Cond{cd}) {
					if call, isCall := part.V.(*ssa.Call); isCall && part.Truth {
						name := ""
						if call.Call.IsInvoke() {
							name = call.Call.Method.Name()
						} else if g := call.Call.StaticCallee(); g != nil {
							name = g.Name()
						}
						if name == "Comparable" {
							guarded = true
						}
					}
				}
			}
			r.Check(guarded, "R07t", c.FnName(fn), "key of an interface-keyed map", c.Pos(in.Pos()), "under a Comparable() test",
				"a map keyed by an interface type is given "+unknown+" as key without a Comparable() test: for a slice, a map or a struct holding one the runtime panics with \"hash of unhashable type\" — a list of objects or of lists in the configuration is enough")
		})
	}
	r.Analysed["operations on interface-keyed maps"] = n
}
