package main

// Normalisation of helper extraction. The rules of this checker are anchored on the functions of the
// tree they were confirmed on (baseline_funcs.txt, generated with -write-baseline). A behaviour
// preserving edit that moves a few statements into a new unexported helper would otherwise move the
// constructs a rule looks for out of the anchored function. Before the analysis, every function that
//   - is not in the baseline, is unexported, has a body, is not recursive,
//   - is only ever used in call position (never as a value, never through an interface),
// is inlined at its call sites with the source-level inliner of golang.org/x/tools (the one behind
// gopls' "inline call" refactoring, copied under xinline/ because it is an internal package) and its
// declaration is dropped. The analysis then runs on the resulting in-memory overlay. The inliner is
// behaviour preserving by construction; when it cannot inline a call it says so and the call stays.
// On a tree without new functions this is the identity and costs one parse of the repository.

import (
	"bytes"
	"crypto/sha1"
	_ "embed"
	"encoding/hex"
	"fmt"
	"go/ast"
	"go/parser"
	"go/printer"
	"go/token"
	"go/types"
	"os"
	"path/filepath"
	"sort"
	"strings"

	"golang.org/x/tools/go/packages"

	"verif/checker/xinline/inline"
)

//go:embed baseline_funcs.txt
var baselineFuncsTxt string

// baselineFuncs: declKey -> fingerprint of the body (see declFingerprint); baselineHas tests membership.
var baselineFuncs = parseBaseline(baselineFuncsTxt)

func parseBaseline(txt string) map[string]string {
	m := map[string]string{}
	for _, l := range strings.Split(txt, "\n") {
		if l = strings.TrimSpace(l); l != "" && !strings.HasPrefix(l, "#") {
			f := strings.Fields(l)
			fp := ""
			if len(f) > 1 {
				fp = f[1]
			}
			m[f[0]] = fp
		}
	}
	return m
}

func baselineHas(k string) bool { _, ok := baselineFuncs[k]; return ok }

// declFingerprint: hash of the declaration printed without comments and with the function's own name masked,
// so that a renamed but otherwise untouched function has the fingerprint of the baseline function it was.
func declFingerprint(fset *token.FileSet, d *ast.FuncDecl) string {
	own := d.Name.Name
	var masked []*ast.Ident
	ast.Inspect(d, func(n ast.Node) bool {
		if id, ok := n.(*ast.Ident); ok && id.Name == own {
			masked = append(masked, id)
			id.Name = "_SELF_"
		}
		return true
	})
	doc := d.Doc
	d.Doc = nil
	var buf bytes.Buffer
	printer.Fprint(&buf, fset, d)
	d.Doc = doc
	for _, id := range masked {
		id.Name = own
	}
	// layout independent: drop all white space
	txt := strings.Join(strings.Fields(buf.String()), " ")
	h := sha1.Sum([]byte(txt))
	return hex.EncodeToString(h[:8])
}

// declKey names a function declaration independent of its position: "dir:Recv.Name".
func declKey(relDir string, d *ast.FuncDecl) string {
	recv := ""
	if d.Recv != nil && len(d.Recv.List) == 1 {
		t := d.Recv.List[0].Type
		for {
			switch x := t.(type) {
			case *ast.StarExpr:
				t = x.X
				continue
			case *ast.ParenExpr:
				t = x.X
				continue
			case *ast.IndexExpr:
				t = x.X
				continue
			}
			break
		}
		if id, ok := t.(*ast.Ident); ok {
			recv = id.Name + "."
		}
	}
	return relDir + ":" + recv + d.Name.Name
}

// repoGoFiles lists the non-test Go files of the repository (skipping hidden and testdata directories).
func repoGoFiles(repo string) []string {
	var out []string
	filepath.Walk(repo, func(p string, fi os.FileInfo, err error) error {
		if err != nil {
			return nil
		}
		if fi.IsDir() {
			n := fi.Name()
			if p != repo && (strings.HasPrefix(n, ".") || strings.HasPrefix(n, "_") || n == "testdata" || n == "vendor") {
				return filepath.SkipDir
			}
			return nil
		}
		if strings.HasSuffix(p, ".go") && !strings.HasSuffix(p, "_test.go") {
			out = append(out, p)
		}
		return nil
	})
	sort.Strings(out)
	return out
}

// scanDecls parses the repository (with the overlay): declKey -> fingerprint of every function declared.
func scanDecls(repo string, overlay map[string][]byte) map[string]string {
	res := map[string]string{}
	fset := token.NewFileSet()
	for _, p := range repoGoFiles(repo) {
		var src interface{}
		if b, ok := overlay[p]; ok {
			src = b
		}
		f, err := parser.ParseFile(fset, p, src, parser.SkipObjectResolution)
		if err != nil {
			continue // the real load reports it
		}
		rel, _ := filepath.Rel(repo, filepath.Dir(p))
		if rel == "." {
			rel = ""
		}
		for _, d := range f.Decls {
			if fd, ok := d.(*ast.FuncDecl); ok {
				res[declKey(rel, fd)] = declFingerprint(fset, fd)
			}
		}
	}
	return res
}

// newDecls: the keys of declarations that are not in the baseline.
func newDecls(repo string, overlay map[string][]byte) map[string]bool {
	res := map[string]bool{}
	for k := range scanDecls(repo, overlay) {
		if !baselineHas(k) {
			res[k] = true
		}
	}
	return res
}

// WriteBaseline prints the keys of every function declared in the repository's working tree.
func WriteBaseline(repo string) {
	all := scanDecls(repo, nil)
	var ks []string
	for k := range all {
		ks = append(ks, k)
	}
	sort.Strings(ks)
	fmt.Println("# functions of the tree the rules were confirmed on, with a fingerprint of each body (ucfgcheck -write-baseline); see normalize.go")
	for _, k := range ks {
		fmt.Printf("%s\t%s\n", k, all[k])
	}
}

// NormNotes records what the last normalisation did (for the evidence file and the console).
type NormNotes struct {
	Renamed []string
	Inlined []string
	Kept    []string
}

const maxInlineRounds = 80
const maxCallSites = 8

// normalizeOverlay returns overlay extended by the files in which new helpers were inlined.
func normalizeOverlay(repo, goarch string, overlay map[string][]byte) (map[string][]byte, *NormNotes) {
	notes := &NormNotes{}
	if os.Getenv("UCFG_NO_NORMALIZE") != "" {
		return overlay, notes
	}
	if len(newDecls(repo, overlay)) == 0 {
		return overlay, notes
	}
	cur := map[string][]byte{}
	for k, v := range overlay {
		cur[k] = v
	}
	// renamed functions first: a baseline function that is gone while exactly one new function of the same
	// package (and receiver or no receiver alike) has its body is that function under a new name
	// (repeated: once a renamed callee has its old name back, the body of a renamed caller matches too)
	for i := 0; i < 6; i++ {
		ren := detectRenames(scanDecls(repo, cur))
		if len(ren) == 0 {
			break
		}
		out, done, err := applyRenames(repo, goarch, cur, ren)
		if err != nil {
			notes.Kept = append(notes.Kept, "rename detection: "+err.Error())
			break
		}
		cur = out
		notes.Renamed = append(notes.Renamed, done...)
	}
	if len(newDecls(repo, cur)) == 0 {
		return cur, notes
	}
	failed := map[string]string{} // declKey -> reason it stays
	inlinedAt := map[string]int{}
	var prev map[string][]byte // the overlay before the last round, and what that round edited
	var prevEdited []string
	var prevInlined map[string]int
	for round := 0; round < maxInlineRounds; round++ {
		snap := map[string][]byte{}
		for k, v := range cur {
			snap[k] = v
		}
		snapInl := map[string]int{}
		for k, v := range inlinedAt {
			snapInl[k] = v
		}
		edited, err := inlineRound(repo, goarch, cur, failed, inlinedAt)
		if err != nil {
			if prev == nil {
				notes.Kept = append(notes.Kept, "normalisation stopped: "+err.Error())
				break
			}
			// the text produced by the last round does not type-check: undo that round, keep those helpers as they are
			cur, inlinedAt = prev, prevInlined
			for _, k := range prevEdited {
				failed[k] = "text after inlining did not type-check (" + err.Error() + ")"
			}
			prev = nil
			continue
		}
		if len(edited) == 0 {
			break
		}
		prev, prevEdited, prevInlined = snap, edited, snapInl
	}
	for k, n := range inlinedAt {
		notes.Inlined = append(notes.Inlined, fmt.Sprintf("%s (%d call site(s))", k, n))
	}
	for k, why := range failed {
		if why == "" {
			continue
		}
		notes.Kept = append(notes.Kept, k+": "+why)
	}
	sort.Strings(notes.Inlined)
	sort.Strings(notes.Kept)
	if d := os.Getenv("UCFG_DUMPNORM"); d != "" {
		for k, v := range cur {
			rel, _ := filepath.Rel(repo, k)
			os.MkdirAll(filepath.Dir(filepath.Join(d, rel)), 0o755)
			os.WriteFile(filepath.Join(d, rel), v, 0o644)
		}
	}
	return cur, notes
}

type normCand struct {
	key   string
	obj   *types.Func
	decl  *ast.FuncDecl
	pkg   *packages.Package
	file  *ast.File
	calls []normCall
	bad   string
}

type normCall struct {
	pkg  *packages.Package
	file *ast.File
	call *ast.CallExpr
}

// inlineRound loads the tree, finds the candidates and performs at most one edit per file.
func inlineRound(repo, goarch string, cur map[string][]byte, failed map[string]string, inlinedAt map[string]int) ([]string, error) {
	env := append(os.Environ(), "GOFLAGS=-mod=mod", "GOPROXY=off", "GOSUMDB=off", "GOWORK=off", "GOTOOLCHAIN=local")
	if goarch != "" {
		env = append(env, "GOARCH="+goarch)
	}
	fset := token.NewFileSet()
	cfg := &packages.Config{Mode: packages.LoadSyntax, Dir: repo, Env: env, Fset: fset, Overlay: cur}
	pkgs, err := packages.Load(cfg, "./...")
	if err != nil {
		return nil, err
	}
	for _, p := range pkgs {
		if len(p.Errors) > 0 {
			return nil, fmt.Errorf("type errors in %s: %v", p.PkgPath, p.Errors[0])
		}
	}
	// interfaces of the repository by method name: a method of a type that implements one of them may be called
	// through the interface (an unexported method can only satisfy an interface of its own package)
	ifaceByMethod := map[string][]*types.Interface{}
	for _, p := range pkgs {
		sc := p.Types.Scope()
		for _, n := range sc.Names() {
			if tn, ok := sc.Lookup(n).(*types.TypeName); ok {
				if it, ok := tn.Type().Underlying().(*types.Interface); ok {
					for i := 0; i < it.NumMethods(); i++ {
						ifaceByMethod[it.Method(i).Name()] = append(ifaceByMethod[it.Method(i).Name()], it)
					}
				}
			}
		}
	}
	viaInterface := func(obj *types.Func) bool {
		sig, _ := obj.Type().(*types.Signature)
		if sig == nil || sig.Recv() == nil {
			return false
		}
		rt := sig.Recv().Type()
		if pt, ok := rt.(*types.Pointer); ok {
			rt = pt.Elem()
		}
		for _, it := range ifaceByMethod[obj.Name()] {
			if types.Implements(rt, it) || types.Implements(types.NewPointer(rt), it) {
				return true
			}
		}
		return false
	}
	cands := map[*types.Func]*normCand{}
	var order []*normCand
	for _, p := range pkgs {
		if !(p.PkgPath == modPath || strings.HasPrefix(p.PkgPath, modPath+"/")) {
			continue
		}
		rel := strings.TrimPrefix(strings.TrimPrefix(p.PkgPath, modPath), "/")
		for _, f := range p.Syntax {
			for _, d := range f.Decls {
				fd, ok := d.(*ast.FuncDecl)
				if !ok {
					continue
				}
				k := declKey(rel, fd)
				if baselineHas(k) || failed[k] != "" {
					continue
				}
				obj, _ := p.TypesInfo.Defs[fd.Name].(*types.Func)
				if obj == nil {
					continue
				}
				nc := &normCand{key: k, obj: obj, decl: fd, pkg: p, file: f}
				switch {
				case fd.Body == nil:
					nc.bad = "no body"
				case ast.IsExported(fd.Name.Name):
					nc.bad = "exported: callers outside the repository may exist"
				case fd.Name.Name == "init" || fd.Name.Name == "main":
					nc.bad = "init/main"
				case fd.Recv != nil && viaInterface(obj):
					nc.bad = "method of a type that implements an interface with this method: may be called through the interface"
				case fd.Type.TypeParams != nil:
					nc.bad = "generic"
				}
				cands[obj] = nc
				order = append(order, nc)
			}
		}
	}
	if len(order) == 0 {
		return nil, nil
	}
	// classify every use
	for _, p := range pkgs {
		for _, f := range p.Syntax {
			callFun := map[*ast.Ident]*ast.CallExpr{}
			ast.Inspect(f, func(n ast.Node) bool {
				if ce, ok := n.(*ast.CallExpr); ok {
					switch fun := ast.Unparen(ce.Fun).(type) {
					case *ast.Ident:
						callFun[fun] = ce
					case *ast.SelectorExpr:
						callFun[fun.Sel] = ce
					}
				}
				return true
			})
			ast.Inspect(f, func(n ast.Node) bool {
				id, ok := n.(*ast.Ident)
				if !ok {
					return true
				}
				fnObj, _ := p.TypesInfo.Uses[id].(*types.Func)
				if fnObj == nil {
					return true
				}
				nc := cands[fnObj]
				if nc == nil {
					return true
				}
				ce := callFun[id]
				if ce == nil {
					if nc.bad == "" {
						nc.bad = "used as a value at " + fset.Position(id.Pos()).String()
					}
					return true
				}
				if nc.decl.Pos() <= id.Pos() && id.Pos() < nc.decl.End() {
					if nc.bad == "" {
						nc.bad = "recursive"
					}
					return true
				}
				nc.calls = append(nc.calls, normCall{p, f, ce})
				return true
			})
		}
	}
	for _, nc := range order {
		if nc.bad == "" && len(nc.calls) > maxCallSites {
			nc.bad = fmt.Sprintf("%d call sites (more than %d)", len(nc.calls), maxCallSites)
		}
		if nc.bad != "" {
			failed[nc.key] = nc.bad
		}
	}
	touched := map[string]bool{}
	var edited []string
	// the text the syntax trees of this round were parsed from (edits of this round go to cur only)
	roundSrc := map[string][]byte{}
	for k, v := range cur {
		roundSrc[k] = v
	}
	content := func(f *ast.File) (string, []byte, error) {
		name := fset.Position(f.Pos()).Filename
		if b, ok := roundSrc[name]; ok {
			return name, b, nil
		}
		b, err := os.ReadFile(name)
		if err == nil {
			roundSrc[name] = b
		}
		return name, b, err
	}
	for _, nc := range order {
		if nc.bad != "" {
			continue
		}
		if len(nc.calls) == 0 {
			// no caller left (or never had one): drop the declaration so that rules scanning every function do not see a body that is analysed at its call sites already
			if inlinedAt[nc.key] == 0 {
				continue // a new function nobody calls: leave it to the rules
			}
			name, src, err := content(nc.file)
			if err != nil || touched[name] {
				continue
			}
			start := nc.decl.Pos()
			if nc.decl.Doc != nil {
				start = nc.decl.Doc.Pos()
			}
			so, eo := fset.Position(start).Offset, fset.Position(nc.decl.End()).Offset
			out := append(append([]byte{}, src[:so]...), src[eo:]...)
			cur[name] = out
			touched[name] = true
			edited = append(edited, nc.key)
			continue
		}
		// inline the first call site whose file was not edited in this round
		_, calleeSrc, err := content(nc.file)
		if err != nil {
			failed[nc.key] = err.Error()
			continue
		}
		var logbuf bytes.Buffer
		logf := func(format string, a ...any) { fmt.Fprintf(&logbuf, format+"\n", a...) }
		callee, err := inline.AnalyzeCallee(logf, fset, nc.pkg.Types, nc.pkg.TypesInfo, nc.decl, calleeSrc)
		if err != nil {
			failed[nc.key] = "inliner: " + err.Error()
			continue
		}
		for _, call := range nc.calls {
			name, src, err := content(call.file)
			if err != nil || touched[name] {
				continue
			}
			res, err := inline.Inline(&inline.Caller{Fset: fset, Types: call.pkg.Types, Info: call.pkg.TypesInfo, File: call.file, Call: call.call, Content: src}, callee, &inline.Options{Logf: logf})
			if se, ok := err.(*inline.ShadowError); ok {
				// a local variable of the caller hides a package-level name the helper uses: rename the local (all its
				// definitions and uses, by object identity) and inline in the next round
				if out, ok := renameLocal(fset, call.pkg, call.file, src, se.Shadow); ok {
					cur[name] = out
					touched[name] = true
					edited = append(edited, nc.key)
					break
				}
			}
			if err != nil {
				failed[nc.key] = "inliner: " + err.Error()
				break
			}
			out := res.Content
			if res.Literalized {
				pkgVars := map[string]bool{}
				for _, n := range call.pkg.Types.Scope().Names() {
					if _, isVar := call.pkg.Types.Scope().Lookup(n).(*types.Var); isVar {
						pkgVars[n] = true
					}
				}
				out = flattenLiterals(name, res.Content, pkgVars)
				if bytes.Equal(out, res.Content) {
					failed[nc.key] = "inliner could only replace the call by a function literal at " + fset.Position(call.call.Pos()).String()
					break
				}
			}
			cur[name] = out
			touched[name] = true
			inlinedAt[nc.key]++
			edited = append(edited, nc.key)
			break
		}
	}
	return edited, nil
}

// renameLocal renames a function-local variable/constant/type to a name that is fresh in the file and the package.
func renameLocal(fset *token.FileSet, pkg *packages.Package, file *ast.File, src []byte, obj types.Object) ([]byte, bool) {
	if obj == nil || obj.Parent() == nil || obj.Parent() == pkg.Types.Scope() || obj.Parent() == types.Universe {
		return nil, false
	}
	usedNames := map[string]bool{}
	var sites []*ast.Ident
	ast.Inspect(file, func(n ast.Node) bool {
		if id, ok := n.(*ast.Ident); ok {
			usedNames[id.Name] = true
			if pkg.TypesInfo.Defs[id] == obj || pkg.TypesInfo.Uses[id] == obj {
				sites = append(sites, id)
			}
		}
		return true
	})
	// an implicit use (a struct field key written by embedding, a type switch symbol) would be missed: refuse
	for _, o := range pkg.TypesInfo.Implicits {
		if o == obj {
			return nil, false
		}
	}
	if len(sites) == 0 {
		return nil, false
	}
	nn := obj.Name()
	for {
		nn += "_"
		if !usedNames[nn] && pkg.Types.Scope().Lookup(nn) == nil && types.Universe.Lookup(nn) == nil {
			break
		}
	}
	sort.Slice(sites, func(i, j int) bool { return sites[i].Pos() > sites[j].Pos() })
	out := append([]byte{}, src...)
	for _, id := range sites {
		so := fset.Position(id.Pos()).Offset
		eo := so + len(id.Name)
		if string(out[so:eo]) != id.Name {
			return nil, false
		}
		out = append(append(append([]byte{}, out[:so]...), nn...), out[eo:]...)
	}
	return out, true
}

// detectRenames: new declKey -> baseline declKey, for unexported functions whose body equals that of a
// baseline function that no longer exists (unique in both directions).
func detectRenames(all map[string]string) map[string]string {
	missingByFP := map[string][]string{}
	for k, fp := range baselineFuncs {
		if _, ok := all[k]; !ok && fp != "" {
			missingByFP[fp] = append(missingByFP[fp], k)
		}
	}
	newByFP := map[string][]string{}
	for k, fp := range all {
		if !baselineHas(k) {
			newByFP[fp] = append(newByFP[fp], k)
		}
	}
	out := map[string]string{}
	for fp, ms := range missingByFP {
		ns := newByFP[fp]
		if len(ms) != 1 || len(ns) != 1 {
			continue
		}
		m, n := ms[0], ns[0]
		// same package directory, both functions or both methods
		md, nd := m[:strings.Index(m, ":")], n[:strings.Index(n, ":")]
		if md != nd || strings.Contains(m[len(md):], ".") != strings.Contains(n[len(nd):], ".") {
			continue
		}
		name := n[strings.LastIndexAny(n, ":.")+1:]
		if ast.IsExported(name) || ast.IsExported(m[strings.LastIndexAny(m, ":.")+1:]) {
			continue // an exported name is API: not a behaviour preserving rename
		}
		out[n] = m
	}
	return out
}

// applyRenames renames the functions (all definitions and uses, by object identity) in the overlay.
func applyRenames(repo, goarch string, cur map[string][]byte, ren map[string]string) (map[string][]byte, []string, error) {
	env := append(os.Environ(), "GOFLAGS=-mod=mod", "GOPROXY=off", "GOSUMDB=off", "GOWORK=off", "GOTOOLCHAIN=local")
	if goarch != "" {
		env = append(env, "GOARCH="+goarch)
	}
	fset := token.NewFileSet()
	cfg := &packages.Config{Mode: packages.LoadSyntax, Dir: repo, Env: env, Fset: fset, Overlay: cur}
	pkgs, err := packages.Load(cfg, "./...")
	if err != nil {
		return nil, nil, err
	}
	type site struct {
		off int
		old string
		new string
	}
	edits := map[string][]site{}
	var done []string
	for _, p := range pkgs {
		if len(p.Errors) > 0 {
			return nil, nil, fmt.Errorf("type errors in %s: %v", p.PkgPath, p.Errors[0])
		}
		if !(p.PkgPath == modPath || strings.HasPrefix(p.PkgPath, modPath+"/")) {
			continue
		}
		rel := strings.TrimPrefix(strings.TrimPrefix(p.PkgPath, modPath), "/")
		target := map[types.Object]string{}
		for _, f := range p.Syntax {
			for _, d := range f.Decls {
				if fd, ok := d.(*ast.FuncDecl); ok {
					if to, ok := ren[declKey(rel, fd)]; ok {
						if obj := p.TypesInfo.Defs[fd.Name]; obj != nil {
							target[obj] = to[strings.LastIndexAny(to, ":.")+1:]
							done = append(done, declKey(rel, fd)+" = "+to)
						}
					}
				}
			}
		}
		if len(target) == 0 {
			continue
		}
		for _, f := range p.Syntax {
			name := fset.Position(f.Pos()).Filename
			ast.Inspect(f, func(n ast.Node) bool {
				id, ok := n.(*ast.Ident)
				if !ok {
					return true
				}
				obj := p.TypesInfo.Defs[id]
				if obj == nil {
					obj = p.TypesInfo.Uses[id]
				}
				if nn, ok := target[obj]; ok && obj != nil {
					edits[name] = append(edits[name], site{fset.Position(id.Pos()).Offset, id.Name, nn})
				}
				return true
			})
		}
	}
	out := map[string][]byte{}
	for k, v := range cur {
		out[k] = v
	}
	for name, ss := range edits {
		src, ok := out[name]
		if !ok {
			b, err := os.ReadFile(name)
			if err != nil {
				return nil, nil, err
			}
			src = b
		}
		sort.Slice(ss, func(i, j int) bool { return ss[i].off > ss[j].off })
		buf := append([]byte{}, src...)
		for _, e := range ss {
			if string(buf[e.off:e.off+len(e.old)]) != e.old {
				return nil, nil, fmt.Errorf("rename: text mismatch in %s", name)
			}
			buf = append(append(append([]byte{}, buf[:e.off]...), e.new...), buf[e.off+len(e.old):]...)
		}
		out[name] = buf
	}
	// the renamed text must type-check
	cfg2 := &packages.Config{Mode: packages.LoadSyntax, Dir: repo, Env: env, Fset: token.NewFileSet(), Overlay: out}
	pk2, err := packages.Load(cfg2, "./...")
	if err != nil {
		return nil, nil, err
	}
	for _, p := range pk2 {
		if len(p.Errors) > 0 {
			return nil, nil, fmt.Errorf("renamed text does not type-check: %v", p.Errors[0])
		}
	}
	sort.Strings(done)
	return out, done, nil
}
