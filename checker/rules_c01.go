package main

// C01 — Merge follows the selected policy.
// R01a policy dispatch is exhaustive and distinct; R01b each array strategy has the source-order
// signature of its policy; R01d/e the dictionary loop and the value merge have the stated shape; R01c options are threaded to nested merges. Value semantics (lengths,
// index-wise arithmetic, identity laws) are not decided.

import (
	"fmt"
	"go/token"
	"go/types"
	"sort"
	"strings"

	"golang.org/x/tools/go/ssa"
)

func init() {
	register("C01", "Enum-dispatch simulation of mergeConfigArr for every configHandling constant (every constant an exported option or struct tag can install has an explicit case; replace/prepend/append/merge classes reach pairwise different strategies), structural source-order signatures of the four array strategies read from SSA (which array — source or destination — is appended, in which order, into a fresh node that keeps the dictionary part or in place; index-wise setAt under a loop bounded by both lengths followed by append of the source tail), and def-use threading of the *options argument through every recursive merge call. Decides that the policy selected is the policy executed at every nesting level; does not decide lengths, index-wise value arithmetic, nil handling or idempotence laws.", checkC01)
}

// paramRole renames the leading parameter of an access path to its positional role.
func rolePath(fn *ssa.Function, p string, roles map[int]string) string {
	for i, prm := range fn.Params {
		if role, ok := roles[i]; ok {
			if p == prm.Name() {
				return role
			}
			if strings.HasPrefix(p, prm.Name()+".") || strings.HasPrefix(p, prm.Name()+"[") {
				return role + p[len(prm.Name()):]
			}
		}
	}
	return p
}

// mergeRoles: the roles of a merge function's parameters by type, not by position: the first *Config is the
// destination, the second the source; a []value parameter (when there is no second *Config) is the source's
// array handed over by the dispatcher (which is checked to pass from.fields.array(), see R01b "source array").
func mergeRoles(c *Ctx, fn *ssa.Function) map[int]string {
	roles := map[int]string{}
	nCfg := 0
	valueT := c.Named("", "value")
	for i, p := range fn.Params {
		switch {
		case isNamed(derefType(p.Type()), modPath, "Config"):
			if _, isPtr := p.Type().(*types.Pointer); isPtr {
				nCfg++
				if nCfg == 1 {
					roles[i] = "to"
				} else if nCfg == 2 {
					roles[i] = "from"
				}
			}
		}
	}
	if nCfg < 2 {
		for i, p := range fn.Params {
			if sl, ok := p.Type().Underlying().(*types.Slice); ok && types.Identical(sl.Elem(), valueT) {
				roles[i] = "from.fields.a"
				break
			}
		}
	}
	return roles
}

func hasRole(roles map[int]string, role string) bool {
	for _, r := range roles {
		if r == role {
			return true
		}
	}
	return false
}

// sourceArrayArg: a strategy that takes the source's elements as a []value is handed from.fields.array() by the dispatcher.
func sourceArrayArg(c *Ctx, r *Report, disp, strat *ssa.Function) {
	idx := -1
	for i, role := range mergeRoles(c, strat) {
		if role == "from.fields.a" {
			idx = i
		}
	}
	if idx < 0 {
		return
	}
	droles := mergeRoles(c, disp)
	for _, ci := range CallsTo(disp, strat, false) {
		got := "?"
		if p, ok := pathOf(ci.Common().Args[idx]); ok {
			got = rolePath(disp, p, droles)
		}
		r.Check(got == "from.fields.a", "R01b", c.FnName(disp), "source array handed to "+strat.Name(), c.Pos(ci.Pos()), "the strategy receives from.fields.array()",
			"the element list handed to the strategy is not the source's array ("+got+")")
	}
}

// pureAccessor: method whose body is `return recv.<field>`; returns the field name.
func pureAccessor(fn *ssa.Function) (string, bool) {
	if fn == nil || len(fn.Params) != 1 {
		return "", false
	}
	// the accessor may answer nil for a nil receiver first: `if f == nil { return nil }; return f.x`
	if len(fn.Blocks) == 3 {
		b0 := fn.Blocks[0]
		ifi, isIf := lastInstr(b0).(*ssa.If)
		if !isIf || len(b0.Instrs) != 2 {
			return "", false
		}
		tv, neq, isT := nilTest(ifi.Cond)
		if !isT || tv != ssa.Value(fn.Params[0]) {
			return "", false
		}
		nilBlk, body := b0.Succs[0], b0.Succs[1]
		if neq {
			nilBlk, body = body, nilBlk
		}
		rt, isRet := lastInstr(nilBlk).(*ssa.Return)
		if !isRet || len(nilBlk.Instrs) != 1 || len(rt.Results) != 1 || !IsNilConst(rt.Results[0]) {
			return "", false
		}
		return pureAccessorBody(fn, body)
	}
	if len(fn.Blocks) != 1 {
		return "", false
	}
	return pureAccessorBody(fn, fn.Blocks[0])
}

func pureAccessorBody(fn *ssa.Function, b *ssa.BasicBlock) (string, bool) {
	if len(b.Instrs) != 3 {
		return "", false
	}
	fa, ok1 := b.Instrs[0].(*ssa.FieldAddr)
	ld, ok2 := b.Instrs[1].(*ssa.UnOp)
	rt, ok3 := b.Instrs[2].(*ssa.Return)
	if !ok1 || !ok2 || !ok3 || fa.X != ssa.Value(fn.Params[0]) || ld.X != ssa.Value(fa) || len(rt.Results) != 1 || rt.Results[0] != ssa.Value(ld) {
		return "", false
	}
	_, f, ok := FieldOf(fa)
	return f, ok
}

// pathOf extends AccessPath through pure accessor calls, slices (suffix noted) and element loads.
func pathOf(v ssa.Value) (string, bool) {
	switch x := v.(type) {
	case *ssa.Call:
		if f := x.Call.StaticCallee(); f != nil {
			if fld, ok := pureAccessor(f); ok {
				if p, ok := pathOf(x.Call.Args[0]); ok {
					return p + "." + fld, true
				}
			}
		}
		return "", false
	case *ssa.Slice:
		p, ok := pathOf(x.X)
		if !ok {
			return "", false
		}
		return p + "[lo:]", x.Low != nil && x.High == nil && x.Max == nil
	case *ssa.UnOp:
		if x.Op == token.MUL {
			if ia, ok := x.X.(*ssa.IndexAddr); ok {
				if p, ok := pathOf(ia.X); ok {
					return p + "[i]", true
				}
				return "", false
			}
			if fa, ok := x.X.(*ssa.FieldAddr); ok {
				if p, ok := pathOf(fa.X); ok {
					return strings.TrimPrefix(p, "&") + "." + fieldName(fa.X.Type(), fa.Field), true
				}
			}
		}
	}
	return AccessPath(v)
}

type appendSite struct {
	call *ssa.Call
	recv string // "fresh" | path
	arr  string
}

type strategySig struct {
	appends  []appendSite
	setAts   []*ssa.Call
	commit   bool // *to.fields = <fresh>
	keepDict bool // fresh.d initialised from to.fields.d
	fresh    *ssa.Alloc
}

func strategySignature(c *Ctx, fn *ssa.Function) strategySig {
	var sig strategySig
	appendFn := c.Method("", "fields", "append")
	setAtFn := c.Method("", "fields", "setAt")
	fieldsT := c.Named("", "fields")
	roles := mergeRoles(c, fn)
	isFresh := func(v ssa.Value) *ssa.Alloc {
		a, ok := v.(*ssa.Alloc)
		if ok && types.Identical(derefType(a.Type()), fieldsT) {
			return a
		}
		return nil
	}
	for _, ci := range CallsIn(fn, false) {
		call, ok := ci.(*ssa.Call)
		if !ok {
			continue
		}
		switch {
		case IsCallTo(call, appendFn):
			as := appendSite{call: call}
			if a := isFresh(call.Call.Args[0]); a != nil {
				as.recv = "fresh"
				sig.fresh = a
			} else if p, ok := pathOf(call.Call.Args[0]); ok {
				as.recv = rolePath(fn, p, roles)
			} else {
				as.recv = "?"
			}
			if p, ok := pathOf(call.Call.Args[2]); ok {
				as.arr = rolePath(fn, p, roles)
			} else {
				as.arr = "?"
			}
			sig.appends = append(sig.appends, as)
		case IsCallTo(call, setAtFn):
			sig.setAts = append(sig.setAts, call)
		}
	}
	sort.SliceStable(sig.appends, func(i, j int) bool { return InstrDominates(sig.appends[i].call, sig.appends[j].call) })
	// commit and dictionary part
	Instrs(fn, false, func(in ssa.Instruction) {
		st, ok := in.(*ssa.Store)
		if !ok {
			return
		}
		if p, ok := pathOf(st.Addr); ok && rolePath(fn, p, roles) == "to.fields" {
			// whole-node assignment *to.fields = X
			if l, ok := st.Val.(*ssa.UnOp); ok && l.Op == token.MUL && sig.fresh != nil && l.X == ssa.Value(sig.fresh) {
				sig.commit = true
			}
		}
	})
	if sig.fresh != nil {
		// fresh is initialised from a literal whose d field is to.fields.d
		var lits []ssa.Value
		lits = append(lits, sig.fresh)
		for _, ref := range *sig.fresh.Referrers() {
			if st, ok := ref.(*ssa.Store); ok && st.Addr == ssa.Value(sig.fresh) {
				if l, ok := st.Val.(*ssa.UnOp); ok && l.Op == token.MUL {
					lits = append(lits, l.X)
				}
			}
		}
		for _, lit := range lits {
			refs := lit.Referrers()
			if refs == nil {
				continue
			}
			for _, ref := range *refs {
				fa, ok := ref.(*ssa.FieldAddr)
				if !ok {
					continue
				}
				if _, f, ok := FieldOf(fa); !ok || f != "d" {
					continue
				}
				for _, r2 := range *fa.Referrers() {
					if st, ok := r2.(*ssa.Store); ok && st.Addr == ssa.Value(fa) {
						if p, ok := pathOf(st.Val); ok && rolePath(fn, p, roles) == "to.fields.d" {
							sig.keepDict = true
						}
					}
				}
			}
		}
	}
	return sig
}

func (s strategySig) String() string {
	var parts []string
	for _, a := range s.appends {
		parts = append(parts, fmt.Sprintf("append(%s <- %s)", a.recv, a.arr))
	}
	return fmt.Sprintf("[%s] setAt=%d commit=%v keepDict=%v", strings.Join(parts, ", "), len(s.setAts), s.commit, s.keepDict)
}

func checkC01(c *Ctx, r *Report) {
	r.Assumption("value-level semantics of merging (union, lengths, index-wise merge results, nil handling, idempotence) are not decided")
	enumT, consts := handlingEnum(c)
	arr := c.Func("", "mergeConfigArr")
	name := c.FnName(arr)
	cpyCompleteRule(c, r, "R01f")

	r.Rule("R01a", "mergeConfigArr dispatches every installable configHandling constant through an explicit case; replace/prepend/append/merge classes reach pairwise different strategies; constants of one class reach the same one", 8)
	ds := findDispatches(arr, enumT)
	if len(ds) != 1 {
		r.add("R01a", name, "dispatch", c.Pos(arr.Pos()), Undecided, true, fmt.Sprintf("expected one configHandling dispatch in mergeConfigArr, found %d", len(ds)))
		return
	}
	d := ds[0]
	// the tag must be the incoming options' policy
	{
		ok := false
		for _, s := range Sources(d.Tag) {
			if IsLoadOfField(s, "options", "configValueHandling") {
				if p, okp := AccessPath(s); okp && strings.HasPrefix(p, arr.Params[0].Name()+".") {
					ok = true
				}
			}
		}
		r.Check(ok, "R01a", name, "tag is opts.configValueHandling", c.Pos(d.Head.Instrs[0].Pos()), "dispatch on the caller's policy", "the array policy dispatched on is not the configValueHandling of the function's own options")
	}
	installed := installedHandling(c)
	byVal := map[int64][]string{}
	for n, k := range installed {
		byVal[k] = append(byVal[k], n)
	}
	target := map[int64]*ssa.Function{}
	for _, k := range consts {
		b := d.Target(k.Val, enumT)
		target[k.Val] = firstRepoCall(c, b)
	}
	outside := firstRepoCall(c, d.Target(250, enumT))
	var def int64 = -1
	if k := c.Const("", "cfgDefaultHandling"); k != nil {
		v, _ := ConstInt(ssa.NewConst(k.Val(), k.Type()))
		def = v
	}
	for _, k := range consts {
		who := byVal[k.Val]
		sort.Strings(who)
		if len(who) == 0 && k.Val != def {
			r.Trivial("R01a", name, "case "+k.Name, c.Pos(arr.Pos()), "no exported option or tag installs this constant")
			continue
		}
		if target[k.Val] == nil {
			r.Bad("R01a", name, "case "+k.Name, c.Pos(arr.Pos()), "policy "+k.Name+" reaches no strategy call")
			continue
		}
		if k.Val == def {
			r.OK("R01a", name, "case "+k.Name, c.Pos(arr.Pos()), "default handling -> "+target[k.Val].Name())
			continue
		}
		r.Check(d.Tested[k.Val], "R01a", name, "case "+k.Name, c.Pos(arr.Pos()),
			fmt.Sprintf("explicit case -> %s (installed by %s)", target[k.Val].Name(), strings.Join(who, ",")),
			fmt.Sprintf("policy %s (installed by %s) has no explicit case and falls to the default strategy %s", k.Name, strings.Join(who, ","), c.FnName(outside)))
	}
	// classes from the names of the exported options
	classOf := func(optName string) string {
		n := strings.TrimPrefix(optName, "Field")
		switch {
		case strings.HasPrefix(n, "Replace"):
			return "replace"
		case strings.HasPrefix(n, "Append"):
			return "append"
		case strings.HasPrefix(n, "Prepend"):
			return "prepend"
		case strings.HasPrefix(n, "Merge"):
			return "merge"
		}
		return ""
	}
	classTarget := map[string]*ssa.Function{"merge": target[def]}
	for n, k := range installed {
		cl := classOf(n)
		if cl == "" {
			continue
		}
		t := target[k]
		if prev, ok := classTarget[cl]; ok && prev != t {
			r.Bad("R01a", name, "class "+cl, c.Pos(arr.Pos()), fmt.Sprintf("options of the %s class dispatch to different strategies (%s vs %s via %s)", cl, c.FnName(prev), c.FnName(t), n))
			continue
		}
		classTarget[cl] = t
	}
	classes := []string{"replace", "prepend", "append", "merge"}
	for i, a := range classes {
		if classTarget[a] == nil {
			r.Bad("R01a", name, "class "+a, c.Pos(arr.Pos()), "no strategy reached for the "+a+" policy class")
			continue
		}
		distinct := true
		for j, b := range classes {
			if i != j && classTarget[a] == classTarget[b] {
				distinct = false
			}
		}
		r.Check(distinct, "R01a", name, "class "+a, c.Pos(arr.Pos()), a+" -> "+classTarget[a].Name()+", distinct from the other classes", "policy class "+a+" dispatches to the same strategy as another class: "+c.FnName(classTarget[a]))
	}
	r.Check(outside == target[def], "R01a", name, "values outside the enum", c.Pos(arr.Pos()), "fall to the default strategy", "a value outside the enum does not behave like the default policy")

	// R01b signatures
	r.Rule("R01b", "strategy signatures: replace = fresh node keeping the dictionary, append(source) only, committed; prepend = fresh, append(source) then append(destination); append = in place append(source); merge = in place setAt(i, merge(dest[i], source[i])) for i < min(len) then append(source[l:])", 9)
	want := map[string]string{
		"replace": "[append(fresh <- from.fields.a)] setAt=0 commit=true keepDict=true",
		"prepend": "[append(fresh <- from.fields.a), append(fresh <- to.fields.a)] setAt=0 commit=true keepDict=true",
		"append":  "[append(to.fields <- from.fields.a)] setAt=0 commit=false keepDict=false",
	}
	for _, cl := range []string{"replace", "prepend", "append"} {
		fn := classTarget[cl]
		if fn == nil {
			continue
		}
		if rl := mergeRoles(c, fn); !hasRole(rl, "to") || !(hasRole(rl, "from") || hasRole(rl, "from.fields.a")) {
			r.add("R01b", c.FnName(fn), "signature "+cl, c.Pos(fn.Pos()), Undecided, true, "the strategy's parameters do not name a destination config and a source (config or element list)")
			continue
		}
		sourceArrayArg(c, r, arr, fn)
		sig := strategySignature(c, fn)
		got := sig.String()
		if len(sig.appends) == 0 {
			r.add("R01b", c.FnName(fn), "signature "+cl, c.Pos(fn.Pos()), Undecided, true, "strategy no longer copies elements through fields.append: cannot tell a correct re-implementation from a wrong one")
			continue
		}
		r.Check(got == want[cl], "R01b", c.FnName(fn), "signature "+cl, c.Pos(fn.Pos()), got, fmt.Sprintf("%s strategy has source-order signature %s, required %s", cl, got, want[cl]))
		if cl != "append" {
			// the commit must come after the appends
			ok := true
			Instrs(fn, false, func(in ssa.Instruction) {
				if st, isSt := in.(*ssa.Store); isSt {
					if p, okp := pathOf(st.Addr); okp && rolePath(fn, p, mergeRoles(c, fn)) == "to.fields" {
						for _, a := range sig.appends {
							if !InstrDominates(a.call, st) {
								ok = false
							}
						}
					}
				}
			})
			r.Check(ok, "R01b", c.FnName(fn), "commit after fill "+cl, c.Pos(fn.Pos()), "node assigned after every append", "the destination node is assigned before the new array is completely built")
		}
	}
	if fn := classTarget["merge"]; fn != nil {
		sourceArrayArg(c, r, arr, fn)
		mergeStrategyRule(c, r, fn)
	}

	dictAndValuesRules(c, r)

	// R01c option threading
	r.Rule("R01c", "every call between the merge functions passes options derived from the caller's own options (directly or through fieldOptsOverride of them), never fresh or zero options", 9)
	fam := map[*ssa.Function]bool{}
	for _, n := range []string{"mergeConfig", "mergeConfigDict", "mergeConfigArr", "mergeValues"} {
		fam[c.Func("", n)] = true
	}
	for _, f := range classTarget {
		if f != nil {
			fam[f] = true
		}
	}
	foo := c.Func("", "fieldOptsOverride")
	var famList []*ssa.Function
	for f := range fam {
		famList = append(famList, f)
	}
	sort.Slice(famList, func(i, j int) bool { return famList[i].Name() < famList[j].Name() })
	for _, fn := range famList {
		own := optionsParam(fn)
		if own == nil {
			// a strategy that merges nothing below itself needs no options: it must not hand any to a nested merge either
			nested := false
			for _, ci := range CallsIn(fn, true) {
				callee := ci.Common().StaticCallee()
				if callee != nil && (fam[callee] || callee == foo) || ci.Common().IsInvoke() && ci.Common().Method.Name() == "toConfig" {
					nested = true
				}
			}
			if nested {
				r.Bad("R01c", c.FnName(fn), "options parameter", c.Pos(fn.Pos()), "a merge function without *options parameter calls a nested merge: the options it passes cannot be the caller's")
			} else {
				r.OK("R01c", c.FnName(fn), "options parameter", c.Pos(fn.Pos()), "no *options parameter and no nested merge: nothing to thread")
			}
			continue
		}
		for _, ci := range CallsIn(fn, true) {
			callee := ci.Common().StaticCallee()
			if callee == nil || !(fam[callee] || callee == foo) {
				// also interface calls that take options and can recurse: toConfig(opts)
				if !(ci.Common().IsInvoke() && ci.Common().Method.Name() == "toConfig") {
					continue
				}
			}
			var arg ssa.Value
			for _, a := range ci.Common().Args {
				if isNamed(a.Type(), modPath, "options") {
					arg = a
					break
				}
			}
			if arg == nil {
				continue
			}
			ok, why := derivesFromOwnOpts(arg, own, foo)
			r.Check(ok, "R01c", c.FnName(fn), "options of "+CalleeName(c, ci), c.Pos(ci.Pos()), why, "nested merge is not given the caller's options: "+why)
		}
	}
}

func optionsParam(fn *ssa.Function) *ssa.Parameter {
	for _, p := range fn.Params {
		if isNamed(p.Type(), modPath, "options") {
			if _, ok := p.Type().Underlying().(*types.Pointer); ok {
				return p
			}
		}
	}
	return nil
}

// derivesFromOwnOpts: every source of v is the function's own options parameter or result #0 of
// fieldOptsOverride applied to a value that itself derives from it.
func derivesFromOwnOpts(v ssa.Value, own *ssa.Parameter, foo *ssa.Function) (bool, string) {
	seen := map[ssa.Value]bool{}
	var rec func(v ssa.Value) (bool, string)
	rec = func(v ssa.Value) (bool, string) {
		if seen[v] {
			return true, ""
		}
		seen[v] = true
		for _, s := range Sources(v) {
			if s == ssa.Value(own) {
				continue
			}
			if e, ok := s.(*ssa.Extract); ok && e.Index == 0 {
				if call, ok := e.Tuple.(*ssa.Call); ok && IsCallTo(call, foo) {
					if ok2, why := rec(call.Call.Args[0]); !ok2 {
						return false, why
					}
					continue
				}
			}
			return false, "options come from " + s.String() + " (" + fmt.Sprintf("%T", s) + ")"
		}
		return true, ""
	}
	ok, why := rec(v)
	if ok {
		return true, "options derive from the function's own options (through fieldOptsOverride where the level changes)"
	}
	return false, why
}

func mergeStrategyRule(c *Ctx, r *Report, fn *ssa.Function) {
	name := c.FnName(fn)
	sig := strategySignature(c, fn)
	roles := mergeRoles(c, fn)
	if len(sig.setAts) != 1 || len(sig.appends) != 1 {
		r.add("R01b", name, "signature merge", c.Pos(fn.Pos()), Undecided, true, "index-wise merge is no longer one setAt plus one append ("+sig.String()+"): cannot tell a correct re-implementation from a wrong one")
		return
	}
	set := sig.setAts[0]
	app := sig.appends[0]
	mv := c.Func("", "mergeValues")
	// setAt(to.fields, i, parent, X.cpy(ctx)) with X = mergeValues(_, to.a[i], from.a[i])#0
	recvOK := false
	if p, ok := pathOf(set.Call.Args[0]); ok && rolePath(fn, p, roles) == "to.fields" {
		recvOK = true
	}
	idx := set.Call.Args[1]
	var mcall *ssa.Call
	if cp, ok := set.Call.Args[3].(*ssa.Call); ok && cp.Call.IsInvoke() && cp.Call.Method.Name() == "cpy" {
		if e, ok := cp.Call.Value.(*ssa.Extract); ok && e.Index == 0 {
			if m, ok := e.Tuple.(*ssa.Call); ok && IsCallTo(m, mv) {
				mcall = m
			}
		}
	}
	pairOK := false
	if mcall != nil {
		po, ok1 := elemOf(mcall.Call.Args[1])
		pn, ok2 := elemOf(mcall.Call.Args[2])
		if ok1 && ok2 {
			a, oka := pathOf(po.X)
			b, okb := pathOf(pn.X)
			pairOK = oka && okb && rolePath(fn, a, roles) == "to.fields.a" && rolePath(fn, b, roles) == "from.fields.a" && po.Index == idx && pn.Index == idx
		}
	}
	r.Check(recvOK && mcall != nil && pairOK, "R01b", name, "index-wise merge", c.Pos(set.Pos()),
		"to.setAt(i, mergeValues(to[i], from[i]).cpy) with one index i",
		"index-wise merge does not store merge(dest[i], source[i]) at the same index i of the destination")
	// loop bound: i < l with l derived from both lengths
	var lval ssa.Value
	boundOK := false
	for _, f := range FactsAt(set.Block()) {
		if f.X == idx && f.Op == token.LSS {
			lval = f.Y
		}
	}
	if lval != nil {
		lens := map[string]bool{}
		for _, s := range Sources(lval) {
			if call, ok := s.(*ssa.Call); ok && BuiltinName(call) == "len" {
				if p, ok := pathOf(call.Call.Args[0]); ok {
					lens[rolePath(fn, p, roles)] = true
				}
			}
		}
		boundOK = lens["to.fields.a"] && lens["from.fields.a"] && len(lens) == 2
	}
	r.Check(boundOK, "R01b", name, "loop bounded by both lengths", c.Pos(set.Pos()), "i < l, l selected from len(dest) and len(source)", "the index-wise merge loop is not bounded by a value chosen from both array lengths")
	// tail: append(to.fields, from.a[l:]) with the same l
	tailOK := app.recv == "to.fields" && app.arr == "from.fields.a[lo:]"
	if tailOK {
		if sl, ok := app.call.Call.Args[2].(*ssa.Slice); ok {
			tailOK = lval != nil && sl.Low == lval
		} else {
			tailOK = false
		}
	}
	r.Check(tailOK, "R01b", name, "append source tail", c.Pos(app.call.Pos()), "append(dest <- source[l:]) with the loop bound l", "the source elements beyond the common prefix are not appended as source[l:] with the loop's own bound (found append("+app.recv+" <- "+app.arr+"))")
	// the tail append comes after the loop
	r.Check(!InstrDominates(app.call, set) && set.Block() != app.call.Block(), "R01b", name, "tail after loop", c.Pos(app.call.Pos()), "append is outside the index-wise loop", "the tail append is executed before/inside the index-wise loop")
}

func elemOf(v ssa.Value) (*ssa.IndexAddr, bool) {
	u, ok := v.(*ssa.UnOp)
	if !ok || u.Op != token.MUL {
		return nil, false
	}
	ia, ok := u.X.(*ssa.IndexAddr)
	return ia, ok
}

// returnsAllKeysSorted: fn ranges over its map parameter, appends the key in every iteration (the
// append's block is the only back edge), sorts the slice and returns it.
func returnsAllKeysSorted(fn *ssa.Function) (bool, string) {
	var rng *ssa.Range
	Instrs(fn, false, func(in ssa.Instruction) {
		if x, ok := in.(*ssa.Range); ok && len(fn.Params) == 1 && x.X == ssa.Value(fn.Params[0]) {
			rng = x
		}
	})
	if rng == nil {
		return false, "no range over the parameter"
	}
	var key ssa.Value
	var next *ssa.Next
	for _, ref := range *rng.Referrers() {
		if nx, ok := ref.(*ssa.Next); ok {
			next = nx
			for _, r2 := range *nx.Referrers() {
				if e, ok := r2.(*ssa.Extract); ok && e.Index == 1 {
					key = e
				}
			}
		}
	}
	if key == nil || next == nil {
		return false, "the range does not bind the key"
	}
	lp := loopOf(fn, next.Block())
	if lp == nil {
		return false, "no loop"
	}
	hdr := loopHeader(lp)
	var acc *ssa.Phi
	var app *ssa.Call
	for _, in := range hdr.Instrs {
		phi, ok := in.(*ssa.Phi)
		if !ok {
			break
		}
		for i, e := range phi.Edges {
			if !lp[hdr.Preds[i]] {
				continue
			}
			if call, ok := e.(*ssa.Call); ok && BuiltinName(call) == "append" && call.Call.Args[0] == ssa.Value(phi) {
				for _, src := range Sources(call.Call.Args[1]) {
					_ = src
				}
				acc, app = phi, call
			}
		}
	}
	if acc == nil {
		// the other spelling: keys := make([]string, len(m)); keys[n] = k; n++
		for _, in := range hdr.Instrs {
			cnt, ok := in.(*ssa.Phi)
			if !ok {
				break
			}
			good := true
			for i, e := range cnt.Edges {
				if lp[hdr.Preds[i]] {
					b, isB := e.(*ssa.BinOp)
					k, isK := int64(0), false
					if isB {
						k, isK = ConstInt(b.Y)
					}
					if !isB || b.Op != token.ADD || b.X != ssa.Value(cnt) || !isK || k != 1 {
						good = false
					}
				} else if k, isK := ConstInt(e); !isK || k != 0 {
					good = false
				}
			}
			if !good || cnt.Referrers() == nil {
				continue
			}
			for _, ref := range *cnt.Referrers() {
				ia, isIA := ref.(*ssa.IndexAddr)
				if !isIA || ia.Index != ssa.Value(cnt) {
					continue
				}
				mk, isMk := ia.X.(*ssa.MakeSlice)
				if !isMk {
					continue
				}
				// as long as the map: len(param)
				if lc, isCall := mk.Len.(*ssa.Call); !isCall || BuiltinName(lc) != "len" || lc.Call.Args[0] != ssa.Value(fn.Params[0]) {
					continue
				}
				stored := false
				for _, r2 := range *ia.Referrers() {
					if st, isSt := r2.(*ssa.Store); isSt && st.Addr == ssa.Value(ia) && st.Val == key {
						stored = true
					}
				}
				if !stored {
					continue
				}
				for _, pr := range hdr.Preds {
					if lp[pr] && pr != ia.Block() && !ia.Block().Dominates(pr) {
						return false, "an iteration can continue without storing its key"
					}
				}
				for b := range lp {
					for _, su := range b.Succs {
						if !lp[su] && b != hdr {
							return false, "the loop can stop before all keys are collected"
						}
					}
				}
				for _, ret := range Returns(fn) {
					from := false
					for _, src := range append(Sources(ret.Results[0]), ret.Results[0]) {
						if src == ssa.Value(mk) {
							from = true
						}
					}
					if !from {
						return false, "a return does not return the filled slice"
					}
				}
				return true, ""
			}
		}
		return false, "no slice accumulated by append in the loop"
	}
	// the appended element is the key
	keyAppended := false
	if sl, ok := app.Call.Args[1].(*ssa.Slice); ok {
		if al, ok := sl.X.(*ssa.Alloc); ok {
			for _, ref := range *al.Referrers() {
				if ia, ok := ref.(*ssa.IndexAddr); ok {
					for _, r2 := range *ia.Referrers() {
						if st, ok := r2.(*ssa.Store); ok && st.Val == key {
							keyAppended = true
						}
					}
				}
			}
		}
	}
	if !keyAppended {
		return false, "the appended element is not the loop key"
	}
	for _, pr := range hdr.Preds {
		if lp[pr] && pr != app.Block() {
			return false, "an iteration can continue without appending its key"
		}
	}
	// no early exit
	for b := range lp {
		for _, su := range b.Succs {
			if !lp[su] && b != hdr {
				return false, "the loop can stop before all keys are collected"
			}
		}
	}
	for _, ret := range Returns(fn) {
		if !flowsFromPhi(ret.Results[0], acc, map[ssa.Value]bool{}) {
			return false, "a return does not return the accumulated slice"
		}
	}
	return true, ""
}

// dictAndValuesRules: R01d (dictionary part) and R01e (mergeValues / mergeConfig).
func dictAndValuesRules(c *Ctx, r *Report) {
	roles := map[int]string{1: "to", 2: "from"}
	r.Rule("R01d", "mergeConfigDict: ranges over the source dictionary; for each key k stores mergeValues(opts_k, to.get(k), v).cpy under the same k; an empty source dictionary returns before anything is cleared; the old dictionary is cleared only under the replace policy", 5)
	fn := c.Func("", "mergeConfigDict")
	name := c.FnName(fn)
	setFn := c.Method("", "fields", "set")
	getFn := c.Method("", "fields", "get")
	mv := c.Func("", "mergeValues")
	// the dictionary loop: `for k, v := range D` or `for _, k := range sortedKeys(D) { v := D[k] ...`
	var key, val ssa.Value
	var loopPos token.Pos
	var srcMap ssa.Value
	Instrs(fn, false, func(in ssa.Instruction) {
		if x, ok := in.(*ssa.Range); ok {
			if _, isMap := x.X.Type().Underlying().(*types.Map); isMap {
				srcMap, loopPos = x.X, x.Pos()
				for _, ref := range *x.Referrers() {
					if nx, ok := ref.(*ssa.Next); ok {
						for _, r2 := range *nx.Referrers() {
							if e, ok := r2.(*ssa.Extract); ok {
								switch e.Index {
								case 1:
									key = e
								case 2:
									val = e
								}
							}
						}
					}
				}
			}
		}
	})
	if srcMap == nil {
		if sk := c.TryFunc("", "sortedKeys"); sk != nil {
			for _, ci := range CallsTo(fn, sk, false) {
				call, ok := ci.(*ssa.Call)
				if !ok {
					continue
				}
				srcMap, loopPos = call.Call.Args[0], call.Pos()
				// key: element of the returned slice; value: D[key] on the same dictionary
				Instrs(fn, false, func(in ssa.Instruction) {
					if ia, ok := in.(*ssa.IndexAddr); ok && ia.X == ssa.Value(call) {
						for _, ref := range *ia.Referrers() {
							if ld, ok := ref.(*ssa.UnOp); ok && ld.Op == token.MUL {
								key = ld
							}
						}
					}
				})
				Instrs(fn, false, func(in ssa.Instruction) {
					if lk, ok := in.(*ssa.Lookup); ok && !lk.CommaOk && key != nil && lk.Index == key {
						p1, ok1 := pathOf(lk.X)
						p2, ok2 := pathOf(srcMap)
						if ok1 && ok2 && rolePath(fn, p1, roles) == rolePath(fn, p2, roles) {
							val = lk
						}
					}
				})
				allKeys, why := returnsAllKeysSorted(sk)
				r.Check(allKeys, "R01d", c.FnName(sk), "every key visited", c.Pos(sk.Pos()), "sortedKeys appends every key of its argument unconditionally and returns the sorted slice", "the key list the dictionary loop runs over can miss keys of the source: "+why)
			}
		}
	}
	if srcMap == nil {
		r.add("R01d", name, "range over source", c.Pos(fn.Pos()), Undecided, true, "no loop over the source dictionary found in mergeConfigDict (neither a map range nor a loop over sortedKeys)")
		return
	}
	p, ok := pathOf(srcMap)
	r.Check(ok && rolePath(fn, p, roles) == "from.fields.d", "R01d", name, "range over source", c.Pos(loopPos), "the loop runs over from.fields.d", "the dictionary loop does not run over the source's dictionary")
	sets := CallsTo(fn, setFn, false)
	if len(sets) != 1 || key == nil || val == nil {
		r.add("R01d", name, "per-key store", c.Pos(fn.Pos()), Undecided, true, fmt.Sprintf("expected one fields.set call in the loop, found %d", len(sets)))
	} else {
		set := sets[0].(*ssa.Call)
		recvOK := false
		if p, ok := pathOf(set.Call.Args[0]); ok && rolePath(fn, p, roles) == "to.fields" {
			recvOK = true
		}
		keyOK := set.Call.Args[1] == key
		chainOK := false
		if cp, ok := set.Call.Args[2].(*ssa.Call); ok && cp.Call.IsInvoke() && cp.Call.Method.Name() == "cpy" {
			if e, ok := cp.Call.Value.(*ssa.Extract); ok && e.Index == 0 {
				if m, ok := e.Tuple.(*ssa.Call); ok && IsCallTo(m, mv) {
					// old = to.fields.get(key)#0 ; new = range value
					if eo, ok := m.Call.Args[1].(*ssa.Extract); ok && eo.Index == 0 {
						if g, ok := eo.Tuple.(*ssa.Call); ok && IsCallTo(g, getFn) && g.Call.Args[1] == key {
							if p, ok := pathOf(g.Call.Args[0]); ok && rolePath(fn, p, roles) == "to.fields" {
								chainOK = m.Call.Args[2] == val
							}
						}
					}
				}
			}
		}
		r.Check(recvOK && keyOK && chainOK, "R01d", name, "per-key store", c.Pos(set.Pos()), "to.set(k, mergeValues(to.get(k), v).cpy) with the loop's own k and v", "the dictionary loop does not store merge(dest[k], source[k]) under the same key k of the destination")
		// every iteration that does not fail reaches the store: must-pass within the loop body is
		// implied by: the set call's block is the only predecessor of the loop header besides entry
		// (decided on paths: no way round the loop, from the header back to the header, avoids the block of the store)
		only := false
		if lp := loopOf(fn, set.Block()); lp != nil {
			h := loopHeader(lp)
			avoid := map[*ssa.BasicBlock]bool{set.Block(): true}
			for _, b := range fn.Blocks {
				if !lp[b] {
					avoid[b] = true
				}
			}
			only = h != set.Block()
			for _, s := range h.Succs {
				if lp[s] && !avoid[s] && reachableFromEdge(h, s, h, avoid) {
					only = false
				}
			}
		}
		r.Check(only, "R01d", name, "no skipped key", c.Pos(set.Pos()), "the loop continues only after the store", "an iteration can continue without storing its key (a source key is dropped)")
	}
	// clearing of the old dictionary only under replace, and after the emptiness return
	enumT, _ := handlingEnum(c)
	repl := c.Const("", "cfgReplaceValue")
	replV, _ := ConstInt(ssa.NewConst(repl.Val(), repl.Type()))
	nclear := 0
	Instrs(fn, false, func(in ssa.Instruction) {
		st, ok := in.(*ssa.Store)
		if !ok {
			return
		}
		p, ok := pathOf(st.Addr)
		if !ok || rolePath(fn, strings.TrimPrefix(p, "&"), roles) != "to.fields.d" {
			return
		}
		nclear++
		underReplace, afterEmpty := false, false
		for _, cd := range DomConds(st.Block()) {
			if tag, k, ok := enumTest(cd.V, enumT); ok && k == replV {
				eq := cd.V.(*ssa.BinOp).Op == token.EQL
				if eq == cd.Truth && IsLoadOfField(tag, "options", "configValueHandling") {
					underReplace = true
				}
			}
			if cm, ok := CmpOf(cd.V, cd.Truth); ok {
				if call, ok := cm.X.(*ssa.Call); ok && BuiltinName(call) == "len" {
					if k, ok := ConstInt(cm.Y); ok && ((cm.Op == token.NEQ && k == 0) || (cm.Op == token.GTR && k == 0)) {
						if p, ok := pathOf(call.Call.Args[0]); ok && rolePath(fn, p, roles) == "from.fields.d" {
							afterEmpty = true
						}
					}
				}
			}
		}
		r.Check(underReplace, "R01d", name, "clear only under replace", c.Pos(st.Pos()), "to.fields.d = nil dominated by policy == cfgReplaceValue", "the destination dictionary is cleared on a path not restricted to the replace policy")
		r.Check(afterEmpty, "R01d", name, "empty source replaces nothing", c.Pos(st.Pos()), "clearing dominated by len(source dict) != 0", "the destination dictionary can be cleared although the source dictionary is empty")
		// source and destination may be the same config (c.Merge(c, ReplaceValues)): the dictionary the
		// loop runs over must have been read before the destination's dictionary is cleared
		if def, ok := srcMap.(ssa.Instruction); ok {
			before := true
			if def.Block() == st.Block() {
				before = InstrDominates(def, st)
			} else if reachableAvoiding(st.Block(), def.Block(), nil) {
				before = false
			}
			r.Check(before, "R01d", name, "source read before clear", c.Pos(st.Pos()), "the source dictionary the loop runs over is read before to.fields.d = nil", "the source dictionary is read after the destination's dictionary was cleared: merging a config into itself under the replace policy loses every named setting")
		}
	})
	if nclear == 0 {
		r.Bad("R01d", name, "clear only under replace", c.Pos(fn.Pos()), "the replace policy no longer clears the old dictionary")
	}

	r.Rule("R01e", "mergeValues: nil old -> new; recursion only when both sides convert to sub-configs, otherwise the new value wins; mergeConfig runs the dictionary part then the array part", 5)
	name = c.FnName(mv)
	mc := c.Func("", "mergeConfig")
	old, nv := mv.Params[1], mv.Params[2]
	rec := CallsTo(mv, mc, false)
	if len(rec) != 1 {
		r.add("R01e", name, "recursion", c.Pos(mv.Pos()), Undecided, true, fmt.Sprintf("expected one recursive mergeConfig call in mergeValues, found %d", len(rec)))
		return
	}
	rc := rec[0].(*ssa.Call)
	// both arguments come from toConfig of old / new with err == nil
	var argOK func(arg ssa.Value, recv *ssa.Parameter) bool
	argOK = func(arg ssa.Value, recv *ssa.Parameter) bool {
		// the evaluated config itself on some ways in, a copy of it on the others (a reference is merged into a
		// copy of what it evaluates to, R10f)
		if phi, isPhi := arg.(*ssa.Phi); isPhi {
			for _, e := range phi.Edges {
				if !argOK(e, recv) {
					return false
				}
			}
			return len(phi.Edges) > 0
		}
		if src, isCopy := copiedConfig(arg); isCopy {
			return argOK(src, recv)
		}
		e, ok := arg.(*ssa.Extract)
		if !ok || e.Index != 0 {
			return false
		}
		call, ok := e.Tuple.(*ssa.Call)
		if !ok || !call.Call.IsInvoke() || call.Call.Method.Name() != "toConfig" || call.Call.Value != ssa.Value(recv) {
			return false
		}
		for _, cd := range DomConds(rc.Block()) {
			if isNilTestOfExtract(cd, call, 1, true) {
				return true
			}
		}
		return false
	}
	r.Check(argOK(rc.Call.Args[1], old) && argOK(rc.Call.Args[2], nv), "R01e", name, "recursion", c.Pos(rc.Pos()), "mergeConfig(old.toConfig, new.toConfig) under both err == nil", "the recursive merge is not restricted to the case where both old and new convert to sub-configs, or merges in the wrong direction")
	for _, ret := range Returns(mv) {
		if len(ret.Results) != 2 {
			continue
		}
		v := ret.Results[0]
		switch {
		case v == ssa.Value(nv):
			r.OK("R01e", name, "return new", c.Pos(ret.Pos()), "new value wins")
		case IsNilConst(v):
			r.Trivial("R01e", name, "return error", c.Pos(ret.Pos()), "error return")
		default:
			// must be cfgSub{subOld} after the recursion
			ok := InstrDominates(rc, ret)
			if ok {
				ok = false
				for _, s := range Sources(v) {
					if l, isL := s.(*ssa.UnOp); isL {
						if a, isA := l.X.(*ssa.Alloc); isA {
							for _, ref := range *a.Referrers() {
								if fa, isFA := ref.(*ssa.FieldAddr); isFA {
									for _, r2 := range *fa.Referrers() {
										if st, isSt := r2.(*ssa.Store); isSt && st.Val == rc.Call.Args[1] {
											ok = true
										}
									}
								}
							}
						}
					}
				}
			}
			r.Check(ok, "R01e", name, "return merged", c.Pos(ret.Pos()), "returns the merged old sub-config after the recursion", "mergeValues returns something other than the new value or the recursively merged old sub-config")
		}
	}
	// nil old
	{
		ok := false
		for _, ret := range Returns(mv) {
			if len(ret.Results) == 2 && ret.Results[0] == ssa.Value(nv) {
				for _, cd := range DomConds(ret.Block()) {
					if isNilTestOf(cd, old, true) {
						ok = true
					}
				}
			}
		}
		// … or under isNil(old), which covers the absent key and the explicit null
		nullToo := false
		isNilF := c.TryFunc("", "isNil")
		for _, ret := range Returns(mv) {
			if len(ret.Results) == 2 && ret.Results[0] == ssa.Value(nv) {
				for _, cd := range DomConds(ret.Block()) {
					if call, isCall := cd.V.(*ssa.Call); isCall && cd.Truth && isNilF != nil && IsCallTo(call, isNilF) && call.Call.Args[0] == old {
						ok, nullToo = true, true
					}
				}
			}
		}
		r.Check(ok, "R01e", name, "nil old", c.Pos(mv.Pos()), "old == nil returns the new value", "a key absent from the destination no longer simply takes the source value")
		r.Check(nullToo, "R01e", name, "null old", c.Pos(mv.Pos()), "isNil(old) returns the new value",
			"an explicit null in the destination is not replaced like an absent key: a null reads as an empty object (cfgNil.toConfig), so merging a null or an empty list over it — or the config into itself — turns it into an object, and Unpack into a string or a pointer then fails")
	}
	// mergeConfig: dict then arr
	{
		dictFn, arrFn := c.Func("", "mergeConfigDict"), c.Func("", "mergeConfigArr")
		dcs, acs := CallsTo(mc, dictFn, false), CallsTo(mc, arrFn, false)
		ok := len(dcs) == 1 && len(acs) == 1
		if ok {
			for i := 0; i < 3; i++ {
				if dcs[0].Common().Args[i] != ssa.Value(mc.Params[i]) || acs[0].Common().Args[i] != ssa.Value(mc.Params[i]) {
					ok = false
				}
			}
			ok = ok && InstrDominates(dcs[0], acs[0])
			// every successful return passes the array part
			bad := MustPass(mc, func(in ssa.Instruction) bool { return in == acs[0].(ssa.Instruction) }, func(ret *ssa.Return) bool {
				return len(ret.Results) == 1 && (IsNilConst(ret.Results[0]) || ret.Results[0] == acs[0].Value())
			})
			ok = ok && len(bad) == 0
		}
		r.Check(ok, "R01e", c.FnName(mc), "dict then array", c.Pos(mc.Pos()), "mergeConfigDict(opts,to,from) then mergeConfigArr(opts,to,from) on every successful path", "mergeConfig does not run the dictionary part and then the array part with its own (opts, to, from)")
	}
}

// copiedConfig: v is the config of a copy made here — cfgSub{src}.cpy(ctx).(cfgSub).c, or
// cfgSub{src}.cpy(ctx).toConfig(opts) — and src is the only config the copied literal was given.
func copiedConfig(v ssa.Value) (ssa.Value, bool) {
	var made ssa.Value
	switch x := v.(type) {
	case *ssa.Field:
		made = x.X
		if ta, ok := made.(*ssa.TypeAssert); ok {
			made = ta.X
		}
	case *ssa.Extract:
		call, ok := x.Tuple.(*ssa.Call)
		if !ok || x.Index != 0 || !call.Call.IsInvoke() || call.Call.Method.Name() != "toConfig" {
			return nil, false
		}
		made = call.Call.Value
	default:
		return nil, false
	}
	call, ok := made.(*ssa.Call)
	if !ok || calledName(call) != "cpy" || call.Call.IsInvoke() || len(call.Call.Args) == 0 || typeStr(call.Call.Args[0].Type()) != "ucfg.cfgSub" {
		return nil, false
	}
	ld, ok := call.Call.Args[0].(*ssa.UnOp)
	if !ok || ld.Op != token.MUL {
		return nil, false
	}
	al, ok := ld.X.(*ssa.Alloc)
	if !ok {
		return nil, false
	}
	var src ssa.Value
	for _, ref := range *al.Referrers() {
		switch u := ref.(type) {
		case *ssa.FieldAddr:
			for _, r2 := range *u.Referrers() {
				st, isSt := r2.(*ssa.Store)
				if !isSt || st.Addr != ssa.Value(u) || src != nil {
					return nil, false
				}
				src = st.Val
			}
		case *ssa.UnOp:
		case *ssa.DebugRef:
		default:
			return nil, false
		}
	}
	return src, src != nil
}
