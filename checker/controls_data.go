package main

import "strings"

// Self-test overlays (see controls.go). Each entry is (file, old fragment, new fragment): the
// fragment must occur exactly once in the working tree or the control is skipped.

func init() {
	// ---------------- C19 ----------------
	addControl(control{Prop: "C19", Name: "collector-drops-opts", Rule: "R19a", Kind: "mutant", Quick: true,
		File: "cfgutil/cfgutil.go", Old: "err: nil, opts: opts}", New: "err: nil}", Expect: "R19a/cfgutil.NewCollector/param opts"})
	addControl(control{Prop: "C19", Name: "add-merges-without-opts", Rule: "R19a", Kind: "mutant",
		File: "cfgutil/cfgutil.go", Old: "c.config.Merge(cfg, c.opts...)", New: "c.config.Merge(cfg)", Expect: "R19a/(*cfgutil.Collector).Add"})
	addControl(control{Prop: "C19", Name: "keyvalue-newfrom-without-opts", Rule: "R19a", Kind: "mutant",
		File: "flag/value.go", Old: "ucfg.NewFrom(tmp, opts...)", New: "ucfg.NewFrom(tmp)", Expect: "R19a/flag.NewFlagKeyValue"})
	addControl(control{Prop: "C19", Name: "error-overwritten", Rule: "R19b", Kind: "mutant", Quick: true,
		File: "cfgutil/cfgutil.go", Old: "	if c.err != nil {\n		return c.err\n	}\n\n	if err != nil {", New: "	if err != nil {", Expect: "R19b/"})
	addControl(control{Prop: "C19", Name: "set-skips-add-on-report-error", Rule: "R19c", Kind: "mutant",
		File: "flag/util.go", Old: "	v.collector.Add(cfg, internalErr)\n	return reportErr", New: "	if reportErr != nil {\n		return reportErr\n	}\n	v.collector.Add(cfg, internalErr)\n	return nil", Expect: "R19c/"})
	addControl(control{Prop: "C19", Name: "empty-value-parsed", Rule: "R19d", Kind: "mutant",
		File: "flag/value.go", Old: "			if args[1] == \"\" {\n				return nil, nil, nil\n			}\n", New: "", Expect: "R19d/"})
	addControl(control{Prop: "C19", Name: "add-restructured", Rule: "R19b", Kind: "refactor", Quick: true,
		File: "cfgutil/cfgutil.go",
		Old:  "	if err != nil {\n		c.err = err\n		return err\n	}\n\n	if cfg != nil {\n		err = c.config.Merge(cfg, c.opts...)\n		if err != nil {\n			c.err = err\n		}\n	}\n	return err",
		New:  "	if err == nil && cfg != nil {\n		err = c.config.Merge(cfg, c.opts...)\n	}\n	if err != nil {\n		c.err = err\n	}\n	return err"})

	addControl(control{Prop: "C16", Name: "field-option-memoises-its-tree", Rule: "R16e", Kind: "mutant", Quick: true,
		File: "opts.go", Old: "		return func(o *options) {\n			if o.fieldHandlingTree == nil {\n				o.fieldHandlingTree = newFieldHandlingTree()\n			}\n			o.fieldHandlingTree.merge(table, PathSep(o.pathSep))\n		}",
		New:    "		var rendered *fieldHandlingTree\n		return func(o *options) {\n			if rendered == nil {\n				rendered = newFieldHandlingTree()\n				rendered.merge(table, PathSep(o.pathSep))\n			}\n			if o.fieldHandlingTree == nil {\n				o.fieldHandlingTree = rendered\n				return\n			}\n			o.fieldHandlingTree.merge(rendered)\n		}",
		Expect: "R16e/ucfg.makeFieldOptValueHandling"})
	addControl(control{Prop: "C16", Name: "field-option-local-renamed", Rule: "R16e", Kind: "refactor",
		File: "opts.go", Old: "		return func(o *options) {\n			if o.fieldHandlingTree == nil {\n				o.fieldHandlingTree = newFieldHandlingTree()\n			}\n			o.fieldHandlingTree.merge(table, PathSep(o.pathSep))\n		}",
		New: "		return func(o *options) {\n			tree := o.fieldHandlingTree\n			if tree == nil {\n				tree = newFieldHandlingTree()\n				o.fieldHandlingTree = tree\n			}\n			tree.merge(table, PathSep(o.pathSep))\n		}"})

	// ---------------- C18 ----------------
	addControl(control{Prop: "C18", Name: "json-drops-opts", Rule: "R18f", Kind: "mutant", Quick: true,
		File: "json/json.go", Old: "return ucfg.NewFrom(m, opts...)", New: "return ucfg.NewFrom(m)", Expect: "json.NewConfig"})
	addControl(control{Prop: "C18", Name: "hjson-file-without-metadata", Rule: "R18a", Kind: "mutant",
		File: "hjson/hjson.go", Old: "	opts = append([]ucfg.Option{\n		ucfg.MetaData(ucfg.Meta{Source: name}),\n	}, opts...)\n", New: "", Expect: "hjson.NewConfigWithFile"})
	addControl(control{Prop: "C18", Name: "yaml-metadata-after-user-options", Rule: "R18a", Kind: "mutant",
		File: "yaml/yaml.go", Old: "	opts = append([]ucfg.Option{\n		ucfg.MetaData(ucfg.Meta{Source: name}),\n	}, opts...)\n", New: "	opts = append(opts, ucfg.MetaData(ucfg.Meta{Source: name}))\n", Expect: "yaml.NewConfigWithFile/option order"})
	addControl(control{Prop: "C18", Name: "value-without-meta", Rule: "R18b", Kind: "mutant",
		File: "merge.go", Old: "return newFloat(ctx, opts.meta, f), nil", New: "return newFloat(ctx, nil, f), nil", Expect: "R18b/ucfg.normalizeValue/meta of newFloat"})
	addControl(control{Prop: "C18", Name: "conversion-error-without-meta", Rule: "R18b", Kind: "mutant",
		File: "error.go", Old: "into '%v'\", t.name, to)\n	return raisePathErr(err, v.meta(), message, path)", New: "into '%v'\", t.name, to)\n	return raisePathErr(err, nil, message, path)", Expect: "R18b/ucfg.raiseConversion"})
	addControl(control{Prop: "C18", Name: "yaml-local-renamed", Rule: "R18a", Kind: "refactor",
		File: "yaml/yaml.go", Old: "	var m interface{}\n	if err := yaml.Unmarshal(in, &m); err != nil {\n		return nil, err\n	}\n\n	return ucfg.NewFrom(m, opts...)",
		New: "	var decoded interface{}\n	err := yaml.Unmarshal(in, &decoded)\n	if err != nil {\n		return nil, err\n	}\n	return ucfg.NewFrom(decoded, opts...)"})

	// ---------------- C20 ----------------
	addControl(control{Prop: "C20", Name: "lower-bound-dropped", Rule: "R20a", Kind: "mutant", Quick: true,
		File: "path.go", Old: "err == nil && 0 <= idx && idx <= int64(maxIdx)", New: "err == nil && idx <= int64(maxIdx)", Expect: "R20a/ucfg.parseField/guard"})
	addControl(control{Prop: "C20", Name: "upper-bound-strict", Rule: "R20a", Kind: "mutant",
		File: "path.go", Old: "err == nil && 0 <= idx && idx <= int64(maxIdx)", New: "err == nil && 0 <= idx && idx < int64(maxIdx)", Expect: "R20a/ucfg.parseField/guard"})
	addControl(control{Prop: "C20", Name: "lower-bound-off-by-one", Rule: "R20a", Kind: "mutant",
		File: "path.go", Old: "err == nil && 0 <= idx && idx <= int64(maxIdx)", New: "err == nil && 0 < idx && idx <= int64(maxIdx)", Expect: "R20a/ucfg.parseField/guard"})
	addControl(control{Prop: "C20", Name: "numkeys-cleared-for-single-segment", Rule: "R20b", Kind: "mutant",
		File: "path.go", Old: "if len(elems) > 1 {", New: "if len(elems) > 0 {", Expect: "R20b/"})
	addControl(control{Prop: "C20", Name: "decimal-only", Rule: "R20d", Kind: "mutant",
		File: "path.go", Old: "strconv.ParseInt(in, 0, 64)", New: "strconv.ParseInt(in, 10, 64)", Expect: "R20d/"})
	addControl(control{Prop: "C20", Name: "guard-as-early-returns", Rule: "R20a", Kind: "refactor", Quick: true,
		File: "path.go",
		Old:  "	if !enableNumKeys {\n		idx, err := strconv.ParseInt(in, 0, 64)",
		New:  "	if enableNumKeys {\n		return namedField{in}\n	}\n	{\n		idx, err := strconv.ParseInt(in, 0, 64)\n		if err != nil || idx < 0 {\n			return namedField{in}\n		}"})
}

func init() {
	// ---------------- C01 ----------------
	addControl(control{Prop: "C01", Name: "arr-replace-case-dropped", Rule: "R01a", Kind: "mutant", Quick: true,
		File: "merge.go", Old: "	case cfgReplaceValue, cfgArrReplaceValue:\n		return mergeConfigReplaceArr", New: "	case cfgReplaceValue:\n		return mergeConfigReplaceArr", Expect: "R01a/ucfg.mergeConfigArr/case cfgArrReplaceValue"})
	addControl(control{Prop: "C01", Name: "prepend-and-append-swapped", Rule: "R01b", Kind: "mutant",
		File: "merge.go", Old: "	case cfgArrPrepend:\n		return mergeConfigPrependArr(opts, to, from)\n\n	case cfgArrAppend:\n		return mergeConfigAppendArr(opts, to, from)", New: "	case cfgArrPrepend:\n		return mergeConfigAppendArr(opts, to, from)\n\n	case cfgArrAppend:\n		return mergeConfigPrependArr(opts, to, from)", Expect: "R01b/"})
	addControl(control{Prop: "C01", Name: "prepend-wrong-order", Rule: "R01b", Kind: "mutant", Quick: true,
		File: "merge.go", Old: "	fields.append(parent, a2)\n	fields.append(parent, a1)", New: "	fields.append(parent, a1)\n	fields.append(parent, a2)", Expect: "R01b/ucfg.mergeConfigPrependArr/signature prepend"})
	addControl(control{Prop: "C01", Name: "replace-forgets-dictionary", Rule: "R01b", Kind: "mutant",
		File: "merge.go", Old: "	var fields = fields{\n		d: to.fields.d,\n		a: make([]value, 0, len(a)),\n	}", New: "	var fields = fields{\n		a: make([]value, 0, len(a)),\n	}", Expect: "R01b/ucfg.mergeConfigReplaceArr/signature replace"})
	addControl(control{Prop: "C01", Name: "nested-merge-with-fresh-options", Rule: "R01c", Kind: "mutant", Quick: true,
		File: "merge.go", Old: "	if err := mergeConfig(opts, subOld, subV); err != nil {", New: "	if err := mergeConfig(makeOptions(nil), subOld, subV); err != nil {", Expect: "R01c/ucfg.mergeValues"})
	addControl(control{Prop: "C01", Name: "merge-tail-from-zero", Rule: "R01b", Kind: "mutant",
		File: "merge.go", Old: "to.fields.append(parent, arr[l:])", New: "to.fields.append(parent, arr)", Expect: "R01b/ucfg.mergeConfigMergeArr/append source tail"})
	addControl(control{Prop: "C01", Name: "dict-cleared-under-arr-replace-too", Rule: "R01d", Kind: "mutant",
		File: "merge.go", Old: "	if opts.configValueHandling == cfgReplaceValue {\n		old := to.fields.dict()", New: "	if opts.configValueHandling == cfgReplaceValue || opts.configValueHandling == cfgArrReplaceValue {\n		old := to.fields.dict()", Expect: "R01d/ucfg.mergeConfigDict/clear only under replace"})
	addControl(control{Prop: "C01", Name: "old-wins-on-type-change", Rule: "R01e", Kind: "mutant",
		File: "merge.go", Old: "	subV, err := v.toConfig(opts)\n	if err != nil {\n		return v, nil\n	}", New: "	subV, err := v.toConfig(opts)\n	if err != nil {\n		return old, nil\n	}", Expect: "R01e/ucfg.mergeValues"})
	addControl(control{Prop: "C01", Name: "dispatch-as-if-chain", Rule: "R01a", Kind: "refactor", Quick: true,
		File: "merge.go",
		Old:  "	switch currHandling {\n	case cfgReplaceValue, cfgArrReplaceValue:\n		return mergeConfigReplaceArr(opts, to, from)\n\n	case cfgArrPrepend:\n		return mergeConfigPrependArr(opts, to, from)\n\n	case cfgArrAppend:\n		return mergeConfigAppendArr(opts, to, from)\n\n	case cfgDefaultHandling, cfgMergeValues:\n		return mergeConfigMergeArr(opts, to, from)\n	default:\n		return mergeConfigMergeArr(opts, to, from)\n	}",
		New:  "	if currHandling == cfgReplaceValue || currHandling == cfgArrReplaceValue {\n		return mergeConfigReplaceArr(opts, to, from)\n	} else if currHandling == cfgArrPrepend {\n		return mergeConfigPrependArr(opts, to, from)\n	} else if currHandling == cfgArrAppend {\n		return mergeConfigAppendArr(opts, to, from)\n	} else if currHandling == cfgMergeValues {\n		return mergeConfigMergeArr(opts, to, from)\n	}\n	return mergeConfigMergeArr(opts, to, from)"})

	// ---------------- C16 ----------------
	addControl(control{Prop: "C16", Name: "named-key-cut-removed", Rule: "R16b", Kind: "mutant", Quick: true,
		File: "merge.go", Old: "		if child == nil && idx < 0 && fieldName != \"*\" {\n			newOpts := *opts\n			newOpts.fieldHandlingTree = nil\n			return &newOpts, nil\n		}\n", New: "", Expect: "R16b/ucfg.fieldOptsOverride"})
	addControl(control{Prop: "C16", Name: "field-append-installs-prepend", Rule: "R16a", Kind: "mutant", Quick: true,
		File: "opts.go", Old: "FieldAppendValues = makeFieldOptValueHandling(cfgArrAppend)", New: "FieldAppendValues = makeFieldOptValueHandling(cfgArrPrepend)", Expect: "R16a/ucfg.init/twin AppendValues"})
	addControl(control{Prop: "C16", Name: "dict-loop-looks-up-star", Rule: "R16c", Kind: "mutant",
		File: "merge.go", Old: "opts, err := fieldOptsOverride(opts, k, -1)", New: "opts, err := fieldOptsOverride(opts, \"*\", -1)", Expect: "R16c/ucfg.mergeConfigDict"})
	addControl(control{Prop: "C16", Name: "cut-written-with-early-return-order", Rule: "R16b", Kind: "refactor",
		File: "merge.go", Old: "		if child == nil && idx < 0 && fieldName != \"*\" {", New: "		if named := idx < 0 && fieldName != \"*\"; named && child == nil {"})
}

func init() {
	// ---------------- C10 ----------------
	addControl(control{Prop: "C10", Name: "dict-store-without-copy", Rule: "R10b", Kind: "mutant", Quick: true,
		File: "merge.go", Old: "to.fields.set(k, merged.cpy(ctx))", New: "_ = ctx\n		to.fields.set(k, merged)", Expect: "R10"})
	addControl(control{Prop: "C10", Name: "append-without-copy", Rule: "R10b", Kind: "mutant",
		File: "ucfg.go", Old: "f.setAt(l, parent, a[i].cpy(ctx))", New: "_ = ctx\n		f.setAt(l, parent, a[i])", Expect: "R10b/(*ucfg.fields).append"})
	addControl(control{Prop: "C10", Name: "shallow-sub-copy", Rule: "R10b", Kind: "mutant", Quick: true,
		File: "types.go", Old: "		fields.set(name, v)", New: "		_ = v\n		fields.set(name, f)", Expect: "R10b/(ucfg.cfgSub).cpy"})
	addControl(control{Prop: "C10", Name: "replace-shares-source-array", Rule: "R10b", Kind: "mutant",
		File: "merge.go", Old: "	fields.append(parent, a)\n	*to.fields = fields", New: "	_ = parent\n	fields.a = a\n	*to.fields = fields", Expect: "R10"})
	addControl(control{Prop: "C10", Name: "embedded-config-adopted-again", Rule: "R10c", Kind: "mutant",
		File: "merge.go", Old: "return cfgSub{c}.cpy(ctx), nil", New: "ret := cfgSub{c}\n			ret.SetContext(ctx)\n			return ret, nil", Expect: "R10c/ucfg.normalizeValue"})
	addControl(control{Prop: "C10", Name: "copy-into-local-first", Rule: "R10b", Kind: "refactor", Quick: true,
		File: "merge.go", Old: "to.fields.set(k, merged.cpy(ctx))", New: "cp := merged.cpy(ctx)\n		to.fields.set(k, cp)"})

	// ---------------- C11 ----------------
	addControl(control{Prop: "C11", Name: "memoise-on-dynamic-value", Rule: "R11a", Kind: "mutant", Quick: true,
		File: "types.go", Old: "	id  cacheID\n	dyn dynValue\n}", New: "	id  cacheID\n	dyn dynValue\n	last value\n}", Expect: "R11a/(*ucfg.Config).String",
		More: []edit{{"types.go", "func (d *cfgDynamic) getValue(opts *options) (value, error) {\n	return opts.parsed.cachedValue(d.id, func() (value, error) {", "func (d *cfgDynamic) getValue(opts *options) (value, error) {\n	res, rerr := d.getValueUncached(opts)\n	d.last = res\n	return res, rerr\n}\n\nfunc (d *cfgDynamic) getValueUncached(opts *options) (value, error) {\n	return opts.parsed.cachedValue(d.id, func() (value, error) {"}}})
	addControl(control{Prop: "C11", Name: "lazy-dictionary-in-hasfield", Rule: "R11a", Kind: "mutant",
		File: "ucfg.go", Old: "	_, ok := c.fields.get(name)\n	return ok", New: "	if c.fields.d == nil {\n		c.fields.d = map[string]value{}\n	}\n	_, ok := c.fields.get(name)\n	return ok", Expect: "R11a/(*ucfg.Config).HasField"})
	addControl(control{Prop: "C11", Name: "non-atomic-sequence", Rule: "R11b", Kind: "mutant", Quick: true,
		File: "types.go", Old: "seq := atomic.AddInt32(&spliceSeq, 1)", New: "spliceSeq++\n	seq := spliceSeq\n	_ = atomic.LoadInt32", Expect: "R11b/"})
	addControl(control{Prop: "C11", Name: "metadata-stamped-on-read", Rule: "R11a", Kind: "mutant",
		File: "getset.go", Old: "	if v == nil {\n		return nil, raiseMissing(c, p.String())\n	}\n	return v, nil", New: "	if v == nil {\n		return nil, raiseMissing(c, p.String())\n	}\n	if opts.meta != nil {\n		v.setMeta(opts.meta)\n	}\n	return v, nil", Expect: "R11a/(*ucfg.Config).Int"})
	addControl(control{Prop: "C11", Name: "reference-path-rewritten", Rule: "R11c", Kind: "mutant",
		File: "variables.go", Old: "	env := opts.env\n\n	if ok :=", New: "	env := opts.env\n	r.Path.sep = opts.pathSep\n\n	if ok :=", Expect: "R11c/(*ucfg.reference).resolveRef"})
	addControl(control{Prop: "C11", Name: "has-via-getfield", Rule: "R11a", Kind: "refactor", Quick: true,
		File: "ucfg.go", Old: "	p := parsePathIdx(name, idx, opts)\n	return p.Has(c, opts)\n}", New: "	p := parsePathIdx(name, idx, opts)\n	ok, err := p.Has(c, opts)\n	if err != nil {\n		return false, err\n	}\n	return ok, nil\n}"})
}

func init() {
	// ---------------- C08 ----------------
	addControl(control{Prop: "C08", Name: "eval-scope-removed", Rule: "R08d", Kind: "mutant", Quick: true,
		File: "variables.go", Old: "	parentFields := opts.activeFields\n	opts.activeFields = newFieldSet(parentFields)\n	defer func() { opts.activeFields = parentFields }()\n\n	v, err := r.resolve(cfg, opts)", New: "	v, err := r.resolve(cfg, opts)", Expect: "R08d/(*ucfg.reference).eval/resolve inside scope"})
	addControl(control{Prop: "C08", Name: "alt-scope-closed-too-late-removed", Rule: "R08d", Kind: "mutant",
		File: "variables.go", Old: "	parentFields := opts.activeFields\n	opts.activeFields = newFieldSet(parentFields)\n	tmp, err := ref.resolve(cfg, opts)\n	opts.activeFields = parentFields\n", New: "	tmp, err := ref.resolve(cfg, opts)\n", Expect: "R08d/(*ucfg.expansionAlt).eval/resolve inside scope"})
	addControl(control{Prop: "C08", Name: "struct-fields-share-one-set", Rule: "R08d", Kind: "mutant", Quick: true,
		File: "reify.go", Old: "			opts.activeFields = newFieldSet(parentFields)\n			fInfo, skip, err := accessField(to, i, opts)", New: "			fInfo, skip, err := accessField(to, i, opts)", Expect: "R08d/ucfg.reifyStruct/per-child scope"})
	addControl(control{Prop: "C08", Name: "list-elements-share-one-set", Rule: "R08d", Kind: "mutant",
		File: "reify.go", Old: "			opts.opts.activeFields = newFieldSet(parentFields)\n			v, err := reifyMergeValue(opts, to.Index(idx), arr[idx-start])", New: "			v, err := reifyMergeValue(opts, to.Index(idx), arr[idx-start])", Expect: "R08d/ucfg.reifyDoArray/per-child scope"})
	addControl(control{Prop: "C08", Name: "flatten-recurses-through-public-method", Rule: "R08c", Kind: "mutant", Quick: true,
		File: "ucfg.go", Old: "return append(keys, subcfg.flattenedKeys(opts)...)", New: "return append(keys, subcfg.FlattenedKeys(PathSep(opts.pathSep))...)", Expect: "R08c/(*ucfg.Config).FlattenedKeys"})
	addControl(control{Prop: "C08", Name: "unguarded-lookup-in-alternative", Rule: "R08a", Kind: "mutant", Quick: true,
		File: "variables.go", Old: "	tmp, err := ref.resolve(cfg, opts)\n	opts.activeFields = parentFields\n", New: "	tmp, err := ref.Path.GetValue(cfgRoot(cfg), opts)\n	opts.activeFields = parentFields\n", Expect: "R08a/(*ucfg.expansionAlt).eval"})
	addControl(control{Prop: "C08", Name: "cycle-reported-as-missing", Rule: "R08b", Kind: "mutant",
		File: "variables.go", Old: "		return nil, raiseCyclicErr(r.Path.String())", New: "		return nil, raiseMissing(cfg, r.Path.String())", Expect: "R08b/(*ucfg.reference).resolveRef/re-entry is an error"})
	addControl(control{Prop: "C08", Name: "sub-configs-cached", Rule: "R08e", Kind: "mutant",
		File: "types.go", Old: "func (c cfgSub) canCache() bool                     { return false }", New: "func (c cfgSub) canCache() bool                     { return true }", Expect: "R08e/ucfg.cfgSub"})
	addControl(control{Prop: "C08", Name: "primitive-scope-not-restored", Rule: "R08d", Kind: "mutant",
		File: "reify.go", Old: "	opts.opts.activeFields = previous\n\n	// try primitive conversion", New: "	// try primitive conversion", Expect: "R08d/ucfg.doReifyPrimitive/open restored"})
	addControl(control{Prop: "C08", Name: "chain-cut-in-reify", Rule: "R08f", Kind: "mutant",
		File: "types.go", Old: "		m := make([]interface{}, len(arr))\n		for i, v := range arr {\n			opts.activeFields = newFieldSet(parentFields)", New: "		m := make([]interface{}, len(arr))\n		for i, v := range arr {\n			opts.activeFields = newFieldSet(nil)", Expect: "R08f/(ucfg.cfgSub).reify"})
	addControl(control{Prop: "C08", Name: "no-resolver-means-empty", Rule: "R08g", Kind: "mutant", Quick: true,
		File: "variables.go", Old: "	var err error = ErrMissing\n", New: "	var err error\n", Expect: "R08g/(*ucfg.reference).resolveEnv/unresolved is an error"})
	addControl(control{Prop: "C08", Name: "has-ignores-parent", Rule: "R08b", Kind: "mutant",
		File: "fieldset.go", Old: "	if _, exists = s.fields[name]; !exists && s.parent != nil {\n		exists = s.parent.Has(name)\n	}\n	return", New: "	_, exists = s.fields[name]\n	return", Expect: "R08b/(*ucfg.fieldSet).Has"})
	addControl(control{Prop: "C08", Name: "eval-scope-with-explicit-restores", Rule: "R08d", Kind: "refactor", Quick: true,
		File: "variables.go",
		Old:  "	defer func() { opts.activeFields = parentFields }()\n\n	v, err := r.resolve(cfg, opts)\n	if err != nil {\n		return \"\", err\n	}\n	if v == nil {\n		return \"\", fmt.Errorf(\"can not resolve reference: %v\", r.Path)\n	}\n	return v.toString(opts)",
		New:  "	v, err := r.resolve(cfg, opts)\n	if err != nil {\n		opts.activeFields = parentFields\n		return \"\", err\n	}\n	if v == nil {\n		opts.activeFields = parentFields\n		return \"\", fmt.Errorf(\"can not resolve reference: %v\", r.Path)\n	}\n	s, err := v.toString(opts)\n	opts.activeFields = parentFields\n	return s, err"})
}

func init() {
	// ---------------- C02 ----------------
	addControl(control{Prop: "C02", Name: "eager-copy-of-dynamic-values", Rule: "R02a", Kind: "mutant", Quick: true,
		File: "types.go", Old: "	return newDyn(c, d.meta(), d.dyn)\n}", New: "	if v, err := d.getValue(makeOptions(nil)); err == nil && v != nil {\n		return v.cpy(c)\n	}\n	return newDyn(c, d.meta(), d.dyn)\n}", Expect: "R02a/(*ucfg.cfgDynamic).cpy"})
	addControl(control{Prop: "C02", Name: "varexp-gate-removed", Rule: "R02b", Kind: "mutant", Quick: true,
		File: "merge.go", Old: "	if !opts.varexp {\n		return newString(ctx, opts.meta, str), nil\n	}\n", New: "", Expect: "R02b/ucfg.normalizeString"})
	addControl(control{Prop: "C02", Name: "env-first-to-last", Rule: "R02e", Kind: "mutant",
		File: "variables.go", Old: "		cfg = env[len(env)-1]\n		env = env[:len(env)-1]", New: "		cfg = env[0]\n		env = env[1:]", Expect: "R02e/(*ucfg.reference).resolveRef/Env last-to-first"})
	addControl(control{Prop: "C02", Name: "resolvers-first-to-last", Rule: "R02e", Kind: "mutant",
		File: "variables.go", Old: "for i := len(opts.resolvers) - 1; i >= 0; i-- {", New: "for i := 0; i < len(opts.resolvers); i++ {", Expect: "R02e/(*ucfg.reference).resolveEnv/resolvers last-to-first"})
	addControl(control{Prop: "C02", Name: "resolvers-before-tree-on-cycle", Rule: "R02e", Kind: "mutant",
		File: "variables.go", Old: "	v, err := r.resolveRef(cfg, opts)\n	if v != nil || criticalResolveError(err) {\n		return v, err\n	}\n\n	previousErr := err\n\n	s, _, err := r.resolveEnv(cfg, opts)", New: "	v, err := r.resolveRef(cfg, opts)\n	if v != nil {\n		return v, err\n	}\n\n	previousErr := err\n\n	s, _, err := r.resolveEnv(cfg, opts)", Expect: "R02e/(*ucfg.reference).resolve/tree before resolvers"})
	addControl(control{Prop: "C02", Name: "expansion-memoises-its-path", Rule: "R02c", Kind: "mutant",
		File: "variables.go", Old: "	ref := newReference(parsePath(path, e.pathSep, opts.maxIdx, opts.enableNumKeys, opts.escapePath))\n	return ref.eval(cfg, opts)", New: "	ref := newReference(parsePath(path, e.pathSep, opts.maxIdx, opts.enableNumKeys, opts.escapePath))\n	e.pathSep = opts.pathSep\n	return ref.eval(cfg, opts)", Expect: "R02c/(*ucfg.expansionSingle).eval"})
	addControl(control{Prop: "C02", Name: "gate-written-positively", Rule: "R02b", Kind: "refactor", Quick: true,
		File: "merge.go", Old: "	if !opts.varexp {\n		return newString(ctx, opts.meta, str), nil\n	}\n\n	varexp, err := parseSplice(str, opts.pathSep, opts.maxIdx, opts.enableNumKeys, opts.escapePath)\n	if err != nil {\n		return nil, raiseParseSplice(ctx, opts.meta, err)\n	}\n",
		New: "	var varexp varEvaler\n	if opts.varexp {\n		var err error\n		varexp, err = parseSplice(str, opts.pathSep, opts.maxIdx, opts.enableNumKeys, opts.escapePath)\n		if err != nil {\n			return nil, raiseParseSplice(ctx, opts.meta, err)\n		}\n	} else {\n		return newString(ctx, opts.meta, str), nil\n	}\n"})
}

func init() {
	// ---------------- C14 ----------------
	addControl(control{Prop: "C14", Name: "remove-returns-raw-error", Rule: "R14a", Kind: "mutant", Quick: true,
		File: "path.go", Old: "		return false, raiseExpectedObject(opt, cur)\n	}\n	cur = cfgSub{tmp}", New: "		return false, err\n	}\n	cur = cfgSub{tmp}", Expect: "R14a/(*ucfg.Config).Remove"})
	addControl(control{Prop: "C14", Name: "getter-returns-conversion-error-unwrapped", Rule: "R14a", Kind: "mutant", Quick: true,
		File: "getset.go", Old: "	i, fail := v.toInt(O)\n	return i, convertErr(O, v, fail, \"int\")", New: "	i, fail := v.toInt(O)\n	return i, fail", Expect: "R14a/(*ucfg.Config).Int"})
	addControl(control{Prop: "C14", Name: "new-errors-new-on-unpack-path", Rule: "R14a", Kind: "mutant",
		File: "reify.go", Old: "	if to == nil {\n		return raiseNil(ErrNilValue)\n	}", New: "	if to == nil {\n		return ErrNilValue\n	}", Expect: "R14a/(*ucfg.Config).Unpack"})
	addControl(control{Prop: "C14", Name: "validation-error-from-parent-context", Rule: "R14c", Kind: "mutant",
		File: "reify.go", Old: "	if err := tryValidate(v); err != nil {\n		return reflect.Value{}, raiseValidation(val.Context(), val.meta(), \"\", err)\n	}\n\n	return pointerize(t, baseType, chaseValuePointers(v)), nil", New: "	if err := tryValidate(v); err != nil {\n		pc := val.Context()\n		return reflect.Value{}, raiseValidation(pc.parent.Context(), val.meta(), \"\", err)\n	}\n\n	return pointerize(t, baseType, chaseValuePointers(v)), nil", Expect: "R14c/ucfg.reifyPrimitive"})
	addControl(control{Prop: "C14", Name: "possibly-nil-reason", Rule: "R14b", Kind: "mutant",
		File: "reify.go", Old: "	d, err = time.ParseDuration(s)\n	}\n\n	if err != nil {\n		return reflect.Value{}, raiseInvalidDuration(val, err)\n	}\n	return reflect.ValueOf(d), nil", New: "	d, err = time.ParseDuration(s)\n	}\n\n	if err != nil || d < 0 {\n		return reflect.Value{}, raiseInvalidDuration(val, err)\n	}\n	return reflect.ValueOf(d), nil", Expect: "R14b/"})
	addControl(control{Prop: "C14", Name: "conversion-error-names-other-value", Rule: "R14c", Kind: "mutant",
		File: "reify.go", Old: "	b, err := val.toBool(opts.opts)\n	if err != nil {\n		return reflect.Value{}, raiseConversion(opts.opts, val, err, \"bool\")", New: "	b, err := val.toBool(opts.opts)\n	if err != nil {\n		pc := val.Context()\n		return reflect.Value{}, raiseConversion(opts.opts, pc.parent, err, \"bool\")", Expect: "R14c/ucfg.reifyBool"})
	addControl(control{Prop: "C14", Name: "countfield-wrap-via-helper-variable", Rule: "R14a", Kind: "refactor", Quick: true,
		File: "getset.go", Old: "		ctx := v.Context()\n		return -1, raisePathErr(fail, v.meta(), \"\", ctx.path(\".\"))", New: "		ctx := v.Context()\n		var wrapped Error = raisePathErr(fail, v.meta(), \"\", ctx.path(\".\"))\n		return -1, wrapped"})
}

func init() {
	// ---------------- C04 ----------------
	addControl(control{Prop: "C04", Name: "unpacker-branch-skips-validators", Rule: "R04a", Kind: "mutant", Quick: true,
		File: "reify.go", Old: "		if err := runValidators(old.Interface(), opts.validators); err != nil {\n			return reflect.Value{}, raiseValidation(val.Context(), val.meta(), \"\", err)\n		}\n		if err := tryValidate(old); err != nil {", New: "		if err := tryValidate(old); err != nil {", Expect: "R04a/ucfg.reifyMergeValue"})
	addControl(control{Prop: "C04", Name: "primitive-validate-method-skipped", Rule: "R04b", Kind: "mutant", Quick: true,
		File: "reify.go", Old: "	if err := tryValidate(v); err != nil {\n		return reflect.Value{}, raiseValidation(val.Context(), val.meta(), \"\", err)\n	}\n\n	return pointerize(t, baseType, chaseValuePointers(v)), nil", New: "	return pointerize(t, baseType, chaseValuePointers(v)), nil", Expect: "R04b/ucfg.reifyPrimitive"})
	addControl(control{Prop: "C04", Name: "array-early-return-for-empty", Rule: "R04a", Kind: "mutant",
		File: "reify.go", Old: "	aLen := len(arr)\n	tLen := to.Len()\n	for idx := 0; idx < tLen; idx++ {", New: "	aLen := len(arr)\n	tLen := to.Len()\n	if tLen == 0 {\n		return to, nil\n	}\n	for idx := 0; idx < tLen; idx++ {", Expect: "R04a/ucfg.reifyDoArray"})
	addControl(control{Prop: "C04", Name: "map-field-unpacked-without-validators", Rule: "R04a", Kind: "mutant",
		File: "reify.go", Old: "return old, reifyMap(opts.opts, old, sub, opts.validators)", New: "return old, reifyMap(opts.opts, old, sub, nil)", Expect: "R04a/ucfg.reifyMergeValue"})
	addControl(control{Prop: "C04", Name: "absent-pointer-field-not-validated", Rule: "R04a", Kind: "mutant",
		File: "reify.go", Old: "		if fieldType.Kind() == reflect.Ptr {\n			if err := tryRecursiveValidate(to, opts.opts, opts.validators); err != nil {\n				return raiseValidation(cfg.ctx, meta, name, err)\n			}\n			return nil\n		}", New: "		if fieldType.Kind() == reflect.Ptr {\n			return nil\n		}", Expect: "R04a/ucfg.reifyGetField"})
	addControl(control{Prop: "C04", Name: "struct-fields-without-their-tags", Rule: "R04d", Kind: "mutant",
		File: "reify.go", Old: "				fopts := fieldOptions{opts: fInfo.options, tag: fInfo.tagOptions, validators: fInfo.validatorTags}\n				if err := reifyGetField(", New: "				fopts := fieldOptions{opts: fInfo.options, tag: fInfo.tagOptions, validators: nil}\n				if err := reifyGetField(", Expect: "R04d/ucfg.reifyStruct"})
	addControl(control{Prop: "C04", Name: "map-empty-config-shortcut", Rule: "R04a", Kind: "mutant",
		File: "reify.go", Old: "	if len(fields) == 0 {\n		if err := tryRecursiveValidate(to, opts, validators); err != nil {\n			return raiseValidation(from.ctx, from.metadata, \"\", err)\n		}\n		return nil\n	}", New: "	if len(fields) == 0 {\n		return nil\n	}", Expect: "R04a/ucfg.reifyMap"})
	addControl(control{Prop: "C04", Name: "primitive-validation-in-helper-order", Rule: "R04a", Kind: "refactor", Quick: true,
		File: "reify.go", Old: "	if err := runValidators(v.Interface(), opts.validators); err != nil {\n		return reflect.Value{}, raiseValidation(val.Context(), val.meta(), \"\", err)\n	}\n\n	if err := tryValidate(v); err != nil {\n		return reflect.Value{}, raiseValidation(val.Context(), val.meta(), \"\", err)\n	}\n\n	return pointerize(t, baseType, chaseValuePointers(v)), nil",
		New: "	verr := runValidators(v.Interface(), opts.validators)\n	if verr == nil {\n		verr = tryValidate(v)\n	}\n	if verr != nil {\n		return reflect.Value{}, raiseValidation(val.Context(), val.meta(), \"\", verr)\n	}\n	return pointerize(t, baseType, chaseValuePointers(v)), nil"})
}

func init() {
	// ---------------- C03 ----------------
	addControl(control{Prop: "C03", Name: "float-upper-bound-not-strict", Rule: "R03a", Kind: "mutant", Quick: true,
		File: "types.go", Old: "if !(math.MinInt64 <= c.f && c.f < math.MaxInt64) {", New: "if !(math.MinInt64 <= c.f && c.f <= math.MaxInt64) {", Expect: "R03a/(*ucfg.cfgFloat).toInt"})
	addControl(control{Prop: "C03", Name: "float-guard-in-reject-form", Rule: "R03a", Kind: "mutant", Quick: true,
		File: "types.go", Old: "if !(c.f < math.MaxUint64) {", New: "if c.f >= math.MaxUint64 {", Expect: "R03a/(*ucfg.cfgFloat).toUint"})
	addControl(control{Prop: "C03", Name: "negative-int-to-uint", Rule: "R03a", Kind: "mutant",
		File: "types.go", Old: "	if c.i < 0 {\n		return 0, ErrNegative\n	}\n	return uint64(c.i), nil", New: "	return uint64(c.i), nil", Expect: "R03a/(*ucfg.cfgInt).toUint"})
	addControl(control{Prop: "C03", Name: "overflow-test-on-other-type", Rule: "R03c", Kind: "mutant",
		File: "reify.go", Old: "	tmp := reflect.Zero(t)\n	if tmp.OverflowInt(i) {", New: "	tmp := reflect.Zero(tInt64)\n	if tmp.OverflowInt(i) {", Expect: "R03c/ucfg.reifyInt"})
	addControl(control{Prop: "C03", Name: "uint-overflow-test-dropped", Rule: "R03c", Kind: "mutant",
		File: "reify.go", Old: "	tmp := reflect.Zero(t)\n	if tmp.OverflowUint(u) {\n		return reflect.Value{}, raiseConversion(opts.opts, val, ErrOverflow, \"uint\")\n	}\n", New: "", Expect: "R03c/ucfg.reifyUint"})
	// helper extraction: the new function is inlined by the normalisation (normalize.go) before the rules run
	addControl(control{Prop: "C03", Name: "duration-int-case-extracted", Rule: "R03b", Kind: "refactor", Quick: true,
		File: "reify.go", Old: "		if v.i < -maxSeconds || maxSeconds < v.i {\n			err = ErrOverflow\n		} else {\n			d = time.Duration(v.i) * time.Second\n		}\n	case *cfgUint:",
		New:  "		d, err = intSecondsToDuration(v.i, maxSeconds)\n	case *cfgUint:",
		More: []edit{{"reify.go", "func reifyDuration(", "func intSecondsToDuration(i, maxSeconds int64) (d time.Duration, err error) {\n	if i < -maxSeconds || maxSeconds < i {\n		err = ErrOverflow\n	} else {\n		d = time.Duration(i) * time.Second\n	}\n	return d, err\n}\n\nfunc reifyDuration("}}})
	addControl(control{Prop: "C03", Name: "duration-int-case-extracted-unbounded", Rule: "R03b", Kind: "mutant",
		File: "reify.go", Old: "		if v.i < -maxSeconds || maxSeconds < v.i {\n			err = ErrOverflow\n		} else {\n			d = time.Duration(v.i) * time.Second\n		}\n	case *cfgUint:",
		New:    "		d, err = intSecondsToDuration(v.i, maxSeconds)\n	case *cfgUint:",
		More:   []edit{{"reify.go", "func reifyDuration(", "func intSecondsToDuration(i, maxSeconds int64) (d time.Duration, err error) {\n	if maxSeconds < i {\n		err = ErrOverflow\n	} else {\n		d = time.Duration(i) * time.Second\n	}\n	return d, err\n}\n\nfunc reifyDuration("}},
		Expect: "R03b/ucfg.reifyDuration"})
	addControl(control{Prop: "C03", Name: "integer-seconds-through-float", Rule: "R03d", Kind: "mutant", Quick: true,
		File: "reify.go", Old: "			d = time.Duration(v.i) * time.Second\n", New: "			d = time.Duration(float64(v.i) * float64(time.Second))\n", Expect: "R03d/ucfg.reifyDuration"})
	addControl(control{Prop: "C03", Name: "duration-bound-off-by-unit", Rule: "R03b", Kind: "mutant",
		File: "reify.go", Old: "const maxSeconds = int64(math.MaxInt64 / time.Second)", New: "const maxSeconds = int64(math.MaxInt64 / time.Millisecond)", Expect: "R03b/ucfg.reifyDuration"})
	addControl(control{Prop: "C03", Name: "convert-before-check", Rule: "R03a", Kind: "mutant",
		File: "types.go", Old: "	if c.u > math.MaxInt64 {\n		return 0, ErrOverflow\n	}\n	return int64(c.u), nil", New: "	i := int64(c.u)\n	if i < 0 {\n		return 0, ErrOverflow\n	}\n	return i, nil", Expect: "R03a/(*ucfg.cfgUint).toInt"})
	addControl(control{Prop: "C03", Name: "range-test-as-nested-ifs", Rule: "R03a", Kind: "refactor", Quick: true,
		File: "types.go", Old: "	if !(math.MinInt64 <= c.f && c.f < math.MaxInt64) {\n		return 0, ErrOverflow\n	}\n	return int64(c.f), nil", New: "	if math.MinInt64 <= c.f {\n		if c.f < math.MaxInt64 {\n			return int64(c.f), nil\n		}\n	}\n	return 0, ErrOverflow"})
}

func init() {
	// ---------------- C07 ----------------
	addControl(control{Prop: "C07", Name: "array-emptiness-test-removed", Rule: "R07a", Kind: "mutant", Quick: true,
		File: "parse/parse.go", Old: "		if p.input == \"\" {\n			return nil, errors.New(\"array closing ']' missing\")\n		}\n		if p.input[0] == ']' {", New: "		if p.input[0] == ']' {", Expect: "R07a/(*parse.flagParser).parseArray"})
	addControl(control{Prop: "C07", Name: "setat-growth-off-by-one", Rule: "R07a", Kind: "mutant", Quick: true,
		File: "ucfg.go", Old: "	if idx >= l {\n		tmp := make([]value, idx+1)", New: "	if idx > l {\n		tmp := make([]value, idx+1)", Expect: "R07a/(*ucfg.fields).setAt"})
	addControl(control{Prop: "C07", Name: "index-lower-bound-dropped", Rule: "R07a", Kind: "mutant",
		File: "path.go", Old: "if i.i < 0 || i.i >= len(arr) {", New: "if i.i >= len(arr) {", Expect: "R07a/(ucfg.idxField).GetValue"})
	addControl(control{Prop: "C07", Name: "index-upper-bound-off-by-one", Rule: "R07a", Kind: "mutant",
		File: "path.go", Old: "if i.i < 0 || i.i >= len(arr) {", New: "if i.i < 0 || i.i > len(arr) {", Expect: "R07a/(ucfg.idxField).GetValue"})
	addControl(control{Prop: "C07", Name: "negative-set-index-unchecked", Rule: "R07a", Kind: "mutant",
		File: "path.go", Old: "	if i.i < 0 || int64(i.i) > opts.maxIdx {", New: "	if int64(i.i) > opts.maxIdx {", Expect: "R07a/(*ucfg.fields).setAt"})
	addControl(control{Prop: "C07", Name: "lexer-end-of-input-test-removed", Rule: "R07a", Kind: "mutant",
		File: "variables.go", Old: "				if len(content) <= off { // found '$' at end of string\n					return\n				}\n", New: "", Expect: "R07a/ucfg.lexer$1"})
	addControl(control{Prop: "C07", Name: "dquote-scan-one-past-the-end", Rule: "R07a", Kind: "mutant",
		File: "parse/parse.go", Old: "	for ; i < len(in); i++ {\n		if in[i] == '\\\\' {", New: "	for ; i <= len(in); i++ {\n		if in[i] == '\\\\' {", Expect: "R07a/(*parse.flagParser).parseStringDQuote"})
	addControl(control{Prop: "C07", Name: "delat-bound-weakened", Rule: "R07a", Kind: "mutant",
		File: "ucfg.go", Old: "	if i < 0 || len(a) <= i {\n		return false\n	}", New: "	if i < 0 || len(a) < i {\n		return false\n	}", Expect: "R07a/(*ucfg.fields).delAt"})
	addControl(control{Prop: "C07", Name: "drain-after-first-return", Rule: "R07e", Kind: "mutant", Quick: true,
		File: "variables.go", Old: "	// drain lexer on return so go-routine won't leak\n	defer drainLex()\n\n	pieces, perr := parseVarExp(lex, pathSep, maxIdx, enableNumKeys, allowEscapePath)\n	if perr != nil {\n		return nil, perr\n	}\n", New: "	pieces, perr := parseVarExp(lex, pathSep, maxIdx, enableNumKeys, allowEscapePath)\n	if perr != nil {\n		return nil, perr\n	}\n\n	// drain lexer on return so go-routine won't leak\n	defer drainLex()\n", Expect: "R07e/ucfg.parseSplice"})
	addControl(control{Prop: "C07", Name: "isnil-for-all-kinds-again", Rule: "R07f", Kind: "mutant",
		File: "merge.go", Old: "		switch v.Kind() {\n		case reflect.Chan, reflect.Func, reflect.Interface, reflect.Ptr, reflect.UnsafePointer:\n			if v.IsNil() {\n				return &cfgNil{cfgPrimitive{ctx, opts.meta}}, nil\n			}\n		}", New: "		if v.IsNil() {\n			return &cfgNil{cfgPrimitive{ctx, opts.meta}}, nil\n		}", Expect: "R07f/ucfg.normalizeValue"})
	addControl(control{Prop: "C07", Name: "new-panic-on-api-path", Rule: "R07d", Kind: "mutant",
		File: "path.go", Old: "	if in == \"\" {\n		return cfgPath{", New: "	if in == \"\" && idx < -1 {\n		panic(\"invalid index\")\n	}\n	if in == \"\" {\n		return cfgPath{", Expect: "R07d/ucfg.parsePathIdx"})
	addControl(control{Prop: "C07", Name: "unchecked-type-assertion", Rule: "R07d", Kind: "mutant",
		File: "reify.go", Old: "	if ref, ok := v.(*cfgDynamic); ok {\n		unrefed, err := ref.getValue(opts)", New: "	if _, isSub := v.(cfgSub); !isSub {\n		ref := v.(*cfgDynamic)\n		unrefed, err := ref.getValue(opts)", Expect: "R07d/ucfg.castArr"})
	addControl(control{Prop: "C07", Name: "emptiness-test-as-length-test", Rule: "R07a", Kind: "refactor", Quick: true,
		File: "parse/parse.go", Old: "		if p.input == \"\" {\n			return nil, errors.New(\"array closing ']' missing\")\n		}\n		if p.input[0] == ']' {", New: "		if len(p.input) < 1 {\n			return nil, errors.New(\"array closing ']' missing\")\n		}\n		if c := p.input[0]; c == ']' {"})
	addControl(control{Prop: "C07", Name: "getvalue-bounds-in-positive-form", Rule: "R07a", Kind: "refactor",
		File: "path.go", Old: "	if i.i < 0 || i.i >= len(arr) {\n		return nil, raiseMissing(cfg, i.String())\n	}\n	return arr[i.i], nil", New: "	if 0 <= i.i && i.i < len(arr) {\n		return arr[i.i], nil\n	}\n	return nil, raiseMissing(cfg, i.String())"})
}

func init() {
	// ---------------- C17 ----------------
	addControl(control{Prop: "C17", Name: "object-member-whitespace-skip-removed", Rule: "R17a", Kind: "mutant", Quick: true,
		File: "parse/parse.go", Old: "		p.ignoreWhitespace()\n		if p.input == \"\" {\n			return nil, errors.New(\"dictionary expected ',' or '}'\")\n		}", New: "		if p.input == \"\" {\n			return nil, errors.New(\"dictionary expected ',' or '}'\")\n		}", Expect: "R17a/(*parse.flagParser).parseObj"})
	addControl(control{Prop: "C17", Name: "colon-expected-right-after-key", Rule: "R17a", Kind: "mutant",
		File: "parse/parse.go", Old: "		p.ignoreWhitespace()\n		if err := p.expectChar(':'); err != nil {", New: "		if err := p.expectChar(':'); err != nil {", Expect: "R17a/(*parse.flagParser).expectChar"})
	addControl(control{Prop: "C17", Name: "array-skip-after-lookahead", Rule: "R17a", Kind: "mutant",
		File: "parse/parse.go", Old: "		values = append(values, v)\n\n		p.ignoreWhitespace()\n		if p.input == \"\" {\n			return nil, errors.New(\"array closing ']' missing\")\n		}\n\n		next := p.input[0]\n		p.input = p.input[1:]\n", New: "		values = append(values, v)\n\n		if p.input == \"\" {\n			return nil, errors.New(\"array closing ']' missing\")\n		}\n\n		next := p.input[0]\n		p.input = p.input[1:]\n		p.ignoreWhitespace()\n", Expect: "R17a/(*parse.flagParser).parseArray"})
	addControl(control{Prop: "C17", Name: "object-gated-by-array-flag", Rule: "R17c", Kind: "mutant", Quick: true,
		File: "parse/parse.go", Old: "		if p.cfg.Object {\n			return p.parseObj()", New: "		if p.cfg.Array {\n			return p.parseObj()", Expect: "R17c/(*parse.flagParser).parseValue/gate Object"})
	addControl(control{Prop: "C17", Name: "single-quote-ungated", Rule: "R17c", Kind: "mutant",
		File: "parse/parse.go", Old: "		if p.cfg.StringSQuote {\n			return p.parseStringSQuote()\n		}\n		return p.parsePrimitive(stopSet)", New: "		return p.parseStringSQuote()", Expect: "R17c/(*parse.flagParser).parseValue/gate StringSQuote"})
	addControl(control{Prop: "C17", Name: "ignorecommas-inverted", Rule: "R17c", Kind: "mutant",
		File: "parse/parse.go", Old: "		if p.cfg.IgnoreCommas {\n			stopSet = \"\"\n		}", New: "		if !p.cfg.IgnoreCommas {\n			stopSet = \"\"\n		}", Expect: "R17c/(*parse.flagParser).parse/top-level stop set"})
	addControl(control{Prop: "C17", Name: "squote-end-off-by-one", Rule: "R17b", Kind: "mutant",
		File: "parse/parse.go", Old: "	p.input = in[i+2:]\n	return in[1 : 1+i], nil", New: "	p.input = in[i+3:]\n	return in[1 : 1+i], nil", Expect: "R17b/(*parse.flagParser).parseStringSQuote"})
	addControl(control{Prop: "C17", Name: "lookahead-via-local-copy", Rule: "R17a", Kind: "refactor", Quick: true,
		File: "parse/parse.go", Old: "		next := p.input[0]\n		p.input = p.input[1:]\n\n		switch next {\n		case '}':", New: "		rest := p.input\n		next := rest[0]\n		p.input = rest[1:]\n\n		switch next {\n		case '}':"})
}

func init() {
	// ---------------- C15 ----------------
	addControl(control{Prop: "C15", Name: "setcontext-ineffective-again", Rule: "R15d", Kind: "mutant", Quick: true,
		File: "types.go", Old: "func (c cfgSub) SetContext(ctx context) {\n	c.c.ctx = ctx\n}", New: "func (c cfgSub) SetContext(ctx context) {\n	if c.c.ctx.empty() {\n		c.c.ctx = ctx\n	} else {\n		c.c = &Config{ctx: ctx, fields: c.c.fields}\n	}\n}", Expect: "R15d/(ucfg.cfgSub).SetContext"})
	addControl(control{Prop: "C15", Name: "delat-without-renumbering", Rule: "R15b", Kind: "mutant", Quick: true,
		File: "ucfg.go", Old: "	for j := i; j < len(f.a); j++ {\n		if v := f.a[j]; v != nil {\n			ctx := v.Context()\n			ctx.field = fmt.Sprintf(\"%d\", j)\n			v.SetContext(ctx)\n		}\n	}\n", New: "", Expect: "R15b/(*ucfg.fields).delAt"})
	addControl(control{Prop: "C15", Name: "renumbering-off-by-one", Rule: "R15b", Kind: "mutant",
		File: "ucfg.go", Old: "			ctx.field = fmt.Sprintf(\"%d\", j)\n			v.SetContext(ctx)", New: "			ctx.field = fmt.Sprintf(\"%d\", j+1)\n			v.SetContext(ctx)", Expect: "R15b/(*ucfg.fields).delAt"})
	addControl(control{Prop: "C15", Name: "merged-element-named-after-length", Rule: "R15a", Kind: "mutant",
		File: "merge.go", Old: "			parent: parent,\n			field:  fmt.Sprintf(\"%v\", i),\n		}\n\n		// possible for individual index to be replaced", New: "			parent: parent,\n			field:  fmt.Sprintf(\"%v\", l),\n		}\n\n		// possible for individual index to be replaced", Expect: "R15a/ucfg.mergeConfigMergeArr/fields.setAt field"})
	addControl(control{Prop: "C15", Name: "named-set-without-setcontext", Rule: "R15a", Kind: "mutant",
		File: "path.go", Old: "	sub.c.fields.set(n.name, v)\n	v.SetContext(context{parent: elem, field: n.name})", New: "	sub.c.fields.set(n.name, v)", Expect: "R15a/(ucfg.namedField).SetValue"})
	addControl(control{Prop: "C15", Name: "appended-elements-numbered-from-zero", Rule: "R15a", Kind: "mutant",
		File: "ucfg.go", Old: "			field:  fmt.Sprintf(\"%v\", l),\n		}\n		f.setAt(l, parent, a[i].cpy(ctx))", New: "			field:  fmt.Sprintf(\"%v\", i),\n		}\n		f.setAt(l, parent, a[i].cpy(ctx))", Expect: "R15a/(*ucfg.fields).append/fields.setAt field"})
	addControl(control{Prop: "C15", Name: "copy-keeps-old-parent", Rule: "R15a", Kind: "mutant",
		File: "types.go", Old: "		v := f.cpy(context{field: ctx.field, parent: newC})\n		fields.set(name, v)", New: "		v := f.cpy(context{field: ctx.field, parent: ctx.parent})\n		fields.set(name, v)", Expect: "R15a/(ucfg.cfgSub).cpy/fields.set parent"})
	addControl(control{Prop: "C15", Name: "dict-merge-parent-is-source", Rule: "R15a", Kind: "mutant",
		File: "merge.go", Old: "		ctx := context{\n			parent: cfgSub{to},\n			field:  k,\n		}", New: "		ctx := context{\n			parent: cfgSub{from},\n			field:  k,\n		}", Expect: "R15a/ucfg.mergeConfigDict/fields.set parent"})
	addControl(control{Prop: "C15", Name: "normalized-list-skips-nil-elements", Rule: "R15a", Kind: "mutant",
		File: "merge.go", Old: "		tmp, err := normalizeValue(opts, tagOpts, ctx, v.Index(i))\n		if err != nil {\n			return nil, err\n		}\n		out = append(out, tmp)", New: "		tmp, err := normalizeValue(opts, tagOpts, ctx, v.Index(i))\n		if err != nil {\n			return nil, err\n		}\n		if isNil(tmp) && i > 0 {\n			continue\n		}\n		out = append(out, tmp)", Expect: "R15a/ucfg.normalizeArray/store fields.a"})
	addControl(control{Prop: "C15", Name: "parent-skips-a-level", Rule: "R15e", Kind: "mutant",
		File: "ucfg.go", Old: "		switch p := ctx.parent.(type) {\n		case cfgSub:\n			return p.c", New: "		switch p := ctx.parent.(type) {\n		case cfgSub:\n			if p.c.ctx.parent != nil && p.c.fields.array() != nil {\n				return p.c.Parent()\n			}\n			return p.c", Expect: "R15e/(*ucfg.Config).Parent"})
	addControl(control{Prop: "C15", Name: "renumber-with-named-context-literal", Rule: "R15b", Kind: "refactor", Quick: true,
		File: "ucfg.go", Old: "			ctx := v.Context()\n			ctx.field = fmt.Sprintf(\"%d\", j)\n			v.SetContext(ctx)", New: "			moved := v.Context()\n			moved.field = fmt.Sprintf(\"%v\", j)\n			v.SetContext(moved)"})
}

func init() {
	// ---------------- C12 ----------------
	addControl(control{Prop: "C12", Name: "setter-ignores-index", Rule: "R12a", Kind: "mutant", Quick: true,
		File: "getset.go", Old: "	return c.setField(name, idx, &cfgUint{u: value}, opts)", New: "	return c.setField(name, -1, &cfgUint{u: value}, opts)", Expect: "R12a/(*ucfg.Config).SetUint"})
	addControl(control{Prop: "C12", Name: "getter-reads-top-level-directly", Rule: "R12a", Kind: "mutant", Quick: true,
		File: "getset.go", Old: "	O := makeOptions(opts)\n	v, err := c.getField(name, idx, O)\n	if err != nil {\n		return false, err\n	}\n	b, fail := v.toBool(O)", New: "	O := makeOptions(opts)\n	v, found := c.fields.get(name)\n	if !found || idx >= 0 {\n		return false, raiseMissing(c, name)\n	}\n	b, fail := v.toBool(O)", Expect: "R12a/(*ucfg.Config).Bool"})
	addControl(control{Prop: "C12", Name: "has-parses-without-callers-options", Rule: "R12a", Kind: "mutant",
		File: "ucfg.go", Old: "	opts := makeOptions(options)\n	p := parsePathIdx(name, idx, opts)\n	return p.Has(c, opts)", New: "	opts := makeOptions(options)\n	p := parsePathIdx(name, idx, makeOptions(nil))\n	return p.Has(c, opts)", Expect: "R12a/(*ucfg.Config).Has"})
	addControl(control{Prop: "C12", Name: "remove-follows-environments", Rule: "R12c", Kind: "mutant",
		File: "ucfg.go", Old: "	opts.env = nil\n	opts.resolvers = nil", New: "	opts.resolvers = nil", Expect: "R12c/(*ucfg.Config).Remove"})
	addControl(control{Prop: "C12", Name: "child-is-a-copy", Rule: "R12d", Kind: "mutant",
		File: "types.go", Old: "func (c cfgSub) toConfig(*options) (*Config, error) { return c.c, nil }", New: "func (c cfgSub) toConfig(*options) (*Config, error) {\n	return c.cpy(c.c.ctx).(cfgSub).c, nil\n}", Expect: "R12d/(ucfg.cfgSub).toConfig"})
	addControl(control{Prop: "C12", Name: "stray-dictionary-write-in-getfields", Rule: "R12b", Kind: "mutant",
		File: "ucfg.go", Old: "	var names []string\n	for k := range c.fields.dict() {\n		names = append(names, k)\n	}\n	return names", New: "	var names []string\n	for k, v := range c.fields.dict() {\n		if isNil(v) {\n			delete(c.fields.d, k)\n			continue\n		}\n		names = append(names, k)\n	}\n	return names", Expect: "R12b/(*ucfg.Config).GetFields"})
	addControl(control{Prop: "C12", Name: "getter-with-named-intermediate", Rule: "R12a", Kind: "refactor", Quick: true,
		File: "getset.go", Old: "func (c *Config) getField(name string, idx int, opts *options) (value, Error) {\n	p := parsePathIdx(name, idx, opts)\n	v, err := p.GetValue(c, opts)", New: "func (c *Config) getField(name string, idx int, opts *options) (value, Error) {\n	path := parsePathIdx(name, idx, opts)\n	p := path\n	v, err := p.GetValue(c, opts)"})
}

func init() {
	// ---------------- C13 ----------------
	addControl(control{Prop: "C13", Name: "unpack-into-callers-struct-when-settable", Rule: "R13a", Kind: "mutant", Quick: true,
		File: "reify.go", Old: "	if orig.Kind() == reflect.Struct { // if orig is has been allocated copy into to\n		to.Set(orig)\n	}\n", New: "	if orig.Kind() == reflect.Struct { // if orig is has been allocated copy into to\n		to.Set(orig)\n		if orig.CanSet() {\n			to = orig\n		}\n	}\n", Expect: "R13a/ucfg.reifyStruct"})
	addControl(control{Prop: "C13", Name: "initdefaults-on-callers-struct", Rule: "R13a", Kind: "mutant",
		File: "reify.go", Old: "	} else {\n		tryInitDefaults(to)\n		numField := to.NumField()", New: "	} else {\n		tryInitDefaults(orig)\n		numField := to.NumField()", Expect: "R13a/ucfg.reifyStruct/caller's struct escape"})
	addControl(control{Prop: "C13", Name: "assign-back-before-validation", Rule: "R13a", Kind: "mutant", Quick: true,
		File: "reify.go", Old: "	if err := tryValidate(to); err != nil {\n		return raiseValidation(cfg.ctx, cfg.metadata, \"\", err)\n	}\n\n	orig.Set(pointerize(orig.Type(), to.Type(), to))\n	return nil", New: "	orig.Set(pointerize(orig.Type(), to.Type(), to))\n	if err := tryValidate(to); err != nil {\n		return raiseValidation(cfg.ctx, cfg.metadata, \"\", err)\n	}\n	return nil", Expect: "R13a/ucfg.reifyStruct/commit is last"})
	addControl(control{Prop: "C13", Name: "slice-merged-in-place-when-it-fits", Rule: "R13b", Kind: "mutant",
		File: "reify.go", Old: "	tmp := reflect.MakeSlice(tTo, l, l)\n\n	if withOld {\n		reflect.Copy(tmp.Slice(cpyStart, tmp.Len()), old)\n	}", New: "	tmp := reflect.MakeSlice(tTo, l, l)\n\n	if withOld && cpyStart == 0 && l == old.Len() {\n		tmp = old\n	} else if withOld {\n		reflect.Copy(tmp.Slice(cpyStart, tmp.Len()), old)\n	}", Expect: "R13b/ucfg.reifySliceMerge/old slice only read"})
	addControl(control{Prop: "C13", Name: "field-touched-before-skip-tests", Rule: "R13c", Kind: "mutant",
		File: "util.go", Old: "	stField := structVal.Type().Field(fieldIdx)\n\n	// ignore non exported fields", New: "	stField := structVal.Type().Field(fieldIdx)\n	if structVal.Field(fieldIdx).Kind() == reflect.Invalid {\n		return fieldInfo{}, true, nil\n	}\n\n	// ignore non exported fields", Expect: "R13c/ucfg.accessField/field access guarded"})
	addControl(control{Prop: "C13", Name: "arr-replace-falls-to-default-again", Rule: "R13d", Kind: "mutant", Quick: true,
		File: "reify.go", Old: "		case cfgReplaceValue, cfgArrReplaceValue:\n			// do nothing", New: "		case cfgReplaceValue:\n			// do nothing", Expect: "R13d/ucfg.reifySliceMerge/dispatch agreement"})
	addControl(control{Prop: "C13", Name: "commit-through-a-local", Rule: "R13a", Kind: "refactor", Quick: true,
		File: "reify.go", Old: "	orig.Set(pointerize(orig.Type(), to.Type(), to))\n	return nil\n}\n\nfunc reifyGetField(", New: "	res := pointerize(orig.Type(), to.Type(), to)\n	orig.Set(res)\n	return nil\n}\n\nfunc reifyGetField("})
	// ---------------- C09 ----------------
	addControl(control{Prop: "C09", Name: "map-keys-unsorted", Rule: "R09a", Kind: "mutant", Quick: true,
		File: "merge.go", Old: "	sort.Slice(keys, func(i, j int) bool {\n		return mapKeyLess(keys[i], keys[j])\n	})\n", New: "	_ = sort.Strings\n", Expect: "R09a/ucfg.normalizeMapInto"})
	addControl(control{Prop: "C09", Name: "merge-dict-ranges-over-map", Rule: "R09a", Kind: "mutant", Quick: true,
		File: "merge.go", Old: "	for _, k := range sortedKeys(dict) {\n		v := dict[k]\n", New: "	for k, v := range dict {\n", Expect: "R09a/ucfg.mergeConfigDict"})
	addControl(control{Prop: "C09", Name: "generic-reify-ranges-over-map", Rule: "R09a", Kind: "mutant",
		File: "types.go", Old: "	case len(fields) > 0 && len(arr) == 0:\n		m := make(map[string]interface{})\n		for _, k := range sortedKeys(fields) {\n			v := fields[k]\n",
		New: "	case len(fields) > 0 && len(arr) == 0:\n		m := make(map[string]interface{})\n		for k, v := range fields {\n", Expect: "R09a/(ucfg.cfgSub).reify"})
	addControl(control{Prop: "C09", Name: "reify-map-ranges-over-map", Rule: "R09a", Kind: "mutant",
		File: "reify.go", Old: "	for _, k := range sortedKeys(fields) {\n		value := fields[k]\n", New: "	for k, value := range fields {\n", Expect: "R09a/ucfg.reifyMap"})
	addControl(control{Prop: "C09", Name: "validate-map-unsorted", Rule: "R09a", Kind: "mutant",
		File: "validator.go", Old: "	sort.Slice(keys, func(i, j int) bool {\n		return mapKeyLess(keys[i], keys[j])\n	})\n", New: "	_ = sort.Strings\n", Expect: "R09a/ucfg.validateMap"})
	addControl(control{Prop: "C09", Name: "sorted-keys-not-sorted", Rule: "R09a", Kind: "mutant", Quick: true,
		File: "ucfg.go", Old: "	for k := range dict {\n		keys = append(keys, k)\n	}\n	sort.Strings(keys)\n	return keys", New: "	for k := range dict {\n		keys = append(keys, k)\n	}\n	_ = sort.Strings\n	return keys", Expect: "R09a/ucfg.sortedKeys"})
	addControl(control{Prop: "C09", Name: "copy-children-share-last-context", Rule: "R09a", Kind: "mutant",
		File: "types.go", Old: "	for name, f := range dict {\n		ctx := f.Context()\n		v := f.cpy(context{field: ctx.field, parent: newC})\n		fields.set(name, v)\n	}", New: "	var prev value\n	for name, f := range dict {\n		ctx := f.Context()\n		v := f.cpy(context{field: ctx.field, parent: newC})\n		if prev != nil {\n			v.setMeta(prev.meta())\n		}\n		prev = v\n		fields.set(name, v)\n	}", Expect: "R09a/(ucfg.cfgSub).cpy"})
	addControl(control{Prop: "C09", Name: "copy-children-stops-early", Rule: "R09a", Kind: "mutant",
		File: "types.go", Old: "	for name, f := range dict {\n		ctx := f.Context()\n		v := f.cpy(context{field: ctx.field, parent: newC})\n		fields.set(name, v)\n	}", New: "	for name, f := range dict {\n		ctx := f.Context()\n		v := f.cpy(context{field: ctx.field, parent: newC})\n		if v == nil {\n			break\n		}\n		fields.set(name, v)\n	}", Expect: "R09a/(ucfg.cfgSub).cpy"})
	addControl(control{Prop: "C09", Name: "copy-children-into-shared-node", Rule: "R09a", Kind: "mutant",
		File: "types.go", Old: "		v := f.cpy(context{field: ctx.field, parent: newC})\n		fields.set(name, v)\n	}", New: "		v := f.cpy(context{field: ctx.field, parent: newC})\n		fields.set(name, v)\n		fields.set(\"\", v)\n	}", Expect: "R09a/(ucfg.cfgSub).cpy"})
	addControl(control{Prop: "C09", Name: "sorted-keys-by-sort-slice", Rule: "R09a", Kind: "refactor", Quick: true,
		File: "ucfg.go", Old: "		keys = append(keys, k)\n	}\n	sort.Strings(keys)\n	return keys\n}\n\nfunc (f *fields) del", New: "		keys = append(keys, k)\n	}\n	sort.Slice(keys, func(i, j int) bool { return keys[i] < keys[j] })\n	return keys\n}\n\nfunc (f *fields) del"})
	addControl(control{Prop: "C09", Name: "validate-map-indexed-loop", Rule: "R09a", Kind: "refactor",
		File: "validator.go", Old: "	for _, key := range keys {\n		if err := tryRecursiveValidate(val.MapIndex(key), opts, nil); err != nil {", New: "	for i := 0; i < len(keys); i++ {\n		elem := val.MapIndex(keys[i])\n		if err := tryRecursiveValidate(elem, opts, nil); err != nil {"})
	addControl(control{Prop: "C09", Name: "copy-children-collects-then-sets", Rule: "R09a", Kind: "refactor",
		File: "types.go", Old: "	for name, f := range dict {\n		ctx := f.Context()\n		v := f.cpy(context{field: ctx.field, parent: newC})\n		fields.set(name, v)\n	}", New: "	for name := range dict {\n		f := dict[name]\n		child := context{field: f.Context().field, parent: newC}\n		fields.set(name, f.cpy(child))\n	}"})
	addControl(control{Prop: "C09", Name: "dictionary-handed-to-library", Rule: "R09b", Kind: "mutant", Quick: true,
		File: "types.go", Old: "	dict := c.c.fields.dict()\n	arr := c.c.fields.array()\n	fields := &fields{}\n", New: "	dict := c.c.fields.dict()\n	arr := c.c.fields.array()\n	fields := &fields{}\n	if reflect.DeepEqual(dict, arr) {\n		return nil\n	}\n", Expect: "R09b/(ucfg.cfgSub).cpy"})
	// ---------------- C01 (dictionary loop forms) ----------------
	addControl(control{Prop: "C01", Name: "sorted-keys-skips-empty-name", Rule: "R01d", Kind: "mutant", Quick: true,
		File: "ucfg.go", Old: "	for k := range dict {\n		keys = append(keys, k)\n	}\n	sort.Strings(keys)", New: "	for k := range dict {\n		if k == \"\" {\n			continue\n		}\n		keys = append(keys, k)\n	}\n	sort.Strings(keys)", Expect: "R01d/ucfg.sortedKeys"})
	addControl(control{Prop: "C01", Name: "dict-loop-value-from-destination", Rule: "R01d", Kind: "mutant",
		File: "merge.go", Old: "	for _, k := range sortedKeys(dict) {\n		v := dict[k]\n", New: "	for _, k := range sortedKeys(dict) {\n		v := to.fields.d[k]\n		if v == nil {\n			v = dict[k]\n		}\n", Expect: "R01d/ucfg.mergeConfigDict/per-key store"})
	addControl(control{Prop: "C01", Name: "dict-loop-as-map-range", Rule: "R01d", Kind: "refactor",
		File: "merge.go", Old: "	for _, k := range sortedKeys(dict) {\n		v := dict[k]\n", New: "	for k, v := range dict {\n"})
	// ---------------- C06 ----------------
	addControl(control{Prop: "C06", Name: "reader-ignores-tag-name", Rule: "R06a", Kind: "mutant", Quick: true,
		File: "util.go", Old: "		name:          fieldName(name, stField.Name),", New: "		name:          fieldName(name[:0], stField.Name),", Expect: "R06a/writer/reader/field key"})
	addControl(control{Prop: "C06", Name: "writer-stores-ignored-fields", Rule: "R06a", Kind: "mutant", Quick: true,
		File: "merge.go", Old: "		name, tagOpts := parseTags(stField.Tag.Get(opts.tag))\n		if tagOpts.ignore {\n			continue\n		}\n", New: "		name, tagOpts := parseTags(stField.Tag.Get(opts.tag))\n", Expect: "R06a/writer/reader/participation conditions"})
	addControl(control{Prop: "C06", Name: "reader-fixed-tag-name", Rule: "R06a", Kind: "mutant",
		File: "util.go", Old: "	name, tagOpts := parseTags(stField.Tag.Get(opts.tag))\n	if tagOpts.ignore {\n		return fieldInfo{}, true, nil", New: "	name, tagOpts := parseTags(stField.Tag.Get(\"config\"))\n	if tagOpts.ignore {\n		return fieldInfo{}, true, nil", Expect: "R06a/writer/reader/field key"})
	addControl(control{Prop: "C06", Name: "writer-pairs-key-with-other-field", Rule: "R06a", Kind: "mutant",
		File: "merge.go", Old: "			err = normalizeSetField(cfg, opts, tagOpts, name, v.Field(i))", New: "			err = normalizeSetField(cfg, opts, tagOpts, name, v.Field(numField-1-i))", Expect: "R06a/writer/reader/field"})
	addControl(control{Prop: "C06", Name: "unpack-reads-skipped-fields", Rule: "R06a", Kind: "mutant",
		File: "reify.go", Old: "			if skip {\n				continue\n			}\n\n			if fInfo.tagOptions.squash {", New: "			_ = skip\n\n			if fInfo.tagOptions.squash {", Expect: "R06a/ucfg.reifyStruct/skip honoured"})
	addControl(control{Prop: "C06", Name: "writer-lowercases-tag-name", Rule: "R06a", Kind: "mutant",
		File: "merge.go", Old: "			name = fieldName(name, stField.Name)\n", New: "			name = fieldName(name, stField.Name)\n			if len(name) > 0 && unicode.IsUpper(rune(name[0])) {\n				name = string(unicode.ToLower(rune(name[0]))) + name[1:]\n			}\n", Expect: "R06a/writer/reader/field key"})
	addControl(control{Prop: "C06", Name: "reader-parses-name-without-separator", Rule: "R06p", Kind: "mutant", Quick: true,
		File: "reify.go", Old: "	p := parsePathWithOpts(name, opts.opts)\n	value, err := p.GetValue(cfg, opts.opts)", New: "	p := parsePath(name, \"\", opts.opts.maxIdx, opts.opts.enableNumKeys, opts.opts.escapePath)\n	value, err := p.GetValue(cfg, opts.opts)", Expect: "R06p/"})
	addControl(control{Prop: "C06", Name: "inline-map-rejected-on-unpack", Rule: "R06d", Kind: "mutant", Quick: true,
		File: "reify.go", Old: "				case reflect.Struct, reflect.Map:\n					if err := reifyInto(fInfo.options, fInfo.value, cfg); err != nil {", New: "				case reflect.Struct:\n					if err := reifyInto(fInfo.options, fInfo.value, cfg); err != nil {", Expect: "R06d/writer/reader/inline kind Map"})
	addControl(control{Prop: "C06", Name: "regexp-missing-from-extras", Rule: "R06b", Kind: "mutant", Quick: true,
		File: "reify.go", Old: "		tDuration: reifyDuration,\n		tRegexp:   reifyRegexp,\n", New: "		tDuration: reifyDuration,\n", Expect: "R06b/writer/reader/special type tRegexp"})
	addControl(control{Prop: "C06", Name: "duration-written-as-number", Rule: "R06b", Kind: "mutant",
		File: "merge.go", Old: "	case tDuration:\n		d := v.Interface().(time.Duration)\n		return newString(ctx, opts.meta, d.String()), nil\n", New: "	case reflect.TypeOf(time.Time{}):\n", Expect: "R06b/writer/reader/special type tDuration"})
	addControl(control{Prop: "C06", Name: "regexp-read-back-posix", Rule: "R06b", Kind: "mutant",
		File: "reify.go", Old: "	r, err := regexp.Compile(s)", New: "	r, err := regexp.CompilePOSIX(s)", Expect: "R06b/writer/reader/encoding of tRegexp"})
	addControl(control{Prop: "C06", Name: "numeric-kinds-before-extras", Rule: "R06b", Kind: "mutant",
		File: "reify.go", Old: "	case extras[baseType] != nil:\n		v, err := extras[baseType](opts, val, baseType)\n		if err != nil {\n			return v, err\n		}\n		return v, nil\n\n	case isInt(kind):\n		v, err := reifyInt(opts, val, baseType)\n		if err != nil {\n			return v, err\n		}\n		return v, nil\n",
		New: "	case isInt(kind):\n		v, err := reifyInt(opts, val, baseType)\n		if err != nil {\n			return v, err\n		}\n		return v, nil\n\n	case extras[baseType] != nil:\n		v, err := extras[baseType](opts, val, baseType)\n		if err != nil {\n			return v, err\n		}\n		return v, nil\n", Expect: "R06b/ucfg.doReifyPrimitive/extras before isInt"})
	addControl(control{Prop: "C06", Name: "reader-drops-int16", Rule: "R06c", Kind: "mutant", Quick: true,
		File: "util.go", Old: "	case reflect.Int, reflect.Int8, reflect.Int16, reflect.Int32, reflect.Int64:\n		return true", New: "	case reflect.Int, reflect.Int8, reflect.Int32, reflect.Int64:\n		return true", Expect: "R06c/writer/reader/kind Int16"})
	addControl(control{Prop: "C06", Name: "writer-drops-uint8", Rule: "R06c", Kind: "mutant",
		File: "merge.go", Old: "	case reflect.Uint, reflect.Uint8, reflect.Uint16, reflect.Uint32, reflect.Uint64:\n		return newUint(ctx, opts.meta, v.Uint()), nil", New: "	case reflect.Uint, reflect.Uint16, reflect.Uint32, reflect.Uint64:\n		return newUint(ctx, opts.meta, v.Uint()), nil", Expect: "R06c/ucfg.normalizeValue/writer accepts Uint8"})
	addControl(control{Prop: "C06", Name: "writer-stores-bool-as-number", Rule: "R06c", Kind: "mutant",
		File: "merge.go", Old: "		return newBool(ctx, opts.meta, v.Bool()), nil", New: "		if v.Bool() {\n			return newUint(ctx, opts.meta, 1), nil\n		}\n		return newUint(ctx, opts.meta, 0), nil", Expect: "R06c/writer/reader/kind Bool"})
	addControl(control{Prop: "C06", Name: "merge-value-without-array-case", Rule: "R06c", Kind: "mutant",
		File: "reify.go", Old: "	case reflect.Array:\n		return reifyArray(opts, old, baseType, val)\n\n", New: "", Expect: "R06c/writer/reader/kind Array"})
	addControl(control{Prop: "C06", Name: "uint-never-reads-as-int", Rule: "R06e", Kind: "mutant",
		File: "types.go", Old: "	return int64(c.u), nil", New: "	return 0, ErrTypeMismatch", Expect: "R06e/(*ucfg.cfgUint).toInt"})
	addControl(control{Prop: "C06", Name: "reader-name-in-local", Rule: "R06a", Kind: "refactor", Quick: true,
		File: "util.go", Old: "	return fieldInfo{\n		name:          fieldName(name, stField.Name),", New: "	key := fieldName(name, stField.Name)\n	return fieldInfo{\n		name:          key,"})
	addControl(control{Prop: "C06", Name: "writer-helper-extracted", Rule: "R06a", Kind: "refactor", Quick: true,
		File: "merge.go", Old: "		name, tagOpts := parseTags(stField.Tag.Get(opts.tag))\n		if tagOpts.ignore {\n			continue\n		}\n", New: "		name, tagOpts := structFieldTags(stField, opts.tag)\n		if tagOpts.ignore {\n			continue\n		}\n",
		More: []edit{{File: "merge.go", Old: "func normalizeSetField(\n", New: "func structFieldTags(f reflect.StructField, tag string) (string, tagOptions) {\n	return parseTags(f.Tag.Get(tag))\n}\n\nfunc normalizeSetField(\n"}}})
	addControl(control{Prop: "C06", Name: "int-predicate-by-range", Rule: "R06c", Kind: "refactor",
		File: "util.go", Old: "func isInt(k reflect.Kind) bool {\n	switch k {\n	case reflect.Int, reflect.Int8, reflect.Int16, reflect.Int32, reflect.Int64:\n		return true\n	default:\n		return false\n	}\n}", New: "func isInt(k reflect.Kind) bool {\n	return reflect.Int <= k && k <= reflect.Int64\n}"})
	addControl(control{Prop: "C06", Name: "unpack-loop-renamed", Rule: "R06a", Kind: "refactor",
		File: "reify.go", Old: "				fopts := fieldOptions{opts: fInfo.options, tag: fInfo.tagOptions, validators: fInfo.validatorTags}\n				if err := reifyGetField(cfg, fopts, fInfo.name, fInfo.value, fInfo.ftype); err != nil {\n					return err\n				}", New: "				key, target := fInfo.name, fInfo.value\n				fopts := fieldOptions{opts: fInfo.options, tag: fInfo.tagOptions, validators: fInfo.validatorTags}\n				err := reifyGetField(cfg, fopts, key, target, fInfo.ftype)\n				if err != nil {\n					return err\n				}"})
	// ---------------- C02 (computed names) ----------------
	addControl(control{Prop: "C02", Name: "nested-reference-uses-readers-separator", Rule: "R02f", Kind: "mutant", Quick: true,
		File: "variables.go", Old: "	ref := newReference(parsePath(path, e.pathSep, opts.maxIdx, opts.enableNumKeys, opts.escapePath))\n	return ref.eval(cfg, opts)", New: "	ref := newReference(parsePathWithOpts(path, opts))\n	return ref.eval(cfg, opts)", Expect: "R02f/(*ucfg.expansionSingle).eval"})
	addControl(control{Prop: "C02", Name: "error-operator-uses-readers-separator", Rule: "R02f", Kind: "mutant",
		File: "variables.go", Old: "		ref := newReference(parsePath(path, e.pathSep, opts.maxIdx, opts.enableNumKeys, opts.escapePath))\n		str, err := ref.eval(cfg, opts)", New: "		ref := newReference(parsePathWithOpts(path, opts))\n		str, err := ref.eval(cfg, opts)", Expect: "R02f/(*ucfg.expansionErr).eval"})
	addControl(control{Prop: "C02", Name: "separator-in-local", Rule: "R02f", Kind: "refactor",
		File: "variables.go", Old: "	ref := newReference(parsePath(path, e.pathSep, opts.maxIdx, opts.enableNumKeys, opts.escapePath))\n	return ref.eval(cfg, opts)", New: "	sep := e.pathSep\n	p := parsePath(path, sep, opts.maxIdx, opts.enableNumKeys, opts.escapePath)\n	ref := newReference(p)\n	return ref.eval(cfg, opts)"})
	// ---------------- rules added after the first round of seeded changes ----------------
	addControl(control{Prop: "C08", Name: "reference-eval-restores-only-on-success", Rule: "R08d", Kind: "mutant", Quick: true,
		File: "variables.go", Old: "	defer func() { opts.activeFields = parentFields }()\n\n	v, err := r.resolve(cfg, opts)\n	if err != nil {\n		return \"\", err\n	}\n	if v == nil {\n		return \"\", fmt.Errorf(\"can not resolve reference: %v\", r.Path)\n	}\n	return v.toString(opts)",
		New: "\n	v, err := r.resolve(cfg, opts)\n	if err != nil {\n		return \"\", err\n	}\n	if v == nil {\n		return \"\", fmt.Errorf(\"can not resolve reference: %v\", r.Path)\n	}\n	s, err := v.toString(opts)\n	opts.activeFields = parentFields\n	return s, err", Expect: "R08d/(*ucfg.reference).eval/open restored"})
	addControl(control{Prop: "C08", Name: "reference-eval-explicit-restores", Rule: "R08d", Kind: "refactor",
		File: "variables.go", Old: "	defer func() { opts.activeFields = parentFields }()\n\n	v, err := r.resolve(cfg, opts)\n	if err != nil {\n		return \"\", err\n	}\n	if v == nil {\n		return \"\", fmt.Errorf(\"can not resolve reference: %v\", r.Path)\n	}\n	return v.toString(opts)",
		New: "\n	v, err := r.resolve(cfg, opts)\n	if err != nil {\n		opts.activeFields = parentFields\n		return \"\", err\n	}\n	if v == nil {\n		opts.activeFields = parentFields\n		return \"\", fmt.Errorf(\"can not resolve reference: %v\", r.Path)\n	}\n	s, err := v.toString(opts)\n	opts.activeFields = parentFields\n	return s, err"})
	addControl(control{Prop: "C09", Name: "sort-key-by-value-string", Rule: "R09c", Kind: "mutant", Quick: true,
		File: "merge.go", Old: "	k = chaseValueInterfaces(k)\n	if k.Kind() == reflect.String {\n		return k.String()\n	}\n	return fmt.Sprint(k.Interface())", New: "	_ = fmt.Sprint\n	return k.String()", Expect: "R09c/ucfg.mapKeyString"})
	addControl(control{Prop: "C09", Name: "comparator-compares-key-with-itself", Rule: "R09d", Kind: "mutant",
		File: "validator.go", Old: "		return mapKeyLess(keys[i], keys[j])", New: "		return mapKeyLess(keys[i], keys[i])", Expect: "R09d/ucfg.validateMap"})
	addControl(control{Prop: "C09", Name: "comparator-with-locals", Rule: "R09d", Kind: "refactor",
		File: "validator.go", Old: "		return mapKeyLess(keys[i], keys[j])", New: "		a, b := keys[i], keys[j]\n		return mapKeyLess(a, b)"})
	addControl(control{Prop: "C11", Name: "captured-config-merged-without-identity-test", Rule: "R11d", Kind: "mutant", Quick: true,
		File: "reify.go", Old: "		if sub == subOld {\n			return oldValue, nil\n		}\n", New: "", Expect: "R11d/ucfg.reifyMergeValue"})
	addControl(control{Prop: "C11", Name: "identity-test-inverted-form", Rule: "R11d", Kind: "refactor",
		File: "reify.go", Old: "		if sub == subOld {\n			return oldValue, nil\n		}\n\n		// old != value -> merge value into old\n		return oldValue, mergeFieldConfig(opts, subOld, sub)", New: "		if sub != subOld {\n			return oldValue, mergeFieldConfig(opts, subOld, sub)\n		}\n		return oldValue, nil"})
	addControl(control{Prop: "C01", Name: "source-dictionary-read-after-clear", Rule: "R01d", Kind: "mutant", Quick: true,
		File: "merge.go", Old: "	for _, k := range sortedKeys(dict) {\n		v := dict[k]\n", New: "	dict = from.fields.dict()\n	for _, k := range sortedKeys(dict) {\n		v := dict[k]\n", Expect: "R01d/ucfg.mergeConfigDict/source read before clear"})
	addControl(control{Prop: "C06", Name: "float32-stored-through-text", Rule: "R06f", Kind: "mutant", Quick: true,
		File: "merge.go", Old: "		f := v.Float()\n		return newFloat(ctx, opts.meta, f), nil", New: "		f := v.Float()\n		if v.Kind() == reflect.Float32 {\n			f = float64(float32(f) * 1)\n			fmt.Sscan(fmt.Sprint(float32(f)), &f)\n		}\n		return newFloat(ctx, opts.meta, f), nil", Expect: "R06f/ucfg.normalizeValue/exact newFloat"})
	addControl(control{Prop: "C16", Name: "parent-tree-handed-down-whenever-no-child", Rule: "R16d", Kind: "mutant", Quick: true,
		File: "merge.go", Old: "	if child == nil && len(parent.fields.dict()) == 1 {", New: "	if child == nil {", Expect: "R16d/ucfg.includeWildcard"})
	addControl(control{Prop: "C17", Name: "no-unsigned-parse", Rule: "R17d", Kind: "mutant", Quick: true,
		File: "parse/parse.go", Old: "	if n, err := strconv.ParseUint(content, 0, 64); err == nil {\n		return n, nil\n	}\n", New: "", Expect: "R17d/(*parse.flagParser).parsePrimitive/strconv.ParseUint"})
	addControl(control{Prop: "C17", Name: "float-before-signed-integer", Rule: "R17d", Kind: "mutant",
		File: "parse/parse.go", Old: "	if n, err := strconv.ParseInt(content, 0, 64); err == nil {\n		return n, nil\n	}\n	if n, err := strconv.ParseFloat(content, 64); err == nil {\n		return n, nil\n	}\n", New: "	if n, err := strconv.ParseFloat(content, 64); err == nil {\n		return n, nil\n	}\n	if n, err := strconv.ParseInt(content, 0, 64); err == nil {\n		return n, nil\n	}\n", Expect: "R17d/(*parse.flagParser).parsePrimitive/strconv.ParseInt"})
	addControl(control{Prop: "C17", Name: "number-parses-with-named-errors", Rule: "R17d", Kind: "refactor",
		File: "parse/parse.go", Old: "	if n, err := strconv.ParseUint(content, 0, 64); err == nil {\n		return n, nil\n	}\n	if n, err := strconv.ParseInt(content, 0, 64); err == nil {\n		return n, nil\n	}\n", New: "	u, uerr := strconv.ParseUint(content, 0, 64)\n	if uerr == nil {\n		return u, nil\n	}\n	i, ierr := strconv.ParseInt(content, 0, 64)\n	if ierr == nil {\n		return i, nil\n	}\n"})
	addControl(control{Prop: "C04", Name: "duration-bound-truncated-before-scaling", Rule: "R04e", Kind: "mutant", Quick: true,
		File: "validator.go", Old: "	return time.Duration(tmp * float64(time.Second)), nil", New: "	return time.Duration(tmp) * time.Second, nil", Expect: "R04e/ucfg.param2Duration"})
	addControl(control{Prop: "C04", Name: "duration-bound-scaled-in-local", Rule: "R04e", Kind: "refactor",
		File: "validator.go", Old: "	return time.Duration(tmp * float64(time.Second)), nil", New: "	secs := float64(time.Second) * tmp\n	return time.Duration(secs), nil"})
	addControl(control{Prop: "C12", Name: "removal-copies-shifted-elements", Rule: "R12e", Kind: "mutant", Quick: true,
		File: "ucfg.go", Old: "			v.SetContext(ctx)\n		}\n	}\n	return true", New: "			f.a[j] = v.cpy(ctx)\n		}\n	}\n	return true", Expect: "R12e/(*ucfg.fields).delAt"})
	// ---------------- C07 R07g/h (reflect preconditions) ----------------
	addControl(control{Prop: "C07", Name: "unpack-accepts-nil-pointer", Rule: "R07g", Kind: "mutant", Quick: true,
		File: "reify.go", Old: "	if vTo.IsNil() {\n		// nothing to unpack into: a nil pointer, or a nil map passed by value\n		return raiseNil(ErrNilValue)\n	}\n", New: "", Expect: "R07g/ucfg.reify"})
	addControl(control{Prop: "C07", Name: "merge-value-into-unaddressable-old", Rule: "R07g", Kind: "mutant", Quick: true,
		File: "reify.go", Old: "		if !old.CanSet() {\n			// a value held by an interface or a map is not addressable: unpack\n			// into a copy, the caller stores the result in its place\n			tmp := reflect.New(old.Type()).Elem()\n			tmp.Set(old)\n			old, oldValue = tmp, tmp\n		}\n", New: "", Expect: "R07g/ucfg.reify"})
	addControl(control{Prop: "C07", Name: "inline-list-set-without-test", Rule: "R07g", Kind: "mutant",
		File: "reify.go", Old: "					if vField.CanSet() {\n						vField.Set(v)\n					} else {\n						// the list is held by an interface: store the result there\n						fInfo.value.Set(v)\n					}\n", New: "					vField.Set(v)\n", Expect: "R07g/ucfg.reifyStruct/Set receiver"})
	addControl(control{Prop: "C07", Name: "config-by-value-address-taken", Rule: "R07g", Kind: "mutant",
		File: "merge.go", Old: "		return pointerize(tConfigPtr, tConfig, vFrom).Interface().(*Config), nil", New: "		return vFrom.Addr().Interface().(*Config), nil", Expect: "R07g/ucfg.normalize/Addr receiver"})
	addControl(control{Prop: "C07", Name: "regexp-by-value-address-taken", Rule: "R07g", Kind: "mutant",
		File: "merge.go", Old: "		r := pointerize(reflect.PtrTo(tRegexp), tRegexp, v).Interface().(*regexp.Regexp)", New: "		r := v.Addr().Interface().(*regexp.Regexp)", Expect: "R07g/ucfg.normalizeValue/Addr receiver"})
	addControl(control{Prop: "C07", Name: "unpacker-address-without-test", Rule: "R07g", Kind: "mutant",
		File: "unpack.go", Old: "		if !v.CanAddr() {\n			break\n		}\n		v = v.Addr()", New: "		if v.Kind() == reflect.Ptr {\n			break\n		}\n		v = v.Addr()", Expect: "R07g/ucfg.valueIsUnpacker"})
	addControl(control{Prop: "C07", Name: "array-element-of-value-copy", Rule: "R07g", Kind: "mutant",
		File: "reify.go", Old: "	return reifyDoArray(opts, to, tTo.Elem(), 0, val, arr)", New: "	return reifyDoArray(opts, reflect.ValueOf(to.Interface()), tTo.Elem(), 0, val, arr)", Expect: "R07g/ucfg.reifyDoArray"})
	addControl(control{Prop: "C07", Name: "addressable-copy-by-canaddr", Rule: "R07g", Kind: "refactor", Quick: true,
		File: "reify.go", Old: "		if !old.CanSet() {\n			// a value held by an interface or a map is not addressable: unpack\n			// into a copy, the caller stores the result in its place\n			tmp := reflect.New(old.Type()).Elem()\n			tmp.Set(old)\n			old, oldValue = tmp, tmp\n		}\n", New: "		if !old.CanAddr() {\n			cp := reflect.New(old.Type())\n			cp.Elem().Set(old)\n			old = cp.Elem()\n			oldValue = old\n		}\n"})
	addControl(control{Prop: "C07", Name: "nil-target-test-split", Rule: "R07g", Kind: "refactor",
		File: "reify.go", Old: "	isValid := k == reflect.Ptr || k == reflect.Map\n	if !isValid {\n		return raisePointerRequired(vTo)\n	}\n", New: "	if k != reflect.Ptr && k != reflect.Map {\n		return raisePointerRequired(vTo)\n	}\n"})
	addControl(control{Prop: "C07", Name: "string-returned-unconverted", Rule: "R07h", Kind: "mutant", Quick: true,
		File: "reify.go", Old: "		return reflect.ValueOf(s).Convert(baseType), nil", New: "		return reflect.ValueOf(s), nil", Expect: "R07h/ucfg.doReifyPrimitive"})
	addControl(control{Prop: "C07", Name: "map-key-unconverted", Rule: "R07h", Kind: "mutant",
		File: "reify.go", Old: "		key := reflect.ValueOf(k).Convert(to.Type().Key())", New: "		key := reflect.ValueOf(k)", Expect: "R07h/ucfg.reifyMap"})
	addControl(control{Prop: "C07", Name: "bool-returned-unconverted", Rule: "R07h", Kind: "mutant",
		File: "reify.go", Old: "	return reflect.ValueOf(b).Convert(t), nil", New: "	_ = t\n	return reflect.ValueOf(b), nil", Expect: "R07h/ucfg.reifyBool"})
	addControl(control{Prop: "C07", Name: "string-converted-in-local", Rule: "R07h", Kind: "refactor",
		File: "reify.go", Old: "		return reflect.ValueOf(s).Convert(baseType), nil", New: "		sv := reflect.ValueOf(s)\n		sv = sv.Convert(baseType)\n		return sv, nil"})
	// ---------------- C05 ----------------
	addControl(control{Prop: "C06", Name: "uint-accessor-rejects-maxint64", Rule: "R06h", Kind: "mutant", Quick: true,
		File: "types.go", Old: "	if c.u > math.MaxInt64 {", New: "	if c.u >= math.MaxInt64 {", Expect: "R06h/(*ucfg.cfgUint).toInt"})
	addControl(control{Prop: "C06", Name: "uint-accessor-guard-flipped", Rule: "R06h", Kind: "refactor",
		File: "types.go", Old: "	if c.u > math.MaxInt64 {", New: "	if math.MaxInt64 < c.u {"})
	addControl(control{Prop: "C10", Name: "cpy-parts-as-alternatives", Rule: "R10d", Kind: "mutant", Quick: true,
		File: "types.go", Old: "	for name, f := range dict {\n		ctx := f.Context()\n		v := f.cpy(context{field: ctx.field, parent: newC})\n		fields.set(name, v)\n	}\n\n	if arr != nil {\n		fields.a = make([]value, len(arr))\n		for i, f := range arr {\n			ctx := f.Context()\n			v := f.cpy(context{field: ctx.field, parent: newC})\n			fields.setAt(i, newC, v)\n		}\n	}\n", New: "	switch {\n	case len(dict) > 0:\n		for name, f := range dict {\n			ctx := f.Context()\n			v := f.cpy(context{field: ctx.field, parent: newC})\n			fields.set(name, v)\n		}\n	case arr != nil:\n		fields.a = make([]value, len(arr))\n		for i, f := range arr {\n			ctx := f.Context()\n			v := f.cpy(context{field: ctx.field, parent: newC})\n			fields.setAt(i, newC, v)\n		}\n	}\n", Expect: "R10d/"})
	addControl(control{Prop: "C01", Name: "cpy-parts-as-alternatives", Rule: "R01f", Kind: "mutant",
		File: "types.go", Old: "	for name, f := range dict {\n		ctx := f.Context()\n		v := f.cpy(context{field: ctx.field, parent: newC})\n		fields.set(name, v)\n	}\n\n	if arr != nil {\n		fields.a = make([]value, len(arr))\n		for i, f := range arr {\n			ctx := f.Context()\n			v := f.cpy(context{field: ctx.field, parent: newC})\n			fields.setAt(i, newC, v)\n		}\n	}\n", New: "	switch {\n	case len(dict) > 0:\n		for name, f := range dict {\n			ctx := f.Context()\n			v := f.cpy(context{field: ctx.field, parent: newC})\n			fields.set(name, v)\n		}\n	case arr != nil:\n		fields.a = make([]value, len(arr))\n		for i, f := range arr {\n			ctx := f.Context()\n			v := f.cpy(context{field: ctx.field, parent: newC})\n			fields.setAt(i, newC, v)\n		}\n	}\n", Expect: "R01f/"})
	addControl(control{Prop: "C15", Name: "remove-moves-elementwise-with-slot-context", Rule: "R15b", Kind: "mutant", Quick: true,
		File: "ucfg.go", Old: "	copy(a[i:], a[i+1:])\n	a[len(a)-1] = nil\n	f.a = a[:len(a)-1]\n\n	// the elements that moved down are known under their new index now\n	for j := i; j < len(f.a); j++ {\n		if v := f.a[j]; v != nil {\n			ctx := v.Context()\n			ctx.field = fmt.Sprintf(\"%d\", j)\n			v.SetContext(ctx)\n		}\n	}\n	return true", New: "	last := len(a) - 1\n	for j := i; j < last; j++ {\n		slot, moved := a[j], a[j+1]\n		if slot != nil && moved != nil {\n			moved.SetContext(slot.Context())\n		}\n		a[j] = moved\n	}\n	a[last] = nil\n	f.a = a[:last]\n	return true", Expect: "R15b/(*ucfg.fields).delAt/element moved"})
	addControl(control{Prop: "C15", Name: "remove-moves-elementwise", Rule: "R15b", Kind: "refactor",
		File: "ucfg.go", Old: "	copy(a[i:], a[i+1:])\n	a[len(a)-1] = nil\n	f.a = a[:len(a)-1]\n\n	// the elements that moved down are known under their new index now\n	for j := i; j < len(f.a); j++ {\n		if v := f.a[j]; v != nil {\n			ctx := v.Context()\n			ctx.field = fmt.Sprintf(\"%d\", j)\n			v.SetContext(ctx)\n		}\n	}\n	return true", New: "	last := len(a) - 1\n	for j := i; j < last; j++ {\n		moved := a[j+1]\n		if moved != nil {\n			ctx := moved.Context()\n			ctx.field = fmt.Sprintf(\"%d\", j)\n			moved.SetContext(ctx)\n		}\n		a[j] = moved\n	}\n	a[last] = nil\n	f.a = a[:last]\n	return true"})
	addControl(control{Prop: "C04", Name: "default-validated-before-initdefaults", Rule: "R04g", Kind: "mutant", Quick: true,
		File: "reify.go", Old: "		v := tryInitDefaults(pointerize(t, baseType, reflect.Zero(baseType)))\n", New: "		v0 := pointerize(t, baseType, reflect.Zero(baseType))\n		v := tryInitDefaults(v0)\n",
		More:   []edit{{"reify.go", "		base := chaseValuePointers(v)\n		if err := runValidators(base.Interface(), opts.validators); err != nil {\n			return reflect.Value{}, raiseValidation(ctx, meta, \"\", err)", "		base := chaseValuePointers(v0)\n		if err := runValidators(base.Interface(), opts.validators); err != nil {\n			return reflect.Value{}, raiseValidation(ctx, meta, \"\", err)"}},
		Expect: "R04g/ucfg.reifyPrimitive"})
	addControl(control{Prop: "C18", Name: "intermediate-node-takes-own-meta", Rule: "R18g", Kind: "mutant", Quick: true,
		File: "path.go", Old: "		next.metadata = val.meta()\n		v := cfgSub{next}\n", New: "		v := cfgSub{next}\n		next.metadata = v.meta()\n", Expect: "R18g/"})
	addControl(control{Prop: "C18", Name: "intermediate-node-meta-through-setter", Rule: "R18g", Kind: "refactor",
		File: "path.go", Old: "		next.metadata = val.meta()\n		v := cfgSub{next}\n", New: "		v := cfgSub{next}\n		v.setMeta(val.meta())\n"})
	addControl(control{Prop: "C12", Name: "intermediates-created-in-the-live-tree", Rule: "R12f", Kind: "mutant", Quick: true,
		File: "path.go", Old: "	// 3. insert new sub-tree into config\n	return fields[0].SetValue(opt, node, val)", New: "	// 3. insert new sub-tree into config\n	if err := fields[0].SetValue(opt, node, val); err != nil {\n		return err\n	}\n	_, err := p.GetValue(cfg, opt)\n	return err", Expect: "R12f/"})
	addControl(control{Prop: "C17", Name: "carriage-return-not-skipped", Rule: "R17h", Kind: "mutant", Quick: true,
		File: "parse/parse.go", Old: "	p.input = strings.TrimLeftFunc(p.input, unicode.IsSpace)", New: "	p.input = strings.TrimLeft(p.input, \" \\t\\n\")\n	_ = unicode.IsSpace", Expect: "R17h/"})
	addControl(control{Prop: "C05", Name: "tag-name-case-folded", Rule: "R05f", Kind: "mutant", Quick: true,
		File: "util.go", Old: "	return s[0], opts\n}", New: "	return strings.ToLower(s[0]), opts\n}", Expect: "R05f/ucfg.parseTags"})
	addControl(control{Prop: "C05", Name: "tag-name-in-local", Rule: "R05f", Kind: "refactor",
		File: "util.go", Old: "	return s[0], opts\n}", New: "	name := s[0]\n	return name, opts\n}"})
	addControl(control{Prop: "C05", Name: "generic-image-with-unreadable-type", Rule: "R05a", Kind: "mutant", Quick: true,
		File: "types.go", Old: "func (c *cfgFloat) reify(*options) (interface{}, error)     { return c.f, nil }", New: "func (c *cfgFloat) reify(*options) (interface{}, error)     { return complex(c.f, 0), nil }", Expect: "R05a/(*ucfg.cfgFloat).reify"})
	addControl(control{Prop: "C05", Name: "interface-keyed-maps-rejected", Rule: "R05b", Kind: "mutant", Quick: true,
		File: "merge.go", Old: "	if k != reflect.String && k != reflect.Interface {\n		return raiseKeyInvalidTypeMerge(cfg, from.Type())", New: "	if k != reflect.String {\n		return raiseKeyInvalidTypeMerge(cfg, from.Type())", Expect: "R05b/ucfg.normalizeMapInto/key kinds"})
	addControl(control{Prop: "C05", Name: "struct-fields-stored-directly", Rule: "R05c", Kind: "mutant",
		File: "merge.go", Old: "			name = fieldName(name, stField.Name)\n			err = normalizeSetField(cfg, opts, tagOpts, name, v.Field(i))", New: "			name = fieldName(name, stField.Name)\n			var val value\n			val, err = normalizeValue(opts, tagOpts, context{parent: cfgSub{cfg}, field: name}, v.Field(i))\n			if err == nil {\n				cfg.fields.set(name, val)\n			}", Expect: "R05c/ucfg.normalizeStructInto"})
	addControl(control{Prop: "C05", Name: "later-scalar-overwrites-silently", Rule: "R05d", Kind: "mutant", Quick: true,
		File: "merge.go", Old: "	case isNil(old):\n		return p.SetValue(cfg, opts, val)", New: "	case isNil(old) || !isSub(val):\n		return p.SetValue(cfg, opts, val)", Expect: "R05d/ucfg.normalizeSetField/store only over nothing"})
	addControl(control{Prop: "C05", Name: "object-merged-into-scalar", Rule: "R05d", Kind: "mutant",
		File: "merge.go", Old: "	case isSub(old) && isSub(val):", New: "	case isSub(val):", Expect: "R05d/ucfg.normalizeSetField/merge only object with object"})
	addControl(control{Prop: "C05", Name: "kind-of-unchased-value", Rule: "R05e", Kind: "mutant",
		File: "merge.go", Old: ") (value, Error) {\n	v = chaseValue(v)\n\n	switch v.Type() {", New: ") (value, Error) {\n	v = chaseValuePointers(v)\n\n	switch v.Type() {", Expect: "R05e/ucfg.normalizeValue"})
	addControl(control{Prop: "C05", Name: "collision-switch-as-if-chain", Rule: "R05d", Kind: "refactor", Quick: true,
		File: "merge.go", Old: "	switch {\n	case !isNil(old) && isNil(val):\n		return nil\n	case isNil(old):\n		return p.SetValue(cfg, opts, val)\n	case isSub(old) && isSub(val):", New: "	if isNil(old) {\n		return p.SetValue(cfg, opts, val)\n	}\n	if isNil(val) {\n		return nil\n	}\n	switch {\n	case isSub(old) && isSub(val):"})
	addControl(control{Prop: "C08", Name: "reference-chain-not-followed", Rule: "R08h", Kind: "mutant", Quick: true,
		File: "types.go", Old: "		for err == nil {\n			next, ok := v.(*cfgDynamic)\n			if !ok {\n				break\n			}\n			v, err = next.getValue(opts)\n		}\n		return v, err", New: "		return v, err", Expect: "R08h/"})
	addControl(control{Prop: "C08", Name: "reference-chain-followed-recursively", Rule: "R08h", Kind: "refactor",
		File: "types.go", Old: "		for err == nil {\n			next, ok := v.(*cfgDynamic)\n			if !ok {\n				break\n			}\n			v, err = next.getValue(opts)\n		}\n		return v, err", New: "		if err != nil {\n			return v, err\n		}\n		if next, ok := v.(*cfgDynamic); ok {\n			return next.getValue(opts)\n		}\n		return v, nil"})
	// ---------------- rules added after the second round of seeded changes ----------------
	addControl(control{Prop: "C20", Name: "default-cap-applied-after-options", Rule: "R20e", Kind: "mutant", Quick: true,
		File: "opts.go", Old: "	for _, opt := range opts {\n		opt(&o)\n	}\n	return &o", New: "	for _, opt := range opts {\n		opt(&o)\n	}\n	if o.maxIdx == 0 {\n		o.maxIdx = defaultMaxIdx\n	}\n	return &o", Expect: "R20e/ucfg.makeOptions"})
	addControl(control{Prop: "C20", Name: "options-applied-by-index", Rule: "R20e", Kind: "refactor",
		File: "opts.go", Old: "	for _, opt := range opts {\n		opt(&o)\n	}\n	return &o", New: "	for i := 0; i < len(opts); i++ {\n		apply := opts[i]\n		apply(&o)\n	}\n	return &o"})
	addControl(control{Prop: "C06", Name: "tag-name-read-as-option", Rule: "R06g", Kind: "mutant", Quick: true,
		File: "util.go", Old: "	for _, opt := range s[1:] {\n		switch opt {", New: "	for _, opt := range s {\n		switch opt {", Expect: "R06g/ucfg.parseTags"})
	addControl(control{Prop: "C06", Name: "tag-options-by-index", Rule: "R06g", Kind: "refactor",
		File: "util.go", Old: "	for _, opt := range s[1:] {\n		switch opt {", New: "	for i := 1; i < len(s); i++ {\n		opt := strings.TrimSpace(s[i])\n		switch opt {"})
	addControl(control{Prop: "C17", Name: "literal-rewritten-before-decoding", Rule: "R17e", Kind: "mutant", Quick: true,
		File: "parse/parse.go", Old: "	lit := in[:i+1]\n", New: "	lit := strings.ReplaceAll(in[:i+1], `\\/`, `/`)\n", Expect: "R17e/"})
	addControl(control{Prop: "C17", Name: "quote-escaped-iff-previous-byte-is-backslash", Rule: "R17f", Kind: "mutant", Quick: true,
		File: "parse/parse.go", Old: "		if in[i] == '\\\\' {\n			i++\n			continue\n		}\n		if in[i] == '\"' {\n			break\n		}", New: "		if in[i] == '\"' && in[i-1] != '\\\\' {\n			break\n		}", Expect: "R17f/"})
	addControl(control{Prop: "C17", Name: "backslash-does-not-take-next-byte", Rule: "R17f", Kind: "mutant",
		File: "parse/parse.go", Old: "		if in[i] == '\\\\' {\n			i++\n			continue\n		}", New: "		if in[i] == '\\\\' {\n			continue\n		}", Expect: "R17f/(*parse.flagParser).parseStringDQuote/backslash takes the next byte"})
	addControl(control{Prop: "C17", Name: "no-json-fallback", Rule: "R17g", Kind: "mutant",
		File: "parse/parse.go", Old: "		if json.Unmarshal([]byte(lit), &js) == nil {\n			return js, nil\n		}", New: "		_ = json.Unmarshal\n		_ = js", Expect: "R17g/"})
	addControl(control{Prop: "C17", Name: "scan-loop-with-switch", Rule: "R17f", Kind: "refactor",
		File: "parse/parse.go", Old: "		if in[i] == '\\\\' {\n			i++\n			continue\n		}\n		if in[i] == '\"' {\n			break\n		}\n	}", New: "		c := in[i]\n		if c == '\\\\' {\n			i += 1\n			continue\n		}\n		if c == '\"' {\n			break\n		}\n	}"})
	addControl(control{Prop: "C14", Name: "typed-user-error-passed-through", Rule: "R14e", Kind: "mutant", Quick: true,
		File: "unpack.go", Old: "	if err != nil {\n		return raisePathErr(err, meta, \"\", ctx.path(\".\"))\n	}\n	return nil", New: "	if err != nil {\n		if cfgErr, ok := err.(Error); ok {\n			return cfgErr\n		}\n		return raisePathErr(err, meta, \"\", ctx.path(\".\"))\n	}\n	return nil", Expect: "R14e/ucfg.unpackWith"})
	addControl(control{Prop: "C08", Name: "null-results-not-cached", Rule: "R08e", Kind: "mutant", Quick: true,
		File: "opts.go", Old: "	if v != nil && v.canCache() {", New: "	if !isNil(v) && v.canCache() {", Expect: "R08e/(ucfg.valueCache).cachedValue/every cacheable result is cached"})
	addControl(control{Prop: "C08", Name: "cache-guard-nested", Rule: "R08e", Kind: "refactor",
		File: "opts.go", Old: "	if v != nil && v.canCache() {\n		cache[string(id)] = spliceValue{err, v}\n	}", New: "	if v != nil {\n		if v.canCache() {\n			cache[string(id)] = spliceValue{err, v}\n		}\n	}"})
	addControl(control{Prop: "C07", Name: "list-grown-into-spare-capacity", Rule: "R07k", Kind: "mutant", Quick: true,
		File: "ucfg.go", Old: "	if idx >= l {\n		tmp := make([]value, idx+1)", New: "	if idx >= l && idx < cap(f.a) {\n		f.a = f.a[:idx+1]\n	} else if idx >= l {\n		tmp := make([]value, idx+1)", Expect: "R07k/(*ucfg.fields).setAt"})
	addControl(control{Prop: "C04", Name: "kept-elements-in-front-not-validated", Rule: "R04f", Kind: "mutant", Quick: true,
		File: "reify.go", Old: "	for idx := 0; idx < tLen; idx++ {\n		if idx >= start && idx < start+aLen {", New: "	for idx := start; idx < tLen; idx++ {\n		if idx >= start && idx < start+aLen {", Expect: "R04f/ucfg.reifyDoArray"})
	addControl(control{Prop: "C04", Name: "validation-skipped-for-some-slots", Rule: "R04f", Kind: "mutant",
		File: "reify.go", Old: "		} else {\n			if err := tryRecursiveValidate(to.Index(idx), opts.opts, nil); err != nil {\n				return reflect.Value{}, raiseValidation(val.Context(), val.meta(), \"\", err)\n			}\n		}\n	}", New: "		} else if idx > start {\n			if err := tryRecursiveValidate(to.Index(idx), opts.opts, nil); err != nil {\n				return reflect.Value{}, raiseValidation(val.Context(), val.meta(), \"\", err)\n			}\n		}\n	}", Expect: "R04f/ucfg.reifyDoArray"})
	addControl(control{Prop: "C04", Name: "three-loops-cover-the-list", Rule: "R04f", Kind: "refactor", Quick: true,
		File: "reify.go", Old: "	for idx := 0; idx < tLen; idx++ {\n		if idx >= start && idx < start+aLen {\n			opts.opts.activeFields = newFieldSet(parentFields)\n			v, err := reifyMergeValue(opts, to.Index(idx), arr[idx-start])\n			if err != nil {\n				return reflect.Value{}, err\n			}\n			if v.IsValid() {\n				to.Index(idx).Set(pointerize(to.Type().Elem(), v.Type(), v))\n			}\n		} else {\n			if err := tryRecursiveValidate(to.Index(idx), opts.opts, nil); err != nil {\n				return reflect.Value{}, raiseValidation(val.Context(), val.meta(), \"\", err)\n			}\n		}\n	}",
		New: "	_ = tLen\n	for idx := 0; idx < start; idx++ {\n		if err := tryRecursiveValidate(to.Index(idx), opts.opts, nil); err != nil {\n			return reflect.Value{}, raiseValidation(val.Context(), val.meta(), \"\", err)\n		}\n	}\n	for i := 0; i < aLen; i++ {\n		opts.opts.activeFields = newFieldSet(parentFields)\n		v, err := reifyMergeValue(opts, to.Index(start+i), arr[i])\n		if err != nil {\n			return reflect.Value{}, err\n		}\n		if v.IsValid() {\n			to.Index(start + i).Set(pointerize(to.Type().Elem(), v.Type(), v))\n		}\n	}\n	for idx := start + aLen; idx < to.Len(); idx++ {\n		if err := tryRecursiveValidate(to.Index(idx), opts.opts, nil); err != nil {\n			return reflect.Value{}, raiseValidation(val.Context(), val.meta(), \"\", err)\n		}\n	}"})
	addControl(control{Prop: "C09", Name: "keys-sorted-case-insensitively", Rule: "R09d", Kind: "mutant", Quick: true,
		File: "ucfg.go", Old: "		keys = append(keys, k)\n	}\n	sort.Strings(keys)\n	return keys\n}\n\nfunc (f *fields) del", New: "		keys = append(keys, k)\n	}\n	sort.Slice(keys, func(i, j int) bool { return len(keys[i]) < len(keys[j]) })\n	return keys\n}\n\nfunc (f *fields) del", Expect: "R09d/ucfg.sortedKeys"})
	addControl(control{Prop: "C11", Name: "tag-parse-memoised-in-package-variable", Rule: "R11e", Kind: "mutant", Quick: true,
		File: "util.go", Old: "func fieldName(tagName, structName string) string {", New: "var parsedTags sync.Map\n\nfunc fieldTags(tag reflect.StructTag, key string) (string, tagOptions) {\n	if p, ok := parsedTags.Load(tag); ok {\n		return p.(string), tagOptions{}\n	}\n	name, opts := parseTags(tag.Get(key))\n	parsedTags.Store(tag, name)\n	return name, opts\n}\n\nfunc fieldName(tagName, structName string) string {", Expect: "R11e/ucfg.fieldTags",
		More: []edit{{"util.go", "import (\n	\"reflect\"\n	\"strings\"\n", "import (\n	\"reflect\"\n	\"strings\"\n	\"sync\"\n"}}})
	addControl(control{Prop: "C13", Name: "tag-parse-memo-across-unpacks", Rule: "R13e", Kind: "mutant", Quick: true,
		File: "util.go", Old: "func fieldName(tagName, structName string) string {", New: "var parsedTags sync.Map\n\nfunc fieldTags(tag reflect.StructTag, key string) (string, tagOptions) {\n	if p, ok := parsedTags.Load(tag); ok {\n		return p.(string), tagOptions{}\n	}\n	name, opts := parseTags(tag.Get(key))\n	parsedTags.Store(tag, name)\n	return name, opts\n}\n\nfunc fieldName(tagName, structName string) string {", Expect: "R13e/ucfg.fieldTags",
		More: []edit{{"util.go", "import (\n	\"reflect\"\n	\"strings\"\n", "import (\n	\"reflect\"\n	\"strings\"\n	\"sync\"\n"}}})
	addControl(control{Prop: "C02", Name: "dynamic-value-copied-as-struct", Rule: "R02g", Kind: "mutant", Quick: true,
		File: "types.go", Old: "	return newDyn(c, d.meta(), d.dyn)", New: "	cp := *d\n	cp.ctx = c\n	return &cp", Expect: "R02g/(*ucfg.cfgDynamic).cpy"})
	addControl(control{Prop: "C07", Name: "setter-index-uncapped", Rule: "R07c", Kind: "mutant", Quick: true,
		File: "path.go", Old: "	if i.i < 0 || int64(i.i) > opts.maxIdx {", New: "	if i.i < 0 {", Expect: "R07c/(ucfg.idxField).SetValue"})
	addControl(control{Prop: "C07", Name: "setter-index-cap-as-two-tests", Rule: "R07c", Kind: "refactor",
		File: "path.go", Old: "	if i.i < 0 || int64(i.i) > opts.maxIdx {\n		// the index given to a setter is capped like an index parsed from a\n		// key: the list would have to grow to i+1 entries\n		return raiseIndexOutOfBounds(opts, elem, i.i)\n	}", New: "	if i.i < 0 {\n		return raiseIndexOutOfBounds(opts, elem, i.i)\n	}\n	if limit := opts.maxIdx; int64(i.i) > limit {\n		return raiseIndexOutOfBounds(opts, elem, i.i)\n	}"})
	addControl(control{Prop: "C05", Name: "key-kind-test-as-switch", Rule: "R05b", Kind: "refactor", Quick: true,
		File: "merge.go", Old: "	if k != reflect.String && k != reflect.Interface {\n		return raiseKeyInvalidTypeMerge(cfg, from.Type())\n	}", New: "	switch k {\n	case reflect.String, reflect.Interface:\n	default:\n		return raiseKeyInvalidTypeMerge(cfg, from.Type())\n	}"})
	addControl(control{Prop: "C05", Name: "key-kind-test-nested", Rule: "R05b", Kind: "refactor",
		File: "merge.go", Old: "	if k != reflect.String && k != reflect.Interface {\n		return raiseKeyInvalidTypeMerge(cfg, from.Type())\n	}", New: "	if k != reflect.String {\n		if k != reflect.Interface {\n			return raiseKeyInvalidTypeMerge(cfg, from.Type())\n		}\n	}"})
}

func init() {
	// ---------------- rules added with round 5 ----------------
	addControl(control{Prop: "C07", Name: "map-validated-through-its-pointer", Rule: "R07m", Kind: "mutant", Quick: true,
		File: "validator.go", Old: "		err = validateMap(chased, opts)\n", New: "		err = validateMap(val, opts)\n", Expect: "R07m/ucfg.validateMap"})
	addControl(control{Prop: "C07", Name: "list-validated-through-its-pointer", Rule: "R07m", Kind: "mutant",
		File: "validator.go", Old: "		err = validateArray(chased, opts)\n", New: "		err = validateArray(val, opts)\n", Expect: "R07m/ucfg.validateArray"})
	addControl(control{Prop: "C07", Name: "nil-map-pointer-reified-in-place", Rule: "R07m", Kind: "mutant",
		File: "reify.go", Old: "		if to.Kind() != reflect.Map {\n", New: "		if to.Kind() == reflect.Interface {\n", Expect: "R07m/ucfg.reifyMap"})
	addControl(control{Prop: "C07", Name: "map-validation-chases-itself", Rule: "R07m", Kind: "refactor", Quick: true,
		File: "validator.go", Old: "		err = validateMap(chased, opts)\n", New: "		err = validateMap(val, opts)\n",
		More: []edit{{"validator.go", "	keys := val.MapKeys()\n", "	val = chaseValue(val)\n	keys := val.MapKeys()\n"}}})
	addControl(control{Prop: "C07", Name: "null-resolves-to-no-value", Rule: "R07n", Kind: "mutant", Quick: true,
		File: "types.go", Old: "		return &cfgNil{cfgPrimitive{ctx: p.ctx, metadata: p.meta()}}, nil\n", New: "		return nil, nil\n", Expect: "R07n/ucfg.parseValue"})
	addControl(control{Prop: "C07", Name: "splice-error-branch-inverted", Rule: "R07n", Kind: "refactor",
		File: "types.go", Old: "	if err != nil {\n		return nil, err\n	}\n\n	return parseValue(p, opts, str, parse.DefaultConfig)\n", New: "	if err == nil {\n		return parseValue(p, opts, str, parse.DefaultConfig)\n	}\n	return nil, err\n"})
	addControl(control{Prop: "C15", Name: "index-text-one-based", Rule: "R15g", Kind: "mutant", Quick: true,
		File: "path.go", Old: "	return fmt.Sprintf(\"%d\", i.i)\n", New: "	return fmt.Sprintf(\"%d\", i.i+1)\n", Expect: "R15g/"})
	addControl(control{Prop: "C15", Name: "index-text-by-itoa", Rule: "R15g", Kind: "refactor", Quick: true,
		File: "path.go", Old: "	return fmt.Sprintf(\"%d\", i.i)\n", New: "	return strconv.Itoa(i.i)\n",
		More: []edit{{"path.go", "import (\n	\"fmt\"\n", "import (\n"}}})
	addControl(control{Prop: "C19", Name: "nil-value-argument-dropped", Rule: "R19d", Kind: "mutant", Quick: true,
		File: "flag/value.go", Old: "			val, err = parse.Value(args[1])\n			if err != nil {\n				return nil, err, err\n			}\n", New: "			val, err = parse.Value(args[1])\n			if err != nil {\n				return nil, err, err\n			}\n			if val == nil {\n				return nil, nil, nil\n			}\n", Expect: "R19d/"})
	addControl(control{Prop: "C06", Name: "same-kind-shortcut-before-extras", Rule: "R06b", Kind: "mutant", Quick: true,
		File: "reify.go", Old: "	case valT.gotype == baseType:\n		v, err := val.reflect(opts.opts)\n		if err != nil {\n			ctx := val.Context()\n			return reflect.Value{}, raisePathErr(err, val.meta(), \"\", ctx.path(\".\"))\n		}\n		return v, nil\n",
		New:    "	case valT.gotype.Kind() == kind:\n		v, err := val.reflect(opts.opts)\n		if err != nil {\n			ctx := val.Context()\n			return reflect.Value{}, raisePathErr(err, val.meta(), \"\", ctx.path(\".\"))\n		}\n		return v.Convert(baseType), nil\n",
		Expect: "R06b/ucfg.doReifyPrimitive"})
}

func init() {
	// ---------------- targeted refactorings turned into controls ----------------
	scanOld := "	s := strings.Split(tag, \",\")\n	opts := tagOptions{}\n	for _, opt := range s[1:] {\n"
	scanNew := "	name, rest, more := tag, \"\", false\n	if i := strings.IndexByte(tag, ','); i >= 0 {\n		name, rest, more = tag[:i], tag[i+1:], true\n	}\n\n	opts := tagOptions{}\n	for more {\n		opt := rest\n		if i := strings.IndexByte(rest, ','); i >= 0 {\n			opt, rest = rest[:i], rest[i+1:]\n		} else {\n			more = false\n		}\n\n"
	addControl(control{Prop: "C06", Name: "tag-scanned-comma-by-comma", Rule: "R06g", Kind: "refactor",
		File: "util.go", Old: scanOld, New: scanNew, More: []edit{{"util.go", "	return s[0], opts\n", "	return name, opts\n"}}})
	addControl(control{Prop: "C06", Name: "tag-scanned-comma-by-comma-from-the-name", Rule: "R06g", Kind: "mutant",
		File: "util.go", Old: scanOld, New: strings.Replace(scanNew, "name, rest, more := tag, \"\", false\n", "name, rest, more := tag, tag, true\n", 1),
		More: []edit{{"util.go", "	return s[0], opts\n", "	return name, opts\n"}}, Expect: "R06g/ucfg.parseTags"})
	addControl(control{Prop: "C17", Name: "whitespace-by-index-of-first-non-space", Rule: "R17h", Kind: "refactor",
		File: "parse/parse.go", Old: "	p.input = strings.TrimLeftFunc(p.input, unicode.IsSpace)\n", New: "	start := strings.IndexFunc(p.input, isNotSpace)\n	if start < 0 {\n		p.input = \"\"\n		return\n	}\n	p.input = p.input[start:]\n",
		More: []edit{{"parse/parse.go", "func (p *flagParser) parseArray() (", "func isNotSpace(r rune) bool {\n	return !unicode.IsSpace(r)\n}\n\nfunc (p *flagParser) parseArray() ("}}})
	addControl(control{Prop: "C17", Name: "whitespace-by-index-of-first-space", Rule: "R17h", Kind: "mutant",
		File: "parse/parse.go", Old: "	p.input = strings.TrimLeftFunc(p.input, unicode.IsSpace)\n", New: "	start := strings.IndexFunc(p.input, unicode.IsSpace)\n	if start < 0 {\n		return\n	}\n	p.input = p.input[start+1:]\n", Expect: "R17h/"})
}

func init() {
	cpyOld := "		fields.a = make([]value, len(arr))\n		for i, f := range arr {\n			ctx := f.Context()\n			v := f.cpy(context{field: ctx.field, parent: newC})\n			fields.setAt(i, newC, v)\n		}\n"
	addControl(control{Prop: "C15", Name: "copy-elements-stored-by-index", Rule: "R15a", Kind: "refactor",
		File: "types.go", Old: cpyOld, New: "		elems := make([]value, len(arr))\n		for i, f := range arr {\n			ctx := f.Context()\n			elems[i] = f.cpy(context{field: ctx.field, parent: newC})\n		}\n		fields.a = elems\n"})
	addControl(control{Prop: "C15", Name: "copy-elements-stored-by-index-source-parent", Rule: "R15a", Kind: "mutant",
		File: "types.go", Old: cpyOld, New: "		elems := make([]value, len(arr))\n		for i, f := range arr {\n			ctx := f.Context()\n			elems[i] = f.cpy(context{field: ctx.field, parent: c})\n		}\n		fields.a = elems\n", Expect: "R15a/(ucfg.cfgSub).cpy/element store"})
	addControl(control{Prop: "C15", Name: "copy-elements-stored-by-index-shifted", Rule: "R15a", Kind: "mutant",
		File: "types.go", Old: cpyOld, New: "		elems := make([]value, len(arr)+1)\n		for i, f := range arr {\n			ctx := f.Context()\n			elems[i+1] = f.cpy(context{field: ctx.field, parent: newC})\n		}\n		fields.a = elems[1:]\n", Expect: "R15a/(ucfg.cfgSub).cpy"})
	addControl(control{Prop: "C09", Name: "copy-dictionary-made-on-first-name", Rule: "R09a", Kind: "refactor",
		File: "types.go", Old: "	for name, f := range dict {\n		ctx := f.Context()\n		v := f.cpy(context{field: ctx.field, parent: newC})\n		fields.set(name, v)\n	}\n",
		New: "	var names map[string]value\n	for name, f := range dict {\n		ctx := f.Context()\n		v := f.cpy(context{field: ctx.field, parent: newC})\n		if names == nil {\n			names = map[string]value{}\n		}\n		names[name] = v\n	}\n	fields.d = names\n"})
	addControl(control{Prop: "C09", Name: "copy-dictionary-remade-for-every-name", Rule: "R09a", Kind: "mutant",
		File: "types.go", Old: "	for name, f := range dict {\n		ctx := f.Context()\n		v := f.cpy(context{field: ctx.field, parent: newC})\n		fields.set(name, v)\n	}\n",
		New: "	var names map[string]value\n	for name, f := range dict {\n		ctx := f.Context()\n		v := f.cpy(context{field: ctx.field, parent: newC})\n		if len(names) > 0 {\n			names = map[string]value{}\n		}\n		if names == nil {\n			names = map[string]value{}\n		}\n		names[name] = v\n	}\n	fields.d = names\n", Expect: "R09a/(ucfg.cfgSub).cpy"})
}

func init() {
	renOld := "	for j := i; j < len(f.a); j++ {\n		if v := f.a[j]; v != nil {\n			ctx := v.Context()\n			ctx.field = fmt.Sprintf(\"%d\", j)\n			v.SetContext(ctx)\n		}\n	}\n	return true\n"
	renNew := "	for off, v := range f.a[i:] {\n		if v == nil {\n			continue\n		}\n		ctx := v.Context()\n		ctx.field = fmt.Sprintf(\"%d\", i+off)\n		v.SetContext(ctx)\n	}\n	return true\n"
	addControl(control{Prop: "C15", Name: "renumber-by-range-over-the-moved-part", Rule: "R15b", Kind: "refactor",
		File: "ucfg.go", Old: renOld, New: renNew})
	addControl(control{Prop: "C15", Name: "renumber-by-range-with-the-offset-only", Rule: "R15b", Kind: "mutant",
		File: "ucfg.go", Old: renOld, New: strings.Replace(renNew, "i+off)", "off)", 1), Expect: "R15b/(*ucfg.fields).delAt"})
	addControl(control{Prop: "C15", Name: "renumber-by-range-from-the-next-element", Rule: "R15b", Kind: "mutant",
		File: "ucfg.go", Old: renOld, New: strings.Replace(strings.Replace(renNew, "range f.a[i:]", "range f.a[i+1:]", 1), "i+off)", "i+1+off)", 1), Expect: "R15b/(*ucfg.fields).delAt"})
}

func init() {
	addControl(control{Prop: "C11", Name: "reference-to-section-handed-out-as-view", Rule: "R11f", Kind: "mutant", Quick: true,
		File: "types.go", Old: "		cfg, err = v.toConfig(opts)\n	})\n	return\n", New: "		cfg, err = v.toConfig(opts)\n	})\n	if err == nil && cfg != nil {\n		cfg = &Config{ctx: d.ctx, metadata: cfg.metadata, fields: cfg.fields}\n	}\n	return\n", Expect: "R11f/(*ucfg.cfgDynamic).toConfig"})
	addControl(control{Prop: "C11", Name: "section-header-copied-by-value", Rule: "R11f", Kind: "mutant",
		File: "types.go", Old: "func (c cfgSub) toConfig(*options) (*Config, error) { return c.c, nil }", New: "func (c cfgSub) toConfig(*options) (*Config, error) { tmp := *c.c; return &tmp, nil }", Expect: "R11f/(ucfg.cfgSub).toConfig"})
	addControl(control{Prop: "C11", Name: "new-config-content-in-a-local", Rule: "R11f", Kind: "refactor",
		File: "ucfg.go", Old: "	return &Config{\n		fields: &fields{nil, nil},\n	}\n", New: "	content := &fields{}\n	cfg := &Config{}\n	cfg.fields = content\n	return cfg\n"})
}

func init() {
	addControl(control{Prop: "C15", Name: "removed-node-detached", Rule: "R15h", Kind: "mutant", Quick: true,
		File: "ucfg.go", Old: "	_, exists := f.d[name]\n	if exists {\n		delete(f.d, name)\n	}\n", New: "	v, exists := f.d[name]\n	if exists {\n		delete(f.d, name)\n		v.SetContext(context{})\n	}\n", Expect: "R15h/(*ucfg.fields).del"})
	addControl(control{Prop: "C15", Name: "removed-element-detached", Rule: "R15h", Kind: "mutant",
		File: "ucfg.go", Old: "	copy(a[i:], a[i+1:])\n	a[len(a)-1] = nil\n", New: "	if old := a[i]; old != nil {\n		old.SetContext(context{})\n	}\n	copy(a[i:], a[i+1:])\n	a[len(a)-1] = nil\n", Expect: "R15h/(*ucfg.fields).delAt"})
	addControl(control{Prop: "C15", Name: "context-given-before-the-store", Rule: "R15h", Kind: "refactor",
		File: "path.go", Old: "	sub.c.fields.set(n.name, v)\n	v.SetContext(context{parent: elem, field: n.name})\n", New: "	v.SetContext(context{parent: elem, field: n.name})\n	sub.c.fields.set(n.name, v)\n"})
}

func init() {
	kvOld := "		tmp := map[string]interface{}{key: val}\n		cfg, err := ucfg.NewFrom(tmp, opts...)\n		return cfg, err, err\n"
	addControl(control{Prop: "C19", Name: "string-setting-by-typed-setter", Rule: "R19e", Kind: "mutant", Quick: true,
		File: "flag/value.go", Old: kvOld, New: "		if s, isString := val.(string); isString {\n			cfg := ucfg.New()\n			err := cfg.SetString(key, -1, s, opts...)\n			return cfg, err, err\n		}\n" + kvOld, Expect: "R19e/flag.NewFlagKeyValue"})
	addControl(control{Prop: "C19", Name: "setting-merged-into-a-new-config", Rule: "R19e", Kind: "refactor",
		File: "flag/value.go", Old: kvOld, New: "		tmp := map[string]interface{}{key: val}\n		cfg := ucfg.New()\n		if err := cfg.Merge(tmp, opts...); err != nil {\n			return nil, err, err\n		}\n		return cfg, nil, nil\n"})
}

func init() {
	addControl(control{Prop: "C05", Name: "inlined-struct-merged-into-the-tree", Rule: "R05c", Kind: "mutant", Quick: true,
		File: "merge.go", Old: "				err = normalizeStructInto(cfg, opts, vField)\n", New: "				sub, nerr := normalizeStruct(opts, vField)\n				if nerr != nil {\n					return nerr\n				}\n				err = mergeConfig(opts, cfg, sub)\n", Expect: "R05c/ucfg.normalizeStructInto/named store mergeConfig"})
	arrOld := "		tmp, err := normalizeValue(opts, tagOpts, ctx, v.Index(i))\n		if err != nil {\n			return nil, err\n		}\n		out = append(out, tmp)\n	}\n\n	cfg.fields.a = out\n"
	addControl(control{Prop: "C06", Name: "float-list-elements-read-by-kind", Rule: "R06f", Kind: "mutant", Quick: true,
		File: "merge.go", Old: arrOld, New: "		if e := v.Index(i); e.Kind() == reflect.Float64 {\n			out = append(out, newFloat(ctx, opts.meta, e.Float()))\n			continue\n		}\n" + arrOld, Expect: "R06f/ucfg.normalizeArray/kind accessor outside normalizeValue"})
	addControl(control{Prop: "C06", Name: "int-list-elements-read-by-kind", Rule: "R06f", Kind: "mutant",
		File: "merge.go", Old: arrOld, New: "		if e := v.Index(i); e.Kind() == reflect.Int64 && e.Int() <= 0 {\n			out = append(out, newInt(ctx, opts.meta, e.Int()))\n			continue\n		}\n" + arrOld, Expect: "R06f/ucfg.normalizeArray/kind accessor outside normalizeValue"})
	addControl(control{Prop: "C15", Name: "list-index-rendered-by-itoa", Rule: "R15a", Kind: "refactor",
		File: "merge.go", Old: "		idx := fmt.Sprintf(\"%v\", i)\n		ctx := context{\n			parent: val,\n			field:  idx,\n		}\n		tmp, err := normalizeValue(opts, tagOpts, ctx, v.Index(i))", New: "		ctx := context{parent: val, field: strconv.Itoa(i)}\n		tmp, err := normalizeValue(opts, tagOpts, ctx, v.Index(i))",
		More: []edit{{"merge.go", "	\"sort\"\n	\"time\"\n", "	\"sort\"\n	\"strconv\"\n	\"time\"\n"}}})
}

func init() {
	addControl(control{Prop: "C12", Name: "setchild-stores-a-copy", Rule: "R12g", Kind: "mutant", Quick: true,
		File: "getset.go", Old: "	return c.setField(name, idx, cfgSub{c: value}, opts)\n", New: "	return c.setField(name, idx, cfgSub{c: value}.cpy(context{}), opts)\n", Expect: "R12g/(*ucfg.Config).SetChild"})
	addControl(control{Prop: "C12", Name: "setchild-copies-descendants", Rule: "R12g", Kind: "mutant",
		File: "getset.go", Old: "	return c.setField(name, idx, cfgSub{c: value}, opts)\n", New: "	for cur := value; cur != nil; cur = cur.Parent() {\n		if cur == c {\n			value = cfgSub{value}.cpy(context{}).(cfgSub).c\n			break\n		}\n	}\n	return c.setField(name, idx, cfgSub{c: value}, opts)\n", Expect: "R12g/(*ucfg.Config).SetChild"})
	addControl(control{Prop: "C12", Name: "setchild-wrapper-in-a-local", Rule: "R12g", Kind: "refactor",
		File: "getset.go", Old: "	return c.setField(name, idx, cfgSub{c: value}, opts)\n", New: "	sub := cfgSub{}\n	sub.c = value\n	return c.setField(name, idx, sub, opts)\n"})
	addControl(control{Prop: "C12", Name: "child-returns-a-copy", Rule: "R12g", Kind: "mutant",
		File: "getset.go", Old: "	c, fail := v.toConfig(O)\n	return c, convertErr(O, v, fail, \"object\")\n", New: "	c, fail := v.toConfig(O)\n	if c != nil {\n		c = cfgSub{c}.cpy(c.ctx).(cfgSub).c\n	}\n	return c, convertErr(O, v, fail, \"object\")\n", Expect: "R12g/(*ucfg.Config).Child"})
}

func init() {
	addControl(control{Prop: "C18", Name: "string-keyed-maps-stored-directly", Rule: "R18h", Kind: "mutant", Quick: true,
		File: "merge.go", Old: "		err := normalizeSetField(cfg, opts, noTagOpts, k.String(), from.MapIndex(k))\n		if err != nil {\n			return err\n		}\n",
		New: "		if opts.pathSep == \"\" && from.Type().Key().Kind() == reflect.String {\n			val, verr := normalizeValue(opts, noTagOpts, context{parent: cfgSub{cfg}, field: k.String()}, from.MapIndex(k))\n			if verr != nil {\n				return verr\n			}\n			cfg.fields.set(k.String(), val)\n			continue\n		}\n		err := normalizeSetField(cfg, opts, noTagOpts, k.String(), from.MapIndex(k))\n		if err != nil {\n			return err\n		}\n", Expect: "R18h/ucfg.normalizeMapInto"})
}

func init() {
	envNew := "			v, err = r.Path.GetValue(cfg, opts)\n			if err == nil && v != nil {\n				return v, nil\n			}\n"
	addControl(control{Prop: "C02", Name: "missing-name-ends-the-lookup", Rule: "R02e", Kind: "mutant", Quick: true,
		File: "variables.go", Old: envNew, New: "			v, err = r.Path.GetValue(cfg, opts)\n			if err == nil {\n				if v == nil {\n					break\n				}\n\n				return v, nil\n			}\n", Expect: "R02e/(*ucfg.reference).resolveRef/nothing found goes on to the next environment"})
	addControl(control{Prop: "C02", Name: "failed-lookup-ends-the-lookup", Rule: "R02e", Kind: "mutant",
		File: "variables.go", Old: envNew, New: "			v, err = r.Path.GetValue(cfg, opts)\n			if err != nil {\n				return nil, err\n			}\n			if v != nil {\n				return v, nil\n			}\n", Expect: "R02e/(*ucfg.reference).resolveRef/nothing found goes on to the next environment"})
	addControl(control{Prop: "C02", Name: "found-test-in-a-flag", Rule: "R02e", Kind: "refactor",
		File: "variables.go", Old: envNew, New: "			v, err = r.Path.GetValue(cfg, opts)\n			found := err == nil && v != nil\n			if found {\n				return v, nil\n			}\n"})
}

func init() {
	skOld := "	keys := make([]string, 0, len(dict))\n	for k := range dict {\n		keys = append(keys, k)\n	}\n	sort.Strings(keys)\n"
	skNew := "	keys := make([]string, len(dict))\n	n := 0\n	for k := range dict {\n		keys[n] = k\n		n++\n	}\n	sort.Strings(keys)\n"
	for _, p := range []struct{ prop, rule string }{{"C01", "R01d"}, {"C07", "R07a"}, {"C09", "R09a"}} {
		addControl(control{Prop: p.prop, Name: "sorted-keys-filled-by-position", Rule: p.rule, Kind: "refactor",
			File: "ucfg.go", Old: skOld, New: skNew})
	}
	addControl(control{Prop: "C07", Name: "sorted-keys-filled-by-position-one-short", Rule: "R07a", Kind: "mutant",
		File: "ucfg.go", Old: skOld, New: strings.Replace(skNew, "make([]string, len(dict))", "make([]string, len(dict)-1)", 1), Expect: "R07a/ucfg.sortedKeys"})
	addControl(control{Prop: "C07", Name: "sorted-keys-filled-by-position-advanced-twice", Rule: "R07a", Kind: "mutant",
		File: "ucfg.go", Old: skOld, New: strings.Replace(skNew, "		n++\n", "		n++\n		if k == \"\" {\n			n++\n		}\n", 1), Expect: "R07a/ucfg.sortedKeys"})
	addControl(control{Prop: "C01", Name: "sorted-keys-filled-by-position-skips-a-key", Rule: "R01d", Kind: "mutant",
		File: "ucfg.go", Old: skOld, New: strings.Replace(skNew, "		keys[n] = k\n", "		if k == \"\" {\n			continue\n		}\n		keys[n] = k\n", 1), Expect: "R01d/ucfg.sortedKeys"})
	addControl(control{Prop: "C09", Name: "sorted-keys-filled-by-position-unsorted", Rule: "R09a", Kind: "mutant",
		File: "ucfg.go", Old: skOld, New: strings.Replace(skNew, "	sort.Strings(keys)\n", "", 1), Expect: "R09"})
	addControl(control{Prop: "C15", Name: "padding-context-set-member-by-member", Rule: "R15a", Kind: "refactor",
		File: "ucfg.go", Old: "			ctx := context{parent: parent, field: fmt.Sprintf(\"%d\", i)}\n			tmp[i] = &cfgNil{cfgPrimitive{ctx, nil}}\n", New: "			filler := &cfgNil{}\n			filler.ctx.parent = parent\n			filler.ctx.field = fmt.Sprintf(\"%d\", i)\n			tmp[i] = filler\n"})
	addControl(control{Prop: "C15", Name: "padding-context-set-member-by-member-wrong-index", Rule: "R15a", Kind: "mutant",
		File: "ucfg.go", Old: "			ctx := context{parent: parent, field: fmt.Sprintf(\"%d\", i)}\n			tmp[i] = &cfgNil{cfgPrimitive{ctx, nil}}\n", New: "			filler := &cfgNil{}\n			filler.ctx.parent = parent\n			filler.ctx.field = fmt.Sprintf(\"%d\", idx)\n			tmp[i] = filler\n", Expect: "R15a/(*ucfg.fields).setAt/padding element"})
}

func init() {
	riOld := "	i, err := val.toInt(opts.opts)\n	if err != nil {\n		return reflect.Value{}, raiseConversion(opts.opts, val, err, \"int\")\n	}\n\n	tmp := reflect.Zero(t)\n	if tmp.OverflowInt(i) {\n		return reflect.Value{}, raiseConversion(opts.opts, val, ErrOverflow, \"int\")\n	}\n"
	riNew := "	i, err := val.toInt(opts.opts)\n	if err == nil {\n		if tmp := reflect.Zero(t); tmp.OverflowInt(i) {\n			err = ErrOverflow\n		}\n	}\n	if err != nil {\n		return reflect.Value{}, raiseConversion(opts.opts, val, err, \"int\")\n	}\n"
	addControl(control{Prop: "C03", Name: "overflow-recorded-in-the-error", Rule: "R03c", Kind: "refactor", Quick: true,
		File: "reify.go", Old: riOld, New: riNew})
	addControl(control{Prop: "C03", Name: "overflow-recorded-for-positive-numbers-only", Rule: "R03c", Kind: "mutant",
		File: "reify.go", Old: riOld, New: strings.Replace(riNew, "			err = ErrOverflow\n", "			if i > 0 {\n				err = ErrOverflow\n			}\n", 1), Expect: "R03c/ucfg.reifyInt"})
	addControl(control{Prop: "C03", Name: "overflow-recorded-then-cleared", Rule: "R03c", Kind: "mutant",
		File: "reify.go", Old: riOld, New: strings.Replace(riNew, "	if err != nil {\n		return reflect.Value{}, raiseConversion(opts.opts, val, err, \"int\")", "	if err != nil && err != ErrOverflow {\n		return reflect.Value{}, raiseConversion(opts.opts, val, err, \"int\")", 1), Expect: "R03c/ucfg.reifyInt"})
}

func init() {
	vpOld := "	if err := runValidators(v.Interface(), opts.validators); err != nil {\n		return reflect.Value{}, raiseValidation(val.Context(), val.meta(), \"\", err)\n	}\n\n	if err := tryValidate(v); err != nil {\n		return reflect.Value{}, raiseValidation(val.Context(), val.meta(), \"\", err)\n	}\n\n	return pointerize(t, baseType, chaseValuePointers(v)), nil\n}\n"
	vpNew := "	if err := validatePrimitive(opts, val, v); err != nil {\n		return reflect.Value{}, err\n	}\n\n	return pointerize(t, baseType, chaseValuePointers(v)), nil\n}\n\nfunc validatePrimitive(opts fieldOptions, val value, v reflect.Value) Error {\n	if err := runValidators(v.Interface(), opts.validators); err != nil {\n		return raiseValidation(val.Context(), val.meta(), \"\", err)\n	}\n	if err := tryValidate(v); err != nil {\n		return raiseValidation(val.Context(), val.meta(), \"\", err)\n	}\n	return nil\n}\n"
	addControl(control{Prop: "C04", Name: "primitive-validation-in-a-helper", Rule: "R04b", Kind: "refactor", Quick: true,
		File: "reify.go", Old: vpOld, New: vpNew})
	addControl(control{Prop: "C04", Name: "primitive-validation-in-a-helper-skips-validate", Rule: "R04b", Kind: "mutant",
		File: "reify.go", Old: vpOld, New: strings.Replace(vpNew, "	if err := tryValidate(v); err != nil {\n		return raiseValidation(val.Context(), val.meta(), \"\", err)\n	}\n	return nil\n", "	if len(opts.validators) > 0 {\n		return nil\n	}\n	if err := tryValidate(v); err != nil {\n		return raiseValidation(val.Context(), val.meta(), \"\", err)\n	}\n	return nil\n", 1), Expect: "R04b/ucfg.reifyPrimitive"})
}

func init() {
	// accessField with its result in a local that stays zero until the field is accepted
	edits := []edit{
		{"util.go", "	if rune, _ := utf8.DecodeRuneInString(stField.Name); !unicode.IsUpper(rune) {\n		return fieldInfo{}, true, nil\n	}\n	name, tagOpts := parseTags(stField.Tag.Get(opts.tag))\n	if tagOpts.ignore {\n		return fieldInfo{}, true, nil\n	}\n", "	if rune, _ := utf8.DecodeRuneInString(stField.Name); !unicode.IsUpper(rune) {\n		return info, true, nil\n	}\n	name, tagOpts := parseTags(stField.Tag.Get(opts.tag))\n	if tagOpts.ignore {\n		return info, true, nil\n	}\n"},
		{"util.go", "	return fieldInfo{\n		name:          fieldName(name, stField.Name),\n		ftype:         stField.Type,\n		value:         structVal.Field(fieldIdx),\n		options:       opts,\n		tagOptions:    tagOpts,\n		validatorTags: validators,\n	}, false, nil\n", "	info.name = fieldName(name, stField.Name)\n	info.ftype = stField.Type\n	info.value = structVal.Field(fieldIdx)\n	info.options = opts\n	info.tagOptions = tagOpts\n	info.validatorTags = validators\n	return info, false, nil\n"},
	}
	addControl(control{Prop: "C13", Name: "field-info-in-a-local", Rule: "R13c", Kind: "refactor",
		File: "util.go", Old: "	stField := structVal.Type().Field(fieldIdx)\n\n	// ignore non exported fields\n", New: "	var info fieldInfo\n	stField := structVal.Type().Field(fieldIdx)\n\n	// ignore non exported fields\n", More: edits})
	addControl(control{Prop: "C13", Name: "field-info-in-a-local-filled-early", Rule: "R13c", Kind: "mutant",
		File: "util.go", Old: "	stField := structVal.Type().Field(fieldIdx)\n\n	// ignore non exported fields\n", New: "	var info fieldInfo\n	stField := structVal.Type().Field(fieldIdx)\n	info.ftype = stField.Type\n\n	// ignore non exported fields\n", More: edits, Expect: "R13c/ucfg.accessField/skip returns nothing"})
}

func init() {
	saOld := "	l := len(f.a)\n	if idx >= l {\n		tmp := make([]value, idx+1)\n		copy(tmp, f.a)\n\n		for i := l; i < idx; i++ {\n			ctx := context{parent: parent, field: fmt.Sprintf(\"%d\", i)}\n			tmp[i] = &cfgNil{cfgPrimitive{ctx, nil}}\n		}\n\n		f.a = tmp\n	}\n\n	f.a[idx] = v\n}\n"
	saNew := "	if grown, ok := padTo(f.a, idx, parent); ok {\n		f.a = grown\n	}\n\n	f.a[idx] = v\n}\n\nfunc padTo(a []value, idx int, parent value) ([]value, bool) {\n	l := len(a)\n	if idx < l {\n		return nil, false\n	}\n\n	tmp := make([]value, idx+1)\n	copy(tmp, a)\n	for i := l; i < idx; i++ {\n		ctx := context{parent: parent, field: fmt.Sprintf(\"%d\", i)}\n		tmp[i] = &cfgNil{cfgPrimitive{ctx, nil}}\n	}\n	return tmp, true\n}\n"
	addControl(control{Prop: "C07", Name: "setat-growth-in-a-helper", Rule: "R07a", Kind: "refactor",
		File: "ucfg.go", Old: saOld, New: saNew})
	addControl(control{Prop: "C07", Name: "setat-growth-in-a-helper-one-short", Rule: "R07a", Kind: "mutant",
		File: "ucfg.go", Old: saOld, New: strings.Replace(saNew, "	if idx < l {\n		return nil, false\n	}\n", "	if idx <= l {\n		return nil, false\n	}\n", 1), Expect: "R07a/(*ucfg.fields).setAt"})
}

func init() {
	cfOld := "	switch baseType.Kind() {\n	case reflect.Map, reflect.Struct, reflect.Array:\n		if !old.CanSet() {\n			// a value held by an interface or a map is not addressable: unpack\n			// into a copy, the caller stores the result in its place\n			tmp := reflect.New(old.Type()).Elem()\n			tmp.Set(old)\n			old, oldValue = tmp, tmp\n		}\n	}\n\n	switch baseType.Kind() {\n	case reflect.Map:\n		sub, err := val.toConfig(opts.opts)\n		if err != nil {\n			return reflect.Value{}, raiseExpectedObject(opts.opts, val)\n		}\n		return old, reifyMap("
	cfNew := "	kind := baseType.Kind()\n	isContainer := kind == reflect.Map || kind == reflect.Struct || kind == reflect.Array\n	if isContainer && !old.CanSet() {\n		tmp := reflect.New(old.Type()).Elem()\n		tmp.Set(old)\n		old, oldValue = tmp, tmp\n	}\n\n	switch kind {\n	case reflect.Map:\n		sub, err := val.toConfig(opts.opts)\n		if err != nil {\n			return reflect.Value{}, raiseExpectedObject(opts.opts, val)\n		}\n		return old, reifyMap("
	addControl(control{Prop: "C07", Name: "container-kinds-in-a-flag", Rule: "R07g", Kind: "refactor",
		File: "reify.go", Old: cfOld, New: cfNew})
	addControl(control{Prop: "C07", Name: "container-kinds-in-a-flag-without-arrays", Rule: "R07g", Kind: "mutant",
		File: "reify.go", Old: cfOld, New: strings.Replace(cfNew, " || kind == reflect.Array", "", 1), Expect: "R07g/"})
}

func init() {
	// ---------------- rules added with round 7 ----------------
	addControl(control{Prop: "C03", Name: "string-integers-lose-their-fraction", Rule: "R03e", Kind: "mutant", Quick: true,
		File: "types.go", Old: "func (c *cfgString) toInt(*options) (int64, error)       { return strconv.ParseInt(c.s, 0, 64) }", New: "func (c *cfgString) toInt(*options) (int64, error) {\n	return strconv.ParseInt(strings.TrimSuffix(c.s, \".0\"), 0, 64)\n}", Expect: "R03e/(*ucfg.cfgString).toInt"})
	addControl(control{Prop: "C03", Name: "string-integer-text-in-a-local", Rule: "R03e", Kind: "refactor",
		File: "types.go", Old: "func (c *cfgString) toInt(*options) (int64, error)       { return strconv.ParseInt(c.s, 0, 64) }", New: "func (c *cfgString) toInt(*options) (int64, error) {\n	text := c.s\n	n, err := strconv.ParseInt(text, 0, 64)\n	if err != nil {\n		return 0, err\n	}\n	return n, nil\n}"})
	idxOld := "	arr := cfg.fields.array()\n	if i.i < 0 || i.i >= len(arr) {\n		return nil, raiseMissing(cfg, i.String())\n	}\n	return arr[i.i], nil\n"
	idxNew := "	arr := cfg.fields.array()\n	if i.i < 0 || i.i >= len(arr) {\n		if v, ok := cfg.fields.get(i.String()); ok && opts.enableNumKeys {\n			return v, nil\n		}\n		return nil, raiseMissing(cfg, i.String())\n	}\n	return arr[i.i], nil\n"
	addControl(control{Prop: "C12", Name: "index-answered-from-the-dictionary", Rule: "R12h", Kind: "mutant", Quick: true,
		File: "path.go", Old: idxOld, New: idxNew, Expect: "R12h/(ucfg.idxField).GetValue"})
	addControl(control{Prop: "C20", Name: "index-answered-from-the-dictionary", Rule: "R20f", Kind: "mutant", Quick: true,
		File: "path.go", Old: idxOld, New: idxNew, Expect: "R20f/(ucfg.idxField).GetValue"})
	addControl(control{Prop: "C14", Name: "unpacker-error-extracted-with-errors-as", Rule: "R14e", Kind: "mutant", Quick: true,
		File: "unpack.go", Old: "	if err != nil {\n		return raisePathErr(err, meta, \"\", ctx.path(\".\"))\n	}\n	return nil\n}\n", New: "	if err != nil {\n		var own Error\n		if errors.As(err, &own) && own.Path() != \"\" {\n			return own\n		}\n		return raisePathErr(err, meta, \"\", ctx.path(\".\"))\n	}\n	return nil\n}\n",
		More: []edit{{"unpack.go", "import \"reflect\"\n", "import (\n	\"errors\"\n	\"reflect\"\n)\n"}}, Expect: "R14e/ucfg.unpackWith/errors.As"})
	addControl(control{Prop: "C19", Name: "add-merges-a-nil-config", Rule: "R19f", Kind: "mutant", Quick: true,
		File: "cfgutil/cfgutil.go", Old: "	if cfg != nil {\n		err = c.config.Merge(cfg, c.opts...)\n		if err != nil {\n			c.err = err\n		}\n	}\n", New: "	err = c.config.Merge(cfg, c.opts...)\n	if err != nil {\n		c.err = err\n	}\n", Expect: "R19f/(*cfgutil.Collector).Add"})
	addControl(control{Prop: "C19", Name: "add-returns-early-for-a-nil-config", Rule: "R19f", Kind: "refactor",
		File: "cfgutil/cfgutil.go", Old: "	if cfg != nil {\n		err = c.config.Merge(cfg, c.opts...)\n		if err != nil {\n			c.err = err\n		}\n	}\n", New: "	if cfg == nil {\n		return nil\n	}\n	err = c.config.Merge(cfg, c.opts...)\n	if err != nil {\n		c.err = err\n	}\n"})
	addControl(control{Prop: "C15", Name: "flattened-keys-relative-to-the-node", Rule: "R15i", Kind: "mutant", Quick: true,
		File: "ucfg.go", Old: "		ctx := v.Context()\n		return append(keys, ctx.path(opts.pathSep))\n", New: "		ctx := v.Context()\n		return append(keys, ctx.field)\n", Expect: "R15i/ucfg.appendFlattenedKeys"})
	addControl(control{Prop: "C17", Name: "float-parse-behind-a-spelling-filter", Rule: "R17d", Kind: "mutant", Quick: true,
		File: "parse/parse.go", Old: "	if n, err := strconv.ParseFloat(content, 64); err == nil {\n		return n, nil\n	}\n", New: "	if !strings.ContainsAny(content, \"EXxPpIiNn\") {\n		if n, err := strconv.ParseFloat(content, 64); err == nil {\n			return n, nil\n		}\n	}\n", Expect: "R17d/(*parse.flagParser).parsePrimitive/nothing else in front of the float parse"})
	addControl(control{Prop: "C18", Name: "whole-numbers-read-as-booleans", Rule: "R18i", Kind: "mutant", Quick: true,
		File: "types.go", Old: "func (c *cfgInt) toInt(*options) (int64, error)           { return c.i, nil }", New: "func (c *cfgInt) toInt(*options) (int64, error)           { return c.i, nil }\nfunc (c *cfgInt) toBool(*options) (bool, error) {\n	if c.i == 0 || c.i == 1 {\n		return c.i == 1, nil\n	}\n	return false, ErrTypeMismatch\n}", Expect: "R18i/ucfg.numeric nodes/toBool"})
	addControl(control{Prop: "C04", Name: "min-accepts-what-is-not-below", Rule: "R04h", Kind: "mutant", Quick: true,
		File: "validator.go", Old: "		if val.Float() >= min {\n			return nil\n		}\n", New: "		if !(val.Float() < min) {\n			return nil\n		}\n", Expect: "R04h/ucfg.validateMin"})
	addControl(control{Prop: "C04", Name: "min-bound-test-swapped", Rule: "R04h", Kind: "refactor",
		File: "validator.go", Old: "		if val.Float() >= min {\n			return nil\n		}\n", New: "		if min <= val.Float() {\n			return nil\n		}\n"})
	addControl(control{Prop: "C07", Name: "map-keys-of-any-interface-type", Rule: "R07o", Kind: "mutant", Quick: true,
		File: "reify.go", Old: "	if to.Type().Key().Kind() != reflect.String {\n", New: "	if k := to.Type().Key().Kind(); k != reflect.String && k != reflect.Interface {\n", Expect: "R07o/ucfg.reifyMap"})
	addControl(control{Prop: "C07", Name: "list-element-stored-without-its-pointers", Rule: "R07p", Kind: "mutant", Quick: true,
		File: "reify.go", Old: "				to.Index(idx).Set(pointerize(to.Type().Elem(), v.Type(), v))\n", New: "				to.Index(idx).Set(v)\n", Expect: "R07p/ucfg.reifyDoArray"})
	addControl(control{Prop: "C07", Name: "setchild-wraps-nil", Rule: "R07q", Kind: "mutant", Quick: true,
		File: "getset.go", Old: "	if value == nil {\n		return raiseNil(ErrNilConfig)\n	}\n\n	// A config can not become a child of itself", New: "	// A config can not become a child of itself", Expect: "R07q/(*ucfg.Config).SetChild"})
	addControl(control{Prop: "C13", Name: "plain-values-replace-what-an-interface-holds", Rule: "R13f", Kind: "mutant", Quick: true,
		File: "reify.go", Old: "	baseType := chaseTypePointers(old.Type())\n\n	if baseType.Kind() == reflect.Struct && tConfig.ConvertibleTo(baseType) {\n		sub, err := val.toConfig(opts.opts)\n		if err != nil {\n			return reflect.Value{}, raiseExpectedObject(opts.opts, val)\n		}\n\n		if t == baseType {", New: "	baseType := chaseTypePointers(old.Type())\n\n	if oldValue.Kind() == reflect.Interface && !isSub(val) && !isNil(val) {\n		return reifyValue(opts, oldValue.Type(), val)\n	}\n\n	if baseType.Kind() == reflect.Struct && tConfig.ConvertibleTo(baseType) {\n		sub, err := val.toConfig(opts.opts)\n		if err != nil {\n			return reflect.Value{}, raiseExpectedObject(opts.opts, val)\n		}\n\n		if t == baseType {", Expect: "R13f/ucfg.reifyMergeValue"})
	addControl(control{Prop: "C16", Name: "handling-tree-written-under-the-callers-max-index", Rule: "R16f", Kind: "mutant", Quick: true,
		File: "opts.go", Old: "			o.fieldHandlingTree.merge(table, PathSep(o.pathSep))\n", New: "			o.fieldHandlingTree.merge(table, PathSep(o.pathSep), MaxIdx(o.maxIdx))\n", Expect: "R16f/ucfg.fieldHandlingTree"})
}

func init() {
	addControl(control{Prop: "C06", Name: "reader-walks-visible-fields", Rule: "R06j", Kind: "mutant",
		File: "validator.go", Old: "	numField := val.NumField()\n	for i := 0; i < numField; i++ {\n		fInfo, skip, err := accessField(val, i, opts)\n", New: "	numField := len(reflect.VisibleFields(val.Type()))\n	for i := 0; i < numField && i < val.NumField(); i++ {\n		fInfo, skip, err := accessField(val, i, opts)\n", Expect: "R06j/writer/reader"})
}

func init() {
	// ---------------- sibling families stated after round 7 ----------------
	addControl(control{Prop: "C12", Name: "setuint-stores-a-signed-node", Rule: "R12k", Kind: "mutant", Quick: true,
		File: "getset.go", Old: "	return c.setField(name, idx, &cfgUint{u: value}, opts)\n", New: "	return c.setField(name, idx, &cfgInt{i: int64(value)}, opts)\n", Expect: "R12k/(*ucfg.Config).SetUint"})
	addControl(control{Prop: "C12", Name: "setint-through-the-constructor", Rule: "R12k", Kind: "refactor",
		File: "getset.go", Old: "	return c.setField(name, idx, &cfgInt{i: value}, opts)\n", New: "	return c.setField(name, idx, newInt(context{}, nil, value), opts)\n"})
	addControl(control{Prop: "C12", Name: "int-getter-through-the-unsigned-accessor", Rule: "R12j", Kind: "mutant",
		File: "getset.go", Old: "	i, fail := v.toInt(O)\n	return i, convertErr(O, v, fail, \"int\")\n", New: "	u, fail := v.toUint(O)\n	return int64(u), convertErr(O, v, fail, \"int\")\n", Expect: "R12j/(*ucfg.Config).Int"})
	addControl(control{Prop: "C12", Name: "has-looks-into-the-dictionary", Rule: "R12i", Kind: "mutant",
		File: "path.go", Old: "func (p cfgPath) Has(cfg *Config, opt *options) (bool, Error) {\n	fields := p.fields\n", New: "func (p cfgPath) Has(cfg *Config, opt *options) (bool, Error) {\n	fields := p.fields\n	if len(fields) == 1 {\n		if _, ok := cfg.fields.get(fields[0].String()); ok {\n			return true, nil\n		}\n	}\n", Expect: "R12i/(ucfg.cfgPath).Has"})
	addControl(control{Prop: "C10", Name: "unsigned-copied-as-signed", Rule: "R10e", Kind: "mutant", Quick: true,
		File: "types.go", Old: "func (c *cfgUint) cpy(ctx context) value                   { return newUint(ctx, c.meta(), c.u) }", New: "func (c *cfgUint) cpy(ctx context) value                   { return newInt(ctx, c.meta(), int64(c.u)) }", Expect: "R10e/(*ucfg.cfgUint).cpy"})
	addControl(control{Prop: "C10", Name: "string-copy-with-the-payload-in-a-local", Rule: "R10e", Kind: "refactor",
		File: "types.go", Old: "func (c *cfgString) cpy(ctx context) value { return newString(ctx, c.meta(), c.s) }", New: "func (c *cfgString) cpy(ctx context) value {\n	text := c.s\n	return newString(ctx, c.meta(), text)\n}"})
}

func init() {
	// ---------------- round 8: rules that guard the repairs found by hunting, and the seeded misses ----------------
	addControl(control{Prop: "C09", Name: "map-keys-ordered-by-their-text-alone", Rule: "R09d", Kind: "mutant", Quick: true,
		File: "merge.go", Old: "		return mapKeyLess(keys[i], keys[j])\n", New: "		return mapKeyString(keys[i]) < mapKeyString(keys[j])\n", Expect: "R09d/ucfg.normalizeMapInto"})
	addControl(control{Prop: "C09", Name: "tie-break-without-the-type", Rule: "R09d", Kind: "mutant",
		File: "merge.go", Old: "	return mapKeyType(a) < mapKeyType(b)\n", New: "	return len(sa) < len(sb)\n", Expect: "R09d/"})
	addControl(control{Prop: "C07", Name: "setchild-accepts-its-ancestors", Rule: "R07r", Kind: "mutant", Quick: true,
		File: "getset.go", Old: "	for p := c; p != nil; p = p.Parent() {\n		if p == value {\n			return raiseCyclicErr(name)\n		}\n	}\n", New: "	if c == value {\n		return raiseCyclicErr(name)\n	}\n", Expect: "R07r/(*ucfg.Config).SetChild"})
	addControl(control{Prop: "C07", Name: "dict-dereferences-a-nil-receiver", Rule: "R07s", Kind: "mutant", Quick: true,
		File: "ucfg.go", Old: "func (f *fields) dict() map[string]value {\n	if f == nil {\n		return nil\n	}\n	return f.d\n}\n", New: "func (f *fields) dict() map[string]value {\n	return f.d\n}\n", Expect: "R07s/(*ucfg.fields).dict"})
	addControl(control{Prop: "C07", Name: "nil-interface-initializer-asserted", Rule: "R07d", Kind: "mutant", Quick: true,
		File: "initializer.go", Old: "	if (t.Kind() == reflect.Ptr || t.Kind() == reflect.Interface) && val.IsNil() {\n		return val\n	}\n\n	var initializer Initializer\n", New: "	var initializer Initializer\n", Expect: "R07d/ucfg.tryInitDefaults"})
	addControl(control{Prop: "C12", Name: "countfield-looks-its-name-up-literally", Rule: "R12l", Kind: "mutant", Quick: true,
		File: "getset.go", Old: "	O := makeOptions(opts)\n	v, err := c.getField(name, -1, O)\n	if err != nil {\n		return -1, err\n	}\n\n	n, fail := v.Len(O)\n", New: "	O := makeOptions(opts)\n	v, ok := c.fields.get(name)\n	if !ok {\n		return -1, raiseMissing(c, name)\n	}\n\n	n, fail := v.Len(O)\n", Expect: "R12l/(*ucfg.Config).CountField"})
	addControl(control{Prop: "C12", Name: "getfield-answers-literally-first", Rule: "R12i", Kind: "mutant",
		File: "getset.go", Old: "func (c *Config) getField(name string, idx int, opts *options) (value, Error) {\n", New: "func (c *Config) getField(name string, idx int, opts *options) (value, Error) {\n	if idx < 0 {\n		if v, ok := c.fields.get(name); ok {\n			return v, nil\n		}\n	}\n", Expect: "R12i/(*ucfg.Config).getField"})
	addControl(control{Prop: "C06", Name: "prefilled-regexp-demands-an-object", Rule: "R06k", Kind: "mutant", Quick: true,
		File: "reify.go", Old: "			if baseType == tRegexp {\n				// a struct with a primitive encoding: the new value\n				// replaces the one in place, like in reifyValue\n				return reifyPrimitive(opts, val, t, baseType)\n			}\n", New: "", Expect: "R06k/ucfg.reifyMergeValue"})
	addControl(control{Prop: "C13", Name: "untagged-fields-reset-the-policy", Rule: "R13g", Kind: "mutant", Quick: true,
		File: "util.go", Old: "	if tagOpts.cfgHandling != cfgDefaultHandling && tagOpts.cfgHandling != opts.configValueHandling {", New: "	if tagOpts.cfgHandling != opts.configValueHandling {", Expect: "R13g/ucfg.accessField"})
	addControl(control{Prop: "C15", Name: "empty-name-taken-for-the-root", Rule: "R15j", Kind: "mutant", Quick: true,
		File: "types.go", Old: "	if c.parent == nil {\n		// the root, or a value that is not part of a tree yet\n		return c.field\n	}\n", New: "	if c.field == \"\" {\n		return \"\"\n	}\n	if c.parent == nil {\n		return c.field\n	}\n", Expect: "R15j/(*ucfg.context).path"})
	addControl(control{Prop: "C15", Name: "list-part-only-for-nodes-that-are-no-dictionary", Rule: "R15k", Kind: "mutant", Quick: true,
		File: "ucfg.go", Old: "	for _, a := range c.fields.array() {\n		opts.activeFields = newFieldSet(parentFields)\n		keys = appendFlattenedKeys(keys, a, opts)\n	}\n", New: "	if !c.IsDict() {\n		for _, a := range c.fields.array() {\n			opts.activeFields = newFieldSet(parentFields)\n			keys = appendFlattenedKeys(keys, a, opts)\n		}\n	}\n", Expect: "R15k/"})
	addControl(control{Prop: "C15", Name: "flattened-keys-by-node-type", Rule: "R15l", Kind: "mutant",
		File: "ucfg.go", Old: "	subcfg, err := v.toConfig(opts)\n	if err != nil {\n		ctx := v.Context()\n		return append(keys, ctx.path(opts.pathSep))\n	}\n	return append(keys, subcfg.flattenedKeys(opts)...)\n", New: "	switch v.(type) {\n	case cfgSub, *cfgDynamic:\n		if subcfg, err := v.toConfig(opts); err == nil {\n			return append(keys, subcfg.flattenedKeys(opts)...)\n		}\n	}\n	ctx := v.Context()\n	return append(keys, ctx.path(opts.pathSep))\n", Expect: "R15l/"})
	addControl(control{Prop: "C18", Name: "null-reads-as-a-config-without-source", Rule: "R18j", Kind: "mutant", Quick: true,
		File: "types.go", Old: "	n.ctx = c.ctx\n	n.metadata = c.metadata\n", New: "	n.ctx = c.ctx\n", Expect: "R18j/(*ucfg.cfgNil).toConfig"})
	addControl(control{Prop: "C18", Name: "setter-metadata-after-the-store", Rule: "R18j", Kind: "mutant",
		File: "getset.go", Old: "	if opts.meta != nil {\n		v.setMeta(opts.meta)\n	}\n	return p.SetValue(c, opts, v)\n", New: "	if err := p.SetValue(c, opts, v); err != nil {\n		return err\n	}\n	if opts.meta != nil {\n		v.setMeta(opts.meta)\n	}\n	return nil\n", Expect: "R18j/(*ucfg.Config).setField"})
	addControl(control{Prop: "C01", Name: "null-in-the-destination-read-as-an-object", Rule: "R01e", Kind: "mutant", Quick: true,
		File: "merge.go", Old: "	if isNil(old) {\n		return v, nil\n	}\n", New: "	if old == nil {\n		return v, nil\n	}\n", Expect: "R01e/ucfg.mergeValues/null old"})
	addControl(control{Prop: "C04", Name: "max-looks-at-the-pointer", Rule: "R04i", Kind: "mutant", Quick: true,
		File: "validator.go", Old: "	val := chaseValue(reflect.ValueOf(v))\n	switch val.Kind() {\n	case reflect.Int, reflect.Int8, reflect.Int16, reflect.Int32, reflect.Int64:\n		max, err := strconv.ParseInt(param, 0, 64)", New: "	val := reflect.ValueOf(v)\n	switch val.Kind() {\n	case reflect.Int, reflect.Int8, reflect.Int16, reflect.Int32, reflect.Int64:\n		max, err := strconv.ParseInt(param, 0, 64)", Expect: "R04i/ucfg.validateMax"})
	addControl(control{Prop: "C04", Name: "strings-recognised-by-assertion", Rule: "R04i", Kind: "mutant",
		File: "validator.go", Old: "	if val.Kind() == reflect.String {\n		if val.Len() == 0 {\n			return ErrStringEmpty\n		}\n		return nil\n	}\n", New: "	if s, ok := v.(string); ok {\n		if s == \"\" {\n			return ErrStringEmpty\n		}\n		return nil\n	}\n", Expect: "R04i/ucfg.validateNonEmptyWithAllowNil"})
	addControl(control{Prop: "C19", Name: "usage-error-reported-but-not-latched", Rule: "R19g", Kind: "mutant", Quick: true,
		File: "flag/value.go", Old: "				err := fmt.Errorf(\"argument '%v' is empty \", arg)\n				return nil, err, err\n", New: "				err := fmt.Errorf(\"argument '%v' is empty \", arg)\n				return nil, nil, err\n", Expect: "R19g/flag.NewFlagKeyValue"})
	addControl(control{Prop: "C20", Name: "indexed-address-parses-the-name-without-numeric-keys", Rule: "R20g", Kind: "mutant", Quick: true,
		File: "path.go", Old: "	p := parsePathWithOpts(in, opts)\n	if idx >= 0 {\n", New: "	p := parsePath(in, opts.pathSep, opts.maxIdx, opts.enableNumKeys && idx < 0, opts.escapePath)\n	if idx >= 0 {\n", Expect: "R20g/ucfg.parsePathIdx"})
	addControl(control{Prop: "C02", Name: "resolver-error-ends-the-search", Rule: "R02e", Kind: "mutant",
		File: "variables.go", Old: "			v, cfg, err = resolver(key)\n			if err == nil {\n				return v, cfg, nil\n			}\n", New: "			v, cfg, err = resolver(key)\n			if err == nil {\n				return v, cfg, nil\n			}\n			if err != ErrMissing {\n				break\n			}\n", Expect: "R02e/(*ucfg.reference).resolveEnv/a failing resolver hands over"})
	addControl(control{Prop: "C04", Name: "inlined-list-skipped-without-validation", Rule: "R04j", Kind: "mutant",
		File: "reify.go", Old: "				case reflect.Slice, reflect.Array:\n					fopts := fieldOptions{opts: fInfo.options, tag: fInfo.tagOptions, validators: fInfo.validatorTags}\n", New: "				case reflect.Slice, reflect.Array:\n					if cfg.fields.array() == nil {\n						continue\n					}\n					fopts := fieldOptions{opts: fInfo.options, tag: fInfo.tagOptions, validators: fInfo.validatorTags}\n", Expect: "R04j/ucfg.reifyStruct"})
}

func init() {
	// ---------------- after round 8: merging over a reference ----------------
	addControl(control{Prop: "C10", Name: "merge-writes-into-what-a-reference-points-to", Rule: "R10f", Kind: "mutant", Quick: true,
		File: "merge.go", Old: "	if !isSub(old) {\n		subOld = cfgSub{subOld}.cpy(old.Context()).(cfgSub).c\n	}\n", New: "", Expect: "R10f/ucfg.mergeValues/merge target owned"})
	addControl(control{Prop: "C10", Name: "stored-sub-config-recognised-by-assertion", Rule: "R10f", Kind: "refactor",
		File: "merge.go", Old: "	if !isSub(old) {\n		subOld = cfgSub{subOld}.cpy(old.Context()).(cfgSub).c\n	}\n", New: "	if _, stored := old.(cfgSub); !stored {\n		cpy := cfgSub{subOld}.cpy(old.Context())\n		subOld = cpy.(cfgSub).c\n	}\n"})
	addControl(control{Prop: "C07", Name: "sub-config-copy-that-can-return-a-null", Rule: "R07d", Kind: "mutant",
		File: "types.go", Old: "func (c cfgSub) cpy(ctx context) value {\n", New: "func (c cfgSub) cpy(ctx context) value {\n	if c.c == nil {\n		return &cfgNil{cfgPrimitive{ctx, nil}}\n	}\n", Expect: "R07d/ucfg.mergeValues/assert to ucfg.cfgSub"})
}

func init() {
	addControl(control{Prop: "C02", Name: "nil-environment-ends-the-lookup", Rule: "R02e", Kind: "mutant", Quick: true,
		File: "variables.go", Old: "		if cfg = cfgRoot(cfg); cfg != nil {\n			var v value\n			v, err = r.Path.GetValue(cfg, opts)\n			if err == nil && v != nil {\n				return v, nil\n			}\n		}\n", New: "		var v value\n		cfg = cfgRoot(cfg)\n		if cfg == nil {\n			return nil, ErrMissing\n		}\n\n		v, err = r.Path.GetValue(cfg, opts)\n		if err == nil && v != nil {\n			return v, nil\n		}\n", Expect: "R02e/(*ucfg.reference).resolveRef/nothing found goes on"})
	addControl(control{Prop: "C02", Name: "nil-environment-skipped-with-continue", Rule: "R02e", Kind: "refactor",
		File: "variables.go", Old: "		if cfg = cfgRoot(cfg); cfg != nil {\n			var v value\n			v, err = r.Path.GetValue(cfg, opts)\n			if err == nil && v != nil {\n				return v, nil\n			}\n		}\n", New: "		root := cfgRoot(cfg)\n		if root != nil {\n			found, lookErr := r.Path.GetValue(root, opts)\n			if lookErr == nil && found != nil {\n				return found, nil\n			}\n			err = lookErr\n		}\n"})
}

func init() {
	addControl(control{Prop: "C19", Name: "string-latches-its-own-error", Rule: "R19h", Kind: "mutant", Quick: true,
		File: "flag/util.go", Old: "	return toString(v.Config(), v.collector.GetOptions())\n", New: "	return toString(v.Config(), v.collector.GetOptions(), func(err error) error { return v.collector.Add(nil, err) })\n", Expect: "R19h/(*flag.FlagValue).String",
		More: []edit{{File: "flag/util.go", Old: "func toString(cfg *ucfg.Config, opts []ucfg.Option) string {\n	var tmp map[string]interface{}\n	if err := cfg.Unpack(&tmp, opts...); err != nil {\n		return err.Error()\n	}\n", New: "func toString(cfg *ucfg.Config, opts []ucfg.Option, onError func(error) error) string {\n	var tmp map[string]interface{}\n	if err := cfg.Unpack(&tmp, opts...); err != nil {\n		return onError(err).Error()\n	}\n"}}})
	addControl(control{Prop: "C19", Name: "string-renders-through-a-callback-that-only-formats", Rule: "R19h", Kind: "refactor",
		File: "flag/util.go", Old: "	return toString(v.Config(), v.collector.GetOptions())\n", New: "	return toString(v.Config(), v.collector.GetOptions(), func(err error) string { return err.Error() })\n",
		More: []edit{{File: "flag/util.go", Old: "func toString(cfg *ucfg.Config, opts []ucfg.Option) string {\n	var tmp map[string]interface{}\n	if err := cfg.Unpack(&tmp, opts...); err != nil {\n		return err.Error()\n	}\n", New: "func toString(cfg *ucfg.Config, opts []ucfg.Option, render func(error) string) string {\n	var tmp map[string]interface{}\n	if err := cfg.Unpack(&tmp, opts...); err != nil {\n		return render(err)\n	}\n"}}})
}

func init() {
	addControl(control{Prop: "C14", Name: "list-cast-names-the-parents-source", Rule: "R14g", Kind: "mutant", Quick: true,
		File: "reify.go", Old: "			ctx := ref.Context()\n			return nil, raisePathErr(ErrMissing, ref.meta(), err.Error(), ctx.path(\".\"))\n", New: "			return nil, raiseMissingMsg(ref.ctx.getParent(), ref.ctx.field, err.Error())\n", Expect: "R14g/ucfg.castArr"})
	addControl(control{Prop: "C14", Name: "null-reported-with-the-sections-source", Rule: "R14g", Kind: "mutant",
		File: "reify.go", Old: "		meta := cfg.metadata\n		if value != nil {\n			meta = value.meta()\n		}\n", New: "		meta := cfg.metadata\n", Expect: "R14g/ucfg.reifyGetField"})
	addControl(control{Prop: "C14", Name: "own-source-chosen-by-a-helper-variable", Rule: "R14g", Kind: "refactor",
		File: "reify.go", Old: "		meta := cfg.metadata\n		if value != nil {\n			meta = value.meta()\n		}\n", New: "		var meta *Meta\n		if value == nil {\n			meta = cfg.metadata\n		} else {\n			own := value.meta()\n			meta = own\n		}\n"})
}

func init() {
	addControl(control{Prop: "C14", Name: "missing-step-named-below-the-start-of-the-walk", Rule: "R14h", Kind: "mutant", Quick: true,
		File: "path.go", Old: "		if next == nil {\n			return nil, raiseMissingIn(cur, field.String())\n		}\n", New: "		if next == nil {\n			return nil, raiseMissing(cfg, field.String())\n		}\n", Expect: "R14h/(ucfg.cfgPath).GetValue"})
	addControl(control{Prop: "C14", Name: "missing-step-raised-at-a-named-cursor", Rule: "R14h", Kind: "refactor",
		File: "path.go", Old: "		if next == nil {\n			return nil, raiseMissingIn(cur, field.String())\n		}\n", New: "		if next == nil {\n			reached := cur\n			return nil, raiseMissingIn(reached, field.String())\n		}\n"})
}

func init() {
	addControl(control{Prop: "C04", Name: "inlined-object-without-its-validate-tag", Rule: "R04j", Kind: "mutant", Quick: true,
		File: "reify.go", Old: "					if err := runValidators(fInfo.value.Interface(), fInfo.validatorTags); err != nil {\n						return raiseValidation(cfg.ctx, cfg.metadata, fInfo.name, err)\n					}\n", New: "", Expect: "R04j/ucfg.reifyStruct/every field's validate tag used"})
	addControl(control{Prop: "C04", Name: "inlined-object-validated-through-a-local-tag-list", Rule: "R04j", Kind: "refactor",
		File: "reify.go", Old: "					if err := runValidators(fInfo.value.Interface(), fInfo.validatorTags); err != nil {\n", New: "					tags := fInfo.validatorTags\n					if err := runValidators(fInfo.value.Interface(), tags); err != nil {\n"})
}

func init() {
	addControl(control{Prop: "C19", Name: "collector-gets-a-copy-of-no-options", Rule: "R19a", Kind: "mutant",
		File: "flag/util.go", Old: "		collector: cfgutil.NewCollector(cfg, opts...),\n", New: "		collector: cfgutil.NewCollector(cfg, ownOptions(opts)...),\n", Expect: "R19a/flag.newFlagValue",
		More: []edit{{File: "flag/util.go", Old: "func (v *FlagValue) Config() *ucfg.Config {", New: "func ownOptions(opts []ucfg.Option) []ucfg.Option {\n	own := make([]ucfg.Option, 0, len(opts))\n	copy(own, opts)\n	return own\n}\n\nfunc (v *FlagValue) Config() *ucfg.Config {"}}})
	addControl(control{Prop: "C19", Name: "collector-gets-its-own-copy-of-the-options", Rule: "R19a", Kind: "refactor",
		File: "flag/util.go", Old: "		collector: cfgutil.NewCollector(cfg, opts...),\n", New: "		collector: cfgutil.NewCollector(cfg, ownOptions(opts)...),\n",
		More: []edit{{File: "flag/util.go", Old: "func (v *FlagValue) Config() *ucfg.Config {", New: "func ownOptions(opts []ucfg.Option) []ucfg.Option {\n	own := make([]ucfg.Option, len(opts))\n	copy(own, opts)\n	return own\n}\n\nfunc (v *FlagValue) Config() *ucfg.Config {"}}})
}

func init() {
	addControl(control{Prop: "C18", Name: "parsed-text-normalised-with-the-readers-options", Rule: "R18k", Kind: "mutant", Quick: true,
		File: "types.go", Old: "	nopts := *opts\n	nopts.meta = p.meta()\n	sub, err := normalize(&nopts, ifc)\n", New: "	sub, err := normalize(opts, ifc)\n", Expect: "R18k/ucfg.parseValue"})
	addControl(control{Prop: "C18", Name: "parsed-text-options-copied-without-the-source", Rule: "R18k", Kind: "mutant",
		File: "types.go", Old: "	nopts := *opts\n	nopts.meta = p.meta()\n", New: "	nopts := *opts\n", Expect: "R18k/ucfg.parseValue"})
	addControl(control{Prop: "C18", Name: "parsed-text-options-take-the-metadata-field", Rule: "R18k", Kind: "refactor",
		File: "types.go", Old: "	nopts := *opts\n	nopts.meta = p.meta()\n", New: "	nopts := *opts\n	own := p.metadata\n	nopts.meta = own\n"})
}

func init() {
	addControl(control{Prop: "C12", Name: "has-answers-plain-names-from-the-dictionary", Rule: "R12a", Kind: "mutant", Quick: true,
		File: "ucfg.go", Old: "	opts := makeOptions(options)\n	p := parsePathIdx(name, idx, opts)\n	return p.Has(c, opts)\n", New: "	opts := makeOptions(options)\n	if idx < 0 && name != \"\" && opts.pathSep == \"\" {\n		return c.HasField(name), nil\n	}\n	p := parsePathIdx(name, idx, opts)\n	return p.Has(c, opts)\n", Expect: "R12a/(*ucfg.Config).Has/no answer around the address function"})
	addControl(control{Prop: "C12", Name: "has-keeps-the-walks-answer-in-locals", Rule: "R12a", Kind: "refactor",
		File: "ucfg.go", Old: "	p := parsePathIdx(name, idx, opts)\n	return p.Has(c, opts)\n", New: "	p := parsePathIdx(name, idx, opts)\n	found, err := p.Has(c, opts)\n	if err != nil {\n		return false, err\n	}\n	return found, nil\n"})
}

func init() {
	addControl(control{Prop: "C15", Name: "empty-path-taken-for-the-root-when-joining", Rule: "R15m", Kind: "mutant", Quick: true,
		File: "types.go", Old: "	if c.parent == nil && c.field == \"\" {\n		return field\n	}\n	return fmt.Sprintf(\"%v%v%v\", c.path(sep), sep, field)\n", New: "	if p := c.path(sep); p != \"\" {\n		return fmt.Sprintf(\"%v%v%v\", p, sep, field)\n	}\n	return field\n", Expect: "R15m/(*ucfg.context).pathOf"})
	addControl(control{Prop: "C15", Name: "path-joined-by-concatenation", Rule: "R15m", Kind: "refactor",
		File: "types.go", Old: "	return fmt.Sprintf(\"%v%v%v\", c.path(sep), sep, field)\n", New: "	return c.path(sep) + sep + field\n"})
}

func init() {
	addControl(control{Prop: "C02", Name: "strings-without-a-reference-skip-the-lexer", Rule: "R02h", Kind: "mutant", Quick: true,
		File: "variables.go", Old: "	lex, errs := lexer(in)\n	drainLex := func() {", New: "	if !strings.Contains(in, \"${\") {\n		return constExp(in), nil\n	}\n\n	lex, errs := lexer(in)\n	drainLex := func() {", Expect: "R02h/ucfg.parseSplice"})
	addControl(control{Prop: "C07", Name: "return-before-the-lexer-starts-needs-no-drain", Rule: "R07e", Kind: "refactor",
		File: "variables.go", Old: "	lex, errs := lexer(in)\n	drainLex := func() {", New: "	if maxIdx < 0 {\n		return nil, ErrIndexOutOfRange\n	}\n\n	lex, errs := lexer(in)\n	drainLex := func() {"})
}

func init() {
	addControl(control{Prop: "C03", Name: "duration-classifies-the-reference-node", Rule: "R03f", Kind: "mutant", Quick: true,
		File: "reify.go", Old: "	switch v := node.(type) {\n	case *cfgInt:\n		if v.i < -maxSeconds", New: "	_ = node\n	switch v := val.(type) {\n	case *cfgInt:\n		if v.i < -maxSeconds", Expect: "R03f/ucfg.reifyDuration"})
	addControl(control{Prop: "C03", Name: "duration-reference-resolved-in-two-steps", Rule: "R03f", Kind: "refactor",
		File: "reify.go", Old: "		if resolved, rerr := ref.getValue(opts.opts); rerr == nil && resolved != nil {\n			node = resolved\n		}\n", New: "		resolved, rerr := ref.getValue(opts.opts)\n		if rerr == nil {\n			if resolved != nil {\n				node = resolved\n			}\n		}\n"})
}

func init() {
	addControl(control{Prop: "C11", Name: "config-target-merged-with-itself", Rule: "R11d", Kind: "mutant", Quick: true,
		File: "reify.go", Old: "		if target == from {\n", New: "		if target == nil {\n", Expect: "R11d/ucfg.reifyInto"})
	addControl(control{Prop: "C11", Name: "config-target-identity-test-inverted-form", Rule: "R11d", Kind: "refactor",
		File: "reify.go", Old: "		return mergeConfig(opts, target, from)\n	}\n", New: "		if target != from {\n			return mergeConfig(opts, target, from)\n		}\n		return nil\n	}\n"})
}

func init() {
	addControl(control{Prop: "C04", Name: "required-looks-at-the-pointer", Rule: "R04i", Kind: "mutant", Quick: true,
		File: "validator.go", Old: "	val := chaseValue(reflect.ValueOf(v))\n\n	// strings, also of a named string type\n", New: "	val := reflect.ValueOf(v)\n\n	// strings, also of a named string type\n", Expect: "R04i/ucfg.validateNonEmptyWithAllowNil"})
}

func init() {
	// 04c93da: the map branch of reifyValue hands the field's validators on
	addControl(control{Prop: "C04", Name: "new-map-built-without-validators", Rule: "R04a", Kind: "mutant", Quick: true,
		File: "reify.go", Old: "		if err := reifyMap(opts.opts, newMap, sub, opts.validators); err != nil {\n", New: "		if err := reifyInto(opts.opts, newMap, sub); err != nil {\n", Expect: "R04a/ucfg.reifyValue"})
	addControl(control{Prop: "C04", Name: "new-map-built-with-no-validators-at-all", Rule: "R04a", Kind: "mutant",
		File: "reify.go", Old: "		if err := reifyMap(opts.opts, newMap, sub, opts.validators); err != nil {\n", New: "		if err := reifyMap(opts.opts, newMap, sub, nil); err != nil {\n", Expect: "R04a/ucfg.reifyValue"})
	addControl(control{Prop: "C04", Name: "new-map-validators-in-a-local", Rule: "R04a", Kind: "refactor",
		File: "reify.go", Old: "		if err := reifyMap(opts.opts, newMap, sub, opts.validators); err != nil {\n", New: "		vs := opts.validators\n		if err := reifyMap(opts.opts, newMap, sub, vs); err != nil {\n"})
}

func init() {
	// 4069967: reifyMap names kept entries by key.String(); the key kind is known from the map's key type
	addControl(control{Prop: "C09", Name: "kept-entries-named-without-key-kind-test", Rule: "R09c", Kind: "mutant", Quick: true,
		File: "reify.go", Old: "	if to.Type().Key().Kind() != reflect.String {\n		return raiseKeyInvalidTypeUnpack(to.Type(), from)\n	}\n\n	if to.IsNil() {", New: "	if to.IsNil() {", Expect: "R09c/ucfg.reifyMap"})
	addControl(control{Prop: "C09", Name: "kept-entries-key-kind-test-on-another-map", Rule: "R09c", Kind: "mutant",
		File: "reify.go", Old: "	keys := to.MapKeys()\n	sort.Slice(keys, func(i, j int) bool { return mapKeyLess(keys[i], keys[j]) })\n	for _, key := range keys {\n		if _, named := fields[key.String()]; named {", New: "	keys := reflect.ValueOf(opts.env).MapKeys()\n	sort.Slice(keys, func(i, j int) bool { return mapKeyLess(keys[i], keys[j]) })\n	for _, key := range keys {\n		if _, named := fields[key.String()]; named {", Expect: "R09c/ucfg.reifyMap"})
}

func init() {
	// 4069967: reifyMap validates the entries it keeps
	keptPass := "	keys := to.MapKeys()\n	sort.Slice(keys, func(i, j int) bool { return mapKeyLess(keys[i], keys[j]) })\n	for _, key := range keys {\n		if _, named := fields[key.String()]; named {\n			continue\n		}\n		if err := tryRecursiveValidate(to.MapIndex(key), opts, nil); err != nil {\n			return raiseValidation(from.ctx, from.metadata, \"\", err)\n		}\n	}\n"
	addControl(control{Prop: "C04", Name: "kept-map-entries-not-validated", Rule: "R04k", Kind: "mutant", Quick: true,
		File: "reify.go", Old: keptPass, New: "	_ = sort.Strings\n", Expect: "R04k/ucfg.reifyMap/successful return behind"})
	addControl(control{Prop: "C04", Name: "kept-map-entries-validated-only-with-field-validators", Rule: "R04k", Kind: "mutant",
		File: "reify.go", Old: "		if err := tryRecursiveValidate(to.MapIndex(key), opts, nil); err != nil {\n			return raiseValidation(from.ctx, from.metadata, \"\", err)\n		}\n", New: "		if len(validators) > 0 {\n			if err := tryRecursiveValidate(to.MapIndex(key), opts, nil); err != nil {\n				return raiseValidation(from.ctx, from.metadata, \"\", err)\n			}\n		}\n", Expect: "R04k/ucfg.reifyMap/pass over kept entries"})
	addControl(control{Prop: "C04", Name: "kept-map-entries-skipped-by-an-early-return", Rule: "R04k", Kind: "mutant",
		File: "reify.go", Old: "	keys := to.MapKeys()\n	sort.Slice(keys, func(i, j int) bool { return mapKeyLess(keys[i], keys[j]) })\n	for _, key := range keys {\n		if _, named := fields[key.String()]; named {", New: "	if len(validators) == 0 && to.Len() == len(fields) {\n		return nil\n	}\n	keys := to.MapKeys()\n	sort.Slice(keys, func(i, j int) bool { return mapKeyLess(keys[i], keys[j]) })\n	for _, key := range keys {\n		if _, named := fields[key.String()]; named {", Expect: "R04k/ucfg.reifyMap/successful return behind"})
	addControl(control{Prop: "C04", Name: "kept-map-entries-named-test-on-another-key", Rule: "R04k", Kind: "mutant",
		File: "reify.go", Old: "		if _, named := fields[key.String()]; named {\n			continue\n		}\n		if err := tryRecursiveValidate(to.MapIndex(key)", New: "		if _, named := fields[keys[0].String()]; named {\n			continue\n		}\n		if err := tryRecursiveValidate(to.MapIndex(key)", Expect: "R04k/ucfg.reifyMap/pass over kept entries"})
	addControl(control{Prop: "C04", Name: "kept-map-entries-inverted-test", Rule: "R04k", Kind: "refactor",
		File: "reify.go", Old: "		if _, named := fields[key.String()]; named {\n			continue\n		}\n		if err := tryRecursiveValidate(to.MapIndex(key), opts, nil); err != nil {\n			return raiseValidation(from.ctx, from.metadata, \"\", err)\n		}\n", New: "		if _, named := fields[key.String()]; !named {\n			if err := tryRecursiveValidate(to.MapIndex(key), opts, nil); err != nil {\n				return raiseValidation(from.ctx, from.metadata, \"\", err)\n			}\n		}\n"})
	addControl(control{Prop: "C04", Name: "kept-map-entries-all-validated", Rule: "R04k", Kind: "refactor",
		File: "reify.go", Old: "		if _, named := fields[key.String()]; named {\n			continue\n		}\n		if err := tryRecursiveValidate(to.MapIndex(key)", New: "		if err := tryRecursiveValidate(to.MapIndex(key)"})
}

func init() {
	// round 10 (C20-r10a/b): a second classifier in front of parseField, and the multi-segment rule moved to one caller only
	addControl(control{Prop: "C20", Name: "parsepath-leaves-the-multi-segment-rule-to-its-callers", Rule: "R20b", Kind: "mutant", Quick: true,
		File: "path.go", Old: "	if len(elems) > 1 {\n		enableNumKeys = false\n	}\n", New: "", Expect: "R20b/"})
	addControl(control{Prop: "C20", Name: "plain-names-skip-the-classifier", Rule: "R20c", Kind: "mutant", Quick: true,
		File: "path.go", Old: "	p := parsePathWithOpts(in, opts)\n", New: "	var p cfgPath\n	if opts.pathSep == \"\" || !strings.Contains(in, opts.pathSep) {\n		p = cfgPath{sep: opts.pathSep, fields: []field{namedField{in}}}\n	} else {\n		p = parsePathWithOpts(in, opts)\n	}\n", Expect: "R20c/ucfg.parsePathIdx"})
	addControl(control{Prop: "C20", Name: "single-segment-names-classified-without-splitting", Rule: "R20b", Kind: "refactor",
		File: "path.go", Old: "	return parsePath(in, opts.pathSep, opts.maxIdx, opts.enableNumKeys, opts.escapePath)\n", New: "	sep := opts.pathSep\n	if sep == \"\" || !strings.Contains(in, sep) {\n		return cfgPath{sep: sep, fields: []field{parseField(in, opts.maxIdx, opts.enableNumKeys)}}\n	}\n	return parsePath(in, sep, opts.maxIdx, opts.enableNumKeys, opts.escapePath)\n"})
	addControl(control{Prop: "C20", Name: "classifier-called-with-the-flag-on-an-unsplit-name", Rule: "R20b", Kind: "mutant",
		File: "path.go", Old: "	return parsePath(in, opts.pathSep, opts.maxIdx, opts.enableNumKeys, opts.escapePath)\n", New: "	if len(in) < 3 {\n		return cfgPath{sep: opts.pathSep, fields: []field{parseField(in, opts.maxIdx, opts.enableNumKeys)}}\n	}\n	return parsePath(in, opts.pathSep, opts.maxIdx, opts.enableNumKeys, opts.escapePath)\n", Expect: "R20b/ucfg.parsePathWithOpts"})
}

func init() {
	// round 10 (C16-r10a): the handling-tree lookup skipped for "uninteresting" pairs of values
	lookup := "		opts, err := fieldOptsOverride(opts, k, -1)\n		if err != nil {\n			return err\n		}\n		merged, err := mergeValues(opts, old, v)\n"
	addControl(control{Prop: "C16", Name: "handling-lookup-only-for-two-sub-configs", Rule: "R16g", Kind: "mutant", Quick: true,
		File: "merge.go", Old: lookup, New: "		opts := opts\n		if isSub(old) && isSub(v) {\n			o, err := fieldOptsOverride(opts, k, -1)\n			if err != nil {\n				return err\n			}\n			opts = o\n		}\n		merged, err := mergeValues(opts, old, v)\n", Expect: "R16g/ucfg.mergeConfigDict"})
	addControl(control{Prop: "C16", Name: "handling-lookup-skipped-without-a-tree", Rule: "R16g", Kind: "refactor",
		File: "merge.go", Old: lookup, New: "		opts := opts\n		if opts.fieldHandlingTree != nil {\n			o, err := fieldOptsOverride(opts, k, -1)\n			if err != nil {\n				return err\n			}\n			opts = o\n		}\n		merged, err := mergeValues(opts, old, v)\n"})
	addControl(control{Prop: "C16", Name: "derived-options-not-built-in-this-call", Rule: "R16b", Kind: "mutant",
		File: "merge.go", Old: "			newOpts := *opts\n			newOpts.fieldHandlingTree = nil\n			return &newOpts, nil\n", New: "			if opts.env != nil && len(opts.env) > 0 {\n				if p, ok := interface{}(opts.env[0].ctx.parent).(*options); ok {\n					return p, nil\n				}\n			}\n			newOpts := *opts\n			newOpts.fieldHandlingTree = nil\n			return &newOpts, nil\n", Expect: "R16b/ucfg.fieldOptsOverride/derived options"})
}

func init() {
	// round 10 (C13-r10b): "merged in place, nothing to store"
	addControl(control{Prop: "C13", Name: "map-merged-in-place-nothing-returned", Rule: "R13h", Kind: "mutant", Quick: true,
		File: "reify.go", Old: "		return old, reifyMap(opts.opts, old, sub, opts.validators)\n", New: "		return reflect.Value{}, reifyMap(opts.opts, old, sub, opts.validators)\n", Expect: "R13h/ucfg.reifyMergeValue"})
	addControl(control{Prop: "C13", Name: "struct-merged-result-in-locals", Rule: "R13h", Kind: "refactor",
		File: "reify.go", Old: "		return oldValue, reifyStruct(opts.opts, old, sub)\n", New: "		if e := reifyStruct(opts.opts, old, sub); e != nil {\n			return reflect.Value{}, e\n		}\n		return oldValue, nil\n"})
}

func init() {
	// round 10 (C03-r10a): a hand-written digit loop in front of strconv
	for _, pr := range [][2]string{{"C03", "R03g"}, {"C17", "R17i"}} {
		addControl(control{Prop: pr[0], Name: "small-decimals-read-by-hand", Rule: pr[1], Kind: "mutant", Quick: true,
			File: "parse/parse.go", Old: "	if content == \"null\" {\n		return nil, nil\n	}\n	if b, ok := parseBoolValue(content); ok {", New: "	if len(content) > 0 && len(content) <= 20 {\n		var n uint64\n		ok := true\n		for i := 0; i < len(content); i++ {\n			d := content[i] - '0'\n			if d > 9 {\n				ok = false\n				break\n			}\n			n = n*10 + uint64(d)\n		}\n		if ok {\n			return n, nil\n		}\n	}\n	if content == \"null\" {\n		return nil, nil\n	}\n	if b, ok := parseBoolValue(content); ok {", Expect: pr[1] + "/(*parse.flagParser).parsePrimitive"})
		addControl(control{Prop: pr[0], Name: "parsed-number-through-a-local", Rule: pr[1], Kind: "refactor",
			File: "parse/parse.go", Old: "	if n, err := strconv.ParseInt(content, 0, 64); err == nil {\n		return n, nil\n	}\n", New: "	n, err := strconv.ParseInt(content, 0, 64)\n	if err == nil {\n		var out interface{} = n\n		return out, nil\n	}\n"})
	}
}

func init() {
	// round 10 (C08-r10b): a lookup helper that closes its scope and hands the value out
	addControl(control{Prop: "C08", Name: "resolved-value-handed-out-of-its-scope", Rule: "R08d", Kind: "mutant", Quick: true,
		File: "variables.go",
		Old:  "func (e *expansionErr) eval(cfg *Config, opts *options) (string, error) {\n	path, err := e.left.eval(cfg, opts)\n	if err == nil && path != \"\" {\n		ref := newReference(parsePath(path, e.pathSep, opts.maxIdx, opts.enableNumKeys, opts.escapePath))\n		str, err := ref.eval(cfg, opts)\n		if err == nil && str != \"\" {\n			return str, nil\n		}\n	}\n",
		New:  "func (r *reference) scopedResolve(cfg *Config, opts *options) (value, error) {\n	parentFields := opts.activeFields\n	opts.activeFields = newFieldSet(parentFields)\n	defer func() { opts.activeFields = parentFields }()\n	return r.resolve(cfg, opts)\n}\n\nfunc (e *expansionErr) eval(cfg *Config, opts *options) (string, error) {\n	path, err := e.left.eval(cfg, opts)\n	if err == nil && path != \"\" {\n		ref := newReference(parsePath(path, e.pathSep, opts.maxIdx, opts.enableNumKeys, opts.escapePath))\n		v, err := ref.scopedResolve(cfg, opts)\n		if err == nil && v != nil {\n			if str, err := v.toString(opts); err == nil && str != \"\" {\n				return str, nil\n			}\n		}\n	}\n",
		Expect: "R08d/(*ucfg.reference).scopedResolve"})
}

func init() {
	// round 10 (C09-r10b): a keyed accessor that also records the order of its calls
	addControl(control{Prop: "C09", Name: "keyed-accessor-records-call-order", Rule: "R09e", Kind: "mutant", Quick: true,
		File: "ucfg.go", Old: "	if f.d == nil {\n		f.d = map[string]value{}\n	}\n	f.d[name] = v\n", New: "	if f.d == nil {\n		f.d = map[string]value{}\n	}\n	if _, exists := f.d[name]; !exists {\n		f.a = append(f.a, v)\n	}\n	f.d[name] = v\n", Expect: "R09e/(*ucfg.fields).set"})
	addControl(control{Prop: "C09", Name: "keyed-accessor-map-made-with-size", Rule: "R09e", Kind: "refactor",
		File: "ucfg.go", Old: "	if f.d == nil {\n		f.d = map[string]value{}\n	}\n	f.d[name] = v\n", New: "	if f.d == nil {\n		f.d = make(map[string]value, 4)\n	}\n	f.d[name] = v\n"})
}

func init() {
	// round 10 (C18-r10a): plain keys stored through a path segment made on the spot
	for _, pr := range [][2]string{{"C05", "R05c"}, {"C18", "R18h"}} {
		addControl(control{Prop: pr[0], Name: "plain-keys-stored-through-a-segment-of-their-own", Rule: pr[1], Kind: "mutant", Quick: true,
			File: "merge.go", Old: "		err := normalizeSetField(cfg, opts, noTagOpts, k.String(), from.MapIndex(k))\n		if err != nil {\n			return err\n		}\n", New: "		if opts.pathSep == \"\" && !cfg.HasField(k.String()) && !('0' <= k.String()[0] && k.String()[0] <= '9') {\n			val, err := normalizeValue(opts, noTagOpts, context{}, from.MapIndex(k))\n			if err != nil {\n				return err\n			}\n			if err := (namedField{k.String()}).SetValue(opts, cfgSub{cfg}, val); err != nil {\n				return err\n			}\n			continue\n		}\n		err := normalizeSetField(cfg, opts, noTagOpts, k.String(), from.MapIndex(k))\n		if err != nil {\n			return err\n		}\n", Expect: pr[1] + "/ucfg.normalizeMapInto"})
	}
}

func init() {
	// round 10 (C05-r10b): options derived per field take part in the normalisation of that field
	addControl(control{Prop: "C05", Name: "field-normalised-under-options-of-its-own", Rule: "R05g", Kind: "mutant", Quick: true,
		File: "merge.go", Old: "			err = normalizeSetField(cfg, opts, tagOpts, name, v.Field(i))\n", New: "			fopts := opts\n			if tagOpts.cfgHandling != cfgDefaultHandling {\n				o := *opts\n				o.configValueHandling = tagOpts.cfgHandling\n				fopts = &o\n			}\n			err = normalizeSetField(cfg, fopts, tagOpts, name, v.Field(i))\n", Expect: "R05g/ucfg.normalizeStructInto"})
	addControl(control{Prop: "C05", Name: "options-through-a-local", Rule: "R05g", Kind: "refactor",
		File: "merge.go", Old: "			err = normalizeSetField(cfg, opts, tagOpts, name, v.Field(i))\n", New: "			o := opts\n			err = normalizeSetField(cfg, o, tagOpts, name, v.Field(i))\n"})
}

func init() {
	// 78fcfac: the removers guard their receiver like the readers
	addControl(control{Prop: "C07", Name: "del-dereferences-a-nil-receiver", Rule: "R07s", Kind: "mutant", Quick: true,
		File: "ucfg.go", Old: "func (f *fields) del(name string) bool {\n	if f == nil {\n		return false\n	}\n", New: "func (f *fields) del(name string) bool {\n", Expect: "R07s/(*ucfg.fields).del"})
	addControl(control{Prop: "C07", Name: "delat-dereferences-a-nil-receiver", Rule: "R07s", Kind: "mutant",
		File: "ucfg.go", Old: "func (f *fields) delAt(i int) bool {\n	if f == nil {\n		return false\n	}\n", New: "func (f *fields) delAt(i int) bool {\n", Expect: "R07s/(*ucfg.fields).delAt"})
}

func init() {
	// 00c881a: uintptr is an unsigned kind
	addControl(control{Prop: "C03", Name: "uintptr-not-an-unsigned-kind", Rule: "R03h", Kind: "mutant", Quick: true,
		File: "util.go", Old: "reflect.Uint32, reflect.Uint64, reflect.Uintptr:\n		return true", New: "reflect.Uint32, reflect.Uint64:\n		return true", Expect: "R03h/ucfg.kind predicates/kind Uintptr"})
	addControl(control{Prop: "C03", Name: "unsigned-kinds-by-range", Rule: "R03h", Kind: "refactor",
		File: "util.go", Old: "func isUint(k reflect.Kind) bool {\n	switch k {\n	case reflect.Uint, reflect.Uint8, reflect.Uint16, reflect.Uint32, reflect.Uint64, reflect.Uintptr:\n		return true\n	default:\n		return false\n	}\n}", New: "func isUint(k reflect.Kind) bool {\n	return reflect.Uint <= k && k <= reflect.Uintptr\n}"})
}

func init() {
	// 8c56d44: the validators list uintptr
	addControl(control{Prop: "C04", Name: "min-without-a-case-for-uintptr", Rule: "R04l", Kind: "mutant", Quick: true,
		File: "validator.go", Old: "	case reflect.Uint, reflect.Uint8, reflect.Uint16, reflect.Uint32, reflect.Uint64, reflect.Uintptr:\n		min, err := strconv.ParseUint(param, 0, 64)", New: "	case reflect.Uint, reflect.Uint8, reflect.Uint16, reflect.Uint32, reflect.Uint64:\n		min, err := strconv.ParseUint(param, 0, 64)", Expect: "R04l/ucfg.validateMin"})
}

func init() {
	// round 11 (C19-r11a/b): a loader with a memory, a collector that adopts
	addControl(control{Prop: "C19", Name: "file-loader-remembers-what-it-loaded", Rule: "R19i", Kind: "mutant", Quick: true,
		File: "flag/file.go", Old: "	return newFlagValue(cfg, opts, func(path string) (*ucfg.Config, error, error) {\n		ext := filepath.Ext(path)\n", New: "	seen := map[string]bool{}\n	return newFlagValue(cfg, opts, func(path string) (*ucfg.Config, error, error) {\n		if seen[path] {\n			return nil, nil, nil\n		}\n		seen[path] = true\n		ext := filepath.Ext(path)\n", Expect: "R19i/flag.NewFlagFiles"})
	addControl(control{Prop: "C19", Name: "file-loader-with-a-local-table", Rule: "R19i", Kind: "refactor",
		File: "flag/file.go", Old: "		ext := filepath.Ext(path)\n		loader := extensions[ext]\n", New: "		tried := map[string]bool{}\n		ext := filepath.Ext(path)\n		tried[ext] = true\n		loader := extensions[ext]\n"})
	addControl(control{Prop: "C19", Name: "collector-adopts-the-first-config", Rule: "R19j", Kind: "mutant", Quick: true,
		File: "cfgutil/cfgutil.go", Old: "	if cfg != nil {\n		err = c.config.Merge(cfg, c.opts...)\n", New: "	if cfg != nil {\n		if len(c.config.GetFields()) == 0 && !c.config.IsArray() {\n			c.config = cfg\n			return nil\n		}\n		err = c.config.Merge(cfg, c.opts...)\n", Expect: "R19j/(*cfgutil.Collector).Add"})
	addControl(control{Prop: "C19", Name: "collector-config-made-on-demand", Rule: "R19j", Kind: "refactor",
		File: "cfgutil/cfgutil.go", Old: "func (c *Collector) Config() *ucfg.Config {\n	return c.config\n}", New: "func (c *Collector) Config() *ucfg.Config {\n	if c.config == nil {\n		c.config = ucfg.New()\n	}\n	return c.config\n}"})
}

func init() {
	// round 11 (C15-r11b): a merge walk over the two key lists is fine as long as FlattenedKeys sorts with sort.Strings
	addControl(control{Prop: "C15", Name: "diff-by-one-pass-over-sorted-keys", Rule: "R15n", Kind: "refactor",
		File: "diff/keys.go", Old: "\tdifference := make(map[string]Type)\n\n\t// Map for candidates check\n\tfor _, k := range oldKeys {\n\t\tdifference[k] = Remove\n\t}\n\n\tfor _, nk := range newKeys {\n\t\tif _, ok := difference[nk]; ok {\n\t\t\tdifference[nk] = Keep\n\t\t} else {\n\t\t\tdifference[nk] = Add\n\t\t}\n\t}\n\n\tinvert := make(Diff)\n\n\tfor k, v := range difference {\n\t\tinvert[v] = append(invert[v], k)\n\t}\n\n\treturn invert\n", New: "\td := make(Diff)\n\ti, j := 0, 0\n\tfor i < len(oldKeys) && j < len(newKeys) {\n\t\tswitch {\n\t\tcase oldKeys[i] == newKeys[j]:\n\t\t\td[Keep] = append(d[Keep], oldKeys[i])\n\t\t\ti++\n\t\t\tj++\n\t\tcase oldKeys[i] < newKeys[j]:\n\t\t\td[Remove] = append(d[Remove], oldKeys[i])\n\t\t\ti++\n\t\tdefault:\n\t\t\td[Add] = append(d[Add], newKeys[j])\n\t\t\tj++\n\t\t}\n\t}\n\tif i < len(oldKeys) {\n\t\td[Remove] = append(d[Remove], oldKeys[i:]...)\n\t}\n\tif j < len(newKeys) {\n\t\td[Add] = append(d[Add], newKeys[j:]...)\n\t}\n\treturn d\n"})
}

func init() {
	// round 11 (C14-r11a/b)
	addControl(control{Prop: "C14", Name: "path-error-handed-back-undecorated", Rule: "R14i", Kind: "mutant", Quick: true,
		File: "error.go", Old: "func raisePathErr(reason error, meta *Meta, message, path string) Error {\n", New: "func raisePathErr(reason error, meta *Meta, message, path string) Error {\n	if err, ok := reason.(Error); ok && message == \"\" && err.Path() != \"\" {\n		return err\n	}\n", Expect: "R14i/ucfg.raisePathErr"})
	for _, pr := range [][2]string{{"C14", "R14j"}, {"C15", "R15o"}} {
		addControl(control{Prop: pr[0], Name: "rendering-a-path-writes-into-the-parent-node", Rule: pr[1], Kind: "mutant", Quick: true,
			File: "types.go", Old: "	p := c.parent.Context()\n	if p.parent == nil && p.field == \"\" {\n		return c.field\n	}\n", New: "	p := c.parent.Context()\n	if p.parent == nil && p.field == \"\" {\n		return c.field\n	}\n	if s, ok := c.parent.(cfgSub); ok && s.c.metadata == nil {\n		s.c.metadata = &Meta{}\n	}\n", Expect: pr[1] + "/(*ucfg.context).path"})
		addControl(control{Prop: pr[0], Name: "path-rendered-with-a-builder", Rule: pr[1], Kind: "refactor",
			File: "types.go", Old: "	return fmt.Sprintf(\"%v%v%v\", p.path(sep), sep, c.field)\n", New: "	parts := []string{p.path(sep), c.field}\n	return parts[0] + sep + parts[1]\n"})
	}
}

func init() {
	// round 11 (C06-r11b): an object read as a list of one
	addControl(control{Prop: "C06", Name: "object-read-as-a-list-of-one", Rule: "R06l", Kind: "mutant", Quick: true,
		File: "reify.go", Old: "	if sub, ok := v.(cfgSub); ok {\n		return sub.c.fields.array(), nil\n	}\n	if ref, ok := v.(*cfgDynamic); ok {", New: "	if sub, ok := v.(cfgSub); ok {\n		if arr := sub.c.fields.array(); len(arr) > 0 || len(sub.c.fields.dict()) == 0 {\n			return arr, nil\n		}\n		return []value{sub}, nil\n	}\n	if ref, ok := v.(*cfgDynamic); ok {", Expect: "R06l/ucfg.castArr"})
}

func init() {
	// required looks behind pointers (repaired after the round-11 hunt, C04 H3)
	addControl(control{Prop: "C04", Name: "required-decides-on-the-outermost-pointer", Rule: "R04i", Kind: "mutant", Quick: true,
		File: "validator.go", Old: "	val := chaseValue(reflect.ValueOf(v))\n	if (val.Kind() == reflect.Ptr || val.Kind() == reflect.Interface) && val.IsNil() {\n		return ErrRequired\n	}\n", New: "	val := reflect.ValueOf(v)\n	if val.Kind() == reflect.Ptr && val.IsNil() {\n		return ErrRequired\n	}\n", Expect: "R04i/ucfg.validateRequired"})
}

func init() {
	// tryValidate unwraps what an interface or a chain of pointers holds (repaired after the round-11 hunt, C04 H2)
	addControl(control{Prop: "C04", Name: "validate-asked-of-the-holder", Rule: "R04m", Kind: "mutant", Quick: true,
		File: "validator.go", Old: "	for val.Kind() == reflect.Interface ||\n		(val.Kind() == reflect.Ptr && val.Type().Elem().Kind() == reflect.Ptr) {\n		if val.IsNil() {\n			return nil\n		}\n		val = val.Elem()\n	}\n\n	t := val.Type()\n", New: "	t := val.Type()\n", Expect: "R04m/ucfg.tryValidate"})
	addControl(control{Prop: "C04", Name: "validate-unwraps-with-the-chase-helper", Rule: "R04m", Kind: "refactor",
		File: "validator.go", Old: "	for val.Kind() == reflect.Interface ||\n		(val.Kind() == reflect.Ptr && val.Type().Elem().Kind() == reflect.Ptr) {\n		if val.IsNil() {\n			return nil\n		}\n		val = val.Elem()\n	}\n\n	t := val.Type()\n", New: "	for val.Kind() == reflect.Interface ||\n		(val.Kind() == reflect.Ptr && val.Type().Elem().Kind() == reflect.Ptr) {\n		if val.IsNil() {\n			return nil\n		}\n		val = chaseValueInterfaces(val.Elem())\n	}\n\n	t := val.Type()\n"})
}

func init() {
	// round 12 (C07-r12): hashing data — positive control for a rule whose expected count is zero
	addControl(control{Prop: "C07", Name: "list-entries-hashed-as-map-keys", Rule: "R07t", Kind: "mutant", Quick: true,
		File: "validator.go", Old: "func validateArray(val reflect.Value, opts *options) error {\n	for i := 0; i < val.Len(); i++ {\n", New: "func validateArray(val reflect.Value, opts *options) error {\n	seen := map[interface{}]bool{}\n	for i := 0; i < val.Len(); i++ {\n		if e := chaseValue(val.Index(i)); e.IsValid() && e.CanInterface() {\n			seen[e.Interface()] = true\n		}\n", Expect: "R07t/ucfg.validateArray"})
	addControl(control{Prop: "C07", Name: "list-entries-hashed-under-a-comparable-test", Rule: "R07t", Kind: "refactor",
		File: "validator.go", Old: "func validateArray(val reflect.Value, opts *options) error {\n	for i := 0; i < val.Len(); i++ {\n", New: "func validateArray(val reflect.Value, opts *options) error {\n	seen := map[interface{}]bool{}\n	for i := 0; i < val.Len(); i++ {\n		if e := chaseValue(val.Index(i)); e.IsValid() && e.CanInterface() && e.Comparable() {\n			seen[e.Interface()] = true\n		}\n"})
}

func init() {
	// round 13 (C19-r13, C15-r13)
	addControl(control{Prop: "C19", Name: "key-value-argument-trimmed", Rule: "R19k", Kind: "mutant", Quick: true,
		File: "flag/value.go", Old: "			key = args[0]\n			if args[1] == \"\" {\n				return nil, nil, nil\n			}\n\n			val, err = parse.Value(args[1])", New: "			key = strings.TrimSpace(args[0])\n			args[1] = strings.TrimSpace(args[1])\n			if args[1] == \"\" {\n				return nil, nil, nil\n			}\n\n			val, err = parse.Value(args[1])", Expect: "R19k/flag.NewFlagKeyValue"})
	addControl(control{Prop: "C15", Name: "flattened-keys-cut-relative-to-the-node", Rule: "R15p", Kind: "mutant", Quick: true,
		File: "ucfg.go", Old: "	keys := c.flattenedKeys(normalizedOptions)\n	sort.Strings(keys)\n", New: "	keys := c.flattenedKeys(normalizedOptions)\n	for i, k := range keys {\n		if p := c.Path(normalizedOptions.pathSep); len(p) < len(k) {\n			keys[i] = k[len(p):]\n		}\n	}\n	sort.Strings(keys)\n", Expect: "R15p/(*ucfg.Config).FlattenedKeys"})
}
