package main

// C13 — Unpack changes only what the config mentions and nothing when it fails.
// R13a struct unpacking commits last (reflect alias analysis of the caller's struct in
// reifyStruct); R13b slice merging never writes through the old slice; R13c the skip rule precedes
// every use of a field; R13d the list-policy dispatch of Unpack agrees with Merge's.

import (
	"fmt"
	"go/token"
	"go/types"
	"sort"
	"strings"

	"golang.org/x/tools/go/ssa"
)

func init() {
	register("C13", "Reflect alias analysis: in reifyStruct the values that alias the storage of the caller's struct (the parameter, and what chase*/pointerize/Elem/Field/Index/Addr derive from it) may only be read (Type, Kind, IsNil, ...), copied out of (source operand of Set on a non-alias), or be the receiver of exactly one Set — the commit — whose operand derives from the fresh copy and which is followed only by `return nil`; no other function receives an alias, so InitDefaults, field unpacking, Unpacker calls and validation all run on the copy and every failing exit precedes the commit. The same analysis shows reifySliceMerge only reads its old slice and returns a fresh one. In accessField the reflect Field access is dominated by the exported and !ignore tests and both callers use the field info only under !skip. The configHandling switch of reifySliceMerge partitions the installable policy constants exactly as mergeConfigArr does (enum-dispatch simulation). Which fields are overwritten for which settings is value-level and not decided; maps and pointees are excluded by the property itself.", checkC13)
}

var reflectReadOnly = map[string]bool{"Type": true, "Kind": true, "IsNil": true, "IsValid": true, "CanAddr": true, "CanSet": true, "CanInterface": true,
	"Len": true, "Cap": true, "NumField": true, "NumMethod": true, "IsZero": true, "String": true, "Int": true, "Uint": true, "Float": true, "Bool": true}
var reflectAliasing = map[string]bool{"Elem": true, "Field": true, "Index": true, "Addr": true, "FieldByName": true, "FieldByIndex": true, "Slice": true}
var aliasHelpers = map[string]bool{"chaseValue": true, "chaseValuePointers": true, "chaseValueInterfaces": true, "pointerize": true}

type aliasUse struct {
	in   ssa.Instruction
	kind string // "write" | "escape" | "commit"
	what string
}

// reflectAliases computes the values aliasing param's storage and classifies every non-read use.
func reflectAliases(c *Ctx, fn *ssa.Function, param ssa.Value) (map[ssa.Value]bool, []aliasUse) {
	set := map[ssa.Value]bool{param: true}
	for changed := true; changed; {
		changed = false
		Instrs(fn, true, func(in ssa.Instruction) {
			v, ok := in.(ssa.Value)
			if !ok || set[v] {
				return
			}
			switch x := in.(type) {
			case *ssa.Phi:
				for _, e := range x.Edges {
					if set[e] {
						set[v] = true
						changed = true
					}
				}
			case *ssa.Call:
				f := x.Call.StaticCallee()
				if f == nil {
					return
				}
				isReflectMethod := f.Pkg != nil && f.Pkg.Pkg.Path() == "reflect" && f.Signature.Recv() != nil
				switch {
				case isReflectMethod && reflectAliasing[f.Name()] && set[x.Call.Args[0]]:
					set[v] = true
					changed = true
				case c.InRepo(f) && aliasHelpers[f.Name()]:
					for _, a := range x.Call.Args {
						if set[a] {
							set[v] = true
							changed = true
						}
					}
				}
			case *ssa.Extract:
				if set[x.Tuple] {
					set[v] = true
					changed = true
				}
			case *ssa.UnOp:
				// load of a local that stores an alias
				if vals, ok := localStores(x.X); ok {
					for _, s := range vals {
						if set[s] {
							set[v] = true
							changed = true
						}
					}
				}
			}
		})
	}
	var uses []aliasUse
	Instrs(fn, true, func(in ssa.Instruction) {
		ci, ok := in.(ssa.CallInstruction)
		if !ok {
			return
		}
		cc := ci.Common()
		f := cc.StaticCallee()
		args := cc.Args
		anyAlias := false
		for _, a := range args {
			if set[a] {
				anyAlias = true
			}
		}
		if cc.IsInvoke() && set[cc.Value] {
			anyAlias = true
		}
		if !anyAlias {
			return
		}
		if f == nil {
			uses = append(uses, aliasUse{in, "escape", "dynamic call " + CalleeName(c, ci)})
			return
		}
		isReflect := f.Pkg != nil && f.Pkg.Pkg.Path() == "reflect"
		switch {
		case isReflect && f.Signature.Recv() != nil:
			recvAlias := set[args[0]]
			name := f.Name()
			switch {
			case recvAlias && (reflectReadOnly[name] || reflectAliasing[name] || name == "Interface" || name == "MapIndex" || name == "MapKeys" || name == "Convert"):
				// read
			case recvAlias && (strings.HasPrefix(name, "Set") || name == "Grow" || name == "Clear"):
				uses = append(uses, aliasUse{in, "commit", "reflect " + name + " on the caller's storage"})
			case !recvAlias:
				// alias used as an operand (source of Set, key of MapIndex...): a read
			default:
				uses = append(uses, aliasUse{in, "escape", "reflect method " + name})
			}
		case isReflect:
			if f.Name() == "Copy" && set[args[0]] {
				uses = append(uses, aliasUse{in, "write", "reflect.Copy into the caller's storage"})
			}
			if (f.Name() == "Append" || f.Name() == "AppendSlice") && set[args[0]] {
				// result is a new slice value; reading
			}
		case c.InRepo(f) && aliasHelpers[f.Name()]:
			// alias-preserving helpers
		case c.InRepo(f):
			uses = append(uses, aliasUse{in, "escape", "passed to " + f.Name()})
		default:
			// library function (fmt etc.): reads
		}
	})
	return set, uses
}

func checkC13(c *Ctx, r *Report) {
	defer representationTestRule(c, r)
	defer nothingToStoreRule(c, r)
	defer inheritedPolicyRule(c, r)
	r.Assumption("maps and pointed-to objects shared by the struct may be modified by a failing Unpack (excluded by the property); top-level slice/array targets are written in place (the statement is about structs)")
	r.Assumption("which fields are overwritten for which subset of settings is value-level and not decided")

	// ---- R13a ----
	r.Rule("R13a", "reifyStruct: the caller's struct is only read, copied out of, or committed to by one final Set whose operand is the fresh copy and which is followed only by `return nil`; no other function receives it", 3)
	rs := c.Func("", "reifyStruct")
	name := c.FnName(rs)
	var orig ssa.Value
	for _, p := range rs.Params {
		if isNamed(p.Type(), "reflect", "Value") {
			orig = p
		}
	}
	if orig == nil {
		undecidedf("ANCHOR-MISSING: reifyStruct has no reflect.Value parameter")
	}
	set, uses := reflectAliases(c, rs, orig)
	r.Analysed["values aliasing the caller's struct"] = len(set)
	var commits []aliasUse
	nbad := 0
	for _, u := range uses {
		switch u.kind {
		case "commit":
			commits = append(commits, u)
		default:
			nbad++
			r.Bad("R13a", name, "caller's struct "+u.kind, c.Pos(u.in.Pos()), "the caller's struct (not the working copy) is "+u.what+" before the final commit: a later failure leaves it modified")
		}
	}
	if nbad == 0 {
		r.OK("R13a", name, "caller's struct only read", c.Pos(rs.Pos()), fmt.Sprintf("%d aliasing values, no write or escape besides the commit", len(set)))
	}
	switch len(commits) {
	case 0:
		r.Bad("R13a", name, "commit", c.Pos(rs.Pos()), "reifyStruct never assigns the result back to the caller's struct")
	case 1:
		cm := commits[0].in.(*ssa.Call)
		// operand derives from the fresh copy
		fresh := false
		for _, s := range deepSources(cm.Call.Args[1]) {
			if call, ok := s.(*ssa.Call); ok {
				if f := call.Call.StaticCallee(); f != nil && f.String() == "reflect.New" {
					fresh = true
				}
			}
		}
		r.Check(fresh, "R13a", name, "commit operand", c.Pos(cm.Pos()), "the value committed derives from reflect.New (the working copy)", "the value assigned back does not derive from the working copy")
		// nothing that can fail after the commit: rest of the block is return nil
		after := false
		okAfter := true
		for _, in := range cm.Block().Instrs {
			if in == ssa.Instruction(cm) {
				after = true
				continue
			}
			if !after {
				continue
			}
			switch x := in.(type) {
			case *ssa.Return:
				for i := range x.Results {
					if !IsNilConst(RetVal(x, i)) {
						okAfter = false
					}
				}
			case *ssa.RunDefers, *ssa.Store, *ssa.UnOp, *ssa.DebugRef:
			default:
				okAfter = false
			}
		}
		if _, isRet := lastInstr(cm.Block()).(*ssa.Return); !isRet {
			okAfter = false
		}
		r.Check(okAfter, "R13a", name, "commit is last", c.Pos(cm.Pos()), "the commit is followed only by `return nil`", "something that can fail (or another write) follows the assignment to the caller's struct")
		// every failing return is not dominated by the commit (implied) and every other return is
		for _, ret := range Returns(rs) {
			if ret.Block() == cm.Block() {
				continue
			}
			if successfulReturn(ret) {
				r.Bad("R13a", name, "success without commit", c.Pos(ret.Pos()), "a successful return does not pass the commit: the caller's struct is not updated")
			}
		}
	default:
		for _, u := range commits {
			r.Bad("R13a", name, "commit", c.Pos(u.in.Pos()), "the caller's struct is assigned more than once: an early assignment is not undone when a later step fails")
		}
	}

	// ---- R13b ----
	r.Rule("R13b", "reifySliceMerge only reads its old slice (IsValid/IsNil/Len, source of reflect.Copy) and returns a slice made by reflect.MakeSlice", 2)
	sm := c.Func("", "reifySliceMerge")
	{
		var old ssa.Value
		for _, p := range sm.Params {
			if isNamed(p.Type(), "reflect", "Value") {
				old = p
			}
		}
		_, uses := reflectAliases(c, sm, old)
		bad := ""
		for _, u := range uses {
			bad = u.what + " at " + c.Pos(u.in.Pos())
		}
		r.Check(bad == "", "R13b", c.FnName(sm), "old slice only read", c.Pos(sm.Pos()), "no write through, or escape of, the old slice", "the pre-filled slice is modified in place ("+bad+"): a failing Unpack leaves it changed")
		fresh := false
		for _, ci := range CallsIn(sm, false) {
			if f := ci.Common().StaticCallee(); f != nil && f.String() == "reflect.MakeSlice" {
				fresh = true
			}
		}
		r.Check(fresh, "R13b", c.FnName(sm), "fresh result", c.Pos(sm.Pos()), "the merged slice is built with reflect.MakeSlice", "reifySliceMerge does not build a new slice")
	}

	// ---- R13c ----
	r.Rule("R13c", "accessField touches the struct field only for exported, non-ignored fields; its callers use the field info only under !skip", 3)
	af := c.Func("", "accessField")
	{
		n := 0
		for _, ci := range CallsIn(af, false) {
			f := ci.Common().StaticCallee()
			if f == nil || f.Pkg == nil || f.Pkg.Pkg.Path() != "reflect" || f.Name() != "Field" || !strings.HasSuffix(f.Signature.Recv().Type().String(), "reflect.Value") {
				continue
			}
			n++
			exported, notIgnored := false, false
			for _, cd := range ExpandConds(DomConds(ci.(ssa.Instruction).Block())) {
				v, truth := cd.V, cd.Truth
				if call, ok := v.(*ssa.Call); ok && truth {
					if g := call.Call.StaticCallee(); g != nil && g.String() == "unicode.IsUpper" {
						exported = true
					}
				}
				if l, ok := v.(*ssa.UnOp); ok && !truth {
					if _, fld, ok := FieldOf(l.X); ok && fld == "ignore" {
						notIgnored = true
					}
				}
				if fld, ok := v.(*ssa.Field); ok && !truth {
					if _, nm, ok := FieldOf(fld); ok && nm == "ignore" {
						notIgnored = true
					}
				}
			}
			r.Check(exported && notIgnored, "R13c", c.FnName(af), "field access guarded", c.Pos(ci.Pos()), "dominated by IsUpper(first rune) and !ignore", "a struct field is accessed before the exported / ignore tests: unexported or ignored fields can be touched")
		}
		if n == 0 {
			r.Bad("R13c", c.FnName(af), "field access guarded", c.Pos(af.Pos()), "accessField does not access the field")
		}
		// skip returns carry no field value
		for _, ret := range Returns(af) {
			if len(ret.Results) != 3 {
				continue
			}
			if b, ok := ConstBool(ret.Results[1]); ok && b {
				// result 0 must be the zero fieldInfo
				zero := true
				for _, s := range Sources(ret.Results[0]) {
					if l, ok := s.(*ssa.UnOp); ok {
						if a, ok := l.X.(*ssa.Alloc); ok {
							// members written — but only writes that can happen before this load count (a local that
							// stays the zero value until the field is accepted)
							for _, ref := range *a.Referrers() {
								fa, isFA := ref.(*ssa.FieldAddr)
								if !isFA {
									continue
								}
								for _, r2 := range *fa.Referrers() {
									st, isSt := r2.(*ssa.Store)
									if !isSt {
										if _, isLoad := r2.(*ssa.UnOp); !isLoad {
											zero = false // address of a member handed on
										}
										continue
									}
									if st.Block() == l.Block() {
										if InstrDominates(st, l) {
											zero = false
										}
									} else if reachableFromEdge(nil, st.Block(), l.Block(), nil) {
										zero = false
									}
								}
							}
						}
					} else if k, ok := s.(*ssa.Const); !ok || k.Value != nil {
						zero = false
					}
				}
				r.Check(zero, "R13c", c.FnName(af), "skip returns nothing", c.Pos(ret.Pos()), "zero fieldInfo with skip = true", "a skipped field is returned with a field value")
			}
		}
		for _, fn := range c.SrcFuncs() {
			for _, ci := range CallsTo(fn, af, false) {
				call := ci.(*ssa.Call)
				var info, skip *ssa.Extract
				for _, ref := range *call.Referrers() {
					if e, ok := ref.(*ssa.Extract); ok {
						switch e.Index {
						case 0:
							info = e
						case 1:
							skip = e
						}
					}
				}
				if info == nil || skip == nil {
					r.Bad("R13c", c.FnName(fn), "uses under !skip", c.Pos(ci.Pos()), "the caller ignores the skip result of accessField")
					continue
				}
				// every load of the field info (through its local) dominated by skip == false
				var cells []ssa.Value
				for _, ref := range *info.Referrers() {
					if st, ok := ref.(*ssa.Store); ok && st.Val == ssa.Value(info) {
						cells = append(cells, st.Addr)
					}
				}
				ok := true
				check := func(in ssa.Instruction) {
					guarded := false
					for _, cd := range DomConds(in.Block()) {
						if cd.V == ssa.Value(skip) && !cd.Truth {
							guarded = true
						}
					}
					if !guarded {
						ok = false
					}
				}
				for _, cell := range cells {
					for _, ref := range *cell.Referrers() {
						switch x := ref.(type) {
						case *ssa.FieldAddr:
							check(x)
						case *ssa.UnOp:
							check(x)
						}
					}
				}
				for _, ref := range *info.Referrers() {
					if _, isSt := ref.(*ssa.Store); !isSt {
						if in, isIn := ref.(ssa.Instruction); isIn {
							check(in)
						}
					}
				}
				r.Check(ok, "R13c", c.FnName(fn), "uses under !skip", c.Pos(ci.Pos()), "the field info is only read where skip is false", "the field info of a skipped (unexported / ignored) field is used")
			}
		}
	}

	// ---- R13d ----
	r.Rule("R13d", "the configHandling switch of reifySliceMerge puts two installable policy constants into the same class exactly when mergeConfigArr does", 1)
	enumT, consts := handlingEnum(c)
	arr := c.Func("", "mergeConfigArr")
	dm := findDispatches(arr, enumT)
	du := findDispatches(sm, enumT)
	if len(dm) != 1 || len(du) != 1 {
		r.add("R13d", c.FnName(sm), "dispatch agreement", c.Pos(sm.Pos()), Undecided, true, fmt.Sprintf("expected one configHandling dispatch each, found %d in mergeConfigArr and %d in reifySliceMerge", len(dm), len(du)))
		return
	}
	installed := installedHandling(c)
	inst := map[int64]bool{0: true}
	for _, k := range installed {
		inst[k] = true
	}
	classM := map[int64]string{}
	classU := map[int64]*ssa.BasicBlock{}
	for _, k := range consts {
		if !inst[k.Val] {
			continue
		}
		if f := firstRepoCall(c, dm[0].Target(k.Val, enumT)); f != nil {
			classM[k.Val] = f.Name()
		}
		classU[k.Val] = du[0].Target(k.Val, enumT)
	}
	var diffs []string
	for _, a := range consts {
		for _, b := range consts {
			if a.Val >= b.Val || !inst[a.Val] || !inst[b.Val] {
				continue
			}
			sameM := classM[a.Val] == classM[b.Val]
			sameU := classU[a.Val] == classU[b.Val]
			if sameM != sameU {
				rel := map[bool]string{true: "together with", false: "apart from"}
				diffs = append(diffs, fmt.Sprintf("%s is %s %s in Merge but %s it in Unpack", a.Name, rel[sameM], b.Name, rel[sameU]))
			}
		}
	}
	sort.Strings(diffs)
	r.Check(len(diffs) == 0, "R13d", c.FnName(sm), "dispatch agreement", c.Pos(sm.Pos()), "both dispatchers partition the installable policies identically", "unpacking into a pre-filled slice applies a different list policy than Merge: "+strings.Join(diffs, "; "))
	_ = types.Identical
	r.Rule("R13e", "nothing is carried from one Unpack to the next: no package-level variable is handed by address to library code except the atomic sequence counter (a memo of tag parsing keyed without the tag name lets an earlier call decide which fields a later call writes)", 1)
	globalStateRuleAs(c, r, "R13e")
}

// representationTestRule (R13f): while unpacking, "is this setting an object / a list" is a question about what the
// setting evaluates to, not about how it is stored: a ${reference} to a section is a *cfgDynamic, not a cfgSub. A
// decision between merging into the target and replacing it that is taken on the representation (isSub, an
// assertion to cfgSub) treats the same settings differently depending on whether they were written out or
// referred to. On the unpack path such a test is made on the result of an evaluation (getValue), or next to the
// reference case on the same value.
func representationTestRule(c *Ctx, r *Report) {
	r.Rule("R13f", "on the unpack path a setting is tested for being a stored sub-config (isSub, assertion to cfgSub) only after evaluation, or together with the *cfgDynamic case on the same value", 2)
	isSubF := c.TryFunc("", "isSub")
	subT := c.Named("", "cfgSub")
	dynT := types.NewPointer(c.Named("", "cfgDynamic"))
	for _, fn := range c.SrcFuncs() {
		if fn.Pkg != c.SSA[""] {
			continue
		}
		file := c.Pos(fn.Pos())
		if !strings.HasPrefix(file, "reify.go:") && !strings.HasPrefix(file, "unpack.go:") {
			continue
		}
		name := c.FnName(fn)
		// operands asserted to *cfgDynamic in this function
		var dynOperands []ssa.Value
		Instrs(fn, false, func(in ssa.Instruction) {
			if ta, ok := in.(*ssa.TypeAssert); ok && types.Identical(ta.AssertedType, dynT) {
				dynOperands = append(dynOperands, ta.X)
			}
		})
		check := func(x ssa.Value, pos token.Pos, what string) {
			evaluated := false
			for _, s := range append(Sources(x), x) {
				if ex, ok := s.(*ssa.Extract); ok {
					if call, ok := ex.Tuple.(*ssa.Call); ok {
						n := ""
						if call.Call.IsInvoke() {
							n = call.Call.Method.Name()
						} else if g := call.Call.StaticCallee(); g != nil {
							n = g.Name()
						}
						if n == "getValue" || n == "cachedValue" {
							evaluated = true
						}
					}
				}
			}
			paired := false
			for _, o := range dynOperands {
				if o == x || SameValue(o, x) || sameSrc(o, x) {
					paired = true
				}
			}
			r.Check(evaluated || paired, "R13f", name, what, c.Pos(pos), "on an evaluated value, or next to the reference case",
				"the unpack path decides on the stored representation of a setting ("+what+") without the reference case: a setting that refers to a section or a list (${path}) is a *cfgDynamic and takes the branch meant for plain values — the target is replaced where it would be merged, the fields the configuration does not mention are lost")
		}
		Instrs(fn, false, func(in ssa.Instruction) {
			switch x := in.(type) {
			case *ssa.Call:
				if isSubF != nil && IsCallTo(x, isSubF) {
					check(x.Call.Args[0], x.Pos(), "isSub")
				}
			case *ssa.TypeAssert:
				if types.Identical(x.AssertedType, subT) && isNamed(x.X.Type(), modPath, "value") {
					check(x.X, x.Pos(), "assertion to cfgSub")
				}
			}
		})
	}
}

// inheritedPolicyRule (R13g): the merging policy in force while a struct is unpacked — the global option given to
// Unpack, or the tag of an enclosing field — applies to every field below that does not name a policy of its own.
// accessField builds the options for a field's subtree: it replaces the handling only under a test that the tag
// names one (cfgHandling != cfgDefaultHandling). Without the test every untagged field resets the policy to the
// default, and AppendValues / PrependValues / ReplaceValues given to Unpack do nothing for struct fields.
func inheritedPolicyRule(c *Ctx, r *Report) {
	r.Rule("R13g", "accessField replaces options.configValueHandling only when the field's tag names a handling (tagOpts.cfgHandling != cfgDefaultHandling)", 1)
	af := c.Func("", "accessField")
	optsT := c.Named("", "options")
	n := 0
	Instrs(af, false, func(in ssa.Instruction) {
		st, ok := in.(*ssa.Store)
		if !ok {
			return
		}
		nt, f, ok := FieldOf(st.Addr)
		if !ok || nt != optsT || f != "configValueHandling" {
			return
		}
		n++
		named := false
		for _, cd := range ExpandConds(DomConds(st.Block())) {
			bo, isB := cd.V.(*ssa.BinOp)
			if !isB || !(bo.Op == token.NEQ && cd.Truth || bo.Op == token.EQL && !cd.Truth) {
				continue
			}
			for _, pair := range [][2]ssa.Value{{bo.X, bo.Y}, {bo.Y, bo.X}} {
				if k, isK := ConstInt(pair[1]); isK && k == 0 {
					for _, s := range append(Sources(pair[0]), pair[0]) {
						if _, fn2, okF := FieldOf(s); okF && fn2 == "cfgHandling" {
							named = true
						}
						if l, isL := s.(*ssa.UnOp); isL {
							if _, fn2, okF := FieldOf(l.X); okF && fn2 == "cfgHandling" {
								named = true
							}
						}
					}
				}
			}
		}
		r.Check(named, "R13g", c.FnName(af), "policy replaced only when the tag names one", c.Pos(st.Pos()), "under tagOpts.cfgHandling != cfgDefaultHandling",
			"accessField overwrites the handling in force with the tag's handling without testing that the tag names one: a field without a policy tag resets the policy to the default, so the global AppendValues / PrependValues / ReplaceValues given to Unpack (and the tag of an enclosing field) are ignored for struct fields — lists are merged index by index instead")
	})
	if n == 0 {
		r.add("R13g", c.FnName(af), "policy replaced only when the tag names one", c.Pos(af.Pos()), Undecided, true, "accessField does not set options.configValueHandling")
	}
}

// nothingToStoreRule (R13h): the routines of the unpack family answer (value, error). The value is what the caller
// stores in the place it handed over — also when that place could only be handed over as a copy (a struct, map or
// array held by an interface or a map entry is unpacked into a temporary, reifyMergeValue's `!old.CanSet()` branch).
// A successful answer without a value ("merged in place, nothing to store") drops what was unpacked into such a
// temporary: the settings the configuration names for it never reach the target, and no error says so.
func nothingToStoreRule(c *Ctx, r *Report) {
	r.Rule("R13h", "no routine of the unpack family returns the zero reflect.Value together with an error that can be nil: a successful answer carries the value the caller has to store", 14)
	errT := c.Named("", "Error")
	for _, fn := range c.SrcFuncs() {
		if fn.Pkg != c.SSA[""] {
			continue
		}
		res := fn.Signature.Results()
		if res.Len() != 2 || !isNamed(res.At(0).Type(), "reflect", "Value") || namedOf(res.At(1).Type()) != errT {
			continue
		}
		bad := ""
		n := 0
		for _, ret := range Returns(fn) {
			if len(ret.Results) != 2 {
				continue
			}
			n++
			k, isConst := RetVal(ret, 0).(*ssa.Const)
			if !isConst || k.Value != nil {
				continue
			}
			if !nonNilAt(RetVal(ret, 1), ret.Block(), 0) {
				bad = c.Pos(ret.Pos())
			}
		}
		r.Check(bad == "", "R13h", c.FnName(fn), "a value with every successful answer", c.Pos(fn.Pos()), fmt.Sprintf("%d returns: the zero Value only next to an error that is not nil", n),
			"a return hands back the zero reflect.Value while the error can be nil (at "+bad+"): the caller has nothing to store, and what was unpacked into a temporary copy of a struct, map or array held by an interface or a map entry is lost without an error")
	}
}

// nonNilAt: v is not nil whenever control is in block `at` — by nilness, or, for a value that joins several ways
// (the results of an inlined helper meet in a φ that is tested right away), way by way: an alternative that can be nil
// does not count when the test that leads to `at` has the other outcome on that way in.
func nonNilAt(v ssa.Value, at *ssa.BasicBlock, depth int) bool {
	if nilness(v, at, 0) == 1 {
		return true
	}
	phi, ok := v.(*ssa.Phi)
	if !ok || depth > 4 {
		return false
	}
	for i, e := range phi.Edges {
		if e == ssa.Value(phi) {
			continue
		}
		if phiEdgeInfeasible(phi, i, at) {
			continue
		}
		if i < len(phi.Block().Preds) && nilness(e, phi.Block().Preds[i], 0) == 1 {
			continue
		}
		if inner, isPhi := e.(*ssa.Phi); isPhi && nonNilAt(inner, at, depth+1) {
			continue
		}
		return false
	}
	return true
}
