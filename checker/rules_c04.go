package main

// C04 — a successful Unpack returns only values that satisfy every declared validator.
// Must-pass-through rules (E5) over the unpack family: every successful exit of a value-producing
// routine has run the field's validators (R04a) and the value's Validate() (R04b) or forwards to a
// family member that receives the same validators; absent settings are validated too (R04c, part of
// R04a for reifyGetField); accessField is the only reader of the validator tag and its result is
// what the family is given (R04d).

import (
	"fmt"
	"go/token"
	"go/types"
	"sort"
	"strings"

	"golang.org/x/tools/go/ssa"
)

func init() {
	register("C04", "Must-pass-through analysis on the SSA control-flow graphs of the unpack family. Slots are found from the stores into the caller's target (reflect Set/SetMapIndex of a value produced by a family call) and closed under forwarding. Every successful return (error operand nil, or the forwarded error of a family member) of every slot must (i) be preceded on all paths by runValidators/tryRecursiveValidate on the function's own validators, or (ii) forward the result of a family member that receives those same validators, or (iii) lie on a path whose dominating reflect-kind facts fix the produced value to a struct or Config-convertible type (no built-in validator inspects those). The same for Validate() via tryValidate/tryRecursiveValidate. Decides that no traversal path skips the validators, for all target types and configurations; that each built-in validator computes the right predicate is not decided.", checkC04)
}

type c04slot struct {
	fn     *ssa.Function
	fopts  *ssa.Parameter // fieldOptions parameter (validators = its .validators)
	vparam *ssa.Parameter // []validatorTag parameter
}

func c04slotOf(fn *ssa.Function) *c04slot {
	s := &c04slot{fn: fn}
	for _, p := range fn.Params {
		if isNamed(p.Type(), modPath, "fieldOptions") {
			s.fopts = p
		}
		if sl, ok := p.Type().Underlying().(*types.Slice); ok && isNamed(sl.Elem(), modPath, "validatorTag") {
			s.vparam = p
		}
	}
	if s.fopts == nil && s.vparam == nil {
		return nil
	}
	return s
}

// ownValidators: does v derive only from the slot's own validators input?
func (s *c04slot) ownValidators(v ssa.Value) bool {
	srcs := Sources(v)
	if len(srcs) == 0 {
		return false
	}
	for _, x := range srcs {
		switch y := x.(type) {
		case *ssa.Parameter:
			if y != s.vparam {
				return false
			}
		case *ssa.Field:
			if _, f, ok := FieldOf(y); !ok || f != "validators" || y.X != ssa.Value(s.fopts) {
				return false
			}
		case *ssa.UnOp:
			// load of opts.validators through the spilled parameter
			p, ok := AccessPath(y)
			if !ok || s.fopts == nil || p != s.fopts.Name()+".validators" {
				return false
			}
		default:
			return false
		}
	}
	return true
}

// ownFopts: is v the slot's own fieldOptions value?
func (s *c04slot) ownFopts(v ssa.Value) bool {
	if s.fopts == nil {
		return false
	}
	for _, x := range Sources(v) {
		if x == ssa.Value(s.fopts) {
			continue
		}
		if p, ok := AccessPath(x); ok && p == s.fopts.Name() {
			continue
		}
		return false
	}
	return true
}

func checkC04(c *Ctx, r *Report) {
	defer nanRule(c, r)
	defer everyFieldHandledRule(c, r)
	defer validatorSiblingsRule(c, r)
	defer validatorKindsRule(c, r)
	defer validateUnwrapsRule(c, r)
	r.Assumption("custom validators registered with RegisterValidator and Validate() methods are user code; the rule decides that they are called, not what they accept")
	r.Assumption("kind waiver: no built-in validator inspects struct values or Config-convertible values; a pointer is looked through by every built-in validator (R04i)")
	runV := c.Func("", "runValidators")
	tryV := c.Func("", "tryValidate")
	tryRec := c.Func("", "tryRecursiveValidate")

	// ---- slots: producers called at store sites, closed under forwarding ----
	slots := map[*ssa.Function]*c04slot{}
	var work []*ssa.Function
	addSlot := func(f *ssa.Function) {
		if f == nil || slots[f] != nil || f.Pkg != c.SSA[""] {
			return
		}
		if s := c04slotOf(f); s != nil {
			slots[f] = s
			work = append(work, f)
		}
	}
	storeSites := 0
	for _, fn := range c.SrcFuncs() {
		if fn.Pkg != c.SSA[""] {
			continue
		}
		for _, ci := range CallsIn(fn, false) {
			g := ci.Common().StaticCallee()
			if g == nil || g.Pkg == nil || g.Pkg.Pkg.Path() != "reflect" || !(g.Name() == "Set" || g.Name() == "SetMapIndex") {
				continue
			}
			for _, a := range ci.Common().Args[1:] {
				for _, src := range deepSources(a) {
					if e, ok := src.(*ssa.Extract); ok {
						if call, ok := e.Tuple.(*ssa.Call); ok {
							if f := call.Call.StaticCallee(); f != nil && c04slotOf(f) != nil {
								storeSites++
								addSlot(f)
								addSlot(fn)
							}
						}
					}
				}
			}
		}
	}
	r.Rule("R04a", "every successful return of every value-producing unpack routine has run the field's validators on all paths, forwards to a family member given the same validators, or produces a struct/Config-kind value", 20)
	r.Rule("R04b", "every successful return of every value-producing unpack routine has called Validate() on the produced value (tryValidate / tryRecursiveValidate) or forwards to a family member", 20)
	if storeSites == 0 {
		r.add("R04a", "ucfg", "store sites", "-", Undecided, true, "no store of a produced value into the target found: the unpack family was not recognised")
		return
	}
	done := map[*ssa.Function]bool{}
	for len(work) > 0 {
		fn := work[0]
		work = work[1:]
		if done[fn] {
			continue
		}
		done[fn] = true
		s := slots[fn]
		name := c.FnName(fn)
		r.Analysed["unpack family slots"]++
		isValidators := func(in ssa.Instruction) bool {
			ci, ok := in.(ssa.CallInstruction)
			if !ok {
				return false
			}
			switch {
			case IsCallTo(ci, runV):
				return s.ownValidators(ci.Common().Args[1])
			case IsCallTo(ci, tryRec):
				return s.ownValidators(ci.Common().Args[2])
			}
			return false
		}
		isValidate := func(in ssa.Instruction) bool {
			ci, ok := in.(ssa.CallInstruction)
			return ok && (IsCallTo(ci, tryV) || IsCallTo(ci, tryRec))
		}
		for _, ret := range Returns(fn) {
			if !successfulReturn(ret) {
				continue
			}
			pos := c.Pos(ret.Pos())
			only := func(x *ssa.Return) bool { return x == ret }
			vOK := len(MustPass(fn, isValidators, only)) == 0
			valOK := len(MustPass(fn, isValidate, only)) == 0
			if !vOK { // path-sensitive refinement: infeasible skipping paths do not count
				if missing, und := MustPassRefined(fn, isValidators, ret); !missing && !und {
					vOK = true
				}
			}
			if !valOK {
				if missing, und := MustPassRefined(fn, isValidate, ret); !missing && !und {
					valOK = true
				}
			}
			waiver := kindWaiver(ret.Block())
			isMapFact := strings.Contains(waiver, "reflect.Map")
			fwd, fwdTo, fwdGets := forwardOf(c, s, ret)
			if fwd && fwdGets {
				addSlotIfFamily(c, fwdTo, slots, &work)
			}
			what := "return"
			if fwd {
				what = "return after " + fwdTo.Name()
			}
			// R04a
			switch {
			case vOK:
				r.OK("R04a", name, what+" validated", pos, "runValidators/tryRecursiveValidate on the own validators on every path")
			case fwd && fwdGets:
				r.OK("R04a", name, what+" validated", pos, "forwards to "+fwdTo.Name()+", which receives the same validators")
			case waiver != "" && !isMapFact:
				r.OK("R04a", name, what+" validated", pos, "kind waiver: "+waiver)
			case isMapFact && c04Exception(name, "map") != "":
				r.Except("R04a", name, what+" validated", pos, c04Exception(name, "map"))
			default:
				msg := "a value is produced and returned as success without running the field's validators on some path (validate tag skipped)"
				if fwd {
					msg = "the value is produced by " + fwdTo.Name() + " which is not given this field's validators, and they are not run afterwards: validate tags on such a field are silently skipped"
				}
				r.Bad("R04a", name, what+" validated", pos, msg)
			}
			// R04b
			switch {
			case valOK:
				r.OK("R04b", name, what+" calls Validate", pos, "tryValidate/tryRecursiveValidate on every path")
			case fwd:
				r.OK("R04b", name, what+" calls Validate", pos, "forwards to "+fwdTo.Name()+", which validates what it produces")
			case strings.Contains(waiver, "Config"):
				r.OK("R04b", name, what+" calls Validate", pos, "kind waiver: "+waiver)
			case returnsGenericView(ret):
				r.OK("R04b", name, what+" calls Validate", pos, "the value is the generic view produced by value.reify (bool, numbers, string, []interface{}, map[string]interface{}): no Validate method can exist")
			default:
				r.Bad("R04b", name, what+" calls Validate", pos, "a value is produced and returned as success without calling its Validate() method on some path")
			}
		}
	}
	var names []string
	for f := range slots {
		names = append(names, f.Name())
	}
	sort.Strings(names)
	r.Note("unpack family slots: %s", strings.Join(names, ", "))

	durationUnitRule(c, r)
	elementCoverageRule(c, r)
	keptEntriesRule(c, r)
	validatedIsReturnedRule(c, r)
	// ---- R04d ----
	r.Rule("R04d", "parseValidatorTags is called only by accessField on the struct tag named by options.validatorTag; every fieldOptions built in reifyStruct / validateStruct takes its validators from accessField's result", 4)
	pvt := c.Func("", "parseValidatorTags")
	af := c.Func("", "accessField")
	for _, fn := range c.SrcFuncs() {
		for _, ci := range CallsTo(fn, pvt, true) {
			ok := fn == af
			if ok {
				// argument is Tag.Get(opts.validatorTag)
				ok = false
				if call, isCall := ci.Common().Args[0].(*ssa.Call); isCall {
					if g := call.Call.StaticCallee(); g != nil && g.Name() == "Get" {
						for _, a := range call.Call.Args {
							if IsLoadOfField(a, "options", "validatorTag") {
								ok = true
							}
						}
					}
				}
			}
			r.Check(ok, "R04d", c.FnName(fn), "validator tag parsed", c.Pos(ci.Pos()), "accessField parses Tag.Get(opts.validatorTag)", "validator tags are parsed outside accessField or not from the configured tag name")
		}
	}
	for _, fn := range c.SrcFuncs() {
		// functions that have a field's info at hand: they call accessField or are handed a fieldInfo
		hasInfo := len(CallsTo(fn, af, false)) > 0
		for _, p := range fn.Params {
			if isNamed(p.Type(), modPath, "fieldInfo") {
				hasInfo = true
			}
		}
		if !hasInfo {
			continue
		}
		name := c.FnName(fn)
		// stores into fieldOptions.validators and validators arguments of tryRecursiveValidate
		n := 0
		Instrs(fn, false, func(in ssa.Instruction) {
			if st, ok := in.(*ssa.Store); ok {
				if nt, f, ok := FieldOf(st.Addr); ok && nt.Obj().Name() == "fieldOptions" && f == "validators" {
					n++
					good := false
					for _, s := range Sources(st.Val) {
						if p, ok := AccessPath(s); ok && strings.HasSuffix(p, ".validatorTags") {
							good = true
						}
					}
					r.Check(good, "R04d", name, "validators of fieldOptions", c.Pos(st.Pos()), "taken from accessField's fieldInfo", "a field is unpacked with validators that do not come from its struct tag (e.g. nil)")
				}
			}
			if ci, ok := in.(ssa.CallInstruction); ok && IsCallTo(ci, tryRec) {
				n++
				good := false
				for _, s := range Sources(ci.Common().Args[2]) {
					if p, ok := AccessPath(s); ok && strings.HasSuffix(p, ".validatorTags") {
						good = true
					}
					// read back from a local fieldOptions literal whose validators were taken from the info
					for _, s2 := range Sources(resolveLocalField(s)) {
						if p, ok := AccessPath(s2); ok && strings.HasSuffix(p, ".validatorTags") {
							good = true
						}
					}
				}
				r.Check(good, "R04d", name, "validators of recursive validation", c.Pos(ci.Pos()), "taken from accessField's fieldInfo", "a struct field is re-validated without the validators of its struct tag")
			}
		})
		// fieldOptions literals that never set validators
		Instrs(fn, false, func(in ssa.Instruction) {
			a, ok := in.(*ssa.Alloc)
			if !ok || !isNamed(derefType(a.Type()), modPath, "fieldOptions") || a.Comment != "complit" {
				return
			}
			sets := false
			for _, ref := range *a.Referrers() {
				if fa, ok := ref.(*ssa.FieldAddr); ok {
					if _, f, ok := FieldOf(fa); ok && f == "validators" {
						sets = true
					}
				}
			}
			r.Check(sets, "R04d", name, "fieldOptions literal sets validators", c.Pos(a.Pos()), "validators field assigned", "a per-field options literal leaves validators empty")
		})
		if n == 0 {
			r.Trivial("R04d", name, "uses accessField", c.Pos(fn.Pos()), "no per-field options built here")
		}
	}
}

// deepSources follows Sources through calls to the repo's pure wrappers (pointerize, chase*).
func deepSources(v ssa.Value) []ssa.Value {
	var out []ssa.Value
	seen := map[ssa.Value]bool{}
	var rec func(v ssa.Value, d int)
	rec = func(v ssa.Value, d int) {
		for _, s := range Sources(v) {
			if seen[s] {
				continue
			}
			seen[s] = true
			if call, ok := s.(*ssa.Call); ok && d < 4 {
				if f := call.Call.StaticCallee(); f != nil && (f.Name() == "pointerize" || strings.HasPrefix(f.Name(), "chaseValue") || f.Name() == "tryInitDefaults") {
					for _, a := range call.Call.Args {
						rec(a, d+1)
					}
					continue
				}
				if f := call.Call.StaticCallee(); f != nil && f.Pkg != nil && f.Pkg.Pkg.Path() == "reflect" && (f.Name() == "Elem" || f.Name() == "Convert" || f.Name() == "Addr") {
					rec(call.Call.Args[0], d+1)
					continue
				}
			}
			out = append(out, s)
		}
	}
	rec(v, 0)
	return out
}

// forwardOf: does the return hand on the result of a family call? Returns the callee and whether it
// receives the slot's own validators.
func forwardOf(c *Ctx, s *c04slot, ret *ssa.Return) (bool, *ssa.Function, bool) {
	var calls []*ssa.Call
	for i := range ret.Results {
		for _, src := range deepSources(RetVal(ret, i)) {
			switch x := src.(type) {
			case *ssa.Extract:
				if call, ok := x.Tuple.(*ssa.Call); ok {
					calls = append(calls, call)
				}
			case *ssa.Call:
				calls = append(calls, x)
			}
		}
	}
	// Error-only routines (reifyGetField): success dominated by a family call under err == nil whose
	// value is then stored into the target
	{
		for _, cd := range DomConds(ret.Block()) {
			b, ok := cd.V.(*ssa.BinOp)
			if !ok {
				continue
			}
			for _, side := range []ssa.Value{b.X, b.Y} {
				if e, ok := side.(*ssa.Extract); ok {
					if call, ok := e.Tuple.(*ssa.Call); ok && isNilTestOf(cd, e, true) {
						calls = append(calls, call)
					}
				}
				if call, ok := side.(*ssa.Call); ok && isNilTestOf(cd, call, true) {
					calls = append(calls, call)
				}
			}
		}
	}
	for _, call := range calls {
		f := call.Call.StaticCallee()
		if f == nil || f.Pkg != c.SSA[""] || !strings.HasPrefix(f.Name(), "reify") {
			continue
		}
		// does it receive the own validators?
		gets := false
		for _, a := range call.Call.Args {
			if isNamed(a.Type(), modPath, "fieldOptions") && s.ownFopts(a) {
				gets = true
			}
			if sl, ok := a.Type().Underlying().(*types.Slice); ok && isNamed(sl.Elem(), modPath, "validatorTag") && s.ownValidators(a) {
				gets = true
			}
		}
		return true, f, gets
	}
	return false, nil, false
}

func addSlotIfFamily(c *Ctx, f *ssa.Function, slots map[*ssa.Function]*c04slot, work *[]*ssa.Function) {
	if f == nil || slots[f] != nil || f.Pkg != c.SSA[""] {
		return
	}
	if s := c04slotOf(f); s != nil {
		slots[f] = s
		*work = append(*work, f)
	}
}

// kindWaiver: do the dominating conditions fix the produced value to a struct or to a type
// convertible to Config?
func kindWaiver(b *ssa.BasicBlock) string {
	for _, cd := range DomConds(b) {
		if !cd.Truth {
			continue
		}
		switch x := cd.V.(type) {
		case *ssa.BinOp:
			call, ok := x.X.(*ssa.Call)
			k, isK := ConstInt(x.Y)
			if ok && isK && x.Op.String() == "==" && calledName(call) == "Kind" {
				switch k {
				case 25:
					return "target kind is reflect.Struct on this path"
				case 21:
					return "target kind is reflect.Map on this path"
				}
			}
		case *ssa.Call:
			if calledName(x) == "ConvertibleTo" {
				ops := append([]ssa.Value{}, x.Call.Args...)
				if x.Call.IsInvoke() {
					ops = append(ops, x.Call.Value)
				}
				for _, a := range ops {
					if l, ok := a.(*ssa.UnOp); ok {
						if g, ok := l.X.(*ssa.Global); ok && g.Name() == "tConfig" {
							return "target is convertible to Config on this path"
						}
					}
				}
			}
			if f := x.Call.StaticCallee(); f != nil && f.Name() == "tryTConfig" {
				return "target is convertible to Config on this path"
			}
		case *ssa.Extract:
			if call, ok := x.Tuple.(*ssa.Call); ok {
				if f := call.Call.StaticCallee(); f != nil && f.Name() == "tryTConfig" && x.Index == 1 {
					return "target is convertible to Config on this path"
				}
			}
		}
	}
	return ""
}

// returnsGenericView: result #0 is reflect.ValueOf(x) with x the result of an invoke of value.reify.
func returnsGenericView(ret *ssa.Return) bool {
	if len(ret.Results) == 0 {
		return false
	}
	for _, s := range deepSources(RetVal(ret, 0)) {
		call, ok := s.(*ssa.Call)
		if !ok || calledName(call) != "ValueOf" || len(call.Call.Args) != 1 {
			return false
		}
		for _, s2 := range Sources(call.Call.Args[0]) {
			e, ok := s2.(*ssa.Extract)
			if !ok {
				return false
			}
			c2, ok := e.Tuple.(*ssa.Call)
			if !ok || !c2.Call.IsInvoke() || c2.Call.Method.Name() != "reify" {
				return false
			}
		}
	}
	return true
}

func calledName(call *ssa.Call) string {
	if call.Call.IsInvoke() {
		return call.Call.Method.Name()
	}
	if f := call.Call.StaticCallee(); f != nil {
		return f.Name()
	}
	return ""
}

// c04Exception: one named construct plus a reason (DESIGN §1 rule 4).
func c04Exception(fn, what string) string {
	// (the one exception there was — reifyValue's map branch unpacking through reifyInto without the field's
	// validators — went away with the repair 04c93da: the branch forwards the validators to reifyMap now)
	return ""
}

var _ = fmt.Sprint

// durationUnitRule (R04e): a unit-less number is a number of seconds, for a setting read into a
// Duration (reifyDuration) and for a min=/max= bound of a Duration field (param2Duration) alike, and
// fractions count: in both places the float is scaled by time.Second in the float domain and only
// then converted. Converting first truncates the bound (min=0.5 becomes 0s) and values between the
// truncated and the declared bound pass validation.
func durationUnitRule(c *Ctx, r *Report) {
	r.Rule("R04e", "every float64 -> time.Duration conversion of a setting or of a validator bound converts (number * float64(time.Second)): scaling before truncation, the same unit on both sides", 2)
	for _, name := range []string{"reifyDuration", "param2Duration"} {
		fn := c.TryFunc("", name)
		if fn == nil {
			r.add("R04e", "ucfg."+name, "anchor", "-", Undecided, true, "ANCHOR-MISSING: "+name)
			continue
		}
		n := 0
		Instrs(fn, false, func(in ssa.Instruction) {
			cv, ok := in.(*ssa.Convert)
			if !ok || !isNamed(cv.Type(), "time", "Duration") {
				return
			}
			if b, isB := cv.X.Type().Underlying().(*types.Basic); !isB || b.Info()&types.IsFloat == 0 {
				return
			}
			n++
			form := newNF(c).Of(cv.X)
			ok2 := form.op == "bin" && form.name == "*" && (strings.Contains(form.args[0].String(), "1000000000") || strings.Contains(form.args[1].String(), "1000000000") || strings.Contains(form.String(), "1e+09"))
			r.Check(ok2, "R04e", c.FnName(fn), "seconds scaled before conversion", c.Pos(cv.Pos()), form.String(),
				"a fractional number of seconds is converted to a Duration before it is scaled ("+form.String()+"): the fraction is lost, so a bound like min=0.5 becomes 0s and values below the declared bound pass")
		})
		// a Duration multiplied after conversion from a float is the truncating form
		Instrs(fn, false, func(in ssa.Instruction) {
			bo, ok := in.(*ssa.BinOp)
			if !ok || bo.Op != token.MUL || !isNamed(bo.Type(), "time", "Duration") {
				return
			}
			for _, side := range []ssa.Value{bo.X, bo.Y} {
				if cv, ok := side.(*ssa.Convert); ok {
					if b, isB := cv.X.Type().Underlying().(*types.Basic); isB && b.Info()&types.IsFloat != 0 {
						n++
						r.Bad("R04e", c.FnName(fn), "seconds scaled before conversion", c.Pos(bo.Pos()), "a float is truncated to a whole Duration unit and multiplied afterwards: the fraction of a second is lost (min=0.5 becomes 0s)")
					}
				}
			}
		})
		if n == 0 {
			r.add("R04e", c.FnName(fn), "seconds scaled before conversion", c.Pos(fn.Pos()), Undecided, true, "no float -> Duration conversion found in "+name)
		}
	}
}

// elementCoverageRule (R04f): every slot of the list reifyDoArray returns is either unpacked through
// reifyMergeValue (which validates what it produces) or handed to tryRecursiveValidate. The visits
// are collected per loop as index intervals [first+off, bound+off) — a loop counts only if every
// path through its body makes a visit — and the intervals must chain from 0 to to.Len(). Kept
// elements in front of appended ones are as much part of the result as those behind.
func elementCoverageRule(c *Ctx, r *Report) {
	r.Rule("R04f", "reifyDoArray visits every index of the result list: the index intervals unpacked or validated by its loops chain from 0 to to.Len()", 1)
	fn := c.TryFunc("", "reifyDoArray")
	if fn == nil {
		r.add("R04f", "ucfg.reifyDoArray", "anchor", "-", Undecided, true, "ANCHOR-MISSING: reifyDoArray")
		return
	}
	name := c.FnName(fn)
	var to *ssa.Parameter
	for _, p := range fn.Params {
		if p.Name() == "to" {
			to = p
		}
	}
	if to == nil {
		r.add("R04f", name, "anchor", c.Pos(fn.Pos()), Undecided, true, "reifyDoArray has no parameter `to`")
		return
	}
	b := newNF(c)
	b.Role(to, "to")
	for _, p := range fn.Params {
		if p != to && (p.Name() == "start" || p.Name() == "arr") {
			b.Role(p, p.Name())
		}
	}
	rmv := c.Func("", "reifyMergeValue")
	trv := c.Func("", "tryRecursiveValidate")
	type visit struct {
		call  ssa.CallInstruction
		index ssa.Value
	}
	visitsByLoop := map[*ssa.BasicBlock][]visit{} // keyed by loop header
	loops := map[*ssa.BasicBlock]map[*ssa.BasicBlock]bool{}
	for _, ci := range CallsIn(fn, false) {
		g := ci.Common().StaticCallee()
		var target ssa.Value
		switch g {
		case rmv:
			target = ci.Common().Args[1]
		case trv:
			target = ci.Common().Args[0]
		default:
			continue
		}
		var idx ssa.Value
		for _, s := range append(Sources(target), target) {
			if call, ok := s.(*ssa.Call); ok {
				if f := call.Call.StaticCallee(); f != nil && f.String() == "(reflect.Value).Index" && len(call.Call.Args) == 2 && b.Of(call.Call.Args[0]).String() == "$to" {
					idx = call.Call.Args[1]
				}
			}
		}
		if idx == nil {
			continue
		}
		lp := loopOf(fn, ci.(ssa.Instruction).Block())
		if lp == nil {
			continue
		}
		h := loopHeader(lp)
		loops[h] = lp
		visitsByLoop[h] = append(visitsByLoop[h], visit{ci, idx})
	}
	type interval struct{ lo, hi, what string }
	var ivs []interval
	for h, vs := range visitsByLoop {
		lp := loops[h]
		// the loop's index value K, its first value and its bound: header condition K < B
		ifi, ok := lastInstr(h).(*ssa.If)
		if !ok {
			continue
		}
		bo, ok := ifi.Cond.(*ssa.BinOp)
		if !ok || bo.Op != token.LSS {
			continue
		}
		K, B := bo.X, bo.Y
		var phi *ssa.Phi
		first := ""
		switch x := K.(type) {
		case *ssa.Phi:
			phi = x
		case *ssa.BinOp: // rotated range loop: K = phi + 1
			if p, isPhi := x.X.(*ssa.Phi); isPhi && x.Op == token.ADD {
				if k, isK := ConstInt(x.Y); isK && k == 1 {
					phi = p
				}
			}
		}
		if phi == nil || phi.Block() != h {
			continue
		}
		for i, e := range phi.Edges {
			if lp[h.Preds[i]] {
				continue
			}
			f := b.Of(e).String()
			if K != ssa.Value(phi) { // K = phi+1
				if k, isK := ConstInt(e); isK {
					f = itoa(k + 1)
				} else {
					f = "+(" + f + ", 1)"
				}
			}
			first = f
		}
		nb := newNF(c)
		for v, n := range b.bind {
			nb.bind[v] = n
		}
		nb.bind[K] = &nf{op: "role", name: "k"}
		bound := b.Of(B).String()
		// every path through the body makes a visit?
		avoid := map[*ssa.BasicBlock]bool{}
		off := ""
		okOff := true
		for _, v := range vs {
			avoid[v.call.(ssa.Instruction).Block()] = true
			e := nb.Of(v.index).String()
			var o string
			switch {
			case e == "$k":
				o = "0"
			case strings.HasPrefix(e, "+(") && strings.HasSuffix(e, ", $k)"):
				o = strings.TrimSuffix(strings.TrimPrefix(e, "+("), ", $k)")
			case strings.HasPrefix(e, "+($k, ") && strings.HasSuffix(e, ")"):
				o = strings.TrimSuffix(strings.TrimPrefix(e, "+($k, "), ")")
			default:
				okOff = false
			}
			if off == "" {
				off = o
			} else if off != o {
				okOff = false
			}
		}
		if !okOff {
			continue
		}
		body := ifi.Block().Succs[0]
		skips := !avoid[body] && (body == h || reachableWithin(body, h, avoid, lp))
		if skips {
			continue // some iteration makes no visit: the loop does not cover its range
		}
		add := func(x, o string) string {
			switch {
			case o == "0":
				return x
			case x == "0":
				return o
			}
			return "+(" + o + ", " + x + ")"
		}
		ivs = append(ivs, interval{add(first, off), add(bound, off), c.Pos(h.Instrs[0].Pos())})
	}
	// chain from 0 to Len(to)
	end := "(reflect.Value).Len($to)"
	cur := "0"
	var chain []string
	for steps := 0; steps < 8 && cur != end; steps++ {
		found := false
		for _, iv := range ivs {
			if iv.lo == cur {
				chain = append(chain, "["+iv.lo+", "+iv.hi+")")
				cur = iv.hi
				found = true
				break
			}
		}
		if !found {
			break
		}
	}
	var all []string
	for _, iv := range ivs {
		all = append(all, "["+iv.lo+", "+iv.hi+")")
	}
	sort.Strings(all)
	r.Check(cur == end, "R04f", name, "all indices visited", c.Pos(fn.Pos()), "covered: "+strings.Join(chain, " "),
		"the loops of reifyDoArray do not reach every index of the result: covered from 0 up to "+cur+" only, intervals found "+strings.Join(all, " ")+" — elements outside (kept defaults in front of appended entries, say) are returned without validation")
}

// reachableWithin: is `to` reachable from `from` inside the loop without entering a block of avoid?
func reachableWithin(from, to *ssa.BasicBlock, avoid, within map[*ssa.BasicBlock]bool) bool {
	seen := map[*ssa.BasicBlock]bool{from: true}
	work := []*ssa.BasicBlock{from}
	for len(work) > 0 {
		b := work[len(work)-1]
		work = work[:len(work)-1]
		for _, s := range b.Succs {
			if s == to {
				return true
			}
			if seen[s] || avoid[s] || !within[s] {
				continue
			}
			seen[s] = true
			work = append(work, s)
		}
	}
	return false
}

// validatedIsReturnedRule (R04g): what is validated is what is returned. R04a/b demand that a validation call
// lies on every path to a successful return; this rule compares the operands: the value handed to
// runValidators / tryValidate and the value returned are the same value up to wrappers that do not change
// content (pointerize, chaseValue*, Elem, Addr, Convert, Interface, ValueOf, Indirect). A validation of the
// zero value taken before InitDefaults ran, followed by the return of the initialised copy, passes R04a/b.
func validatedIsReturnedRule(c *Ctx, r *Report) {
	r.Rule("R04g", "the operand of runValidators / tryValidate in a value-producing routine is the value it returns (up to pointer/interface wrappers)", 3)
	rv := c.Func("", "runValidators")
	tv := c.Func("", "tryValidate")
	preserving := map[string]int{"pointerize": 2, "chaseValuePointers": 0, "chaseValueInterfaces": 0, "chaseValue": 0, "Elem": 0, "Addr": 0, "Convert": 0, "Interface": 0, "ValueOf": 0, "Indirect": 0}
	// strip follows a value back through the wrappers that do not change content; it stops at anything else
	// (tryInitDefaults in particular: it may run InitDefaults on a copy)
	var strip func(v ssa.Value, d int) ssa.Value
	strip = func(v ssa.Value, d int) ssa.Value {
		if d > 12 {
			return v
		}
		switch x := v.(type) {
		case *ssa.Call:
			if g := x.Call.StaticCallee(); g != nil {
				if idx, ok := preserving[g.Name()]; ok && idx < len(x.Call.Args) && (c.InRepo(g) || g.Pkg != nil && g.Pkg.Pkg.Path() == "reflect") {
					return strip(x.Call.Args[idx], d+1)
				}
			}
		case *ssa.MakeInterface:
			return strip(x.X, d+1)
		case *ssa.ChangeInterface:
			return strip(x.X, d+1)
		case *ssa.UnOp:
			if x.Op == token.MUL {
				if vals, ok := localStores(x.X); ok && len(vals) == 1 {
					return strip(vals[0], d+1)
				}
			}
		}
		return v
	}
	for _, fn := range c.SrcFuncs() {
		if fn.Pkg != c.SSA[""] || fn.Parent() != nil {
			continue
		}
		res := fn.Signature.Results()
		if res.Len() < 2 || !isNamed(res.At(0).Type(), "reflect", "Value") {
			continue
		}
		var vcalls []*ssa.Call
		for _, ci := range CallsIn(fn, false) {
			if call, ok := ci.(*ssa.Call); ok && (IsCallTo(call, rv) || IsCallTo(call, tv)) {
				vcalls = append(vcalls, call)
			}
		}
		if len(vcalls) == 0 {
			continue
		}
		name := c.FnName(fn)
		for _, ret := range Returns(fn) {
			if !IsNilConst(RetVal(ret, res.Len()-1)) {
				continue
			}
			retCore := strip(RetVal(ret, 0), 0)
			for _, vc := range vcalls {
				if !InstrDominates(vc, ret) {
					continue
				}
				operand := vc.Call.Args[0]
				opCore := strip(operand, 0)
				what := "operand of " + vc.Call.StaticCallee().Name()
				same := retCore == opCore || SameValue(retCore, opCore)
				r.Check(same, "R04g", name, what, c.Pos(vc.Pos()), "validates the value that is returned ("+opCore.Name()+")",
					"the value validated ("+opCore.Name()+" = "+clip(opCore.String(), 80)+") is not the value returned ("+retCore.Name()+" = "+clip(retCore.String(), 80)+") up to pointer/interface wrappers — a default that InitDefaults produced (or a converted value) escapes its validators")
			}
		}
	}
}

// nanRule (R04h): a validator that bounds a floating point value accepts it on the true edge of a comparison. NaN
// fails every ordered comparison, so a value that is accepted because it was *not* found to be out of range (both
// `f < min` and `f > min` false, a three-way compare that answers "equal") lets NaN through min, max and positive.
func nanRule(c *Ctx, r *Report) {
	r.Rule("R04h", "every accepting path of a tag validator that reads the value as a float takes the true edge of a comparison on it (NaN is not accepted by default)", 3)
	reg := c.TryFunc("", "initRegisterValidator")
	initFn := c.SSA[""].Func("init")
	var validators []*ssa.Function
	seen := map[*ssa.Function]bool{}
	for _, top := range c.SrcFuncs() {
		if top.Pkg != c.SSA[""] || reg == nil {
			continue
		}
		for _, ci := range CallsTo(top, reg, true) {
			for _, a := range ci.Common().Args {
				for _, s := range append(Sources(a), a) {
					if f, ok := s.(*ssa.Function); ok && !seen[f] {
						seen[f] = true
						validators = append(validators, f)
					}
					if mc, ok := s.(*ssa.MakeClosure); ok {
						if f, ok := mc.Fn.(*ssa.Function); ok && !seen[f] {
							seen[f] = true
							validators = append(validators, f)
						}
					}
					if ct, ok := s.(*ssa.ChangeType); ok {
						if f, ok := ct.X.(*ssa.Function); ok && !seen[f] {
							seen[f] = true
							validators = append(validators, f)
						}
					}
				}
			}
		}
	}
	_ = initFn
	isFloatT := func(t types.Type) bool {
		b, ok := t.Underlying().(*types.Basic)
		return ok && b.Info()&types.IsFloat != 0
	}
	for _, fn := range validators {
		name := c.FnName(fn)
		floatBlocks := map[*ssa.BasicBlock]bool{}
		for _, ci := range CallsIn(fn, false) {
			if g := ci.Common().StaticCallee(); g != nil && g.String() == "(reflect.Value).Float" {
				floatBlocks[ci.(ssa.Instruction).Block()] = true
			}
		}
		if len(floatBlocks) == 0 {
			continue
		}
		bad, undecided := "", false
		accepting := 0
		for _, ret := range Returns(fn) {
			if len(ret.Results) != 1 {
				continue
			}
			paths, ok := PathsTo(fn, ret.Block())
			if !ok {
				undecided = true
				continue
			}
			for _, p := range paths {
				through := false
				for _, b := range p.Blocks {
					if floatBlocks[b] {
						through = true
					}
				}
				if !through {
					continue
				}
				res := resolvePhiOnPath(ret.Results[0], p.Blocks)
				if !IsNilConst(res) {
					if nilness(res, nil, 0) != -1 {
						continue // an error is returned
					}
				}
				accepting++
				taken := false
				for _, pc := range p.Conds {
					bo, isB := pc.V.(*ssa.BinOp)
					if !isB || !pc.Truth {
						continue
					}
					if isFloatT(bo.X.Type()) && isFloatT(bo.Y.Type()) {
						taken = true
					}
				}
				if !taken {
					bad = c.Pos(ret.Pos())
				}
			}
		}
		switch {
		case undecided:
			r.add("R04h", name, "float accepted on a true edge", c.Pos(fn.Pos()), Undecided, true, "too many paths")
		case accepting == 0:
			r.Trivial("R04h", name, "float accepted on a true edge", c.Pos(fn.Pos()), "no accepting path reads a float")
		default:
			r.Check(bad == "", "R04h", name, "float accepted on a true edge", c.Pos(fn.Pos()), fmt.Sprintf("%d accepting path(s), each through the true edge of a float comparison", accepting),
				"a floating point value is accepted (return at "+bad+") on a path that takes no float comparison on its true edge: NaN fails every comparison and so passes this validator — a NaN setting satisfies min / max / positive")
		}
	}
}

// validatorSiblingsRule (R04i): the built-in tag validators are siblings: each receives the field's value as an
// interface{} and decides by its kind. (i) The kind every one of them switches on is that of chaseValue(…) — a
// pre-filled *int is validated through its pointer, and a validator that looks at the pointer's kind accepts
// everything. (ii) None recognises a string by asserting the value to the predeclared type string: a named string
// type (type Level string) fails the assertion and would be accepted empty.
func validatorSiblingsRule(c *Ctx, r *Report) {
	r.Rule("R04i", "every built-in tag validator takes the kind of its value after chaseValue, and none recognises strings by an assertion to string", 7)
	kt, _ := reflectKind(c)
	// the validators are enumerated from the package (validate* functions whose first parameter is the value as an
	// interface{}), not listed: the list this rule started with left validateRequired out, and `required` on a *int
	// holding 0 or on a **string with a nil inner pointer was accepted (repaired after the round-11 hunt)
	var names []string
	for _, f := range c.SrcFuncs() {
		if f.Pkg != c.SSA[""] || f.Parent() != nil || !strings.HasPrefix(f.Name(), "validate") || len(f.Params) == 0 {
			continue
		}
		if it, ok := f.Params[0].Type().Underlying().(*types.Interface); ok && it.NumMethods() == 0 {
			names = append(names, f.Name())
		}
	}
	sort.Strings(names)
	for _, name := range names {
		fn := c.TryFunc("", name)
		if fn == nil {
			r.add("R04i", "ucfg."+name, "kind of the chased value", "-", Undecided, true, "validator not found")
			continue
		}
		bad := ""
		kindCalls := 0
		Instrs(fn, false, func(in ssa.Instruction) {
			switch x := in.(type) {
			case *ssa.Call:
				if g := x.Call.StaticCallee(); g != nil && g.String() == "(reflect.Value).Kind" && typeStr(x.Type()) == typeStr(kt) {
					kindCalls++
					chased := false
					for _, s := range append(Sources(x.Call.Args[0]), x.Call.Args[0]) {
						if cc, ok := s.(*ssa.Call); ok && cc.Call.StaticCallee() != nil && cc.Call.StaticCallee().Name() == "chaseValue" {
							chased = true
						}
					}
					// (validateNonEmptyWithAllowNil was exempted here until round 9 — "it is handed slices, maps and strings as
					// they are" — which hid that a pre-filled *string holding "" passed `required`; repaired, exemption gone)
					if !chased {
						bad = "Kind() of the value as handed over at " + c.Pos(x.Pos())
					}
				}
			case *ssa.TypeAssert:
				if bt, ok := x.AssertedType.(*types.Basic); ok && bt.Kind() == types.String {
					bad = "assertion to string at " + c.Pos(x.Pos())
				}
			}
		})
		r.Check(bad == "", "R04i", c.FnName(fn), "kind of the chased value", c.Pos(fn.Pos()), fmt.Sprintf("%d kind test(s), all behind chaseValue; no assertion to string", kindCalls),
			"the validator decides on "+bad+": a value held by a pointer (a pre-filled *int the configuration does not mention) or of a named string type is not what the test expects, and the validator accepts it whatever it holds")
	}
}

// everyFieldHandledRule (R04j): reifyStruct visits every field that takes part (accessField does not say skip) and
// hands it to a routine that unpacks and validates it (reifyGetField, reifyInto, reifyMergeValue) or validates it
// as it stands (tryRecursiveValidate). No way round the loop from "not skipped" back to the loop head avoids all of
// them: a `continue` for some shape of configuration leaves that field's validate tag and Validate() unasked.
func everyFieldHandledRule(c *Ctx, r *Report) {
	r.Rule("R04j", "in reifyStruct's field loop every iteration that does not skip its field reaches reifyGetField, reifyInto, reifyMergeValue or tryRecursiveValidate, and uses the field's validate tag, before the next iteration", 2)
	rs := c.Func("", "reifyStruct")
	af := c.Func("", "accessField")
	handlers := map[string]bool{"reifyGetField": true, "reifyInto": true, "reifyMergeValue": true, "tryRecursiveValidate": true}
	calls := CallsTo(rs, af, false)
	if len(calls) == 0 {
		r.add("R04j", c.FnName(rs), "every field handled", c.Pos(rs.Pos()), Undecided, true, "reifyStruct does not call accessField")
		return
	}
	for _, ci := range calls {
		call := ci.(*ssa.Call)
		lp := loopOf(rs, call.Block())
		if lp == nil {
			r.add("R04j", c.FnName(rs), "every field handled", c.Pos(call.Pos()), Undecided, true, "accessField is not called in a loop")
			continue
		}
		hdr := loopHeader(lp)
		// the skip result and the branch on it
		var start *ssa.BasicBlock
		for _, ref := range *call.Referrers() {
			ex, ok := ref.(*ssa.Extract)
			if !ok || ex.Index != 1 || ex.Referrers() == nil {
				continue
			}
			for _, r2 := range *ex.Referrers() {
				if ifi, isIf := r2.(*ssa.If); isIf && ifi.Cond == ssa.Value(ex) {
					start = ifi.Block().Succs[1] // not skipped
				}
			}
		}
		if start == nil || hdr == nil {
			r.add("R04j", c.FnName(rs), "every field handled", c.Pos(call.Pos()), Undecided, true, "the branch on accessField's skip result was not found")
			continue
		}
		avoid := map[*ssa.BasicBlock]bool{}
		for b := range lp {
			for _, in := range b.Instrs {
				if cc, ok := in.(ssa.CallInstruction); ok {
					if g := cc.Common().StaticCallee(); g != nil && g.Pkg == c.SSA[""] && handlers[g.Name()] {
						avoid[b] = true
					}
				}
			}
		}
		// the field's validate tag is used on every such way: as an argument (runValidators, tryRecursiveValidate)
		// or as the validators of the fieldOptions handed on — validateStruct, the sibling that only validates,
		// applies the tag to every field it does not skip, inlined or not
		fiT := c.Named("", "fieldInfo")
		tagIdx := c.FieldIndex(fiT, "validatorTags")
		uses := map[*ssa.BasicBlock]bool{}
		var mark func(v ssa.Value)
		mark = func(v ssa.Value) {
			if v.Referrers() == nil {
				return
			}
			for _, ref := range *v.Referrers() {
				switch x := ref.(type) {
				case *ssa.DebugRef:
				case *ssa.Field:
					if x.Field == tagIdx {
						for _, u := range *x.Referrers() {
							if _, dbg := u.(*ssa.DebugRef); !dbg {
								uses[u.Block()] = true
							}
						}
					}
				case *ssa.Store:
					// spilled to a local: follow the loads of its field
					if al, isAl := x.Addr.(*ssa.Alloc); isAl && x.Val == v {
						for _, r2 := range *al.Referrers() {
							if fa, isFA := r2.(*ssa.FieldAddr); isFA && fa.Field == tagIdx {
								for _, r3 := range *fa.Referrers() {
									if ld, isLd := r3.(*ssa.UnOp); isLd {
										for _, u := range *ld.Referrers() {
											if _, dbg := u.(*ssa.DebugRef); !dbg {
												uses[u.Block()] = true
											}
										}
									}
								}
							}
						}
					}
				}
			}
		}
		for _, ref := range *call.Referrers() {
			if ex, ok := ref.(*ssa.Extract); ok && ex.Index == 0 {
				mark(ex)
			}
		}
		untagged := !uses[start] && (start == hdr || reachableAvoiding(start, hdr, uses))
		r.Check(!untagged, "R04j", c.FnName(rs), "every field's validate tag used", c.Pos(call.Pos()), "no way back to the loop head around a use of fInfo.validatorTags",
			"an iteration of reifyStruct's field loop can go on to the next field without using the field's validate tag (validateStruct, which only validates, applies it to every field): for that kind of field — an inlined map or struct — `validate:\"nonzero\"` or `required` is never asked, and Unpack succeeds with a value the tag rejects")
		round := !avoid[start] && (start == hdr || reachableAvoiding(start, hdr, avoid))
		r.Check(!round, "R04j", c.FnName(rs), "every field handled", c.Pos(call.Pos()), "no way back to the loop head around the unpack / validate routines",
			"an iteration of reifyStruct's field loop can go on to the next field without handing this one to reifyGetField, reifyInto, reifyMergeValue or tryRecursiveValidate: for that shape of configuration the field's validate tag and Validate() are never asked, and Unpack succeeds with a value they reject")
	}
}

// keptEntriesRule (R04k): the map reifyMap returns holds the entries the configuration names — each comes out of
// reifyValue / reifyMergeValue, which validate what they produce — and the entries that were in the target before and
// that the configuration does not name. The latter are part of the result like the kept elements of a list (R04f), so
// a successful return must lie behind a pass over to.MapKeys() in which every iteration either validates
// to.MapIndex(key) through tryRecursiveValidate or takes the branch of a successful lookup of the key among the
// configuration's settings (the entry was unpacked a moment ago). The branch for a configuration without settings
// hands the whole map to tryRecursiveValidate instead. (Found missing by the round-9 hunt: repaired in 4069967.)
func keptEntriesRule(c *Ctx, r *Report) {
	r.Rule("R04k", "every successful return of reifyMap lies behind tryRecursiveValidate of the whole map or behind a loop over to.MapKeys() in which every iteration validates to.MapIndex(key) or finds the key among the configuration's settings", 3)
	fn := c.TryFunc("", "reifyMap")
	if fn == nil {
		r.add("R04k", "ucfg.reifyMap", "anchor", "-", Undecided, true, "ANCHOR-MISSING: reifyMap")
		return
	}
	name := c.FnName(fn)
	var to ssa.Value
	for _, p := range fn.Params {
		if p.Type().String() == "reflect.Value" {
			to = p
		}
	}
	if to == nil {
		r.add("R04k", name, "anchor", c.Pos(fn.Pos()), Undecided, true, "reifyMap has no reflect.Value parameter")
		return
	}
	trv := c.Func("", "tryRecursiveValidate")
	// validation sites: of the whole map, and of one kept entry
	whole := map[*ssa.BasicBlock]bool{}
	var entrySites []ssa.CallInstruction
	for _, ci := range CallsTo(fn, trv, false) {
		a := ci.Common().Args[0]
		if sameReflectValue(a, to) {
			whole[ci.Block()] = true
			continue
		}
		mi, ok := a.(*ssa.Call)
		if !ok {
			continue
		}
		if g := mi.Call.StaticCallee(); g == nil || g.String() != "(reflect.Value).MapIndex" || !sameReflectValue(mi.Call.Args[0], to) {
			continue
		}
		if m := mapKeysOrigin(mi.Call.Args[1]); m != nil && sameReflectValue(m, to) {
			entrySites = append(entrySites, ci)
		}
	}
	// (1) the pass over the kept entries: per site, every iteration validates or finds the key named
	headers := map[*ssa.BasicBlock]bool{}
	for i, ci := range entrySites {
		key := ci.Common().Args[0].(*ssa.Call).Call.Args[1]
		lp := loopOf(fn, ci.Block())
		what := fmt.Sprintf("pass over kept entries#%d", i+1)
		if lp == nil {
			r.Check(false, "R04k", name, what, c.Pos(ci.Pos()), "", "tryRecursiveValidate(to.MapIndex(key)) is not in a loop: one entry at most is validated")
			continue
		}
		h := loopHeader(lp)
		body := key.(ssa.Instruction).Block()
		// forbidden edges: the successful edge of a lookup of this key among the settings
		type edge struct{ from, to *ssa.BasicBlock }
		skip := map[edge]bool{}
		for b := range lp {
			ifi, ok := lastInstr(b).(*ssa.If)
			if !ok {
				continue
			}
			cond, pos := ifi.Cond, true
			if u, isNot := cond.(*ssa.UnOp); isNot && u.Op == token.NOT {
				cond, pos = u.X, false
			}
			ex, ok := cond.(*ssa.Extract)
			if !ok || ex.Index != 1 {
				continue
			}
			lk, ok := ex.Tuple.(*ssa.Lookup)
			if !ok || !lk.CommaOk {
				continue
			}
			if !derivesFromDict(lk.X) || !keyTextOf(lk.Index, key) {
				continue
			}
			if pos {
				skip[edge{b, b.Succs[0]}] = true
			} else {
				skip[edge{b, b.Succs[1]}] = true
			}
		}
		// can an iteration get from the block that reads the key back to the header around the validation?
		seen := map[*ssa.BasicBlock]bool{body: true}
		work := []*ssa.BasicBlock{body}
		around := false
		for len(work) > 0 && !around {
			x := work[len(work)-1]
			work = work[:len(work)-1]
			if x == ci.Block() {
				continue
			}
			for _, s := range LiveSuccsOrAll(x) {
				if skip[edge{x, s}] || !lp[s] {
					continue // leaving the loop is an exit (checked below), not a skipped entry
				}
				if s == h {
					around = true
					break
				}
				if !seen[s] {
					seen[s] = true
					work = append(work, s)
				}
			}
		}
		if ob := r.Check(!around, "R04k", name, what, c.Pos(ci.Pos()),
			fmt.Sprintf("every iteration validates to.MapIndex(key) or takes one of %d edge(s) on which the key was found among the settings", len(skip)),
			"an iteration of the loop over to.MapKeys() can reach the next key without validating the entry and without having found the key among the configuration's settings: a kept entry that breaks its validators is returned"); ob != nil && !around {
			headers[h] = true
		}
	}
	// (2) every successful return lies behind the whole-map validation or behind a complete pass
	avoid := map[*ssa.BasicBlock]bool{}
	for b := range whole {
		avoid[b] = true
	}
	for b := range headers {
		avoid[b] = true
	}
	n := 0
	for _, ret := range Returns(fn) {
		if len(ret.Results) == 0 || nilness(RetVal(ret, 0), ret.Block(), 0) == 1 || len(ret.Block().Preds) == 0 && ret.Block() != fn.Blocks[0] {
			continue // a failing return
		}
		n++
		entry := fn.Blocks[0]
		reach := !avoid[entry] && (entry == ret.Block() || reachableAvoiding(entry, ret.Block(), avoid))
		if avoid[ret.Block()] {
			reach = false
		}
		r.Check(!reach, "R04k", name, "successful return behind a validation of the kept entries", c.Pos(ret.Pos()),
			fmt.Sprintf("reachable only through tryRecursiveValidate(to) [%d site(s)] or the header of a complete pass over to.MapKeys() [%d]", len(whole), len(headers)),
			"reifyMap can return successfully without having validated the entries the configuration does not name: neither the whole map went through tryRecursiveValidate nor is there a complete pass over to.MapKeys() in front of this return (a pre-filled entry that breaks its validators is returned; the list routine reifyDoArray validates the elements it keeps)")
	}
	r.Analysed["reifyMap: validations of a kept entry"] = len(entrySites)
}

// LiveSuccsOrAll: the successors of a block (no edge is dropped here; the name marks the place where an
// edge-sensitive refinement would go).
func LiveSuccsOrAll(b *ssa.BasicBlock) []*ssa.BasicBlock { return b.Succs }

// derivesFromDict: the map is what a dict() call returned (the named settings of a configuration).
func derivesFromDict(v ssa.Value) bool {
	for _, s := range Sources(v) {
		call, ok := s.(*ssa.Call)
		if !ok || calledName(call) != "dict" {
			return false
		}
	}
	return len(Sources(v)) > 0
}

// keyTextOf: idx is the text of the reflect key: key.String(), possibly converted.
func keyTextOf(idx, key ssa.Value) bool {
	for _, s := range Sources(idx) {
		call, ok := s.(*ssa.Call)
		if !ok {
			return false
		}
		g := call.Call.StaticCallee()
		if g == nil || g.String() != "(reflect.Value).String" || !sameReflectValue(call.Call.Args[0], key) {
			return false
		}
	}
	return len(Sources(idx)) > 0
}

// validatorKindsRule (R04l): the tag validators that compare numbers (nonzero, min, max) dispatch on the kind of the
// value and let every kind they do not list pass. A numeric kind missing from the list — uintptr was — is a field on
// which the tag is silently not enforced (repaired in 8c56d44). Each of the thirteen numeric kinds must therefore
// reach a case of its own, i.e. not the block the dispatch sends a non-numeric kind (Chan) to.
func validatorKindsRule(c *Ctx, r *Report) {
	r.Rule("R04l", "the kind dispatch of validateNonZero, validateMin and validateMax sends each of the thirteen numeric reflect kinds to a case that compares the number, none to the branch of the kinds it does not know", 3)
	kt, kinds := reflectKind(c)
	numeric := map[string]bool{"Int": true, "Int8": true, "Int16": true, "Int32": true, "Int64": true, "Uint": true, "Uint8": true, "Uint16": true, "Uint32": true, "Uint64": true, "Uintptr": true, "Float32": true, "Float64": true}
	var other int64 = -1
	for _, kc := range kinds {
		if kc.Name == "Chan" {
			other = kc.Val
		}
	}
	for _, name := range []string{"validateNonZero", "validateMin", "validateMax"} {
		fn := c.TryFunc("", name)
		if fn == nil {
			r.add("R04l", "ucfg."+name, "numeric kinds", "-", Undecided, true, "validator not found")
			continue
		}
		ds := findDispatches(fn, kt)
		if len(ds) != 1 || other < 0 {
			r.add("R04l", c.FnName(fn), "numeric kinds", c.Pos(fn.Pos()), Undecided, true, fmt.Sprintf("expected one dispatch on a reflect.Kind, found %d", len(ds)))
			continue
		}
		d := ds[0]
		dflt := d.Target(other, kt)
		var missing []string
		for _, kc := range kinds {
			if numeric[kc.Name] && d.Target(kc.Val, kt) == dflt {
				missing = append(missing, kc.Name)
			}
		}
		r.Check(len(missing) == 0, "R04l", c.FnName(fn), "numeric kinds", c.Pos(fn.Pos()), "all thirteen numeric kinds have a comparing case",
			"the validator has no case for kind "+strings.Join(missing, ", ")+": a field of that kind takes the branch of the kinds the validator does not know, and the tag is not enforced on it")
	}
}

// validateUnwrapsRule (R04m): tryValidate is handed struct fields, map entries and list elements as reflect values of
// their *static* type. For a field of type interface{} (or an entry of map[string]interface{}, an element of
// []interface{}) that type is the interface type, for **T it is **T — neither implements Validator, so the Validate()
// of the value held was never asked (repaired after the round-11 hunt, C04 H2). The type tested with Implements is
// therefore the type of a value that was unwrapped first: its sources include an Elem() call or a chase helper, and
// the test is not reached while the value is of kind Interface.
func validateUnwrapsRule(c *Ctx, r *Report) {
	r.Rule("R04m", "tryValidate tests Implements(Validator) on the type of the value an interface or a chain of pointers holds (the value is unwrapped by Elem() / a chase helper first), not on the static type of the holder", 1)
	fn := c.Func("", "tryValidate")
	kt, _ := reflectKind(c)
	n, bad := 0, ""
	for _, ci := range CallsIn(fn, false) {
		cc := ci.Common()
		if !cc.IsInvoke() || cc.Method.Name() != "Implements" {
			continue
		}
		n++
		// the type: (reflect.Value).Type(x), possibly wrapped in reflect.PtrTo
		var holder ssa.Value
		for _, src := range append([]ssa.Value{cc.Value}, Sources(cc.Value)...) {
			call, ok := src.(*ssa.Call)
			if !ok {
				continue
			}
			g := call.Call.StaticCallee()
			if g != nil && (g.String() == "reflect.PtrTo" || g.String() == "reflect.PointerTo") {
				for _, s2 := range append([]ssa.Value{call.Call.Args[0]}, Sources(call.Call.Args[0])...) {
					if c2, ok := s2.(*ssa.Call); ok && c2.Call.StaticCallee() != nil && c2.Call.StaticCallee().String() == "(reflect.Value).Type" {
						holder = c2.Call.Args[0]
					}
				}
			}
			if g != nil && g.String() == "(reflect.Value).Type" {
				holder = call.Call.Args[0]
			}
		}
		if holder == nil {
			bad = "the type tested at " + c.Pos(ci.Pos()) + " is not the type of a reflect value"
			continue
		}
		unwrapped := false
		for _, src := range append([]ssa.Value{holder}, Sources(holder)...) {
			if call, ok := src.(*ssa.Call); ok {
				if g := call.Call.StaticCallee(); g != nil && (g.String() == "(reflect.Value).Elem" || strings.HasPrefix(g.Name(), "chaseValue")) {
					unwrapped = true
				}
			}
		}
		notIface := false
		for _, cd := range DomConds(ci.Block()) {
			for _, part := range ExpandConds([]Cond{cd}) {
				if _, k, isTest := enumTest(part.V, kt); isTest && k == 20 { // reflect.Interface
					if (part.V.(*ssa.BinOp).Op == token.EQL) != part.Truth {
						notIface = true
					}
				}
			}
		}
		if !unwrapped {
			bad = "the value whose type is tested at " + c.Pos(ci.Pos()) + " is the holder as handed over (no Elem() / chase on the way)"
		} else if !notIface && !strings.Contains(bad, "holder") {
			// the loop that unwraps ends when the kind is no interface: accept a chase helper's post-condition as well
			for _, src := range append([]ssa.Value{holder}, Sources(holder)...) {
				if call, ok := src.(*ssa.Call); ok {
					if g := call.Call.StaticCallee(); g != nil && strings.HasPrefix(g.Name(), "chaseValue") {
						notIface = true
					}
				}
			}
			if !notIface {
				bad = "the test at " + c.Pos(ci.Pos()) + " can be reached while the value is still of kind Interface"
			}
		}
	}
	r.Check(n > 0 && bad == "", "R04m", c.FnName(fn), "Implements on the unwrapped value", c.Pos(fn.Pos()), fmt.Sprintf("%d Implements test(s), each on the type of the value behind interfaces and pointer chains", n),
		"tryValidate decides whether a value has a Validate() method by the static type of what holds it ("+bad+"): a kept or default value held by an interface{} field, a map[string]interface{} entry, a []interface{} element or a **T is returned without its Validate() having been asked")
}
