package main

// Self-tests of the rules, run as in-memory overlays of the working tree (nothing is written to
// disk): a "mutant" breaks one rule instance and the rule must report a new violation whose key
// contains Expect; a "refactor" preserves behaviour and the rule must report nothing new; a
// "repair" fixes a finding reported on the unchanged tree and the finding must disappear.
// A control whose source fragment is not present in the working tree (because the tree was
// edited there) is skipped, not failed: controls guard the checker, not the repository.

import (
	"fmt"
	"os"
	"path/filepath"
	"strings"
	"sync"
)

type control struct {
	Prop   string
	Name   string
	Rule   string
	Kind   string // mutant | refactor | repair
	Quick  bool   // also run in the quick tier
	File   string
	Old    string
	New    string
	Expect string // substring of the obligation key expected to change
	// further edits applied together with the first one (two cooperating sites)
	More []edit
}

type edit struct{ File, Old, New string }

var controls []control

func addControl(c control) { controls = append(controls, c) }

func runControls(c *Ctx, r *Report, pc *propCheck, tier string) {
	var mine []control
	for _, k := range controls {
		if k.Prop == pc.id && (tier == "thorough" || k.Quick) {
			mine = append(mine, k)
		}
	}
	if len(mine) == 0 {
		return
	}
	base := map[string]Status{}
	for _, o := range r.Obs {
		base[o.Key] = o.Status
	}
	results := make([]ControlResult, len(mine))
	sem := make(chan struct{}, 6)
	var wg sync.WaitGroup
	for i, k := range mine {
		wg.Add(1)
		go func(i int, k control) {
			defer wg.Done()
			sem <- struct{}{}
			defer func() { <-sem }()
			results[i] = runControl(c, pc, k, base)
		}(i, k)
	}
	wg.Wait()
	r.Controls = append(r.Controls, results...)
}

func runControl(c *Ctx, pc *propCheck, k control, base map[string]Status) (res ControlResult) {
	res = ControlResult{Name: k.Name, Rule: k.Rule, Kind: k.Kind}
	defer func() {
		if p := recover(); p != nil {
			if u, ok := p.(undecided); ok {
				if k.Kind == "mutant" && k.Expect == "UNDECIDED" {
					res.Result = "fired: undecided (" + u.msg + ")"
					return
				}
				res.Result = "FAIL: overlay run undecided: " + u.msg
				return
			}
			res.Result = fmt.Sprintf("FAIL: overlay run panicked: %v", p)
		}
	}()
	overlay := map[string][]byte{}
	edits := append([]edit{{k.File, k.Old, k.New}}, k.More...)
	for _, e := range edits {
		path := filepath.Join(c.RepoDir, e.File)
		src, ok := overlay[path]
		if !ok {
			b, err := os.ReadFile(path)
			if err != nil {
				res.Result = "SKIPPED: cannot read " + e.File
				return
			}
			src = b
		}
		if strings.Count(string(src), e.Old) != 1 {
			res.Result = fmt.Sprintf("SKIPPED: fragment occurs %d times in the working tree's %s (tree edited there)", strings.Count(string(src), e.Old), e.File)
			return
		}
		overlay[path] = []byte(strings.Replace(string(src), e.Old, e.New, 1))
	}
	mc := Load(c.RepoDir, c.GOARCH, overlay)
	mr := NewReport(pc.id, "control")
	pc.run(mc, mr)
	var newViol, gone []string
	now := map[string]Status{}
	for _, o := range mr.Obs {
		now[o.Key] = o.Status
		if o.Status == Violated || o.Status == Undecided {
			if b, ok := base[o.Key]; !ok || (b != Violated && b != Undecided) {
				newViol = append(newViol, o.Key)
			}
		}
	}
	for key, st := range base {
		if st == Violated {
			if s2, ok := now[key]; !ok || s2 != Violated {
				gone = append(gone, key)
			}
		}
	}
	for _, ri := range mr.Rules {
		if ri.Instances < ri.Floor {
			newViol = append(newViol, "FLOOR:"+ri.ID)
		}
	}
	switch k.Kind {
	case "mutant":
		for _, v := range newViol {
			if strings.Contains(v, k.Expect) {
				res.Result = "fired: " + v
				return
			}
		}
		res.Result = fmt.Sprintf("FAIL: expected a new violation matching %q, got %v", k.Expect, newViol)
	case "refactor":
		if len(newViol) == 0 {
			res.Result = "silent"
		} else {
			res.Result = fmt.Sprintf("FAIL: false alarm on behaviour-preserving edit: %v", newViol)
		}
	case "repair":
		ok := false
		for _, g := range gone {
			if strings.Contains(g, k.Expect) {
				ok = true
			}
		}
		if ok && len(newViol) == 0 {
			res.Result = "finding gone on repaired overlay"
		} else if !ok {
			if _, inBase := findKey(base, k.Expect); !inBase {
				res.Result = "SKIPPED: finding not present on the working tree (already repaired)"
			} else {
				res.Result = fmt.Sprintf("FAIL: finding matching %q still reported on repaired overlay", k.Expect)
			}
		} else {
			res.Result = fmt.Sprintf("FAIL: repair introduced new reports: %v", newViol)
		}
	}
	return
}

func findKey(m map[string]Status, sub string) (string, bool) {
	for k, st := range m {
		if strings.Contains(k, sub) && st == Violated {
			return k, true
		}
	}
	return "", false
}

// archSensitive lists the properties whose rules depend on the width of int.
var archSensitive = map[string]bool{"C03": true, "C07": true, "C20": true}

func runThoroughExtras(c *Ctx, r *Report, pc *propCheck) {
	if !archSensitive[pc.id] || c.GOARCH != "" {
		return
	}
	r.Rule("ARCH386", "the same rules on GOARCH=386 (int is 32 bits): no obligation may be violated there that holds on amd64", 1)
	func() {
		defer func() {
			if p := recover(); p != nil {
				r.add("ARCH386", "load", "GOARCH=386", "-", Undecided, true, fmt.Sprint(p))
			}
		}()
		c386 := Load(c.RepoDir, "386", nil)
		r386 := NewReport(pc.id, "thorough-386")
		pc.run(c386, r386)
		base := map[string]Status{}
		for _, o := range r.Obs {
			base[o.Key] = o.Status
		}
		n := 0
		for _, o := range r386.Obs {
			if o.Status == Violated && base[o.Key] != Violated {
				r.Bad("ARCH386", "386", o.Key, o.Pos, "violated on GOARCH=386 only: "+o.Fact)
				n++
			}
		}
		if n == 0 {
			r.OK("ARCH386", "386", "all", "-", fmt.Sprintf("%d obligations re-decided on GOARCH=386, none newly violated", len(r386.Obs)))
		}
	}()
}
