package main

// Core plumbing: loading the repository, anchors, obligations, known findings,
// evidence and the exit protocol. See /verif/DESIGN.md §1 ("Ground rules") and §4.

import (
	"encoding/json"
	"fmt"
	"go/ast"
	"go/token"
	"go/types"
	"os"
	"path/filepath"
	"sort"
	"strings"
	"time"

	"golang.org/x/tools/go/callgraph"
	"golang.org/x/tools/go/callgraph/cha"
	"golang.org/x/tools/go/callgraph/vta"
	"golang.org/x/tools/go/packages"
	"golang.org/x/tools/go/ssa"
	"golang.org/x/tools/go/ssa/ssautil"
)

const modPath = "github.com/elastic/go-ucfg"

// the nine non-test packages of the repository; the loader asserts they are all there.
var wantPkgs = []string{"", "cfgtest", "cfgutil", "diff", "flag", "hjson", "json", "parse", "yaml"}

// Ctx is one loaded, type-checked, SSA-built view of the repository.
type Ctx struct {
	RepoDir string
	GOARCH  string
	Overlay map[string][]byte
	Fset    *token.FileSet
	Pkgs    map[string]*packages.Package // keyed by path relative to the module ("" = root)
	Prog    *ssa.Program
	SSA     map[string]*ssa.Package
	cg      *callgraph.Graph
	chaCG   *callgraph.Graph
	allFns  map[*ssa.Function]bool
	srcFns  []*ssa.Function // functions (incl. anonymous) with source in the repository
	e1      *E1

	Norm *NormNotes // what the helper-inlining normalisation did (normalize.go)

	callerIdx map[*ssa.Function][]*ssa.Function
	valueUse  map[*ssa.Function]bool
}

// E1 returns the (lazily computed) ownership/effects analysis of this program.
func (c *Ctx) E1() *E1 {
	if c.e1 == nil {
		c.e1 = NewE1(c)
		c.e1.Run()
	}
	return c.e1
}

type undecided struct{ msg string }

func undecidedf(format string, a ...interface{}) {
	panic(undecided{fmt.Sprintf(format, a...)})
}

// Load type-checks /repo's current working tree (plus an optional in-memory overlay).
func Load(repo, goarch string, overlay map[string][]byte) *Ctx {
	env := append(os.Environ(), "GOFLAGS=-mod=mod", "GOPROXY=off", "GOSUMDB=off", "GOWORK=off", "GOTOOLCHAIN=local")
	if goarch != "" {
		env = append(env, "GOARCH="+goarch)
	}
	overlay, norm := normalizeOverlay(repo, goarch, overlay)
	fset := token.NewFileSet()
	cfg := &packages.Config{
		Mode:    packages.LoadAllSyntax,
		Dir:     repo,
		Env:     env,
		Fset:    fset,
		Tests:   false,
		Overlay: overlay,
	}
	pkgs, err := packages.Load(cfg, "./...")
	if err != nil {
		undecidedf("LOAD-ERROR: %v", err)
	}
	c := &Ctx{RepoDir: repo, GOARCH: goarch, Overlay: overlay, Norm: norm, Fset: fset, Pkgs: map[string]*packages.Package{}, SSA: map[string]*ssa.Package{}}
	nerr := 0
	packages.Visit(pkgs, nil, func(p *packages.Package) {
		for _, e := range p.Errors {
			fmt.Fprintf(os.Stderr, "TYPE-ERROR %s: %v\n", p.PkgPath, e)
			nerr++
		}
	})
	if nerr > 0 {
		undecidedf("LOAD-ERROR: %d type/parse errors in the loaded program", nerr)
	}
	for _, p := range pkgs {
		if p.PkgPath == modPath || strings.HasPrefix(p.PkgPath, modPath+"/") {
			rel := strings.TrimPrefix(strings.TrimPrefix(p.PkgPath, modPath), "/")
			c.Pkgs[rel] = p
		}
	}
	for _, w := range wantPkgs {
		if c.Pkgs[w] == nil {
			undecidedf("LOAD-ERROR: package %q of the repository was not loaded (%d packages found)", w, len(c.Pkgs))
		}
	}
	prog, _ := ssautil.AllPackages(pkgs, ssa.InstantiateGenerics)
	prog.Build()
	c.Prog = prog
	for rel, p := range c.Pkgs {
		sp := prog.Package(p.Types)
		if sp == nil {
			undecidedf("LOAD-ERROR: no SSA for package %q", rel)
		}
		c.SSA[rel] = sp
	}
	c.allFns = ssautil.AllFunctions(prog)
	for fn := range c.allFns {
		if c.InRepo(fn) && fn.Blocks != nil {
			c.srcFns = append(c.srcFns, fn)
		}
	}
	sort.Slice(c.srcFns, func(i, j int) bool { return c.FnName(c.srcFns[i]) < c.FnName(c.srcFns[j]) })
	return c
}

// InRepo reports whether fn (or its enclosing function) is declared in the repository.
func (c *Ctx) InRepo(fn *ssa.Function) bool {
	for fn.Parent() != nil {
		fn = fn.Parent()
	}
	if fn.Pkg == nil {
		// wrappers / bound methods / instantiations: use the object's package
		if o := fn.Object(); o != nil && o.Pkg() != nil {
			p := o.Pkg().Path()
			return p == modPath || strings.HasPrefix(p, modPath+"/")
		}
		return false
	}
	p := fn.Pkg.Pkg.Path()
	return p == modPath || strings.HasPrefix(p, modPath+"/")
}

// SrcFuncs returns all repository functions with bodies, sorted by name.
func (c *Ctx) SrcFuncs() []*ssa.Function { return c.srcFns }

// FnName is the stable, line-free name used in obligation keys: pkg.(*T).m, pkg.f, pkg.f$1.
func (c *Ctx) FnName(fn *ssa.Function) string {
	if fn == nil {
		return "<nil>"
	}
	s := fn.String()
	s = strings.ReplaceAll(s, modPath+"/", "")
	s = strings.ReplaceAll(s, modPath, "ucfg")
	return s
}

func (c *Ctx) Pos(p token.Pos) string {
	if !p.IsValid() {
		return "-"
	}
	pp := c.Fset.Position(p)
	f := pp.Filename
	if r, err := filepath.Rel(c.RepoDir, f); err == nil && !strings.HasPrefix(r, "..") {
		f = r
	}
	return fmt.Sprintf("%s:%d", f, pp.Line)
}

// ---- anchors -------------------------------------------------------------

// Func resolves a package-level function; a missing anchor makes the run undecided.
func (c *Ctx) Func(pkg, name string) *ssa.Function {
	sp := c.SSA[pkg]
	if sp == nil {
		undecidedf("ANCHOR-MISSING: package %q", pkg)
	}
	fn := sp.Func(name)
	if fn == nil {
		undecidedf("ANCHOR-MISSING: function %s.%s", pkgLabel(pkg), name)
	}
	return fn
}

func (c *Ctx) TryFunc(pkg, name string) *ssa.Function {
	sp := c.SSA[pkg]
	if sp == nil {
		return nil
	}
	return sp.Func(name)
}

func pkgLabel(pkg string) string {
	if pkg == "" {
		return "ucfg"
	}
	return pkg
}

// Named resolves a named type of a repository package.
func (c *Ctx) Named(pkg, name string) *types.Named {
	p := c.Pkgs[pkg]
	if p == nil {
		undecidedf("ANCHOR-MISSING: package %q", pkg)
	}
	o := p.Types.Scope().Lookup(name)
	tn, ok := o.(*types.TypeName)
	if !ok {
		undecidedf("ANCHOR-MISSING: type %s.%s", pkgLabel(pkg), name)
	}
	n, ok := tn.Type().(*types.Named)
	if !ok {
		undecidedf("ANCHOR-MISSING: type %s.%s is not a named type", pkgLabel(pkg), name)
	}
	return n
}

func (c *Ctx) TryNamed(pkg, name string) *types.Named {
	p := c.Pkgs[pkg]
	if p == nil {
		return nil
	}
	tn, ok := p.Types.Scope().Lookup(name).(*types.TypeName)
	if !ok {
		return nil
	}
	n, _ := tn.Type().(*types.Named)
	return n
}

// Method resolves method name on T or *T.
func (c *Ctx) Method(pkg, typ, name string) *ssa.Function {
	fn := c.TryMethod(pkg, typ, name)
	if fn == nil {
		undecidedf("ANCHOR-MISSING: method %s.%s.%s", pkgLabel(pkg), typ, name)
	}
	return fn
}

func (c *Ctx) TryMethod(pkg, typ, name string) *ssa.Function {
	n := c.TryNamed(pkg, typ)
	if n == nil {
		return nil
	}
	for _, t := range []types.Type{n, types.NewPointer(n)} {
		ms := c.Prog.MethodSets.MethodSet(t)
		for i := 0; i < ms.Len(); i++ {
			sel := ms.At(i)
			if sel.Obj().Name() == name && len(sel.Index()) == 1 { // declared on this type, not promoted
				if fn := c.Prog.MethodValue(sel); fn != nil {
					// MethodValue of *T for a value-receiver method is a wrapper; unwrap to the declared one
					if f2 := c.Prog.FuncValue(sel.Obj().(*types.Func)); f2 != nil {
						return f2
					}
					return fn
				}
			}
		}
	}
	return nil
}

// Global resolves a package-level variable.
func (c *Ctx) Global(pkg, name string) *ssa.Global {
	sp := c.SSA[pkg]
	if sp == nil {
		undecidedf("ANCHOR-MISSING: package %q", pkg)
	}
	g, ok := sp.Members[name].(*ssa.Global)
	if !ok {
		undecidedf("ANCHOR-MISSING: variable %s.%s", pkgLabel(pkg), name)
	}
	return g
}

// ConstVal resolves a package-level constant.
func (c *Ctx) Const(pkg, name string) *types.Const {
	p := c.Pkgs[pkg]
	if p == nil {
		undecidedf("ANCHOR-MISSING: package %q", pkg)
	}
	k, ok := p.Types.Scope().Lookup(name).(*types.Const)
	if !ok {
		undecidedf("ANCHOR-MISSING: constant %s.%s", pkgLabel(pkg), name)
	}
	return k
}

// FieldIndex returns the index of field name in struct type T.
func (c *Ctx) FieldIndex(n *types.Named, name string) int {
	st, ok := n.Underlying().(*types.Struct)
	if !ok {
		undecidedf("ANCHOR-MISSING: %s is not a struct", n)
	}
	for i := 0; i < st.NumFields(); i++ {
		if st.Field(i).Name() == name {
			return i
		}
	}
	undecidedf("ANCHOR-MISSING: field %s.%s", n.Obj().Name(), name)
	return -1
}

// Implementations returns the repository's concrete types (T and *T) whose method set satisfies iface.
func (c *Ctx) Implementations(pkg string, iface *types.Interface) []types.Type {
	var out []types.Type
	p := c.Pkgs[pkg]
	names := p.Types.Scope().Names()
	for _, nm := range names {
		tn, ok := p.Types.Scope().Lookup(nm).(*types.TypeName)
		if !ok || tn.IsAlias() {
			continue
		}
		t := tn.Type()
		if types.IsInterface(t) {
			continue
		}
		if types.Implements(t, iface) {
			out = append(out, t)
		} else if types.Implements(types.NewPointer(t), iface) {
			out = append(out, types.NewPointer(t))
		}
	}
	return out
}

// MethodImpl returns the function implementing method name for concrete type t (following embedding).
func (c *Ctx) MethodImpl(t types.Type, name string) *ssa.Function {
	ms := c.Prog.MethodSets.MethodSet(t)
	for i := 0; i < ms.Len(); i++ {
		if ms.At(i).Obj().Name() == name {
			return c.Prog.MethodValue(ms.At(i))
		}
	}
	return nil
}

// ---- call graph ----------------------------------------------------------

func (c *Ctx) CG() *callgraph.Graph {
	if c.cg == nil {
		c.cg = vta.CallGraph(c.allFns, c.CHA())
	}
	return c.cg
}

func (c *Ctx) CHA() *callgraph.Graph {
	if c.chaCG == nil {
		c.chaCG = cha.CallGraph(c.Prog)
	}
	return c.chaCG
}

// Callees of a call instruction according to VTA (static callee when there is one).
func (c *Ctx) Callees(site ssa.CallInstruction) []*ssa.Function {
	if f := site.Common().StaticCallee(); f != nil {
		return []*ssa.Function{f}
	}
	n := c.CG().Nodes[site.Parent()]
	if n == nil {
		return nil
	}
	var out []*ssa.Function
	seen := map[*ssa.Function]bool{}
	for _, e := range n.Out {
		if e.Site == site && !seen[e.Callee.Func] {
			seen[e.Callee.Func] = true
			out = append(out, e.Callee.Func)
		}
	}
	sort.Slice(out, func(i, j int) bool { return out[i].String() < out[j].String() })
	return out
}

// Reach computes the set of functions reachable from roots in the VTA graph; cut nodes are not expanded
// (and not included), cutEdge (if non-nil) removes individual edges.
func (c *Ctx) Reach(roots []*ssa.Function, cut map[*ssa.Function]bool, cutEdge func(*callgraph.Edge) bool) map[*ssa.Function]bool {
	g := c.CG()
	seen := map[*ssa.Function]bool{}
	var work []*ssa.Function
	for _, r := range roots {
		if r != nil && !cut[r] && !seen[r] {
			seen[r] = true
			work = append(work, r)
		}
	}
	for len(work) > 0 {
		f := work[len(work)-1]
		work = work[:len(work)-1]
		n := g.Nodes[f]
		if n == nil {
			continue
		}
		for _, e := range n.Out {
			if cutEdge != nil && cutEdge(e) {
				continue
			}
			t := e.Callee.Func
			if cut[t] || seen[t] {
				continue
			}
			seen[t] = true
			work = append(work, t)
		}
	}
	return seen
}

// PathTo returns one call chain from `from` to `to` (function names), for diagnostics.
func (c *Ctx) PathTo(from, to *ssa.Function, cut map[*ssa.Function]bool) []string {
	g := c.CG()
	prev := map[*ssa.Function]*ssa.Function{from: nil}
	q := []*ssa.Function{from}
	for len(q) > 0 {
		f := q[0]
		q = q[1:]
		if f == to {
			var out []string
			for x := to; x != nil; x = prev[x] {
				out = append([]string{c.FnName(x)}, out...)
			}
			return out
		}
		n := g.Nodes[f]
		if n == nil {
			continue
		}
		for _, e := range n.Out {
			t := e.Callee.Func
			if cut[t] {
				continue
			}
			if _, ok := prev[t]; !ok {
				prev[t] = f
				q = append(q, t)
			}
		}
	}
	return nil
}

// ---- AST helpers ---------------------------------------------------------

// FuncDecl returns the syntax of a source function (nil for synthetic ones).
func (c *Ctx) FuncDecl(fn *ssa.Function) *ast.FuncDecl {
	if fd, ok := fn.Syntax().(*ast.FuncDecl); ok {
		return fd
	}
	return nil
}

func (c *Ctx) TypesInfo(fn *ssa.Function) *types.Info {
	for fn.Parent() != nil {
		fn = fn.Parent()
	}
	if fn.Pkg == nil {
		return nil
	}
	for _, p := range c.Pkgs {
		if p.Types == fn.Pkg.Pkg {
			return p.TypesInfo
		}
	}
	return nil
}

// ---- obligations ---------------------------------------------------------

type Status string

const (
	Discharged Status = "discharged"
	Violated   Status = "violated"
	Excepted   Status = "exception"
	Undecided  Status = "undecided"
)

type Obligation struct {
	Rule       string `json:"rule"`
	Key        string `json:"key"`
	Pos        string `json:"pos"`
	Status     Status `json:"status"`
	Fact       string `json:"fact"`
	Nontrivial bool   `json:"nontrivial"`
	Known      bool   `json:"known_finding,omitempty"`
}

type RuleInfo struct {
	ID        string `json:"id"`
	Text      string `json:"text"`
	Floor     int    `json:"floor"`
	Instances int    `json:"instances"`
}

type ControlResult struct {
	Name   string `json:"name"`
	Rule   string `json:"rule"`
	Kind   string `json:"kind"` // "mutant" (must fire) or "refactor" (must stay silent) or "repair"
	Result string `json:"result"`
}

type Report struct {
	Prop     string
	Tier     string
	Rules    []*RuleInfo
	ruleIdx  map[string]*RuleInfo
	Obs      []*Obligation
	keyCount map[string]int
	Notes    []string
	Assume   []string
	Controls []ControlResult
	Analysed map[string]int
}

func NewReport(prop, tier string) *Report {
	return &Report{Prop: prop, Tier: tier, ruleIdx: map[string]*RuleInfo{}, keyCount: map[string]int{}, Analysed: map[string]int{}}
}

// Rule declares a rule with the instance floor confirmed by hand on the pinned tree.
func (r *Report) Rule(id, text string, floor int) {
	if r.ruleIdx[id] != nil {
		return
	}
	ri := &RuleInfo{ID: id, Text: text, Floor: floor}
	r.Rules = append(r.Rules, ri)
	r.ruleIdx[id] = ri
}

// key builds rule/func/construct#n with n the ordinal among identical (rule, func, construct) triples.
func (r *Report) key(rule, fn, construct string) string {
	base := rule + "/" + fn + "/" + construct
	r.keyCount[base]++
	return fmt.Sprintf("%s#%d", base, r.keyCount[base])
}

func (r *Report) add(rule, fn, construct, pos string, st Status, nontrivial bool, fact string) *Obligation {
	ri := r.ruleIdx[rule]
	if ri == nil {
		panic("internal: obligation for undeclared rule " + rule)
	}
	ri.Instances++
	o := &Obligation{Rule: rule, Key: r.key(rule, fn, construct), Pos: pos, Status: st, Fact: fact, Nontrivial: nontrivial}
	r.Obs = append(r.Obs, o)
	return o
}

func (r *Report) OK(rule, fn, construct, pos, fact string) *Obligation {
	return r.add(rule, fn, construct, pos, Discharged, true, fact)
}
func (r *Report) Trivial(rule, fn, construct, pos, fact string) *Obligation {
	return r.add(rule, fn, construct, pos, Discharged, false, fact)
}
func (r *Report) Bad(rule, fn, construct, pos, fact string) *Obligation {
	return r.add(rule, fn, construct, pos, Violated, true, fact)
}
func (r *Report) Except(rule, fn, construct, pos, reason string) *Obligation {
	return r.add(rule, fn, construct, pos, Excepted, true, "EXCEPTION: "+reason)
}
func (r *Report) Check(cond bool, rule, fn, construct, pos, okFact, badFact string) *Obligation {
	if cond {
		return r.OK(rule, fn, construct, pos, okFact)
	}
	return r.Bad(rule, fn, construct, pos, badFact)
}
func (r *Report) Note(format string, a ...interface{}) {
	r.Notes = append(r.Notes, fmt.Sprintf(format, a...))
}
func (r *Report) Assumption(s string) { r.Assume = append(r.Assume, s) }

// ---- known findings --------------------------------------------------------

type KnownFinding struct {
	Property string `json:"property"`
	Key      string `json:"key"`
	What     string `json:"what"`
}

type FixedFinding struct {
	Property string `json:"property"`
	Commit   string `json:"commit"`
	What     string `json:"what"`
}

type KnownFile struct {
	Comment  string         `json:"comment"`
	Findings []KnownFinding `json:"findings"`
	Fixed    []FixedFinding `json:"fixed"`
}

func loadKnown(verifDir string) *KnownFile {
	kf := &KnownFile{}
	b, err := os.ReadFile(filepath.Join(verifDir, "known_findings.json"))
	if err != nil {
		return kf
	}
	if err := json.Unmarshal(b, kf); err != nil {
		undecidedf("known_findings.json is not valid JSON: %v", err)
	}
	return kf
}

// ---- finishing a run -------------------------------------------------------

type evidence struct {
	PropertyID  string                 `json:"property_id"`
	Tier        string                 `json:"tier"`
	Seed        int                    `json:"seed"`
	Level       string                 `json:"level"`
	Coverage    map[string]interface{} `json:"coverage"`
	Assumptions []string               `json:"assumptions"`
	WallS       float64                `json:"wall_s"`
	Violations  int                    `json:"violations"`
}

// Finish applies floors and known findings, writes evidence and replay files, prints the verdict lines
// and returns the process exit code.
func (r *Report) Finish(c *Ctx, verifDir string, start time.Time, explanation string, seed int) int {
	known := loadKnown(verifDir)
	knownIdx := map[string]KnownFinding{}
	for _, k := range known.Findings {
		if k.Property == r.Prop {
			knownIdx[k.Key] = k
		}
	}
	exit := 0
	var lines []string
	// floors
	for _, ri := range r.Rules {
		if ri.Instances < ri.Floor {
			lines = append(lines, fmt.Sprintf("UNDECIDED property=%s rule=%s instances=%d below floor=%d (the rule no longer finds the constructs it was confirmed on)", r.Prop, ri.ID, ri.Instances, ri.Floor))
			exit = 2
		}
	}
	replayDir := filepath.Join(verifDir, "evidence", "replay")
	nviol, ndis, nknown, nexc, nund, nnontriv := 0, 0, 0, 0, 0, 0
	usedKnown := map[string]bool{}
	for _, o := range r.Obs {
		if o.Nontrivial {
			nnontriv++
		}
		switch o.Status {
		case Discharged:
			ndis++
		case Excepted:
			nexc++
		case Undecided:
			nund++
			lines = append(lines, fmt.Sprintf("UNDECIDED property=%s %s at %s: %s", r.Prop, o.Key, o.Pos, o.Fact))
			if exit == 0 {
				exit = 2
			}
		case Violated:
			if k, ok := knownIdx[o.Key]; ok {
				o.Known = true
				usedKnown[o.Key] = true
				nknown++
				lines = append(lines, fmt.Sprintf("KNOWN-FINDING: property=%s %s at %s: %s", r.Prop, o.Key, o.Pos, k.What))
				continue
			}
			nviol++
			os.MkdirAll(replayDir, 0o755)
			rp := filepath.Join(replayDir, fmt.Sprintf("%s-%s.json", r.Prop, sanitize(o.Key)))
			rb, _ := json.MarshalIndent(map[string]interface{}{
				"property": r.Prop, "rule": o.Rule, "key": o.Key, "position": o.Pos, "finding": o.Fact,
				"rule_text": r.ruleIdx[o.Rule].Text,
				"rerun":     fmt.Sprintf("cd /verif && bin/ucfgcheck -prop %s -tier quick -only '%s'", r.Prop, o.Key),
			}, "", " ")
			os.WriteFile(rp, rb, 0o644)
			lines = append(lines, fmt.Sprintf("FINDING %s at %s: %s", o.Key, o.Pos, o.Fact))
			lines = append(lines, fmt.Sprintf("VIOLATION property=%s replay=%s", r.Prop, rp))
			exit = 1
		}
	}
	for _, cr := range r.Controls {
		if strings.HasPrefix(cr.Result, "SKIPPED") {
			lines = append(lines, fmt.Sprintf("NOTE property=%s self-test %s not run: %s", r.Prop, cr.Name, cr.Result))
		}
		if strings.HasPrefix(cr.Result, "FAIL") {
			lines = append(lines, fmt.Sprintf("UNDECIDED property=%s self-test %s (%s, rule %s): %s", r.Prop, cr.Name, cr.Kind, cr.Rule, cr.Result))
			if exit == 0 {
				exit = 2
			}
		}
	}
	for _, n := range r.Notes {
		if strings.HasPrefix(n, "normalisation") {
			lines = append(lines, fmt.Sprintf("NOTE property=%s %s", r.Prop, n))
		}
	}
	for k := range knownIdx {
		if !usedKnown[k] {
			if strings.HasPrefix(k, "ARCH386/") && r.Tier != "thorough" {
				continue // the 32-bit rules run in the thorough tier only
			}
			lines = append(lines, fmt.Sprintf("NOTE property=%s known finding %q no longer reproduces on this tree", r.Prop, k))
		}
	}

	// evidence
	samples := []interface{}{}
	perRule := map[string]int{}
	for _, o := range r.Obs {
		if o.Nontrivial && perRule[o.Rule] < 2 {
			perRule[o.Rule]++
			samples = append(samples, o)
		}
	}
	var viol []interface{}
	for _, o := range r.Obs {
		if o.Status == Violated || o.Status == Excepted || o.Status == Undecided {
			viol = append(viol, o)
		}
	}
	distinct := map[string]bool{}
	for _, o := range r.Obs {
		if o.Nontrivial {
			distinct[o.Key] = true
		}
	}
	cov := map[string]interface{}{
		"explanation":         explanation,
		"obligations":         len(r.Obs),
		"discharged":          ndis,
		"evaluations":         len(r.Obs),
		"distinct_nontrivial": len(distinct),
		"rule":                "one obligation per rule instance found in the current tree (function, call site, return path, conversion, store, loop ...), keyed rule/function/construct#ordinal; non-trivial = needed a guard, path, flow or table argument rather than being true by absence",
		"samples":             samples,
		"rules":               r.Rules,
		"not_discharged":      viol,
		"violations_new":      nviol,
		"known_findings_hit":  nknown,
		"exceptions_used":     nexc,
		"undecided":           nund,
		"controls":            r.Controls,
		"analysed":            r.Analysed,
		"notes":               r.Notes,
		"checker_cmd":         fmt.Sprintf("bin/ucfgcheck -prop %s -tier %s", r.Prop, r.Tier),
		"trusted_base":        []string{"go/types type checker", "x/tools go/ssa builder v0.29.0", "x/tools VTA call graph over CHA", "effect tables for reflect and the standard library listed in DESIGN.md"},
		"exhaustive":          false,
	}
	if c != nil {
		cov["packages_loaded"] = len(c.Pkgs)
		cov["functions_in_repo"] = len(c.srcFns)
		cov["goarch"] = c.GOARCH
	}
	ev := evidence{PropertyID: r.Prop, Tier: r.Tier, Seed: seed, Level: "other", Coverage: cov,
		Assumptions: r.Assume, WallS: time.Since(start).Seconds(), Violations: nviol}
	if ev.Assumptions == nil {
		ev.Assumptions = []string{}
	}
	os.MkdirAll(filepath.Join(verifDir, "evidence"), 0o755)
	eb, _ := json.MarshalIndent(ev, "", " ")
	if err := os.WriteFile(filepath.Join(verifDir, "evidence", r.Prop+".json"), eb, 0o644); err != nil {
		lines = append(lines, "UNDECIDED cannot write evidence: "+err.Error())
		if exit == 0 {
			exit = 2
		}
	}

	for _, ri := range r.Rules {
		fmt.Printf("rule %-6s instances=%-3d floor=%-3d %s\n", ri.ID, ri.Instances, ri.Floor, ri.Text)
	}
	for _, l := range lines {
		fmt.Println(l)
	}
	fmt.Printf("SUMMARY property=%s tier=%s obligations=%d discharged=%d exceptions=%d known=%d violations=%d undecided=%d exit=%d wall=%.1fs\n",
		r.Prop, r.Tier, len(r.Obs), ndis, nexc, nknown, nviol, nund, exit, time.Since(start).Seconds())
	return exit
}

func sanitize(s string) string {
	var b strings.Builder
	for _, r := range s {
		switch {
		case r >= 'a' && r <= 'z', r >= 'A' && r <= 'Z', r >= '0' && r <= '9', r == '.', r == '-', r == '_':
			b.WriteRune(r)
		default:
			b.WriteByte('_')
		}
	}
	return b.String()
}
