package main

// C08 — reference resolution terminates: cycles are errors, everything else resolves.
// R08a every tree lookup made by the evaluator goes through the guarded lookup (who-may-call);
// R08b the guard is effective; R08c guard state is never reset inside a recursion;
// R08d guard entries are scoped (pairing; text-level evaluations; per-element traversal scopes);
// R08e only primitives are cached; R08f the guard chain is never cut;
// R08g an unresolved reference is never reported as success (shared with C02 R02d).

import (
	"fmt"
	"go/token"
	"go/types"
	"sort"
	"strings"

	"golang.org/x/tools/go/callgraph"
	"golang.org/x/tools/go/ssa"
)

func init() {
	register("C08", "Call-graph and path rules over the reference evaluator: (a) inside the closure of cfgDynamic.getValue (VTA graph, parseValue cut) only resolveRef calls the path-lookup API and only the downward traversals read node storage, so every hop between dynamic values registers with the cycle guard; (b) in resolveRef the AddNew test dominates the lookup and its failing edge returns the cyclic error; AddNew/Has consult the parent chain; (c) no caller of makeOptions lies on a call-graph cycle (handling-tree edges cut, backed by an obligation on what a handling tree may contain); (d) every function that opens a guard scope restores it on every successful exit, the text-level evaluators call resolve only inside a scope that also covers the consumption of the value, and every loop over the children of a node that can reach resolveRef opens a fresh child scope per iteration; (e) values whose toConfig yields a live config are never cached; (f) newFieldSet(nil) only in makeOptions; (g) resolveEnv reports success only after a resolver succeeded. Decides termination of the evaluation recursion and absence of false cycles from sibling reuse for all reference graphs; does not decide that non-cyclic graphs produce the right text.", checkC08)
}

var evalMethods = map[string]bool{"toString": true, "toInt": true, "toUint": true, "toFloat": true, "toBool": true, "toConfig": true,
	"reify": true, "reflect": true, "Len": true, "typ": true}

func checkC08(c *Ctx, r *Report) {
	r.Assumption("text produced by an evaluation is normalized into a fresh tree with the read's options (cut at parseValue); recursion through it needs resolvers that keep producing new ${} text, which is outside 'reference graphs over the settings of a configuration'")
	r.Assumption("resolver callbacks terminate")
	getValue := c.Method("", "cfgDynamic", "getValue")
	parseValue := c.Func("", "parseValue")
	resolveRef := c.Method("", "reference", "resolveRef")
	resolve := c.Method("", "reference", "resolve")
	newFieldSet := c.Func("", "newFieldSet")
	makeOptions := c.Func("", "makeOptions")
	optsT := c.Named("", "options")
	_ = optsT

	// ---- R08a ----
	r.Rule("R08a", "inside the evaluation closure (reachable from cfgDynamic.getValue, parseValue cut) the path-lookup API is called only by reference.resolveRef, and node storage is read only by the lookup API itself and the downward traversals", 3)
	closure := c.Reach([]*ssa.Function{getValue}, map[*ssa.Function]bool{parseValue: true}, nil)
	r.Analysed["evaluation closure functions"] = len(closure)
	isLookup := func(f *ssa.Function) bool {
		if f == nil || f.Signature.Recv() == nil {
			return false
		}
		n := namedOf(f.Signature.Recv().Type())
		if n == nil || n.Obj().Pkg() == nil || n.Obj().Pkg().Path() != modPath {
			return false
		}
		switch n.Obj().Name() {
		case "cfgPath", "namedField", "idxField":
			return f.Name() == "GetValue" || f.Name() == "Has" || f.Name() == "SetValue" || f.Name() == "Remove"
		}
		return false
	}
	isFieldsAccessor := func(f *ssa.Function) bool {
		if f == nil || f.Signature.Recv() == nil {
			return false
		}
		n := namedOf(f.Signature.Recv().Type())
		return n != nil && n.Obj().Name() == "fields" && n.Obj().Pkg() != nil && n.Obj().Pkg().Path() == modPath
	}
	if !closure[resolveRef] {
		r.Bad("R08a", c.FnName(getValue), "closure contains resolveRef", c.Pos(getValue.Pos()), "positive control failed: resolveRef is not reachable from cfgDynamic.getValue — the reachability query is vacuous")
	} else {
		r.OK("R08a", c.FnName(getValue), "closure contains resolveRef", c.Pos(getValue.Pos()), fmt.Sprintf("%d functions in the evaluation closure, resolveRef among them", len(closure)))
	}
	var cl []*ssa.Function
	for f := range closure {
		if c.InRepo(f) {
			cl = append(cl, f)
		}
	}
	sort.Slice(cl, func(i, j int) bool { return c.FnName(cl[i]) < c.FnName(cl[j]) })
	allowedReaders := map[string]bool{"(ucfg.cfgSub).reify": true, "(ucfg.cfgSub).Len": true, "(*ucfg.Config).Parent": true}
	nLookupCallers := 0
	for _, f := range cl {
		if isLookup(f) || isFieldsAccessor(f) {
			continue
		}
		n := c.CG().Nodes[f]
		if n == nil {
			continue
		}
		seen := map[*ssa.Function]bool{}
		for _, e := range n.Out {
			g := e.Callee.Func
			if seen[g] {
				continue
			}
			seen[g] = true
			if isLookup(g) {
				nLookupCallers++
				ok := f == resolveRef
				r.Check(ok, "R08a", c.FnName(f), "calls "+g.Name()+" of "+recvName(g), c.Pos(e.Pos()), "the guarded lookup", "a tree lookup is made during evaluation outside reference.resolveRef: this hop from one setting to another does not register with the cycle guard")
			}
		}
		// direct readers of node storage
		reads := false
		Instrs(f, false, func(in ssa.Instruction) {
			if l, ok := in.(*ssa.UnOp); ok && l.Op == token.MUL {
				if nt, fld, ok := FieldOf(l.X); ok && nt.Obj().Name() == "fields" && (fld == "d" || fld == "a") {
					reads = true
				}
			}
			if ci, ok := in.(ssa.CallInstruction); ok {
				if g := ci.Common().StaticCallee(); g != nil && isFieldsAccessor(g) {
					reads = true
				}
			}
		})
		if reads {
			name := c.FnName(f)
			base := strings.TrimSuffix(name, "$bound")
			r.Check(allowedReaders[base], "R08a", name, "reads node storage", c.Pos(f.Pos()), "a strictly downward traversal", "a function on the evaluation path reads a node's children directly, bypassing the guarded lookup")
		}
	}
	if nLookupCallers == 0 {
		r.Bad("R08a", c.FnName(resolveRef), "calls lookup", c.Pos(resolveRef.Pos()), "nobody in the evaluation closure calls the path-lookup API")
	}

	// ---- R08f ----
	r.Rule("R08f", "newFieldSet is called with a nil parent only in makeOptions; every other call passes the set that was current (options.activeFields)", 7)
	for _, f := range c.SrcFuncs() {
		for _, ci := range CallsTo(f, newFieldSet, false) {
			arg := ci.Common().Args[0]
			if IsNilConst(arg) {
				r.Check(f == makeOptions, "R08f", c.FnName(f), "newFieldSet(nil)", c.Pos(ci.Pos()), "root set of a new options object", "a guard set without parent is created outside makeOptions: the chain of active references is cut")
				continue
			}
			ok := true
			for _, s := range Sources(arg) {
				if !IsLoadOfField(s, "options", "activeFields") {
					ok = false
				}
			}
			r.Check(ok, "R08f", c.FnName(f), "newFieldSet(parent)", c.Pos(ci.Pos()), "parent is the current options.activeFields", "the parent of a new guard set is not the set that was current: "+describeVals(Sources(arg)))
		}
	}

	// ---- R08b ----
	r.Rule("R08b", "resolveRef: AddNew(path) on options.activeFields dominates every lookup; its failing edge returns raiseCyclicErr; AddNew adds only when Has is false; Has recurses into the parent", 4)
	guardEffective(c, r, resolveRef)

	// ---- R08c ----
	r.Rule("R08c", "no function that calls makeOptions lies on a call-graph cycle (edges out of fieldHandlingTree methods cut); handling trees hold only policy constants and sub-trees", 12)
	noResetInRecursion(c, r, makeOptions)

	// ---- R08d ----
	r.Rule("R08d", "guard scopes: (i) every open (options.activeFields = newFieldSet(prev)) is restored on every successful exit; (ii) direct callers of reference.resolve among the text evaluators call it inside a scope that also covers every evaluation call on the resolved value; (iii) every loop over the children of a node that can reach resolveRef opens a fresh child scope per iteration", 14)
	scopeRules(c, r, resolveRef, resolve, newFieldSet)

	// ---- R08e ----
	r.Rule("R08e", "values whose toConfig yields a live (non-fresh) config answer canCache() with the constant false; cachedValue stores under v != nil && v.canCache() and under no further condition", 4)
	cacheRules(c, r)

	// ---- R08g ----
	r.Rule("R08g", "resolveEnv returns a nil error only with the results of a resolver call whose error was nil; every other return carries a non-nil error", 2)
	resolveEnvRule(c, r, "R08g")

	// ---- R08h ----
	r.Rule("R08h", "what cfgDynamic.getValue hands to the per-call cache (and returns) is never itself a dynamic value: a reference to a reference is followed to its end, so that the end of the chain is cached and a second look at the setting within one field does not re-register the first hop", 1)
	chainRule(c, r, "R08h")
}

// chainRule: in the function literal that cfgDynamic.getValue passes to cachedValue, every return of
// a value with a possibly nil error is reached only over the failing edge of a `v.(*cfgDynamic)` test
// on the returned value, or over an err != nil edge.
func chainRule(c *Ctx, r *Report, rule string) {
	gv := c.Method("", "cfgDynamic", "getValue")
	dynT := c.Named("", "cfgDynamic")
	var lits []*ssa.Function
	for _, a := range gv.AnonFuncs {
		lits = append(lits, a)
	}
	if len(lits) != 1 {
		r.add(rule, c.FnName(gv), "chain followed", c.Pos(gv.Pos()), Undecided, true, fmt.Sprintf("expected one function literal in cfgDynamic.getValue, found %d", len(lits)))
		return
	}
	fn := lits[0]
	for _, ret := range Returns(fn) {
		if len(ret.Results) != 2 {
			continue
		}
		v := RetVal(ret, 0)
		if IsNilConst(v) {
			continue
		}
		// the result of getValue itself is not dynamic (inductively)
		inductive := true
		for _, src := range append(Sources(v), v) {
			ex, isEx := src.(*ssa.Extract)
			if !isEx || ex.Index != 0 {
				inductive = false
				break
			}
			call, isCall := ex.Tuple.(*ssa.Call)
			if !isCall || call.Call.StaticCallee() != gv {
				inductive = false
				break
			}
		}
		if inductive {
			r.OK(rule, c.FnName(fn), "chain followed", c.Pos(ret.Pos()), "returns the result of getValue on the next hop")
			continue
		}
		ok := true
		why := ""
		// every edge into the return block must exclude "v is a *cfgDynamic and err == nil"
		var walk func(b *ssa.BasicBlock, seen map[*ssa.BasicBlock]bool) bool
		walk = func(b *ssa.BasicBlock, seen map[*ssa.BasicBlock]bool) bool {
			if seen[b] {
				return true
			}
			seen[b] = true
			if len(b.Preds) == 0 {
				return false
			}
			for _, p := range b.Preds {
				ifi, isIf := lastInstr(p).(*ssa.If)
				if isIf && p.Succs[0] != p.Succs[1] {
					truth := p.Succs[0] == b
					// ok-result of a comma-ok assertion to *cfgDynamic, taken false
					if ex, isEx := ifi.Cond.(*ssa.Extract); isEx && ex.Index == 1 && !truth {
						if ta, isTA := ex.Tuple.(*ssa.TypeAssert); isTA && ta.CommaOk {
							if pt, isP := ta.AssertedType.(*types.Pointer); isP && types.Identical(pt.Elem(), dynT) {
								continue
							}
						}
					}
					// err == nil taken false / err != nil taken true
					if bo, isB := ifi.Cond.(*ssa.BinOp); isB && (bo.Op == token.EQL || bo.Op == token.NEQ) && (IsNilConst(bo.Y) || IsNilConst(bo.X)) {
						other := bo.X
						if IsNilConst(bo.X) {
							other = bo.Y
						}
						if other.Type().String() == "error" || isNamed(other.Type(), modPath, "Error") {
							if (bo.Op == token.NEQ) == truth {
								continue
							}
						}
					}
				}
				if !walk(p, seen) {
					return false
				}
			}
			return true
		}
		if !walk(ret.Block(), map[*ssa.BasicBlock]bool{}) {
			ok = false
			why = "a path reaches the return without a failed `v.(*cfgDynamic)` test or a non-nil error"
		}
		r.Check(ok, rule, c.FnName(fn), "chain followed", c.Pos(ret.Pos()), "the returned value is not a dynamic value unless an error is returned with it",
			"cfgDynamic.getValue can cache and return a value that is itself a reference ("+why+"): such a result is not cacheable, every further look at the setting within one field resolves the first hop again and the cycle guard reports a cyclic reference for a plain chain a -> b -> c")
	}
}

func recvName(f *ssa.Function) string {
	if f.Signature.Recv() == nil {
		return ""
	}
	if n := namedOf(f.Signature.Recv().Type()); n != nil {
		return n.Obj().Name()
	}
	return ""
}

func guardEffective(c *Ctx, r *Report, resolveRef *ssa.Function) {
	name := c.FnName(resolveRef)
	addNew := c.Method("", "fieldSet", "AddNew")
	has := c.Method("", "fieldSet", "Has")
	add := c.Method("", "fieldSet", "Add")
	cyc := c.Func("", "raiseCyclicErr")
	calls := CallsTo(resolveRef, addNew, false)
	if len(calls) != 1 {
		r.Bad("R08b", name, "AddNew", c.Pos(resolveRef.Pos()), fmt.Sprintf("expected exactly one AddNew call in resolveRef, found %d", len(calls)))
		return
	}
	an := calls[0].(*ssa.Call)
	recvOK := IsLoadOfField(an.Call.Args[0], "options", "activeFields")
	if recvOK {
		p, _ := AccessPath(an.Call.Args[0])
		recvOK = strings.HasPrefix(p, resolveRef.Params[2].Name()+".") || strings.HasPrefix(p, "opts.")
	}
	// the key registered is the reference's own path
	keyOK := false
	if k, ok := an.Call.Args[1].(*ssa.Call); ok {
		if f := k.Call.StaticCallee(); f != nil && f.Name() == "String" && recvName(f) == "cfgPath" {
			if p, ok := AccessPath(k.Call.Args[0]); ok && strings.HasSuffix(p, ".Path") {
				keyOK = true
			}
		}
	}
	r.Check(recvOK && keyOK, "R08b", name, "AddNew(r.Path) on opts.activeFields", c.Pos(an.Pos()), "registers the reference's own path in the current set", "resolveRef does not register its own path in the options' current active set")
	// every lookup / env access dominated by ok == true
	domOK := true
	nLook := 0
	for _, ci := range CallsIn(resolveRef, false) {
		f := ci.Common().StaticCallee()
		if f == nil || !(recvName(f) == "cfgPath" && f.Name() == "GetValue") {
			continue
		}
		nLook++
		ok := false
		for _, cd := range DomConds(ci.(ssa.Instruction).Block()) {
			if cd.V == ssa.Value(an) && cd.Truth {
				ok = true
			}
		}
		if !ok {
			domOK = false
		}
	}
	r.Check(domOK && nLook > 0, "R08b", name, "lookup after guard", c.Pos(an.Pos()), fmt.Sprintf("%d lookup(s) dominated by AddNew == true", nLook), "a tree lookup in resolveRef is reachable without a successful AddNew (evaluating before registering)")
	// failing edge returns the cyclic error
	failOK := false
	for _, ret := range Returns(resolveRef) {
		for _, cd := range DomConds(ret.Block()) {
			if cd.V == ssa.Value(an) && !cd.Truth {
				if len(ret.Results) == 2 {
					for _, s := range Sources(RetVal(ret, 1)) {
						if call, ok := s.(*ssa.Call); ok && IsCallTo(call, cyc) {
							failOK = true
						}
					}
				}
			}
		}
	}
	r.Check(failOK, "R08b", name, "re-entry is an error", c.Pos(an.Pos()), "AddNew == false returns raiseCyclicErr", "the failing edge of the guard does not return the cyclic-reference error (cycle swallowed at the guard)")
	// AddNew: adds only when !Has ; Has recurses to parent
	{
		hs := CallsTo(addNew, has, false)
		as := CallsTo(addNew, add, false)
		ok := len(hs) == 1 && len(as) == 1
		if ok {
			ok = false
			for _, cd := range DomConds(as[0].(ssa.Instruction).Block()) {
				// condition is !Has(...) == true, i.e. (not Has) ; accept UnOp NOT of the Has call or a value derived from it
				v := cd.V
				truth := cd.Truth
				if u, isU := v.(*ssa.UnOp); isU && u.Op == token.NOT {
					v, truth = u.X, !truth
				}
				if v == hs[0].Value() && !truth {
					ok = true
				}
			}
			ok = ok && hs[0].Common().Args[0] == ssa.Value(addNew.Params[0]) && hs[0].Common().Args[1] == ssa.Value(addNew.Params[1]) &&
				as[0].Common().Args[0] == ssa.Value(addNew.Params[0]) && as[0].Common().Args[1] == ssa.Value(addNew.Params[1])
		}
		r.Check(ok, "R08b", c.FnName(addNew), "add only when absent", c.Pos(addNew.Pos()), "Add(name) dominated by !Has(name)", "fieldSet.AddNew does not test Has(name) before adding")
	}
	{
		rec := CallsTo(has, has, false)
		ok := false
		for _, rc := range rec {
			if p, okp := AccessPath(rc.Common().Args[0]); okp && strings.HasSuffix(p, ".parent") && rc.Common().Args[1] == ssa.Value(has.Params[1]) {
				ok = true
			}
		}
		r.Check(ok, "R08b", c.FnName(has), "consults parent chain", c.Pos(has.Pos()), "Has recurses into s.parent with the same name", "fieldSet.Has no longer consults the parent chain: nested scopes do not see the references active in enclosing scopes")
	}
}

func noResetInRecursion(c *Ctx, r *Report, makeOptions *ssa.Function) {
	g := c.CG()
	isTreeMethod := func(f *ssa.Function) bool {
		return f != nil && recvName(f) == "fieldHandlingTree"
	}
	// adjacency over repository functions with the cut
	adj := map[*ssa.Function][]*ssa.Function{}
	var nodes []*ssa.Function
	for f, n := range g.Nodes {
		if f == nil || !c.InRepo(f) {
			continue
		}
		nodes = append(nodes, f)
		if isTreeMethod(f) {
			continue
		}
		for _, e := range n.Out {
			if c.InRepo(e.Callee.Func) {
				adj[f] = append(adj[f], e.Callee.Func)
			}
		}
	}
	sort.Slice(nodes, func(i, j int) bool { return nodes[i].String() < nodes[j].String() })
	scc := tarjan(nodes, adj)
	onCycle := func(f *ssa.Function) bool {
		if len(scc[f]) > 1 {
			return true
		}
		for _, t := range adj[f] {
			if t == f {
				return true
			}
		}
		return false
	}
	ncallers := 0
	if n := g.Nodes[makeOptions]; n != nil {
		seen := map[*ssa.Function]bool{}
		var callers []*callgraph.Edge
		for _, e := range n.In {
			if !seen[e.Caller.Func] && c.InRepo(e.Caller.Func) {
				seen[e.Caller.Func] = true
				callers = append(callers, e)
			}
		}
		sort.Slice(callers, func(i, j int) bool { return callers[i].Caller.Func.String() < callers[j].Caller.Func.String() })
		for _, e := range callers {
			f := e.Caller.Func
			ncallers++
			if onCycle(f) {
				var members []string
				for _, m := range scc[f] {
					members = append(members, c.FnName(m))
				}
				sort.Strings(members)
				if len(members) > 6 {
					members = append(members[:6], fmt.Sprintf("... %d more", len(members)-6))
				}
				r.Bad("R08c", c.FnName(f), "makeOptions caller on a cycle", c.Pos(e.Pos()), "a function that builds fresh options (empty guard set) is recursive: the set of active references is empty again at every level, so a reference leading back to an enclosing node recurses without bound (cycle: "+strings.Join(members, ", ")+")")
			} else {
				r.OK("R08c", c.FnName(f), "makeOptions caller on a cycle", c.Pos(e.Pos()), "not on any call-graph cycle")
			}
		}
	}
	if ncallers == 0 {
		r.Bad("R08c", c.FnName(makeOptions), "callers", c.Pos(makeOptions.Pos()), "makeOptions has no callers in the call graph")
	}
	// backing obligation for the cut: what goes into a handling tree
	merge := c.Method("", "fieldHandlingTree", "merge")
	varexp := c.Global("", "VarExp")
	for _, f := range c.SrcFuncs() {
		for _, ci := range CallsTo(f, merge, false) {
			args := ci.Common().Args
			ok := true
			why := ""
			for _, s := range Sources(args[1]) {
				t := s.Type()
				if m, isMap := t.Underlying().(*types.Map); isMap && isNamed(m.Elem(), modPath, "configHandling") {
					continue
				}
				if isNamed(t, modPath, "fieldHandlingTree") {
					continue
				}
				ok, why = false, "merged value of type "+typeStr(t)
			}
			if len(args) > 2 {
				for _, s := range Sources(args[2]) {
					if a, isAlloc := s.(*ssa.Alloc); isAlloc {
						// slice literal of options: none of its elements may be VarExp
						for _, ref := range *a.Referrers() {
							if ia, isIA := ref.(*ssa.IndexAddr); isIA {
								for _, r2 := range *ia.Referrers() {
									if st, isSt := r2.(*ssa.Store); isSt {
										for _, s2 := range Sources(st.Val) {
											if l, isL := s2.(*ssa.UnOp); isL && l.X == ssa.Value(varexp) {
												ok, why = false, "VarExp passed to a handling tree"
											}
										}
									}
								}
							}
						}
						continue
					}
					if IsNilConst(s) {
						continue
					}
					ok, why = false, "options of unknown origin: "+s.String()
				}
			}
			r.Check(ok, "R08c", c.FnName(f), "handling tree content", c.Pos(ci.Pos()), "only map[string]configHandling / sub-trees, no VarExp", "the justification for cutting handling-tree edges does not hold: "+why)
		}
	}
}

func tarjan(nodes []*ssa.Function, adj map[*ssa.Function][]*ssa.Function) map[*ssa.Function][]*ssa.Function {
	index := map[*ssa.Function]int{}
	low := map[*ssa.Function]int{}
	on := map[*ssa.Function]bool{}
	var stack []*ssa.Function
	res := map[*ssa.Function][]*ssa.Function{}
	idx := 0
	type frame struct {
		v *ssa.Function
		i int
	}
	for _, root := range nodes {
		if _, ok := index[root]; ok {
			continue
		}
		var st []frame
		index[root], low[root] = idx, idx
		idx++
		stack = append(stack, root)
		on[root] = true
		st = append(st, frame{root, 0})
		for len(st) > 0 {
			fr := &st[len(st)-1]
			v := fr.v
			if fr.i < len(adj[v]) {
				w := adj[v][fr.i]
				fr.i++
				if _, ok := index[w]; !ok {
					index[w], low[w] = idx, idx
					idx++
					stack = append(stack, w)
					on[w] = true
					st = append(st, frame{w, 0})
				} else if on[w] {
					if index[w] < low[v] {
						low[v] = index[w]
					}
				}
				continue
			}
			st = st[:len(st)-1]
			if len(st) > 0 {
				p := st[len(st)-1].v
				if low[v] < low[p] {
					low[p] = low[v]
				}
			}
			if low[v] == index[v] {
				var comp []*ssa.Function
				for {
					w := stack[len(stack)-1]
					stack = stack[:len(stack)-1]
					on[w] = false
					comp = append(comp, w)
					if w == v {
						break
					}
				}
				for _, w := range comp {
					res[w] = comp
				}
			}
		}
	}
	return res
}

// ---- scopes ------------------------------------------------------------------

type scopeInfo struct {
	opens    []*ssa.Store // options.activeFields = newFieldSet(..)
	restores []*ssa.Store // options.activeFields = <saved previous set>
	deferred bool         // a deferred closure restores the saved set
}

func scopesOf(fn *ssa.Function, newFieldSet *ssa.Function) scopeInfo {
	var si scopeInfo
	isAF := func(addr ssa.Value) bool {
		nt, f, ok := FieldOf(addr)
		return ok && nt.Obj().Name() == "options" && f == "activeFields"
	}
	classify := func(st *ssa.Store) string {
		for _, s := range Sources(st.Val) {
			if call, ok := s.(*ssa.Call); ok && IsCallTo(call, newFieldSet) {
				return "open"
			}
		}
		all := true
		for _, s := range Sources(st.Val) {
			if !IsLoadOfField(s, "options", "activeFields") {
				all = false
			}
		}
		if all {
			return "restore"
		}
		return "other"
	}
	Instrs(fn, false, func(in ssa.Instruction) {
		if st, ok := in.(*ssa.Store); ok && isAF(st.Addr) {
			switch classify(st) {
			case "open":
				si.opens = append(si.opens, st)
			case "restore":
				si.restores = append(si.restores, st)
			}
		}
		if d, ok := in.(*ssa.Defer); ok {
			if mc, ok := d.Call.Value.(*ssa.MakeClosure); ok {
				Instrs(mc.Fn.(*ssa.Function), false, func(in2 ssa.Instruction) {
					if st, ok := in2.(*ssa.Store); ok && isAF(st.Addr) && classify(st) == "restore" {
						si.deferred = true
					}
				})
			}
		}
	})
	return si
}

// scopedAt: is instruction `at` executed inside a scope opened in its own function — an open
// dominates it and no explicit restore lies between that open and it?
func scopedAt(si scopeInfo, at ssa.Instruction) bool {
	for _, o := range si.opens {
		if !InstrDominates(o, at) {
			continue
		}
		closed := false
		for _, rs := range si.restores {
			if InstrDominates(o, rs) && InstrDominates(rs, at) {
				closed = true
			}
		}
		if !closed {
			return true
		}
	}
	return false
}

func scopeRules(c *Ctx, r *Report, resolveRef, resolve, newFieldSet *ssa.Function) {
	makeOptions := c.Func("", "makeOptions")
	// functions whose failure can be absorbed: a caller tests the error of a call and still reaches a
	// successful return (${x:default} and friends). Below such a caller a scope must be restored on
	// error exits too, because evaluation goes on with the same options.
	var absorbed []*ssa.Function
	for _, fn := range c.SrcFuncs() {
		if fn.Pkg != c.SSA[""] {
			continue
		}
		for _, call := range absorbsErrors(fn) {
			r.Analysed["call sites whose failure is absorbed"]++
			absorbed = append(absorbed, c.Callees(call)...)
		}
	}
	absorbable := c.Reach(absorbed, nil, nil)
	// (i) pairing
	for _, fn := range c.SrcFuncs() {
		if fn == makeOptions || fn.Pkg != c.SSA[""] && fn.Parent() == nil {
			continue
		}
		si := scopesOf(fn, newFieldSet)
		if len(si.opens) == 0 {
			continue
		}
		name := c.FnName(fn)
		if si.deferred {
			r.OK("R08d", name, "open restored", c.Pos(si.opens[0].Pos()), "deferred restore of the saved set")
			continue
		}
		// explicit: no successful return reachable from an open without passing a restore
		bad, badErr := false, false
		for _, o := range si.opens {
			avoid := map[*ssa.BasicBlock]bool{}
			restoredInBlock := false
			for _, rs := range si.restores {
				if rs.Block() == o.Block() && InstrDominates(o, rs) {
					restoredInBlock = true
				}
				if rs.Block() != o.Block() {
					avoid[rs.Block()] = true
				}
			}
			if restoredInBlock {
				continue
			}
			for _, ret := range Returns(fn) {
				if !successfulReturn(ret) && !absorbable[fn] {
					continue
				}
				if ret.Block() == o.Block() || reachableAvoiding(o.Block(), ret.Block(), avoid) && !avoid[ret.Block()] {
					bad = true
					if !successfulReturn(ret) {
						badErr = true
					}
				}
			}
		}
		okFact := "every successful exit passes a restore"
		if absorbable[fn] {
			okFact = "every exit passes a restore (a failure below ${x:default} is absorbed and evaluation continues)"
		}
		badFact := "a guard scope opened here is still current on a successful return: entries leak into (or hide from) later evaluations"
		if badErr {
			badFact = "a guard scope opened here is still current when the function fails, and a caller (${x:default}, ${x:+alt}, ${x:?err}) absorbs that failure and keeps evaluating: the names registered in the leaked scope produce false cyclic-reference errors"
		}
		r.Check(!bad, "R08d", name, "open restored", c.Pos(si.opens[0].Pos()), okFact, badFact)
	}
	// (ii) direct callers of resolve/resolveRef among the evaluators
	for _, fn := range c.SrcFuncs() {
		if fn == resolve || fn == resolveRef || fn.Pkg != c.SSA[""] {
			continue
		}
		if recvName(fn) == "refDynValue" {
			continue // whole-value references live in the scope of the field being read (see (iii))
		}
		var sites []ssa.CallInstruction
		sites = append(sites, CallsTo(fn, resolve, false)...)
		sites = append(sites, CallsTo(fn, resolveRef, false)...)
		if len(sites) == 0 {
			continue
		}
		si := scopesOf(fn, newFieldSet)
		name := c.FnName(fn)
		for _, s := range sites {
			in := s.(ssa.Instruction)
			ok := scopedAt(si, in)
			why := "resolve is called outside any guard scope of the evaluator: the entry it registers stays active after this evaluation, so a second use of the same variable in the same text is reported as a cycle"
			if ok {
				// consumption of the resolved value inside the same scope
				if call, isCall := s.(*ssa.Call); isCall {
					for _, use := range evalUsesOf(call) {
						if !scopedAt(si, use) && !si.deferred {
							ok = false
							why = "the resolved value is evaluated (" + use.String() + ") after the scope was closed: a real cycle through it is no longer seen"
						}
					}
				}
			}
			// a resolved value that is returned leaves the scope with the function: whoever evaluates it then does so
			// after the entry of the setting was released (a helper shared by `:+`, which only tests the value, and by
			// `:` / `:?`, which read its text)
			if call, isCall := s.(*ssa.Call); ok && isCall && len(si.opens) > 0 && resolvedValueReturned(call) {
				callers, _ := c.StaticCallers(fn)
				for _, cf := range callers {
					for _, cc := range CallsTo(cf, fn, false) {
						if c2, isC2 := cc.(*ssa.Call); isC2 {
							if uses := evalUsesOf(c2); len(uses) > 0 {
								ok = false
								why = "the resolved value is returned out of the guard scope opened here and its caller " + c.FnName(cf) + " evaluates it (" + uses[0].String() + " at " + c.Pos(uses[0].Pos()) + ") after the scope was closed: a cycle that closes through this operator is no longer seen and the evaluation recurses without bound"
							}
						}
					}
				}
			}
			// the same for what the resolved value is turned into: a sub-configuration taken from it (toConfig) that is
			// returned is a live node whose reference is no longer registered once the scope is closed — reading on below it
			// can come back to the same reference unseen
			if call, isCall := s.(*ssa.Call); ok && isCall && len(si.opens) > 0 {
				if at := liveNodeReturned(c, call); at != "" {
					ok = false
					why = "a sub-configuration taken from the resolved value inside the guard scope opened here is returned (" + at + "): the scope is closed by then, so a reference that leads back to an enclosing object is followed again and again (${a:x} below a) — the evaluation recurses without bound"
				}
			}
			r.Check(ok, "R08d", name, "resolve inside scope", c.Pos(s.Pos()), "resolve and the consumption of its value are inside one guard scope", why)
		}
	}
	// (iii) traversal loops
	reachesResolve := c.ReachBack(resolveRef)
	for _, fn := range c.SrcFuncs() {
		if fn.Pkg != c.SSA[""] {
			continue
		}
		// merging and normalizing are not read operations under C08: their loops share the guard set
		// of the merge call (recorded in DESIGN §5 as seen, not claimed)
		top := fn
		for top.Parent() != nil {
			top = top.Parent()
		}
		if strings.HasPrefix(top.Name(), "merge") || strings.HasPrefix(top.Name(), "normalize") {
			continue
		}
		loops := childLoops(c, fn)
		if len(loops) == 0 {
			continue
		}
		si := scopesOf(fn, newFieldSet)
		name := c.FnName(fn)
		for _, lp := range loops {
			// calls inside the loop that can reach resolveRef
			var hot []ssa.CallInstruction
			for b := range lp.blocks {
				for _, in := range b.Instrs {
					ci, ok := in.(ssa.CallInstruction)
					if !ok {
						continue
					}
					for _, g := range c.Callees(ci) {
						if reachesResolve[g] || g == resolveRef {
							hot = append(hot, ci)
							break
						}
					}
				}
			}
			if len(hot) == 0 {
				continue
			}
			ok := true
			for _, h := range hot {
				in := h.(ssa.Instruction)
				inner := false
				for _, o := range si.opens {
					if lp.blocks[o.Block()] && InstrDominates(o, in) {
						inner = true
					}
				}
				if !inner {
					ok = false
				}
			}
			r.Check(ok, "R08d", name, "per-child scope in "+lp.kind+" loop", c.Pos(lp.pos), fmt.Sprintf("fresh child set opened in every iteration before the %d evaluating call(s)", len(hot)), "a loop over the children of a node evaluates them in one shared guard set: two children referring to the same setting are reported as a cycle (no fresh child set per field/element)")
		}
	}
}

// absorbsErrors: the function tests the error result of a call and, on the failing edge, can still
// reach a return that is not a failure carrying that error.
func absorbsErrors(fn *ssa.Function) []ssa.CallInstruction {
	var found []ssa.CallInstruction
	for _, b := range fn.Blocks {
		ifi, ok := lastInstr(b).(*ssa.If)
		if !ok {
			continue
		}
		// conditions: err != nil, err == nil, possibly inside || / && chains (each is its own If in SSA)
		bo, ok := ifi.Cond.(*ssa.BinOp)
		if !ok || (bo.Op != token.NEQ && bo.Op != token.EQL) {
			continue
		}
		var ev ssa.Value
		if IsNilConst(bo.Y) {
			ev = bo.X
		} else if IsNilConst(bo.X) {
			ev = bo.Y
		}
		if ev == nil || !(ev.Type().String() == "error" || isNamed(ev.Type(), modPath, "Error")) {
			continue
		}
		ex, ok := ev.(*ssa.Extract)
		if !ok {
			continue
		}
		srcCall, ok := ex.Tuple.(*ssa.Call)
		if !ok {
			continue
		}
		failEdge := b.Succs[0]
		if bo.Op == token.EQL {
			failEdge = b.Succs[1]
		}
		for _, ret := range Returns(fn) {
			if !reachableAvoiding(failEdge, ret.Block(), nil) && failEdge != ret.Block() {
				continue
			}
			n := len(ret.Results)
			if n == 0 {
				continue
			}
			rv := RetVal(ret, n-1)
			carries := false
			for _, s := range Sources(rv) {
				if s == ssa.Value(ex) {
					carries = true
				}
				if call, ok := s.(*ssa.Call); ok {
					// wrapped: raiseX(..., err, ...)
					for _, a := range call.Call.Args {
						for _, s2 := range Sources(a) {
							if s2 == ssa.Value(ex) {
								carries = true
							}
						}
					}
				}
			}
			if !carries && successfulReturn(ret) {
				// reachable only through the failing edge? the return must be dominated by it or be
				// its block: otherwise the success path reaches it independently
				if failEdge == ret.Block() || failEdge.Dominates(ret.Block()) {
					found = append(found, srcCall)
				}
			}
		}
	}
	return found
}

func successfulReturn(ret *ssa.Return) bool {
	n := len(ret.Results)
	if n == 0 {
		return true
	}
	last := ret.Results[n-1]
	if !types.IsInterface(last.Type()) {
		return true
	}
	if !(isNamed(last.Type(), modPath, "Error") || last.Type().String() == "error") {
		return true
	}
	v := RetVal(ret, n-1)
	if IsNilConst(v) {
		return true
	}
	// a non-nil error by construction (call to a raise* function or a value tested != nil)
	for _, cd := range DomConds(ret.Block()) {
		if isNilTestOf(cd, v, false) {
			return false
		}
	}
	for _, s := range Sources(v) {
		if call, ok := s.(*ssa.Call); ok {
			if f := call.Call.StaticCallee(); f != nil && (strings.HasPrefix(f.Name(), "raise") || f.String() == "fmt.Errorf" || f.String() == "errors.New") {
				continue
			}
		}
		return true
	}
	return false
}

// evalUsesOf: evaluation-method calls whose receiver derives from the call's first result.
// liveNodeReturned: a *Config (or a value wrapping one) obtained from result #0 of the call through toConfig reaches
// a return of the calling function; answers with the position of that return.
func liveNodeReturned(c *Ctx, call *ssa.Call) string {
	fn := call.Parent()
	fromResolved := func(v ssa.Value) bool {
		for _, s := range append([]ssa.Value{v}, Sources(v)...) {
			if e, ok := s.(*ssa.Extract); ok && e.Tuple == ssa.Value(call) && e.Index == 0 {
				return true
			}
		}
		return false
	}
	for _, ret := range Returns(fn) {
		for i := range ret.Results {
			for _, s := range append([]ssa.Value{RetVal(ret, i)}, Sources(RetVal(ret, i))...) {
				ex, ok := s.(*ssa.Extract)
				if !ok || ex.Index != 0 {
					continue
				}
				inv, ok := ex.Tuple.(*ssa.Call)
				if !ok || !inv.Call.IsInvoke() || inv.Call.Method.Name() != "toConfig" {
					continue
				}
				if fromResolved(inv.Call.Value) {
					return c.Pos(ret.Pos())
				}
			}
		}
	}
	return ""
}

// resolvedValueReturned: result #0 of the call reaches a return of the calling function.
func resolvedValueReturned(call *ssa.Call) bool {
	for _, ret := range Returns(call.Parent()) {
		for i := range ret.Results {
			for _, s := range Sources(RetVal(ret, i)) {
				if e, ok := s.(*ssa.Extract); ok && e.Tuple == ssa.Value(call) && e.Index == 0 {
					return true
				}
			}
		}
	}
	return false
}

func evalUsesOf(call *ssa.Call) []ssa.Instruction {
	var out []ssa.Instruction
	fn := call.Parent()
	Instrs(fn, false, func(in ssa.Instruction) {
		ci, ok := in.(ssa.CallInstruction)
		if !ok || !ci.Common().IsInvoke() || !evalMethods[ci.Common().Method.Name()] {
			return
		}
		for _, s := range Sources(ci.Common().Value) {
			if e, ok := s.(*ssa.Extract); ok && e.Tuple == ssa.Value(call) && e.Index == 0 {
				out = append(out, in)
			}
		}
	})
	return out
}

// ReachBack: functions from which target is reachable (VTA).
func (c *Ctx) ReachBack(target *ssa.Function) map[*ssa.Function]bool {
	g := c.CG()
	seen := map[*ssa.Function]bool{}
	work := []*ssa.Function{target}
	for len(work) > 0 {
		f := work[len(work)-1]
		work = work[:len(work)-1]
		n := g.Nodes[f]
		if n == nil {
			continue
		}
		for _, e := range n.In {
			t := e.Caller.Func
			if !seen[t] {
				seen[t] = true
				work = append(work, t)
			}
		}
	}
	return seen
}

type loopInfo struct {
	blocks map[*ssa.BasicBlock]bool
	kind   string
	pos    token.Pos
}

// childLoops finds the loops of fn that iterate over the children of a node: a range over a
// map[string]value / []value, an index loop reading elements of a []value, or an index loop over
// the fields of a struct target (accessField / reflect NumField).
func childLoops(c *Ctx, fn *ssa.Function) []loopInfo {
	valueT := c.Named("", "value")
	isValueColl := func(t types.Type) bool {
		switch u := t.Underlying().(type) {
		case *types.Map:
			return types.Identical(u.Elem(), valueT)
		case *types.Slice:
			return types.Identical(u.Elem(), valueT)
		}
		return false
	}
	accessField := c.TryFunc("", "accessField")
	var out []loopInfo
	seenHdr := map[*ssa.BasicBlock]bool{}
	for _, b := range fn.Blocks {
		for _, in := range b.Instrs {
			kind := ""
			switch x := in.(type) {
			case *ssa.Next:
				if rg, ok := x.Iter.(*ssa.Range); ok && isValueColl(rg.X.Type()) {
					kind = "range"
				}
			case *ssa.IndexAddr:
				if isValueColl(x.X.Type()) {
					if _, isConst := x.Index.(*ssa.Const); !isConst {
						kind = "index"
					}
				}
			case *ssa.Lookup:
				// children visited by key: for _, k := range sortedKeys(d) { v := d[k] ... }
				if isValueColl(x.X.Type()) {
					if _, isConst := x.Index.(*ssa.Const); !isConst {
						kind = "lookup"
					}
				}
			case *ssa.Call:
				if accessField != nil && IsCallTo(x, accessField) {
					kind = "struct-field"
				}
			}
			if kind == "" {
				continue
			}
			lp := loopOf(fn, b)
			if lp == nil {
				continue
			}
			hdr := loopHeader(lp)
			if seenHdr[hdr] {
				continue
			}
			seenHdr[hdr] = true
			out = append(out, loopInfo{lp, kind, in.Pos()})
		}
	}
	return out
}

// loopOf returns the blocks of the innermost CFG cycle containing b (nil if b is not in a loop):
// the strongly connected component of b.
func loopOf(fn *ssa.Function, b *ssa.BasicBlock) map[*ssa.BasicBlock]bool {
	fwd := map[*ssa.BasicBlock]bool{}
	var work []*ssa.BasicBlock
	for _, s := range b.Succs {
		if !fwd[s] {
			fwd[s] = true
			work = append(work, s)
		}
	}
	for len(work) > 0 {
		x := work[len(work)-1]
		work = work[:len(work)-1]
		for _, s := range x.Succs {
			if !fwd[s] {
				fwd[s] = true
				work = append(work, s)
			}
		}
	}
	if !fwd[b] {
		return nil
	}
	bwd := map[*ssa.BasicBlock]bool{}
	work = nil
	for _, p := range b.Preds {
		if !bwd[p] {
			bwd[p] = true
			work = append(work, p)
		}
	}
	for len(work) > 0 {
		x := work[len(work)-1]
		work = work[:len(work)-1]
		for _, p := range x.Preds {
			if !bwd[p] {
				bwd[p] = true
				work = append(work, p)
			}
		}
	}
	out := map[*ssa.BasicBlock]bool{}
	for x := range fwd {
		if bwd[x] {
			out[x] = true
		}
	}
	return out
}

// loopHeader: the block of the cycle that dominates all its blocks (its single entry); for an
// irreducible cycle the block with the lowest index.
func loopHeader(lp map[*ssa.BasicBlock]bool) *ssa.BasicBlock {
	for b := range lp {
		all := true
		for x := range lp {
			if !b.Dominates(x) {
				all = false
				break
			}
		}
		if all {
			return b
		}
	}
	var best *ssa.BasicBlock
	for b := range lp {
		if best == nil || b.Index < best.Index {
			best = b
		}
	}
	return best
}

// ---- cache ---------------------------------------------------------------------

func cacheRules(c *Ctx, r *Report) {
	e := c.E1()
	valueT := c.Named("", "value")
	iface := valueT.Underlying().(*types.Interface)
	n := 0
	for _, t := range c.Implementations("", iface) {
		tc := c.MethodImpl(t, "toConfig")
		cc := c.MethodImpl(t, "canCache")
		if tc == nil || cc == nil {
			continue
		}
		// unwrap wrappers to the declared functions
		tcd, ccd := declared(c, tc), declared(c, cc)
		s := e.Summary(tcd)
		if s == nil {
			continue
		}
		live := false
		if len(s.ret) > 0 {
			if len(s.ret[0]) > 0 || s.retGlobal[0] || s.retExt[0] {
				live = true
			}
		}
		if !live {
			continue
		}
		n++
		constFalse := true
		for _, ret := range Returns(ccd) {
			if b, ok := ConstBool(ret.Results[0]); !ok || b {
				constFalse = false
			}
		}
		r.Check(constFalse, "R08e", typeStr(t), "canCache is false", c.Pos(ccd.Pos()), "toConfig yields a live config and canCache() is the constant false", "a value that evaluates to a live sub-config can be cached: later reads through the cache bypass the cycle guard")
	}
	if n == 0 {
		r.Bad("R08e", "value", "canCache is false", "-", "no value implementation with a live toConfig found")
	}
	cv := c.Method("", "valueCache", "cachedValue")
	nst := 0
	Instrs(cv, false, func(in ssa.Instruction) {
		mu, ok := in.(*ssa.MapUpdate)
		if !ok {
			return
		}
		nst++
		okc := false
		for _, cd := range DomConds(mu.Block()) {
			if call, isCall := cd.V.(*ssa.Call); isCall && cd.Truth && call.Call.IsInvoke() && call.Call.Method.Name() == "canCache" {
				okc = true
			}
		}
		r.Check(okc, "R08e", c.FnName(cv), "store under canCache", c.Pos(mu.Pos()), "cache update dominated by v.canCache()", "the per-call cache stores values without asking canCache()")
		// ... and under nothing more than that: every cacheable result is cached. A setting whose
		// evaluation is not cached is resolved again by the next look at it within the same field
		// (castArr: the value, then its length) and meets its own registration in the cycle guard.
		var extra []string
		nb := newNF(c)
		for _, cd := range ExpandConds(DomConds(mu.Block())) {
			v, truth := cd.V, cd.Truth
			for {
				u, isU := v.(*ssa.UnOp)
				if !isU || u.Op != token.NOT {
					break
				}
				v, truth = u.X, !truth
			}
			switch x := v.(type) {
			case *ssa.Phi:
				continue // expanded into its parts
			case *ssa.Call:
				if x.Call.IsInvoke() && x.Call.Method.Name() == "canCache" && truth {
					continue
				}
			case *ssa.BinOp:
				if (x.Op == token.NEQ && truth || x.Op == token.EQL && !truth) && (IsNilConst(x.Y) || IsNilConst(x.X)) {
					other := x.X
					if IsNilConst(x.X) {
						other = x.Y
					}
					if isNamed(other.Type(), modPath, "value") {
						continue // v != nil
					}
				}
			case *ssa.Extract:
				// the cache-miss test of the lookup
				if _, isLookup := x.Tuple.(*ssa.Lookup); isLookup && x.Index == 1 && !truth {
					continue
				}
			}
			extra = append(extra, fmt.Sprintf("%s=%v", clip(nb.Of(v).String(), 80), truth))
		}
		r.Check(len(extra) == 0, "R08e", c.FnName(cv), "every cacheable result is cached", c.Pos(mu.Pos()), "the store is guarded by the cache miss, v != nil and v.canCache() only",
			"the cache update is restricted by a further condition ("+strings.Join(extra, "; ")+"): results it excludes are evaluated again by every look at the setting within one field, and the second evaluation finds the first one's entry in the cycle guard (false cyclic-reference error, e.g. for a reference to a null setting unpacked into a list)")
	})
	if nst == 0 {
		r.Trivial("R08e", c.FnName(cv), "store under canCache", c.Pos(cv.Pos()), "cachedValue stores nothing")
	}
}

func declared(c *Ctx, f *ssa.Function) *ssa.Function {
	if f.Synthetic == "" {
		return f
	}
	if o, ok := f.Object().(*types.Func); ok {
		if d := c.Prog.FuncValue(o); d != nil && d.Synthetic == "" {
			return d
		}
	}
	return f
}

// ---- resolveEnv --------------------------------------------------------------------

func resolveEnvRule(c *Ctx, r *Report, rule string) {
	fn := c.Method("", "reference", "resolveEnv")
	name := c.FnName(fn)
	// resolver calls: dynamic calls through an element of options.resolvers
	isResolverCall := func(v ssa.Value) *ssa.Call {
		call, ok := v.(*ssa.Call)
		if !ok || call.Call.IsInvoke() || call.Call.StaticCallee() != nil {
			return nil
		}
		for _, s := range Sources(call.Call.Value) {
			if l, ok := s.(*ssa.UnOp); ok && l.Op == token.MUL {
				if ia, ok := l.X.(*ssa.IndexAddr); ok && IsLoadOfField(ia.X, "options", "resolvers") {
					return call
				}
			}
		}
		return nil
	}
	var nonNil func(v ssa.Value, at *ssa.BasicBlock, seen map[ssa.Value]bool) (bool, string)
	nonNil = func(v ssa.Value, at *ssa.BasicBlock, seen map[ssa.Value]bool) (bool, string) {
		if seen[v] {
			return true, ""
		}
		seen[v] = true
		switch x := v.(type) {
		case *ssa.Const:
			if x.Value == nil {
				return false, "the nil constant"
			}
		case *ssa.Phi:
			for i, e := range x.Edges {
				if ok, why := nonNil(e, x.Block().Preds[i], seen); !ok {
					return false, why
				}
			}
			return true, ""
		case *ssa.UnOp:
			if g, ok := x.X.(*ssa.Global); ok && x.Op == token.MUL && strings.HasPrefix(g.Name(), "Err") {
				return true, ""
			}
		case *ssa.Extract:
			if call := isResolverCall(x.Tuple); call != nil && x.Index == 2 {
				// non-nil where the edge is taken under err == nil false
				conds := DomConds(at)
				if ifi, ok := lastInstr(at).(*ssa.If); ok {
					_ = ifi
				}
				for _, cd := range append(conds, blockEdgeConds(at)...) {
					if isNilTestOf(cd, x, false) {
						return true, ""
					}
				}
				return false, "a resolver's error that was not tested to be non-nil on this path"
			}
		case *ssa.Call:
			if f := x.Call.StaticCallee(); f != nil && (strings.HasPrefix(f.Name(), "raise") || f.String() == "errors.New" || f.String() == "fmt.Errorf") {
				return true, ""
			}
		case *ssa.MakeInterface, *ssa.ChangeInterface:
			return true, ""
		}
		return false, "a value that may be nil: " + v.String()
	}
	for _, ret := range Returns(fn) {
		if len(ret.Results) != 3 {
			continue
		}
		errV := RetVal(ret, 2)
		if IsNilConst(errV) {
			// success: results #0/#1 of a resolver call whose error was nil
			e0, ok0 := ret.Results[0].(*ssa.Extract)
			ok := ok0 && isResolverCall(e0.Tuple) != nil && e0.Index == 0
			if ok {
				ok = false
				for _, cd := range DomConds(ret.Block()) {
					if isNilTestOfExtract(cd, e0.Tuple, 2, true) {
						ok = true
					}
				}
			}
			r.Check(ok, rule, name, "success only after a resolver succeeded", c.Pos(ret.Pos()), "returns a resolver's value under its err == nil", "resolveEnv reports success without a resolver having produced the value")
			continue
		}
		ok, why := nonNil(errV, ret.Block(), map[ssa.Value]bool{})
		r.Check(ok, rule, name, "unresolved is an error", c.Pos(ret.Pos()), "the error returned is non-nil on every path", "resolveEnv can return a nil error without any resolver having succeeded (the error may be "+why+"): a reference that resolves nowhere reads as an empty value")
	}
}

// blockEdgeConds: conditions established by the branch that ends block b's unique predecessor chain
// entry — used for phi edges: the condition under which control left `b` is not known here, but the
// conditions under which `b` was entered are DomConds(b); for a phi edge from b we also know the
// outcome of the If ending each dominator whose successor leads only to b. Kept minimal: the If of
// b's single predecessor when b is reached by exactly one of its edges.
func blockEdgeConds(b *ssa.BasicBlock) []Cond {
	var out []Cond
	if len(b.Preds) != 1 {
		return out
	}
	p := b.Preds[0]
	ifi, ok := lastInstr(p).(*ssa.If)
	if !ok || p.Succs[0] == p.Succs[1] {
		return out
	}
	out = append(out, Cond{ifi.Cond, p.Succs[0] == b, ifi})
	return out
}
