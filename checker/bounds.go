package main

// E3 — bounds prover for the index/slice operations the compiler's own prove pass leaves
// unproven (go build -gcflags=-d=ssa/check_bce/debug=1). For each such site the goal
// 0 <= i < len(x) (index) or 0 <= a <= b <= len(x) (slice) must follow from linear facts:
// dominating comparisons (with polarity), value definitions (arithmetic with constants, len of
// slices / concatenations / make, results of strings.Index*, range indices, loop counters), loads
// of the same storage without an intervening write, facts that hold at every call site of an
// unexported function, type invariants, and induction over phis. Entailment is decided by
// Fourier–Motzkin elimination over the rationals on the handful of variables involved.

import (
	"fmt"
	"go/token"
	"go/types"
	"math/big"
	"os"
	"sort"
	"strings"
	"time"

	"golang.org/x/tools/go/ssa"
)

// ---- linear expressions ---------------------------------------------------------------

type lin struct {
	c *big.Rat
	t map[string]*big.Rat
}

func newLin() lin           { return lin{c: new(big.Rat), t: map[string]*big.Rat{}} }
func linConst(k int64) lin  { l := newLin(); l.c.SetInt64(k); return l }
func linAtom(a string) lin  { l := newLin(); l.t[a] = big.NewRat(1, 1); return l }
func (a lin) add(b lin) lin { return a.comb(b, big.NewRat(1, 1)) }
func (a lin) sub(b lin) lin { return a.comb(b, big.NewRat(-1, 1)) }
func (a lin) comb(b lin, f *big.Rat) lin {
	r := newLin()
	r.c.Set(a.c)
	for k, v := range a.t {
		r.t[k] = new(big.Rat).Set(v)
	}
	r.c.Add(r.c, new(big.Rat).Mul(f, b.c))
	for k, v := range b.t {
		x := r.t[k]
		if x == nil {
			x = new(big.Rat)
			r.t[k] = x
		}
		x.Add(x, new(big.Rat).Mul(f, v))
		if x.Sign() == 0 {
			delete(r.t, k)
		}
	}
	return r
}
func (a lin) scale(f *big.Rat) lin { return newLin().comb(a, f) }
func (a lin) String() string {
	var ks []string
	for k := range a.t {
		ks = append(ks, k)
	}
	sort.Strings(ks)
	var parts []string
	for _, k := range ks {
		parts = append(parts, a.t[k].RatString()+"*"+k)
	}
	parts = append(parts, a.c.RatString())
	return strings.Join(parts, " + ")
}

// ineq: e <= 0
type ineq struct {
	e   lin
	why string
}

func leq(a, b lin, why string) ineq { return ineq{a.sub(b), why} }                  // a <= b
func lt(a, b lin, why string) ineq  { return ineq{a.sub(b).add(linConst(1)), why} } // a < b (integers)

// entails: do the facts imply goal (g.e <= 0)? Checked as unsatisfiability of facts + (g.e >= 1).
func entails(facts []ineq, g ineq) bool {
	neg := ineq{linConst(1).sub(g.e), "negated goal"} // 1 - e <= 0
	sys := append(append([]ineq{}, facts...), neg)
	return fmUnsat(sys)
}

func fmUnsat(sys []ineq) bool {
	// collect variables
	for iter := 0; iter < 64; iter++ {
		// constant contradictions
		var rest []ineq
		for _, q := range sys {
			if len(q.e.t) == 0 {
				if q.e.c.Sign() > 0 {
					return true
				}
				continue
			}
			rest = append(rest, q)
		}
		sys = rest
		if len(sys) == 0 {
			return false
		}
		// pick the variable with the fewest pos*neg combinations
		cnt := map[string][2]int{}
		for _, q := range sys {
			for k, v := range q.e.t {
				c := cnt[k]
				if v.Sign() > 0 {
					c[0]++
				} else {
					c[1]++
				}
				cnt[k] = c
			}
		}
		best, bestCost := "", -1
		var names []string
		for k := range cnt {
			names = append(names, k)
		}
		sort.Strings(names)
		for _, k := range names {
			c := cnt[k]
			cost := c[0] * c[1]
			if bestCost < 0 || cost < bestCost {
				best, bestCost = k, cost
			}
		}
		var pos, negs, other []ineq
		for _, q := range sys {
			v := q.e.t[best]
			switch {
			case v == nil:
				other = append(other, q)
			case v.Sign() > 0:
				pos = append(pos, q)
			default:
				negs = append(negs, q)
			}
		}
		if len(pos)*len(negs) > 4000 {
			return false // give up (not proven)
		}
		for _, p := range pos {
			for _, n := range negs {
				// p: a*x + P <= 0 (a>0) ; n: -b*x + N <= 0 (b>0)  =>  b*P + a*N <= 0
				a := p.e.t[best]
				b := new(big.Rat).Neg(n.e.t[best])
				comb := p.e.scale(b).add(n.e.scale(a))
				delete(comb.t, best)
				other = append(other, ineq{comb, ""})
			}
		}
		sys = other
	}
	return false
}

// ---- the prover -----------------------------------------------------------------------

type prover struct {
	c       *Ctx
	fn      *ssa.Function
	writers map[string]map[*ssa.Function]bool // "Type.field" -> functions that may write it (transitively)
	depth   int
	axioms  []ineq
	seenAx  map[string]bool
	notes   []string
	typeInv map[string]int64 // "Type.field" -> minimal length guaranteed by a checked type invariant
	phiBusy map[*ssa.Phi]bool
	phiDone map[*ssa.Phi]bool
}

type boundsEngine struct {
	lemmaBudget int
	goalBlock   *ssa.BasicBlock // where the goal being proved is needed (for edge feasibility of joins, thread.go)
	c           *Ctx
	writers     map[string]map[*ssa.Function]bool
	typeInv     map[string]int64
}

func newBoundsEngine(c *Ctx) *boundsEngine {
	be := &boundsEngine{c: c, writers: map[string]map[*ssa.Function]bool{}, typeInv: map[string]int64{}}
	// direct writers
	direct := map[*ssa.Function]map[string]bool{}
	for _, fn := range c.SrcFuncs() {
		Instrs(fn, false, func(in ssa.Instruction) {
			st, ok := in.(*ssa.Store)
			if !ok {
				return
			}
			for a := st.Addr; ; {
				fa, ok := a.(*ssa.FieldAddr)
				if !ok {
					break
				}
				if nt, f, ok := FieldOf(fa); ok {
					if direct[fn] == nil {
						direct[fn] = map[string]bool{}
					}
					direct[fn][nt.Obj().Name()+"."+f] = true
				}
				a = fa.X
			}
		})
	}
	// transitive closure over static / VTA callees inside the repository
	changed := true
	all := map[*ssa.Function]map[string]bool{}
	for f, m := range direct {
		all[f] = map[string]bool{}
		for k := range m {
			all[f][k] = true
		}
	}
	for changed {
		changed = false
		for _, fn := range c.SrcFuncs() {
			for _, ci := range CallsIn(fn, false) {
				for _, g := range c.Callees(ci) {
					for k := range all[g] {
						if all[fn] == nil {
							all[fn] = map[string]bool{}
						}
						if !all[fn][k] {
							all[fn][k] = true
							changed = true
						}
					}
				}
			}
		}
	}
	for f, m := range all {
		for k := range m {
			if be.writers[k] == nil {
				be.writers[k] = map[*ssa.Function]bool{}
			}
			be.writers[k][f] = true
		}
	}
	return be
}

func (be *boundsEngine) prover(fn *ssa.Function, depth int) *prover {
	return &prover{c: be.c, fn: fn, writers: be.writers, depth: depth, seenAx: map[string]bool{}, typeInv: be.typeInv}
}

func (p *prover) axiom(q ineq) {
	k := q.e.String()
	if !p.seenAx[k] {
		p.seenAx[k] = true
		p.axioms = append(p.axioms, q)
	}
}

func regID(v ssa.Value) string { return fmt.Sprintf("%s@%p", v.Name(), v) }

// memLoad: if v is a load from addressable storage (struct field reached from a parameter/local
// pointer, or a captured local cell) returns its path.
func memPath(v ssa.Value) (string, bool) {
	u, ok := v.(*ssa.UnOp)
	if !ok || u.Op != token.MUL {
		return "", false
	}
	switch a := u.X.(type) {
	case *ssa.FieldAddr:
		if p, ok := AccessPath(a); ok {
			return strings.TrimPrefix(p, "&"), true
		}
	case *ssa.FreeVar:
		return "cell:" + a.Name() + fmt.Sprintf("@%p", a), true
	case *ssa.Alloc:
		if a.Heap || true {
			return "cell:" + fmt.Sprintf("%s@%p", a.Comment, a), true
		}
	}
	return "", false
}

// mayWrite: can instruction in write the storage denoted by path?
// privateLocal: the address is a field (of a field …) of a local variable whose address is only ever used to
// select fields, load and store — it is not passed to a call, stored, captured or converted.
func privateLocal(fa *ssa.FieldAddr) bool {
	var root ssa.Value = fa
	for {
		f, ok := root.(*ssa.FieldAddr)
		if !ok {
			break
		}
		root = f.X
	}
	a, ok := root.(*ssa.Alloc)
	if !ok || a.Heap {
		return false
	}
	var okUse func(v ssa.Value, d int) bool
	okUse = func(v ssa.Value, d int) bool {
		refs := v.Referrers()
		if refs == nil || d > 6 {
			return false
		}
		for _, ref := range *refs {
			switch x := ref.(type) {
			case *ssa.FieldAddr:
				if !okUse(x, d+1) {
					return false
				}
			case *ssa.UnOp:
				if x.Op != token.MUL {
					return false
				}
			case *ssa.Store:
				if x.Val == v {
					return false // the address itself is stored somewhere
				}
			case *ssa.DebugRef:
			default:
				return false
			}
		}
		return true
	}
	return okUse(a, 0)
}

func (p *prover) mayWrite(in ssa.Instruction, path string, load *ssa.UnOp) bool {
	switch x := in.(type) {
	case *ssa.Store:
		if strings.HasPrefix(path, "cell:") {
			return x.Addr == load.X
		}
		// field path: a store to the same (type, field), or to an enclosing struct, through any pointer
		lfa, _ := load.X.(*ssa.FieldAddr)
		for a := x.Addr; ; {
			fa, ok := a.(*ssa.FieldAddr)
			if !ok {
				// whole-struct store through a pointer to the same struct type
				if lfa != nil && types.Identical(derefType(a.Type()), derefType(lfa.X.Type())) {
					return true
				}
				break
			}
			if lfa != nil {
				n1, f1, ok1 := FieldOf(fa)
				n2, f2, ok2 := FieldOf(lfa)
				if ok1 && ok2 && n1 == n2 && f1 == f2 {
					return true
				}
			}
			a = fa.X
		}
		return false
	case ssa.CallInstruction:
		if _, isDefer := in.(*ssa.Defer); isDefer {
			return false // runs at function exit
		}
		if BuiltinName(x) != "" {
			return false
		}
		if strings.HasPrefix(path, "cell:") {
			// a closure that binds the cell and stores to it
			for _, g := range p.c.Callees(x) {
				if closureWritesCell(g, load.X) {
					return true
				}
			}
			if len(p.c.Callees(x)) == 0 {
				return cellEscapes(load.X)
			}
			return false
		}
		lfa, _ := load.X.(*ssa.FieldAddr)
		if lfa == nil {
			return true
		}
		if privateLocal(lfa) {
			return false // a field of a local that never leaves the function (a spilled value receiver): no callee can reach it
		}
		nt, f, ok := FieldOf(lfa)
		if !ok {
			return true
		}
		key := nt.Obj().Name() + "." + f
		callees := p.c.Callees(x)
		if len(callees) == 0 {
			return true // unknown callee
		}
		for _, g := range callees {
			if !p.c.InRepo(g) {
				continue // library code cannot name the repository's unexported fields
			}
			if p.writers[key][g] {
				return true
			}
		}
		return false
	}
	return false
}

func closureWritesCell(g *ssa.Function, cell ssa.Value) bool {
	root := localRoot(cell)
	if root == nil {
		return true
	}
	writes := false
	for i, fv := range g.FreeVars {
		_ = i
		if localRoot(fv) == root {
			Instrs(g, true, func(in ssa.Instruction) {
				if st, ok := in.(*ssa.Store); ok && localRoot(st.Addr) == root {
					writes = true
				}
			})
		}
	}
	for _, a := range g.AnonFuncs {
		if closureWritesCell(a, cell) {
			writes = true
		}
	}
	return writes
}

func cellEscapes(cell ssa.Value) bool {
	root := localRoot(cell)
	if root == nil {
		return true
	}
	_, ok := localStores(root)
	return !ok
}

// cleanBetween: no instruction that may write `path` lies on any path from a to b (a dominates b).
func (p *prover) cleanBetween(a, b ssa.Instruction, path string, load *ssa.UnOp) bool {
	ba, bb := a.Block(), b.Block()
	inLoop := func(blk *ssa.BasicBlock) bool { return loopOf(blk.Parent(), blk) != nil }
	scan := func(blk *ssa.BasicBlock, from, to int) bool {
		for i := from; i < to; i++ {
			if p.mayWrite(blk.Instrs[i], path, load) {
				return false
			}
		}
		return true
	}
	idx := func(in ssa.Instruction) int {
		for i, x := range in.Block().Instrs {
			if x == in {
				return i
			}
		}
		return -1
	}
	if ba == bb && idx(a) <= idx(b) {
		// a precedes b in one block: only the straight line between them (a path that leaves the
		// block and comes back re-executes a)
		return scan(ba, idx(a)+1, idx(b))
	}
	_ = inLoop
	// region: blocks on paths from a to b that do not pass through a's block again (a dominates b:
	// a path that re-enters a's block re-executes a, and b then sees that later execution)
	fwd := map[*ssa.BasicBlock]bool{}
	work := []*ssa.BasicBlock{ba}
	for len(work) > 0 {
		x := work[len(work)-1]
		work = work[:len(work)-1]
		for _, s := range x.Succs {
			if s == ba {
				continue
			}
			if !fwd[s] {
				fwd[s] = true
				work = append(work, s)
			}
		}
	}
	bwd := map[*ssa.BasicBlock]bool{}
	work = []*ssa.BasicBlock{bb}
	for len(work) > 0 {
		x := work[len(work)-1]
		work = work[:len(work)-1]
		for _, s := range x.Preds {
			if s == ba {
				continue
			}
			if !bwd[s] {
				bwd[s] = true
				work = append(work, s)
			}
		}
	}
	if ba == bb {
		// b precedes a in the block (or the block loops): the whole block and everything around the
		// loop can run in between
		if !scan(ba, 0, len(ba.Instrs)) {
			return false
		}
	} else {
		if !scan(ba, idx(a)+1, len(ba.Instrs)) {
			return false
		}
		if bwd[bb] && fwd[bb] { // bb lies on a cycle that avoids ba: all of it can run in between
			if !scan(bb, 0, len(bb.Instrs)) {
				return false
			}
		} else if !scan(bb, 0, idx(b)) {
			return false
		}
	}
	dirty := false
	for blk := range fwd {
		if blk == bb || blk == ba || !bwd[blk] {
			continue
		}
		if !scan(blk, 0, len(blk.Instrs)) {
			dirty = true
			break
		}
	}
	if !dirty {
		return true
	}
	if ba == bb {
		return false
	}
	// a write lies between a and b in the block graph: look again at the feasible paths only (a join whose φ is
	// tested right away lets the block graph connect a branch with the continuation of the other one, see thread.go)
	region := feasibleRegion(ba, bb)
	if region[bb] && !scan(bb, 0, len(bb.Instrs)) {
		return false
	}
	for blk := range region {
		if blk == bb || blk == ba {
			continue
		}
		if !scan(blk, 0, len(blk.Instrs)) {
			return false
		}
	}
	return true
}

// repLoad: canonical representative of a load — the earliest load of the same storage that
// dominates it with no possible write in between.
func (p *prover) repLoad(u *ssa.UnOp) ssa.Value {
	path, ok := memPath(u)
	if !ok {
		return u
	}
	var best *ssa.UnOp = u
	Instrs(u.Parent(), false, func(in ssa.Instruction) {
		l, ok := in.(*ssa.UnOp)
		if !ok || l == u || l.Op != token.MUL {
			return
		}
		pl, ok := memPath(l)
		if !ok || pl != path {
			return
		}
		if !InstrDominates(l, u) {
			return
		}
		if !p.cleanBetween(l, u, path, u) {
			return
		}
		if InstrDominates(l, best) || best == u {
			if best == u || InstrDominates(l, best) {
				best = l
			}
		}
	})
	return best
}

func (p *prover) canon(v ssa.Value) ssa.Value {
	for {
		switch x := v.(type) {
		case *ssa.ChangeType:
			v = x.X
			continue
		case *ssa.UnOp:
			if x.Op == token.MUL {
				return p.repLoad(x)
			}
		}
		return v
	}
}

// lenOf: linear expression for len(x).
func (p *prover) lenOf(x ssa.Value, d int) lin {
	x = p.canon(x)
	if d > 12 {
		return linAtom("len:" + regID(x))
	}
	switch y := x.(type) {
	case *ssa.Const:
		if s, ok := ConstString(y); ok {
			return linConst(int64(len(s)))
		}
		if y.Value == nil {
			return linConst(0)
		}
	case *ssa.Slice:
		base := y.X
		var lo, hi lin
		if y.Low != nil {
			lo = p.linOf(y.Low, d+1)
		} else {
			lo = linConst(0)
		}
		if y.High != nil {
			hi = p.linOf(y.High, d+1)
		} else {
			if pt, ok := base.Type().Underlying().(*types.Pointer); ok {
				if at, ok := pt.Elem().Underlying().(*types.Array); ok {
					hi = linConst(at.Len())
				} else {
					hi = p.lenOf(base, d+1)
				}
			} else {
				hi = p.lenOf(base, d+1)
			}
		}
		return hi.sub(lo)
	case *ssa.BinOp:
		if y.Op == token.ADD {
			if b, ok := y.Type().Underlying().(*types.Basic); ok && b.Info()&types.IsString != 0 {
				return p.lenOf(y.X, d+1).add(p.lenOf(y.Y, d+1))
			}
		}
	case *ssa.MakeSlice:
		return p.linOf(y.Len, d+1)
	case *ssa.Call:
		if BuiltinName(y) == "append" && len(y.Call.Args) == 2 {
			// len(append(s, e...)) = len(s) + len(e)
			return p.lenOf(y.Call.Args[0], d+1).add(p.lenOf(y.Call.Args[1], d+1))
		}
		if f := y.Call.StaticCallee(); f != nil && (f.String() == "strings.Split" || f.String() == "strings.SplitN") {
			// library contract: with a non-empty separator (and n != 0) the result has at least one element
			if sep, ok := ConstString(y.Call.Args[1]); ok && sep != "" {
				okN := true
				if f.Name() == "SplitN" {
					n, isK := ConstInt(y.Call.Args[2])
					okN = isK && n != 0
				}
				if okN {
					a := "len:" + regID(x)
					p.axiom(leq(linConst(1), linAtom(a), f.Name()+" with a non-empty separator returns at least one element"))
					return linAtom(a)
				}
			}
		}
	case *ssa.Field:
		// immutable struct value: type invariant on the field
		if nt, f, ok := FieldOf(y); ok {
			a := "len:" + regID(x)
			if pth, ok := AccessPath(y); ok {
				a = "len:path:" + pth
			}
			if min, ok := p.typeInv[nt.Obj().Name()+"."+f]; ok {
				p.axiom(leq(linConst(min), linAtom(a), "type invariant "+nt.Obj().Name()+"."+f))
			}
			p.axiom(leq(linConst(0), linAtom(a), "len >= 0"))
			return linAtom(a)
		}
	case *ssa.UnOp:
		if y.Op == token.MUL {
			if fa, ok := y.X.(*ssa.FieldAddr); ok {
				if nt, f, ok := FieldOf(fa); ok {
					if min, ok := p.typeInv[nt.Obj().Name()+"."+f]; ok {
						p.axiom(leq(linConst(min), linAtom("len:"+regID(x)), "type invariant "+nt.Obj().Name()+"."+f))
					}
				}
			}
		}
	}
	a := "len:" + regID(x)
	p.axiom(leq(linConst(0), linAtom(a), "len >= 0"))
	return linAtom(a)
}

// linOf: linear expression for integer value v.
func (p *prover) linOf(v ssa.Value, d int) lin {
	v = p.canon(v)
	if d > 12 {
		return linAtom("v:" + regID(v))
	}
	switch y := v.(type) {
	case *ssa.Const:
		if k, ok := ConstInt(y); ok {
			return linConst(k)
		}
	case *ssa.BinOp:
		switch y.Op {
		case token.ADD:
			return p.linOf(y.X, d+1).add(p.linOf(y.Y, d+1))
		case token.SUB:
			return p.linOf(y.X, d+1).sub(p.linOf(y.Y, d+1))
		case token.MUL:
			if k, ok := ConstInt(y.Y); ok {
				return p.linOf(y.X, d+1).scale(big.NewRat(k, 1))
			}
			if k, ok := ConstInt(y.X); ok {
				return p.linOf(y.Y, d+1).scale(big.NewRat(k, 1))
			}
		}
	case *ssa.Call:
		switch BuiltinName(y) {
		case "len":
			return p.lenOf(y.Call.Args[0], d+1)
		case "cap":
			a := "cap:" + regID(y.Call.Args[0])
			p.axiom(leq(p.lenOf(y.Call.Args[0], d+1), linAtom(a), "len <= cap"))
			return linAtom(a)
		}
		if f := y.Call.StaticCallee(); f != nil && f.Pkg != nil && (f.Pkg.Pkg.Path() == "strings" || f.Pkg.Pkg.Path() == "bytes") && strings.HasPrefix(f.Name(), "Index") && len(y.Call.Args) >= 1 {
			a := linAtom("v:" + regID(v))
			p.axiom(leq(linConst(-1), a, f.Name()+" >= -1"))
			p.axiom(leq(a, p.lenOf(y.Call.Args[0], d+1).sub(linConst(1)), f.Name()+" < len(s)"))
			return a
		}
	case *ssa.Convert:
		if b1, ok := y.X.Type().Underlying().(*types.Basic); ok && b1.Info()&types.IsInteger != 0 {
			if b2, ok := y.Type().Underlying().(*types.Basic); ok && b2.Info()&types.IsInteger != 0 {
				return p.linOf(y.X, d+1)
			}
		}
	case *ssa.Extract:
		// index of a range over a slice/array/string
		if nx, ok := y.Tuple.(*ssa.Next); ok && y.Index == 1 {
			if rg, ok := nx.Iter.(*ssa.Range); ok {
				if _, isMap := rg.X.Type().Underlying().(*types.Map); !isMap {
					a := linAtom("v:" + regID(v))
					p.axiom(leq(linConst(0), a, "range index >= 0"))
					p.axiom(leq(a, p.lenOf(rg.X, d+1).sub(linConst(1)), "range index < len"))
					return a
				}
			}
		}
	case *ssa.Phi:
		a := linAtom("v:" + regID(v))
		if p.phiBusy == nil {
			p.phiBusy = map[*ssa.Phi]bool{}
		}
		if p.phiDone == nil {
			p.phiDone = map[*ssa.Phi]bool{}
		}
		if p.phiBusy[y] || p.phiDone[y] {
			return a
		}
		p.phiBusy[y] = true
		defer func() {
			delete(p.phiBusy, y)
			if d < 6 {
				p.phiDone[y] = true
			}
		}()
		// loop counter: on every back edge the value is >= phi (resp. <= phi), as entailed by the
		// linear form of the edge and the axioms collected for it (covers i++ twice on one path and
		// counters advanced through a merge of i and i+1)  =>  phi >= init (resp. phi <= init).
		// A merge of values that differ from one base by constants is bounded by the extremes.
		var inits []ssa.Value
		step := 0
		okc := true
		isLoop := false
		for i := range y.Edges {
			if y.Block().Dominates(y.Block().Preds[i]) {
				isLoop = true
			}
		}
		if !isLoop && d < 8 {
			// join of alternatives: base + c_i
			var base *lin
			var lo, hi *big.Rat
			same := true
			for _, e := range y.Edges {
				le := p.linOf(e, d+1)
				nb := newLin().comb(le, big.NewRat(1, 1))
				nb.c = new(big.Rat)
				if base == nil {
					base = &nb
					lo, hi = new(big.Rat).Set(le.c), new(big.Rat).Set(le.c)
					continue
				}
				if nb.String() != base.String() {
					same = false
					break
				}
				if le.c.Cmp(lo) < 0 {
					lo = new(big.Rat).Set(le.c)
				}
				if le.c.Cmp(hi) > 0 {
					hi = new(big.Rat).Set(le.c)
				}
			}
			if same && base != nil && len(base.t) > 0 {
				l := newLin().comb(*base, big.NewRat(1, 1))
				l.c = lo
				h := newLin().comb(*base, big.NewRat(1, 1))
				h.c = hi
				p.axiom(leq(l, a, "merge of alternatives: at least the smallest"))
				p.axiom(leq(a, h, "merge of alternatives: at most the largest"))
			}
			return a
		}
		for i, e := range y.Edges {
			if e == ssa.Value(y) {
				continue
			}
			if !y.Block().Dominates(y.Block().Preds[i]) {
				inits = append(inits, e)
				continue
			}
			// fast path: phi + k
			if b, isB := e.(*ssa.BinOp); isB && (b.Op == token.ADD || b.Op == token.SUB) && b.X == ssa.Value(y) {
				if k, isK := ConstInt(b.Y); isK {
					if b.Op == token.SUB {
						k = -k
					}
					switch {
					case k > 0 && step >= 0:
						step = 1
					case k < 0 && step <= 0:
						step = -1
					case k == 0:
					default:
						okc = false
					}
					continue
				}
			}
			if d > 2 {
				okc = false // nested: do not pay for entailment checks
				continue
			}
			le := p.linOf(e, d+1)
			// only the axioms that mention the atoms of this edge matter
			var rel []ineq
			for _, ax := range p.axioms {
				for at := range le.t {
					if _, has := ax.e.t[at]; has {
						rel = append(rel, ax)
						break
					}
				}
			}
			switch {
			case step >= 0 && entails(rel, leq(a, le, "")):
				if !entails(rel, leq(le, a, "")) {
					step = 1
				}
			case step <= 0 && entails(rel, leq(le, a, "")):
				step = -1
			default:
				okc = false
			}
		}
		if okc && len(inits) == 1 && step != 0 && d < 6 {
			in := p.linOf(inits[0], d+1)
			if step > 0 {
				p.axiom(leq(in, a, "loop counter never below its start"))
			} else {
				p.axiom(leq(a, in, "loop counter never above its start"))
			}
		}
		// rangeindex loops: phi(-1, phi+1) handled above (>= -1)
		return a
	case *ssa.Field:
		if pth, ok := AccessPath(y); ok {
			return linAtom("v:path:" + pth)
		}
	case *ssa.Parameter:
		p.sortLessContract(y, d)
	}
	return linAtom("v:" + regID(v))
}

// sortLessContract: library contract of sort.Slice / sort.SliceStable — the less function is called
// with 0 <= i, j < len(x) of the slice x that was passed. Applies when the parameter belongs to a
// function literal used only as the less argument of one such call, and the literal reads the
// slice through the same variable the call passed (and does not assign it).
func (p *prover) sortLessContract(par *ssa.Parameter, d int) {
	g := par.Parent()
	if g == nil || g.Parent() == nil || len(g.Params) != 2 || (par != g.Params[0] && par != g.Params[1]) {
		return
	}
	var mc *ssa.MakeClosure
	var call *ssa.Call
	n := 0
	Instrs(g.Parent(), false, func(in ssa.Instruction) {
		if m, ok := in.(*ssa.MakeClosure); ok && m.Fn == ssa.Value(g) {
			mc = m
			n++
		}
	})
	if n != 1 || mc.Referrers() == nil || len(*mc.Referrers()) != 1 {
		return
	}
	call, _ = (*mc.Referrers())[0].(*ssa.Call)
	if call == nil {
		return
	}
	f := call.Call.StaticCallee()
	if f == nil || (f.String() != "sort.Slice" && f.String() != "sort.SliceStable") || call.Call.Args[1] != ssa.Value(mc) {
		return
	}
	mi, ok := call.Call.Args[0].(*ssa.MakeInterface)
	if !ok {
		return
	}
	a := linAtom("v:" + regID(par))
	for k, fv := range g.FreeVars {
		b := mc.Bindings[k]
		switch {
		case b == mi.X:
			// slice captured by value
			p.axiom(leq(linConst(0), a, f.Name()+" calls less with i, j >= 0"))
			p.axiom(leq(a, p.lenOf(fv, d+1).sub(linConst(1)), f.Name()+" calls less with i, j < len(x)"))
		default:
			ld, isLoad := mi.X.(*ssa.UnOp)
			if !isLoad || ld.Op != token.MUL || ld.X != b || closureWritesCell(g, fv) {
				continue
			}
			// slice variable captured by reference, passed as its current value, not assigned by the literal
			p.axiom(leq(linConst(0), a, f.Name()+" calls less with i, j >= 0"))
			for _, ref := range *fv.Referrers() {
				if u, ok := ref.(*ssa.UnOp); ok && u.Op == token.MUL {
					p.axiom(leq(a, p.lenOf(u, d+1).sub(linConst(1)), f.Name()+" calls less with i, j < len(x)"))
				}
			}
		}
	}
}

// condFacts: linear facts from one branch condition with its truth value.
func (p *prover) condFacts(v ssa.Value, truth bool) []ineq {
	for {
		u, ok := v.(*ssa.UnOp)
		if !ok || u.Op != token.NOT {
			break
		}
		v, truth = u.X, !truth
	}
	if ex, isEx := v.(*ssa.Extract); isEx && ex.Index == 0 && truth {
		return p.mapRangeCount(ex)
	}
	b, ok := v.(*ssa.BinOp)
	if !ok {
		return nil
	}
	op := b.Op
	if !truth {
		op = negateOp(op)
	}
	isInt := func(t types.Type) bool {
		bt, ok := t.Underlying().(*types.Basic)
		return ok && bt.Info()&types.IsInteger != 0
	}
	isStr := func(t types.Type) bool {
		bt, ok := t.Underlying().(*types.Basic)
		return ok && bt.Info()&types.IsString != 0
	}
	why := fmt.Sprintf("branch %s %s %s", b.X.Name(), op, b.Y.Name())
	switch {
	case isInt(b.X.Type()) && isInt(b.Y.Type()):
		x, y := p.linOf(b.X, 0), p.linOf(b.Y, 0)
		switch op {
		case token.LSS:
			return []ineq{lt(x, y, why)}
		case token.LEQ:
			return []ineq{leq(x, y, why)}
		case token.GTR:
			return []ineq{lt(y, x, why)}
		case token.GEQ:
			return []ineq{leq(y, x, why)}
		case token.EQL:
			return []ineq{leq(x, y, why), leq(y, x, why)}
		}
	case isStr(b.X.Type()) && isStr(b.Y.Type()):
		// comparisons with the empty string
		var other ssa.Value
		if s, ok := ConstString(b.Y); ok && s == "" {
			other = b.X
		} else if s, ok := ConstString(b.X); ok && s == "" {
			other = b.Y
		}
		if other != nil {
			l := p.lenOf(other, 0)
			switch op {
			case token.NEQ:
				return []ineq{leq(linConst(1), l, why)}
			case token.EQL:
				return []ineq{leq(l, linConst(0), why)}
			}
		}
	}
	return nil
}

// mapRangeCount: inside the body of `for k := range m` a counter that starts at 0 and is advanced by one exactly
// once per iteration counts the entries seen so far and is below len(m) — provided nothing in the loop can change
// the map (no map update, no delete, no call besides len/append/cap).
func (p *prover) mapRangeCount(ok *ssa.Extract) []ineq {
	nx, isNext := ok.Tuple.(*ssa.Next)
	if !isNext {
		return nil
	}
	rg, isRange := nx.Iter.(*ssa.Range)
	if !isRange {
		return nil
	}
	if _, isMap := rg.X.Type().Underlying().(*types.Map); !isMap {
		return nil
	}
	hdr := nx.Block()
	lp := loopOf(hdr.Parent(), hdr)
	if lp == nil {
		return nil
	}
	for b := range lp {
		for _, in := range b.Instrs {
			switch x := in.(type) {
			case *ssa.MapUpdate:
				return nil
			case ssa.CallInstruction:
				switch BuiltinName(x) {
				case "len", "cap", "append":
				default:
					return nil
				}
			}
		}
	}
	var out []ineq
	for _, in := range hdr.Instrs {
		phi, isPhi := in.(*ssa.Phi)
		if !isPhi {
			break
		}
		if bt, isB := phi.Type().Underlying().(*types.Basic); !isB || bt.Info()&types.IsInteger == 0 {
			continue
		}
		good := true
		for i, e := range phi.Edges {
			if lp[hdr.Preds[i]] {
				b, isB := e.(*ssa.BinOp)
				k, isK := int64(0), false
				if isB {
					k, isK = ConstInt(b.Y)
				}
				if !isB || b.Op != token.ADD || b.X != ssa.Value(phi) || !isK || k != 1 {
					good = false
				}
			} else if k, isK := ConstInt(e); !isK || k != 0 {
				good = false
			}
		}
		if good {
			out = append(out, leq(p.linOf(phi, 0), p.lenOf(rg.X, 0).sub(linConst(1)), "entries seen so far in a map range < len(map)"))
		}
	}
	return out
}

func (p *prover) factsAt(b *ssa.BasicBlock) []ineq {
	var out []ineq
	for _, cd := range DomConds(b) {
		out = append(out, p.condFacts(cd.V, cd.Truth)...)
	}
	return out
}

// neqStrengthen: the disequalities x != y that hold at b turn a known x <= y into x < y (and y <= x into y < x):
// integers, so `pending != 0` with pending >= 0 gives pending >= 1.
func (p *prover) neqStrengthen(b *ssa.BasicBlock, facts []ineq, condsExtra []Cond) []ineq {
	isInt := func(t types.Type) bool {
		bt, ok := t.Underlying().(*types.Basic)
		return ok && bt.Info()&types.IsInteger != 0
	}
	out := facts
	for _, cd := range append(DomConds(b), condsExtra...) {
		v, truth := cd.V, cd.Truth
		for {
			u, ok := v.(*ssa.UnOp)
			if !ok || u.Op != token.NOT {
				break
			}
			v, truth = u.X, !truth
		}
		bo, ok := v.(*ssa.BinOp)
		if !ok || !isInt(bo.X.Type()) || !isInt(bo.Y.Type()) {
			continue
		}
		op := bo.Op
		if !truth {
			op = negateOp(op)
		}
		if op != token.NEQ {
			continue
		}
		x, y := p.linOf(bo.X, 0), p.linOf(bo.Y, 0)
		all := append(append([]ineq{}, out...), p.axioms...)
		why := fmt.Sprintf("branch %s != %s with the order known", bo.X.Name(), bo.Y.Name())
		if entails(all, leq(x, y, "")) {
			out = append(out, lt(x, y, why))
		} else if entails(all, leq(y, x, "")) {
			out = append(out, lt(y, x, why))
		}
	}
	return out
}

// prove: do the facts at block b (plus extra hypotheses) imply every goal?
func (p *prover) prove(goals []ineq, b *ssa.BasicBlock, extra []ineq) (bool, string) {
	facts := append(p.factsAt(b), extra...)
	for _, g := range goals {
		all := append(append([]ineq{}, facts...), p.axioms...)
		if entails(all, g) {
			continue
		}
		return false, g.why
	}
	return true, ""
}

// ---- sites ------------------------------------------------------------------------------

type boundSite struct {
	fn   *ssa.Function
	in   ssa.Instruction
	kind string
}

// goalsFor builds the proof goals of an index/slice instruction.
func (p *prover) goalsFor(in ssa.Instruction) []ineq {
	var goals []ineq
	seqLen := func(x ssa.Value) lin {
		if pt, ok := x.Type().Underlying().(*types.Pointer); ok {
			if at, ok := pt.Elem().Underlying().(*types.Array); ok {
				return linConst(at.Len())
			}
		}
		if at, ok := x.Type().Underlying().(*types.Array); ok {
			return linConst(at.Len())
		}
		return p.lenOf(x, 0)
	}
	switch x := in.(type) {
	case *ssa.IndexAddr:
		i, l := p.linOf(x.Index, 0), seqLen(x.X)
		goals = append(goals, leq(linConst(0), i, "index >= 0"), lt(i, l, "index < len"))
	case *ssa.Index:
		i, l := p.linOf(x.Index, 0), seqLen(x.X)
		goals = append(goals, leq(linConst(0), i, "index >= 0"), lt(i, l, "index < len"))
	case *ssa.Lookup:
		if _, isMap := x.X.Type().Underlying().(*types.Map); !isMap {
			i, l := p.linOf(x.Index, 0), seqLen(x.X)
			goals = append(goals, leq(linConst(0), i, "index >= 0"), lt(i, l, "index < len"))
		}
	case *ssa.Slice:
		l := seqLen(x.X)
		lo := linConst(0)
		if x.Low != nil {
			lo = p.linOf(x.Low, 0)
			goals = append(goals, leq(linConst(0), lo, "low >= 0"))
		}
		hi := l
		if x.High != nil {
			hi = p.linOf(x.High, 0)
			// slices may extend to cap; only len is tracked: require high <= len
			goals = append(goals, leq(hi, l, "high <= len"))
		}
		goals = append(goals, leq(lo, hi, "low <= high"))
	}
	return goals
}

// proveSite: every goal of the index/slice instruction.
func (be *boundsEngine) proveSite(fn *ssa.Function, in ssa.Instruction, depth int) (bool, string) {
	if os.Getenv("UCFG_SLOWSITES") != "" && depth == 0 {
		t0 := time.Now()
		defer func() {
			if dt := time.Since(t0); dt > 500*time.Millisecond {
				fmt.Fprintf(os.Stderr, "SLOW %s %s %v\n", fn.Name(), be.c.Pos(in.Pos()), dt)
			}
		}()
	}
	if depth == 0 {
		// bound the lemma search per top-level site: a site that needs more is reported as unproved
		// (and is then an exception or a finding), never silently accepted
		be.lemmaBudget = 6000
	}
	p := be.prover(fn, depth)
	goals := p.goalsFor(in)
	if len(goals) == 0 {
		return true, "no bounds obligation"
	}
	how := map[string]bool{}
	var failed []string
	for _, g := range goals {
		ok, h := be.proveGoal(p, g, in.Block(), nil, 0)
		if !ok {
			// store forwarding over a diamond: the operand is re-loaded after a conditional store
			if be.proveBySplit(p, g, in) {
				how["path-wise store forwarding"] = true
				continue
			}
			failed = append(failed, g.why+" ["+g.e.String()+" <= 0]")
			continue
		}
		how[h] = true
	}
	if len(failed) > 0 {
		return false, strings.Join(failed, "; ")
	}
	return true, "implied by " + strings.Join(sortedKeys(how), ", ")
}

// proveGoal: facts at block b (+ hypotheses) |= g, using lemmas about phis and facts at call sites.
func (be *boundsEngine) proveGoal(p *prover, g ineq, b *ssa.BasicBlock, hyps []ineq, depth int) (bool, string) {
	facts := append(p.factsAt(b), hyps...)
	all := append(append([]ineq{}, facts...), p.axioms...)
	if entails(all, g) {
		return true, "dominating comparisons and definitions"
	}
	if f2 := p.neqStrengthen(b, facts, nil); len(f2) > len(facts) {
		facts = f2
		all = append(append([]ineq{}, facts...), p.axioms...)
		if entails(all, g) {
			return true, "dominating comparisons (a disequality sharpened by a known order) and definitions"
		}
	}
	if depth >= 3 {
		return false, ""
	}
	be.goalBlock = b
	lemmas := be.phiLemmas(p, g, facts, depth)
	be.goalBlock = b
	if len(lemmas) > 0 {
		all = append(append(append([]ineq{}, facts...), lemmas...), p.axioms...)
		if entails(all, g) {
			return true, "induction over loop variables"
		}
		withLemmas := append(append([]ineq{}, facts...), lemmas...)
		if f2 := p.neqStrengthen(b, withLemmas, nil); len(f2) > len(withLemmas) {
			all = append(append([]ineq{}, f2...), p.axioms...)
			if entails(all, g) {
				return true, "induction over loop variables (a disequality sharpened by a proved bound)"
			}
		}
	}
	if p.depth < 2 && be.viaCallers(p, p.fn, b, g, append(facts, lemmas...)) {
		return true, "facts that hold at every call site of this unexported function"
	}
	return false, ""
}

func isLoopPhi(phi *ssa.Phi) bool {
	for i := range phi.Edges {
		if phi.Block().Dominates(phi.Block().Preds[i]) {
			return true
		}
	}
	return false
}

func (p *prover) phiOfAtom(atom string) (*ssa.Phi, bool) {
	for _, b := range p.fn.Blocks {
		for _, in := range b.Instrs {
			ph, ok := in.(*ssa.Phi)
			if !ok {
				break
			}
			if atom == "v:"+regID(ph) {
				return ph, false
			}
			if atom == "len:"+regID(ph) {
				return ph, true
			}
		}
	}
	return nil, false
}

// phiLemmas: inductively proved bounds of the phis that occur in the goal (or in facts sharing an
// atom with the goal) against constants and the other atoms involved.
func (be *boundsEngine) phiLemmas(p *prover, g ineq, facts []ineq, depth int) []ineq {
	atoms := map[string]bool{}
	for a := range g.e.t {
		atoms[a] = true
	}
	for _, f := range append(append([]ineq{}, facts...), p.axioms...) {
		share := false
		for a := range f.e.t {
			if _, ok := g.e.t[a]; ok {
				share = true
			}
		}
		if share {
			for a := range f.e.t {
				atoms[a] = true
			}
		}
	}
	var names []string
	for a := range atoms {
		names = append(names, a)
	}
	sort.Strings(names)
	var out []ineq
	for _, a := range names {
		phi, isLen := p.phiOfAtom(a)
		if phi == nil {
			continue
		}
		P := linAtom(a)
		var cands []ineq
		if _, inGoal := g.e.t[a]; inGoal && !isLoopPhi(phi) {
			// a join of alternatives: the goal itself, alternative by alternative (a = f.a or a longer copy of it)
			cands = append(cands, ineq{newLin().comb(g.e, big.NewRat(1, 1)), "lemma: the goal holds for every alternative of " + a})
		}
		for _, k := range []int64{0, 1} {
			cands = append(cands, leq(linConst(k), P, fmt.Sprintf("lemma %s >= %d", a, k)))
		}
		if !isLen {
			for _, t := range names {
				if t == a {
					continue
				}
				T := linAtom(t)
				cands = append(cands, leq(P, T, "lemma "+a+" <= "+t), leq(P, T.sub(linConst(1)), "lemma "+a+" < "+t), leq(T, P, "lemma "+a+" >= "+t))
			}
		}
		if len(cands) > 16 {
			cands = cands[:16]
		}
		for _, cand := range cands {
			if be.inductLemma(p, phi, a, isLen, cand, depth) {
				out = append(out, cand)
			}
		}
	}
	return out
}

// inductLemma proves `lemma` (which mentions the phi's atom) on every incoming edge, assuming it for
// the edges whose value is computed from the phi itself; at least one edge must be a base case.
func (be *boundsEngine) inductLemma(p *prover, phi *ssa.Phi, atom string, isLen bool, lemma ineq, depth int) bool {
	be.lemmaBudget--
	if be.lemmaBudget < 0 {
		return false
	}
	coef := lemma.e.t[atom]
	if coef == nil {
		return false
	}
	base := false
	goalBlock := be.goalBlock
	for i, e := range phi.Edges {
		pred := phi.Block().Preds[i]
		if goalBlock != nil && phiEdgeInfeasible(phi, i, goalBlock) {
			continue // the tests that hold where the goal is needed exclude this way into the join
		}
		var sub lin
		if isLen {
			sub = p.lenOf(e, 0)
		} else {
			sub = p.linOf(e, 0)
		}
		ge := newLin().comb(lemma.e, big.NewRat(1, 1))
		delete(ge.t, atom)
		ge = ge.add(sub.scale(coef))
		var hyps []ineq
		if ifi, ok := lastInstr(pred).(*ssa.If); ok && pred.Succs[0] != pred.Succs[1] {
			hyps = append(hyps, p.condFacts(ifi.Cond, pred.Succs[0] == phi.Block())...)
		}
		dep := mentions(e, phi, 0)
		if dep {
			hyps = append(hyps, lemma)
		} else {
			base = true
		}
		ok, _ := be.proveGoal(p, ineq{ge, lemma.why}, pred, hyps, depth+1)
		be.goalBlock = goalBlock
		if !ok {
			return false
		}
	}
	return base
}

// proveBySplit: the goal mentions a value re-loaded from storage after a conditional store. Every
// acyclic path from the function entry to the load is walked; the value of the load on that path is
// the last value stored to exactly that address (or the first value loaded from it when nothing is
// stored), and the goal is proved per path under the path's branch conditions. Blocks inside loops
// must not write the storage.
func (be *boundsEngine) proveBySplit(p *prover, g ineq, at ssa.Instruction) bool {
	// find a load atom in the goal
	var load *ssa.UnOp
	var atom string
	var isLen bool
	for a := range g.e.t {
		Instrs(p.fn, false, func(in ssa.Instruction) {
			u, ok := in.(*ssa.UnOp)
			if !ok || u.Op != token.MUL {
				return
			}
			if _, ok := memPath(u); !ok {
				return
			}
			if a == "len:"+regID(u) {
				load, atom, isLen = u, a, true
			} else if a == "v:"+regID(u) {
				load, atom, isLen = u, a, false
			}
		})
	}
	if load == nil {
		return false
	}
	path, _ := memPath(load)
	addr, okA := AccessPath(load.X)
	if !okA {
		return false
	}
	// no possible write inside loops of the function
	for _, b := range p.fn.Blocks {
		if loopOf(p.fn, b) == nil {
			continue
		}
		for _, in := range b.Instrs {
			if p.mayWrite(in, path, load) {
				return false
			}
		}
	}
	paths, ok := PathsTo(p.fn, load.Block())
	if !ok || len(paths) == 0 {
		return false
	}
	coef := g.e.t[atom]
	for _, cp := range paths {
		var def ssa.Value   // last stored value
		var first ssa.Value // first value loaded before any store
		unknown := false
	scan:
		for _, b := range cp.Blocks {
			for _, in := range b.Instrs {
				if in == ssa.Instruction(load) {
					break scan
				}
				if st, ok := in.(*ssa.Store); ok {
					if a2, ok := AccessPath(st.Addr); ok && a2 == addr {
						def = st.Val
						continue
					}
				}
				if p.mayWrite(in, path, load) {
					unknown = true
					def = nil
					continue
				}
				if u, ok := in.(*ssa.UnOp); ok && u.Op == token.MUL && def == nil && !unknown && first == nil {
					if pl, ok := memPath(u); ok && pl == path {
						first = u
					}
				}
			}
		}
		if unknown && def == nil {
			return false
		}
		val := def
		if val == nil {
			val = first
		}
		if val == nil {
			return false
		}
		// what was stored is, on this path, one alternative of a join (a result variable of an inlined helper)
		val = resolvePhiOnPath(val, cp.Blocks)
		var sub lin
		if isLen {
			sub = p.lenOf(val, 0)
		} else {
			sub = p.linOf(val, 0)
		}
		ge := newLin().comb(g.e, big.NewRat(1, 1))
		delete(ge.t, atom)
		ge = ge.add(sub.scale(coef))
		var facts []ineq
		for _, pc := range cp.Conds {
			facts = append(facts, p.condFacts(pc.V, pc.Truth)...)
		}
		// lemmas and call-site facts for what remains
		okp, _ := be.proveGoalWith(p, ineq{ge, g.why}, facts)
		if !okp {
			return false
		}
	}
	return true
}

// proveGoalWith: like proveGoal but with an explicit fact set instead of the facts at a block.
func (be *boundsEngine) proveGoalWith(p *prover, g ineq, facts []ineq) (bool, string) {
	all := append(append([]ineq{}, facts...), p.axioms...)
	if entails(all, g) {
		return true, ""
	}
	be.goalBlock = nil
	lemmas := be.phiLemmas(p, g, facts, 1)
	all = append(append(append([]ineq{}, facts...), lemmas...), p.axioms...)
	if entails(all, g) {
		return true, ""
	}
	if p.depth < 2 && len(p.fn.Blocks) > 0 && be.viaCallers(p, p.fn, p.fn.Blocks[0], g, append(facts, lemmas...)) {
		return true, ""
	}
	return false, ""
}

func mentions(v ssa.Value, phi *ssa.Phi, d int) bool {
	if v == ssa.Value(phi) {
		return true
	}
	if d > 6 {
		return true
	}
	switch x := v.(type) {
	case *ssa.BinOp:
		return mentions(x.X, phi, d+1) || mentions(x.Y, phi, d+1)
	case *ssa.Slice:
		return mentions(x.X, phi, d+1)
	case *ssa.Convert:
		return mentions(x.X, phi, d+1)
	case *ssa.Call:
		for _, a := range x.Call.Args {
			if mentions(a, phi, d+1) {
				return true
			}
		}
	}
	return false
}

// viaCallers: the part of the goal that the local facts leave open mentions only values that exist
// at function entry (parameters, or loads of storage reachable from parameters that nothing writes
// before the use): prove the translated goal at every call site. Local facts about other atoms are
// first eliminated by strengthening: the goal is reduced to entry-stable atoms only when all of its
// atoms are entry-stable.
func (be *boundsEngine) viaCallers(p *prover, fn *ssa.Function, at *ssa.BasicBlock, g ineq, known []ineq) bool {
	depth := p.depth
	if fn.Parent() != nil {
		return false
	}
	if o := fn.Object(); o == nil || o.Exported() {
		return false
	}
	node := be.c.CG().Nodes[fn]
	if node == nil || len(node.In) == 0 {
		return false
	}
	// translate each atom
	type atomSrc struct {
		param *ssa.Parameter // int parameter, or base parameter of a memory path
		path  string         // remainder of the path after the parameter ("" for the parameter itself)
		isLen bool
	}
	srcs := map[string]atomSrc{}
	for atom := range g.e.t {
		isLen := strings.HasPrefix(atom, "len:")
		var val ssa.Value
		// find the SSA value behind the atom
		Instrs(fn, false, func(x ssa.Instruction) {
			if v, ok := x.(ssa.Value); ok && (atom == "v:"+regID(v) || atom == "len:"+regID(v)) {
				val = v
			}
		})
		for _, prm := range fn.Params {
			if atom == "v:"+regID(prm) || atom == "len:"+regID(prm) {
				val = prm
			}
		}
		if val == nil {
			return false
		}
		switch y := val.(type) {
		case *ssa.Parameter:
			srcs[atom] = atomSrc{param: y, isLen: isLen}
		case *ssa.UnOp:
			path, ok := memPath(y)
			if !ok || strings.HasPrefix(path, "cell:") {
				return false
			}
			// path must start at a parameter and be unwritten from entry to the load
			var base *ssa.Parameter
			for _, prm := range fn.Params {
				if strings.HasPrefix(path, prm.Name()+".") {
					base = prm
				}
			}
			if base == nil {
				return false
			}
			first := fn.Blocks[0].Instrs[0]
			if first != ssa.Instruction(y) && !p.cleanBetween(first, y, path, y) {
				return false
			}
			if p.mayWrite(first, path, y) && first != ssa.Instruction(y) {
				return false
			}
			srcs[atom] = atomSrc{param: base, path: path[len(base.Name()):], isLen: isLen}
		default:
			return false
		}
	}
	for _, e := range node.In {
		if e.Site == nil || !be.c.InRepo(e.Caller.Func) {
			return false
		}
		if e.Site.Common().StaticCallee() != fn {
			return false
		}
		caller := e.Caller.Func
		cp := be.prover(caller, depth+1)
		// build the translated goal
		tg := newLin()
		tg.c.Set(g.e.c)
		okT := true
		for atom, coef := range g.e.t {
			s := srcs[atom]
			idx := -1
			for i, prm := range fn.Params {
				if prm == s.param {
					idx = i
				}
			}
			if idx < 0 || idx >= len(e.Site.Common().Args) {
				okT = false
				break
			}
			arg := e.Site.Common().Args[idx]
			var term lin
			if s.path == "" {
				if s.isLen {
					term = cp.lenOf(arg, 0)
				} else {
					term = cp.linOf(arg, 0)
				}
			} else {
				// the latest load of <arg>.<path> in the caller that dominates the call with no write in between
				ap, ok := AccessPath(arg)
				if !ok {
					okT = false
					break
				}
				want := strings.TrimPrefix(ap, "&") + s.path
				var best *ssa.UnOp
				Instrs(caller, false, func(x ssa.Instruction) {
					l, ok := x.(*ssa.UnOp)
					if !ok || l.Op != token.MUL {
						return
					}
					pl, ok := memPath(l)
					if !ok || pl != want || !InstrDominates(l, e.Site) {
						return
					}
					if !cp.cleanBetween(l, e.Site, pl, l) {
						return
					}
					best = l
				})
				if best == nil {
					okT = false
					break
				}
				if s.isLen {
					term = cp.lenOf(best, 0)
				} else {
					term = cp.linOf(best, 0)
				}
			}
			tg = tg.add(term.scale(coef))
		}
		if !okT {
			return false
		}
		goal := ineq{tg, g.why}
		facts := cp.factsAt(e.Site.Block())
		all := append(append([]ineq{}, facts...), cp.axioms...)
		if entails(all, goal) {
			continue
		}
		// byte test on the first element implies non-emptiness: x[0] == c dominating the call means
		// the index succeeded; recognised through a dominating Index/Lookup with constant index
		if be.impliedByDominatingIndex(cp, e.Site, goal) {
			continue
		}
		if okc, _ := be.proveGoal(cp, goal, e.Site.Block(), nil, 1); okc {
			continue
		}
		return false
	}
	return true
}

// impliedByDominatingIndex: an index operation x[k] (k constant) that dominates the site has already
// succeeded, so len(x) >= k+1 there (provided x is the same immutable value).
func (be *boundsEngine) impliedByDominatingIndex(p *prover, at ssa.Instruction, g ineq) bool {
	var extra []ineq
	Instrs(p.fn, false, func(in ssa.Instruction) {
		var x, idx ssa.Value
		switch y := in.(type) {
		case *ssa.Index:
			x, idx = y.X, y.Index
		case *ssa.Lookup:
			if _, isMap := y.X.Type().Underlying().(*types.Map); !isMap {
				x, idx = y.X, y.Index
			}
		case *ssa.IndexAddr:
			x, idx = y.X, y.Index
		}
		if x == nil || !InstrDominates(in, at) {
			return
		}
		if k, ok := ConstInt(idx); ok {
			extra = append(extra, leq(linConst(k+1), p.lenOf(x, 0), "a dominating index operation succeeded"))
		}
	})
	facts := append(p.factsAt(at.Block()), extra...)
	all := append(append([]ineq{}, facts...), p.axioms...)
	return entails(all, g)
}
